package ctreeprop

import (
	"fmt"
	"sort"
	"strings"

	"github.com/openconfig/gnmi/ctree"
)

// Op is one step of a sequential scenario (plain data, JSON-serialisable).
type Op struct {
	// Kind: add | del | delcond | walkdel | handle | hupdate | qstop | wstop | wsstop
	// (qstop/wstop/wsstop: Query(Path) / Walk / WalkSorted with a visitor that
	// returns an error from its Val-th invocation, Val>=1)
	Kind string   `json:"kind"`
	Path []string `json:"path"`
	Val  int      `json:"val,omitempty"`
	// H indexes the scenario's handle table for handle/hupdate.
	H int `json:"h,omitempty"`
	// Pick>0: the path is relative to the Pick-th stored leaf (sorted order,
	// modulo the number of leaves) with Cut trailing elements removed and
	// Path appended. Keeps state-dependent choices inside the scenario data.
	Pick int `json:"pick,omitempty"`
	Cut  int `json:"cut,omitempty"`
}

func (m *Model) resolve(op Op) []string {
	if op.Pick <= 0 || len(m.leaves) == 0 {
		return op.Path
	}
	ps := m.SortedPaths()
	base := ps[(op.Pick-1)%len(ps)]
	cut := op.Cut
	if cut > len(base) {
		cut = len(base)
	}
	out := append([]string{}, base[:len(base)-cut]...)
	return append(out, op.Path...)
}

// Scenario is a sequence of operations applied to an empty tree.
type Scenario struct {
	Ops []Op `json:"ops"`
}

type seqStats struct {
	failedAdd, globDelRemoved, readdAfterPrune, deleteOnEmpty, handleStale, condDelete, deleteThroughLeaf bool
	visitStopped, writeAfterStop, visitPanicked, condConsulted                                            bool
}

func (s seqStats) nontrivial() bool {
	return s.failedAdd || s.readdAfterPrune
}

func (s seqStats) labelsExtra() []string {
	var l []string
	if s.visitStopped {
		l = append(l, "visit-stopped-by-visitor-error")
	}
	if s.writeAfterStop {
		l = append(l, "structural-write-after-a-stopped-visit")
	}
	if s.visitPanicked {
		l = append(l, "visit-ended-by-a-panicking-visitor")
	}
	if s.condConsulted {
		l = append(l, "delete-condition-consulted-once-per-matching-leaf-and-for-no-other-value(checked)")
	}
	return l
}

func (s seqStats) labels() []string {
	var l []string
	add := func(b bool, n string) {
		if b {
			l = append(l, n)
		}
	}
	add(s.failedAdd, "failed-add")
	add(s.globDelRemoved, "glob-delete-removed-leaf")
	add(s.readdAfterPrune, "re-add-under-pruned-branch")
	add(s.deleteOnEmpty, "delete-on-empty-tree")
	add(s.handleStale, "update-through-stale-handle")
	add(s.condDelete, "conditional-delete")
	add(s.deleteThroughLeaf, "delete-through-leaf")
	return l
}

func even(v int) bool { return v%2 == 0 }

func hasGlob(p []string) bool {
	for _, e := range p {
		if e == "*" {
			return true
		}
	}
	return false
}

type handle struct {
	l   *ctree.Leaf
	k   string
	gen int
}

// runSeq executes sc on a fresh tree and a fresh model. observeEvery: compare
// the full observation set after every op (random part) or only at the end
// (exhaustive part, where every prefix is itself an enumerated sequence).
func runSeq(sc *Scenario, paths, patterns [][]string, observeEvery bool) (st seqStats, err error) {
	defer func() {
		if r := recover(); r != nil {
			err = fmt.Errorf("panic: %v", r)
		}
	}()
	t := &ctree.Tree{}
	m := NewModel()
	handles := map[int]handle{}
	pruned := map[string]bool{} // parents emptied by a delete
	stopped := false            // some visit was stopped by its visitor
	for i, op := range sc.Ops {
		op.Path = m.resolve(op)
		switch op.Kind {
		case "add":
			want := m.AddOK(op.Path)
			if want && len(op.Path) > 0 && pruned[key(op.Path[:len(op.Path)-1])] {
				st.readdAfterPrune = true
			}
			gerr := t.Add(op.Path, op.Val)
			if want != (gerr == nil) {
				return st, fmt.Errorf("op %d Add(%q,%d): error=%v, model says success=%v", i, op.Path, op.Val, gerr, want)
			}
			m.Add(op.Path, op.Val)
			if !want {
				st.failedAdd = true
			}
		case "del", "delcond", "walkdel":
			var cond func(int) bool
			if op.Kind != "del" {
				cond = even
				st.condDelete = true
			}
			if len(m.leaves) == 0 {
				st.deleteOnEmpty = true
			}
			for k := range m.leaves {
				if isProperPrefix(unkey(k), op.Path) {
					st.deleteThroughLeaf = true
				}
			}
			before := map[string]bool{}
			for k := range m.leaves {
				before[k] = true
			}
			// values of the leaves the path matches, before the delete: the condition is a question about those
			// (how many matching leaves hold each value: one call of a delete puts every matching leaf to the
			// condition once - a caller's condition may count, spend a budget, or note what it let go)
			matchVals := map[int]int{}
			for _, k := range m.Query(op.Path) {
				matchVals[m.leaves[k]]++
			}
			want, wantVals := m.Delete(op.Path, cond)
			var strayVal interface{}
			strayed := false
			consulted := map[int]int{}
			icond := func(v interface{}) bool {
				if iv, ok := v.(int); !ok || matchVals[iv] == 0 {
					if !strayed {
						strayed, strayVal = true, v
					}
				} else {
					consulted[iv]++
				}
				return cond == nil || cond(v.(int))
			}
			var got []string
			switch op.Kind {
			case "del":
				ret := t.Delete(op.Path)
				for _, p := range ret {
					got = append(got, key(p))
				}
				if e := appendSafe(ret); e != nil {
					return st, fmt.Errorf("op %d Delete(%q): %v", i, op.Path, e)
				}
			case "delcond":
				ret := t.DeleteConditional(op.Path, icond)
				for _, p := range ret {
					got = append(got, key(p))
				}
				if e := appendSafe(ret); e != nil {
					return st, fmt.Errorf("op %d DeleteConditional(%q): %v", i, op.Path, e)
				}
			case "walkdel":
				// WalkDeleted reports values only; compare as a multiset of values.
				var vals []int
				t.WalkDeleted(op.Path, icond, func(v interface{}) { vals = append(vals, v.(int)) })
				sort.Ints(vals)
				wv := append([]int{}, wantVals...)
				sort.Ints(wv)
				if fmt.Sprint(vals) != fmt.Sprint(wv) {
					return st, fmt.Errorf("op %d WalkDeleted(%q,even) visited values %v, model removed %v (values %v)", i, op.Path, vals, pathsOf(want), wv)
				}
			}
			if op.Kind != "walkdel" {
				sort.Strings(got)
				if strings.Join(got, "|") != strings.Join(want, "|") || len(got) != len(want) {
					return st, fmt.Errorf("op %d %s(%q) returned %v, a query for the same path reports %v", i, op.Kind, op.Path, pathsOf(got), pathsOf(want))
				}
			}
			if op.Kind != "del" {
				st.condConsulted = true
				if strayed {
					return st, fmt.Errorf("op %d %s(%q): the condition was consulted for the value %v, which no leaf matching the path holds (matching values: %v)", i, op.Kind, op.Path, strayVal, matchVals)
				}
				for _, v := range bagKeys(matchVals, consulted) {
					if consulted[v] != matchVals[v] {
						return st, fmt.Errorf("op %d %s(%q): the condition was consulted %d times for the value %d, which %d of the leaves matching the path hold (one call puts every matching leaf to the condition once; matching values %s, consulted for %s)", i, op.Kind, op.Path, consulted[v], v, matchVals[v], bagString(matchVals), bagString(consulted))
					}
				}
			}
			if len(want) > 0 && hasGlob(op.Path) {
				st.globDelRemoved = true
			}
			for _, k := range want {
				p := unkey(k)
				for j := len(p) - 1; j >= 0; j-- {
					if !m.IsInterior(p[:j]) {
						pruned[key(p[:j])] = true
					}
				}
			}
		case "handle":
			k := key(op.Path)
			if g, ok := m.gen[k]; ok && len(op.Path) > 0 {
				l := t.GetLeaf(op.Path)
				if l == nil {
					return st, fmt.Errorf("op %d GetLeaf(%q)=nil for a stored leaf", i, op.Path)
				}
				handles[op.H] = handle{l, k, g}
			}
		case "hupdate":
			h, ok := handles[op.H]
			if !ok {
				break
			}
			h.l.Update(op.Val)
			if g, ok := m.gen[h.k]; ok && g == h.gen {
				m.leaves[h.k] = op.Val
			} else {
				st.handleStale = true
			}
			if h.l.Value() != op.Val {
				return st, fmt.Errorf("op %d handle.Update(%d) then Value()=%v", i, op.Val, h.l.Value())
			}
		case "qpanic", "wpanic", "wspanic":
			// a visitor that panics at its Val-th invocation (the caller recovers, as a server recovers a
			// handler's panic): the panic reaches the caller and the tree stays fully usable
			stopAt := op.Val
			if stopAt < 1 {
				stopAt = 1
			}
			calls := 0
			visitor := func(path []string, _ *ctree.Leaf, _ interface{}) error {
				calls++
				if calls >= stopAt {
					panic("visitor panics")
				}
				return nil
			}
			matches := len(m.leaves)
			panicked := func() (p bool) {
				defer func() {
					if r := recover(); r != nil {
						if r != "visitor panics" {
							panic(r)
						}
						p = true
					}
				}()
				switch op.Kind {
				case "qpanic":
					matches = len(m.Query(op.Path))
					t.Query(op.Path, visitor)
				case "wpanic":
					t.Walk(visitor)
				case "wspanic":
					t.WalkSorted(visitor)
				}
				return false
			}()
			if panicked != (matches >= stopAt) {
				return st, fmt.Errorf("op %d %s(%q) with a visitor panicking at invocation %d (%d leaves match): panic reached the caller=%v", i, op.Kind, op.Path, stopAt, matches, panicked)
			}
			if panicked {
				st.visitStopped = true
				st.visitPanicked = true
				stopped = true
			}
		case "dcpanic", "wdpanic":
			// a delete whose condition panics the first time it is consulted (the caller recovers): nothing
			// can have been removed before the first consultation, so the tree holds what it held, the panic
			// reaches the caller iff a leaf matches, and the tree stays fully usable (no lock is left behind)
			matches := len(m.Query(op.Path))
			panicked := func() (p bool) {
				defer func() {
					if r := recover(); r != nil {
						if r != "condition panics" {
							panic(r)
						}
						p = true
					}
				}()
				cond := func(interface{}) bool { panic("condition panics") }
				if op.Kind == "dcpanic" {
					t.DeleteConditional(op.Path, cond)
				} else {
					t.WalkDeleted(op.Path, cond, func(interface{}) {})
				}
				return false
			}()
			if panicked != (matches >= 1) {
				return st, fmt.Errorf("op %d %s(%q) with a condition that panics when first consulted (%d leaves match): panic reached the caller=%v", i, op.Kind, op.Path, matches, panicked)
			}
			if panicked {
				st.visitStopped = true
				st.visitPanicked = true
				stopped = true
			}
		case "qstop", "wstop", "wsstop":
			// a visitor that stops the visit: the call returns the visitor's error, has made
			// exactly min(Val, matches) invocations, and leaves the tree fully usable
			stopAt := op.Val
			if stopAt < 1 {
				stopAt = 1
			}
			calls := 0
			errStop := fmt.Errorf("stop")
			visitor := func(path []string, _ *ctree.Leaf, _ interface{}) error {
				calls++
				if calls >= stopAt {
					return errStop
				}
				return nil
			}
			var gerr error
			matches := 0
			switch op.Kind {
			case "qstop":
				gerr = t.Query(op.Path, visitor)
				matches = len(m.Query(op.Path))
			case "wstop":
				gerr = t.Walk(visitor)
				matches = len(m.leaves)
			case "wsstop":
				gerr = t.WalkSorted(visitor)
				matches = len(m.leaves)
			}
			wantCalls := stopAt
			if matches < stopAt {
				wantCalls = matches
			}
			if calls != wantCalls {
				return st, fmt.Errorf("op %d %s(%q) with a visitor failing at invocation %d made %d invocations, %d leaves match", i, op.Kind, op.Path, stopAt, calls, matches)
			}
			if (matches >= stopAt) != (gerr == errStop) || (matches < stopAt && gerr != nil) {
				return st, fmt.Errorf("op %d %s(%q) with a visitor failing at invocation %d (%d leaves match) returned %v", i, op.Kind, op.Path, stopAt, matches, gerr)
			}
			if gerr != nil {
				st.visitStopped = true
				stopped = true
			}
		default:
			return st, fmt.Errorf("unknown op %q", op.Kind)
		}
		if stopped && (op.Kind == "add" || op.Kind == "del" || op.Kind == "delcond" || op.Kind == "walkdel") {
			st.writeAfterStop = true
		}
		if observeEvery || i == len(sc.Ops)-1 {
			if oerr := m.Observe(t, paths, patterns); oerr != nil {
				return st, fmt.Errorf("after op %d (%s %q): %v", i, op.Kind, op.Path, oerr)
			}
		}
	}
	return st, nil
}

// appendSafe checks that the path slices a call returned are independent values: appending to one
// of them (as callers do to build longer paths) leaves every other one as it was.
func appendSafe(ret [][]string) error {
	before := make([]string, len(ret))
	for i, p := range ret {
		before[i] = key(p)
	}
	for i := range ret {
		_ = append(ret[i], "appended-by-the-caller")
		for j := range ret {
			if key(ret[j]) != before[j] {
				return fmt.Errorf("appending to returned path %d (%q) changed returned path %d from %q to %q: the returned slices share storage", i, unkey(before[i]), j, unkey(before[j]), ret[j])
			}
		}
	}
	return nil
}

func pathsOf(keys []string) [][]string {
	out := [][]string{}
	for _, k := range keys {
		out = append(out, unkey(k))
	}
	return out
}

// universe builders -----------------------------------------------------------

// allPaths returns every path of length 0..depth over alphabet.
func allPaths(alphabet []string, depth int) [][]string {
	out := [][]string{{}}
	level := [][]string{{}}
	for d := 0; d < depth; d++ {
		var next [][]string
		for _, p := range level {
			for _, a := range alphabet {
				q := append(append([]string{}, p...), a)
				next = append(next, q)
			}
		}
		out = append(out, next...)
		level = next
	}
	return out
}
