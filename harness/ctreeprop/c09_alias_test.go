package ctreeprop

import (
	"fmt"
	"sort"
	"strings"
	"testing"

	"github.com/openconfig/gnmi/ctree"
	"pgregory.net/rapid"
	"verif/harness/internal/vstat"
)

// Part alias of C09: who owns the slices (and maps) that cross the API boundary.
//
// The property speaks of what the calls REPORT and RETURN. A report that is right at the instant of the
// return but is a window onto memory somebody else goes on writing to is not a report of "exactly the
// leaves removed": it changes afterwards. The caller of this part behaves like the callers the repository
// has (one path buffer re-used for every call, results accumulated over a loop, returned paths extended or
// rewritten in place) and the oracle is the map model plus three ownership clauses, each judged for every
// method that takes or hands out a path (Add, Get, GetLeaf, GetLeafValue, Query, Walk, WalkSorted, Delete,
// DeleteConditional, WalkDeleted, Children, visitor arguments):
//
//   (a) a call never writes into the slice it was given - elements, the part of the backing array in front
//       of the argument, spare capacity behind it;
//   (b) every path slice obtained from the tree (returned by Delete/DeleteConditional, handed to a
//       Walk/WalkSorted visitor, handed to the last invocation of a Query visitor) reads the same for the
//       rest of the sequence, whatever the caller does to the slices it passed in, to its other results,
//       and whatever later calls do;
//   (c) the tree is unaffected (full observation set against the model after every op) by the caller
//       overwriting the slices it passed, or editing in place / appending to the slices and maps it received.
//
// Query visitors: on the unchanged tree the invocations of ONE query may share a backing array (append to a
// common prefix), so only the slice of the last invocation is demanded to be a value; all invocations are
// compared with the model at the instant of the invocation (copies).

type aliasOp struct {
	// Kind: add | get | getleaf | getval | query | walk | wsorted | del | delcond | walkdel | children
	Kind string   `json:"kind"`
	Path []string `json:"path"`
	Val  int      `json:"val,omitempty"`
	Pick int      `json:"pick,omitempty"` // as Op.Pick / Op.Cut
	Cut  int      `json:"cut,omitempty"`
	// Buf 0: the argument is a fresh slice with Spare elements of spare capacity; Buf k>0: the argument is
	// built in the caller's k-th re-usable buffer, starting at offset Off of its backing array.
	Buf   int `json:"buf,omitempty"`
	Off   int `json:"off,omitempty"`
	Spare int `json:"spare,omitempty"`
	// After the call: 0 the argument is left alone (until the buffer is used again); 1 every slot of its
	// backing array is overwritten with junk; 2 ... with other valid path elements (a<->b).
	Arg int `json:"arg,omitempty"`
	// What the caller does with the path slices it got: 0 keeps them; 1 rewrites them in place; 2 appends to
	// them; 3 rewrites them in place inside the visitor (visits) / clears the outer slice too (deletes).
	Ret int `json:"ret,omitempty"`
}

type aliasScenario struct {
	Ops []aliasOp `json:"ops"`
}

var (
	aliasAlphabet = []string{"a", "b"}
	aliasObsPaths = append(allPaths(aliasAlphabet, 3), []string{"a", "a", "a", "a"}, []string{"a", "b", "a", "b", "a"}, []string{"b", "b", "b", "b", "b"})
	aliasPatterns = pat3
)

const aliasBufCap = 10

func genAliasPath(alpha []string, maxLen int) *rapid.Generator[[]string] {
	return rapid.Custom(func(t *rapid.T) []string {
		// short paths first: leaves right under the root and one-element arguments are a class of their own
		n := rapid.SampledFrom([]int{1, 1, 2, 0, 2, 3, 4, 3, 4, 5}).Draw(t, "len")
		if n > maxLen {
			n = maxLen
		}
		p := make([]string, n)
		for i := range p {
			p[i] = rapid.SampledFrom(alpha).Draw(t, "e")
		}
		return p
	})
}

func genAliasOp(t *rapid.T) aliasOp {
	glob := []string{"a", "b", "*"}
	op := aliasOp{Kind: rapid.SampledFrom([]string{"add", "add", "add", "del", "del", "delcond", "add", "query", "walk", "wsorted",
		"get", "getleaf", "getval", "walkdel", "children", "add", "del", "delcond", "children"}).Draw(t, "kind")}
	if rapid.IntRange(0, 2).Draw(t, "relative") == 0 || op.Kind == "children" {
		op.Pick = rapid.IntRange(1, 6).Draw(t, "pick")
		op.Cut = rapid.SampledFrom([]int{0, 1, 1, 2}).Draw(t, "cut")
	}
	switch op.Kind {
	case "add":
		op.Path = genAliasPath(aliasAlphabet, 5).Draw(t, "path")
		op.Val = rapid.IntRange(1, 1000).Draw(t, "val")
	case "get", "getleaf", "getval", "children":
		op.Path = genAliasPath(aliasAlphabet, 4).Draw(t, "path")
	case "walk", "wsorted":
	default:
		op.Path = genAliasPath(glob, 5).Draw(t, "pat")
	}
	if op.Pick > 0 && rapid.IntRange(0, 1).Draw(t, "exact") == 0 {
		op.Path = nil // exactly the stored leaf (or its ancestor)
	}
	op.Buf = rapid.SampledFrom([]int{1, 1, 0, 2, 1, 3}).Draw(t, "buf")
	if op.Buf == 0 {
		op.Spare = rapid.IntRange(0, 3).Draw(t, "spare")
	} else {
		op.Off = rapid.SampledFrom([]int{0, 0, 1, 2}).Draw(t, "off")
	}
	op.Arg = rapid.SampledFrom([]int{2, 1, 0, 2}).Draw(t, "arg-after")
	op.Ret = rapid.IntRange(0, 3).Draw(t, "ret")
	return op
}

func genAliasScenario(t *rapid.T) *aliasScenario {
	// nested so that sequences are long on average and still shrink element by element
	var ops []aliasOp
	for _, chunk := range rapid.SliceOfN(rapid.SliceOfN(rapid.Custom(genAliasOp), 1, 8), 1, 5).Draw(t, "ops") {
		ops = append(ops, chunk...)
	}
	return &aliasScenario{Ops: ops}
}

type aliasStats struct {
	bufReused, offsetOrSpare, argOverwritten, retEdited, retAppended, visitEdited, childrenEdited bool
	keptAcross, oneElemDelete, deepQuery, failedAdd                                             bool
	kept                                                                                        int
}

func (s aliasStats) nontrivial() bool {
	return s.keptAcross && (s.bufReused || s.argOverwritten)
}

func (s aliasStats) labels() []string {
	var l []string
	add := func(b bool, n string) {
		if b {
			l = append(l, n)
		}
	}
	add(s.bufReused, "alias:argument-buffer-reused-for-a-later-call")
	add(s.offsetOrSpare, "alias:argument-inside-a-larger-backing-array")
	add(s.argOverwritten, "alias:argument-overwritten-after-the-call")
	add(s.retEdited, "alias:returned-path-rewritten-in-place")
	add(s.retAppended, "alias:returned-path-appended-to")
	add(s.visitEdited, "alias:visitor-path-rewritten-inside-the-visit")
	add(s.childrenEdited, "alias:children-map-edited")
	add(s.keptAcross, "alias:result-kept-across-later-calls")
	add(s.oneElemDelete, "alias:delete-returned-a-one-element-path")
	add(s.deepQuery, "alias:query-reported-leaf-at-depth>=4")
	add(s.failedAdd, "failed-add")
	add(s.kept >= 10, "alias:kept-slices>=10")
	return l
}

// keptSlice is a path slice the caller got from the tree, with what it read when the caller got it.
type keptSlice struct {
	origin string
	s      []string
	want   string
	op     int
}

type aliasCaller struct {
	bufs [4][]string // full backing arrays of the re-usable buffers (index 0 unused)
	used [4]bool
	kept []keptSlice
	st   *aliasStats
}

func newAliasCaller(st *aliasStats) *aliasCaller {
	c := &aliasCaller{st: st}
	for k := 1; k < len(c.bufs); k++ {
		c.bufs[k] = make([]string, aliasBufCap)
		for i := range c.bufs[k] {
			c.bufs[k][i] = fmt.Sprintf("stale-%d-%d", k, i)
		}
	}
	return c
}

// arg builds the argument for op and returns it with its whole backing array.
func (c *aliasCaller) arg(op aliasOp, path []string) (arg, backing []string) {
	if op.Buf <= 0 || op.Buf >= len(c.bufs) {
		if len(path) == 0 && op.Spare == 0 {
			return nil, nil
		}
		backing = make([]string, len(path)+op.Spare)
		copy(backing, path)
		for i := len(path); i < len(backing); i++ {
			backing[i] = fmt.Sprintf("spare-%d", i)
		}
		if op.Spare > 0 {
			c.st.offsetOrSpare = true
		}
		return backing[:len(path)], backing
	}
	backing = c.bufs[op.Buf]
	off := op.Off
	if off+len(path) > len(backing) {
		off = 0
	}
	if c.used[op.Buf] {
		c.st.bufReused = true
	}
	c.used[op.Buf] = true
	c.st.offsetOrSpare = true
	arg = append(backing[off:off], path...)
	return arg, backing
}

func (c *aliasCaller) keep(origin string, op int, s []string) int {
	c.kept = append(c.kept, keptSlice{origin: origin, s: s, want: key(s), op: op})
	return len(c.kept) - 1
}

// checkKept: clause (b).
func (c *aliasCaller) checkKept(when string, now int) error {
	var bad *keptSlice // visits run in map order: name the first discrepancy in (op, path) order
	for i := range c.kept {
		k := &c.kept[i]
		if k.op < now {
			c.st.keptAcross = true
		}
		if key(k.s) != k.want && (bad == nil || k.op < bad.op || k.op == bad.op && k.want < bad.want) {
			bad = k
		}
	}
	if len(c.kept) > c.st.kept {
		c.st.kept = len(c.kept)
	}
	if bad != nil {
		return fmt.Errorf("%s: the path slice from %s read %q when the caller got it and reads %q now: it is not a value of its own", when, bad.origin, unkey(bad.want), bad.s)
	}
	return nil
}

func flip(e string) string {
	switch e {
	case "a":
		return "b"
	case "b":
		return "a"
	}
	return "a"
}

// rewrite edits s in place (how: 1 junk, 2 other valid elements) and returns nothing; len stays.
func rewrite(s []string, how int, tag string) {
	for i := range s {
		if how == 2 {
			s[i] = flip(s[i])
		} else {
			s[i] = fmt.Sprintf("%s-%d", tag, i)
		}
	}
}

func sameBacking(a, b []string) int {
	for i := range a {
		if a[i] != b[i] {
			return i
		}
	}
	return -1
}

func runAlias(sc *aliasScenario) (st aliasStats, err error) {
	defer func() {
		if r := recover(); r != nil {
			err = fmt.Errorf("panic: %v", r)
		}
	}()
	t := &ctree.Tree{}
	m := NewModel()
	c := newAliasCaller(&st)
	for i, op := range sc.Ops {
		path := m.resolve(Op{Path: op.Path, Pick: op.Pick, Cut: op.Cut})
		path = append([]string{}, path...) // the scenario's own data is never handed to the tree
		arg, backing := c.arg(op, path)
		before := append([]string{}, backing...)
		what := fmt.Sprintf("op %d %s(%q)", i, op.Kind, path)
		firstNew := len(c.kept)
		var visitErr error
		// visitor shared by query / walk / wsorted: compares at the instant of the invocation, keeps the slice
		var seen []kv
		visitor := func(expect int, keepAll bool) ctree.VisitFunc {
			calls := 0
			return func(p []string, _ *ctree.Leaf, v interface{}) error {
				calls++
				seen = append(seen, kv{key(append([]string{}, p...)), v})
				if len(p) >= 4 && op.Kind == "query" {
					st.deepQuery = true
				}
				if keepAll || calls == expect {
					idx := c.keep(fmt.Sprintf("%s visitor invocation for %q", what, p), i, p)
					if op.Ret == 3 {
						// the visitor owns the slice it is handed: rewriting it in place must not disturb the rest of the visit
						rewrite(p, 1+i%2, "rewritten-in-visit")
						c.kept[idx].want = key(p)
						st.visitEdited = true
					}
				}
				return nil
			}
		}
		var returned [][]string
		switch op.Kind {
		case "add":
			want := m.AddOK(path)
			gerr := t.Add(arg, op.Val)
			if want != (gerr == nil) {
				return st, fmt.Errorf("%s: error=%v, model says success=%v", what, gerr, want)
			}
			m.Add(path, op.Val)
			if !want {
				st.failedAdd = true
			}
		case "get", "getleaf", "getval", "children":
			if hasGlob(path) { // relative addressing never adds one; defensive
				break
			}
			mv, isLeaf := m.leaves[key(path)]
			interior := m.IsInterior(path)
			switch op.Kind {
			case "get":
				n := t.Get(arg)
				if len(path) > 0 && (n != nil) != (isLeaf || interior) {
					return st, fmt.Errorf("%s non-nil=%v, model leaf=%v interior=%v", what, n != nil, isLeaf, interior)
				}
			case "getleaf":
				l := t.GetLeaf(arg)
				if isLeaf && (l == nil || l.Value() != mv) {
					return st, fmt.Errorf("%s: handle reads %v, model %v", what, l.Value(), mv)
				}
				if !isLeaf && !interior && len(path) > 0 && l != nil {
					return st, fmt.Errorf("%s non-nil for an absent path", what)
				}
			case "getval":
				got := t.GetLeafValue(arg)
				if isLeaf && got != mv || !isLeaf && got != nil {
					return st, fmt.Errorf("%s=%v, model leaf=%v value %v", what, got, isLeaf, mv)
				}
			case "children":
				ch := t.Get(arg).Children()
				var names []string
				for n := range ch {
					names = append(names, n)
				}
				sort.Strings(names)
				if want := m.Children(path); strings.Join(names, sep) != strings.Join(want, sep) {
					return st, fmt.Errorf("%s=%q, model %q", what, names, want)
				}
				if ch != nil {
					// the returned map is the caller's: emptying it and filing something else must not reach the tree
					for n := range ch {
						delete(ch, n)
					}
					ch["a"] = &ctree.Tree{}
					ch["intruder"] = nil
					st.childrenEdited = true
				}
			}
		case "query":
			want := m.Query(path)
			visitErr = t.Query(arg, visitor(len(want), false))
			if visitErr != nil {
				return st, fmt.Errorf("%s error %v", what, visitErr)
			}
			if e := m.checkSet(what, seen, want); e != nil {
				return st, e
			}
		case "walk", "wsorted":
			walk := t.Walk
			if op.Kind == "wsorted" {
				walk = t.WalkSorted
			}
			want := m.Query(nil)
			if visitErr = walk(visitor(len(want), true)); visitErr != nil {
				return st, fmt.Errorf("%s error %v", what, visitErr)
			}
			if e := m.checkSet(what, seen, want); e != nil {
				return st, e
			}
			if op.Kind == "wsorted" {
				sorted := m.SortedPaths()
				for j := range seen {
					if seen[j].k != key(sorted[j]) {
						return st, fmt.Errorf("%s order: position %d is %q, lexicographic order wants %q", what, j, unkey(seen[j].k), sorted[j])
					}
				}
			}
		case "del", "delcond", "walkdel":
			var cond func(int) bool
			if op.Kind != "del" {
				cond = even
			}
			nMatch := len(m.Query(path))
			want, wantVals := m.Delete(path, cond)
			condCalls := 0
			icond := func(v interface{}) bool { condCalls++; return cond(v.(int)) }
			var got []string
			switch op.Kind {
			case "del":
				returned = t.Delete(arg)
			case "delcond":
				returned = t.DeleteConditional(arg, icond)
			case "walkdel":
				var vals []int
				t.WalkDeleted(arg, icond, func(v interface{}) { vals = append(vals, v.(int)) })
				sort.Ints(vals)
				wv := append([]int{}, wantVals...)
				sort.Ints(wv)
				if fmt.Sprint(vals) != fmt.Sprint(wv) {
					return st, fmt.Errorf("%s visited values %v, model removed %v (values %v)", what, vals, pathsOf(want), wv)
				}
			}
			if op.Kind != "del" && condCalls != nMatch {
				return st, fmt.Errorf("%s: the condition was consulted %d times, %d leaves match the path (one call puts every matching leaf to the condition once)", what, condCalls, nMatch)
			}
			if op.Kind != "walkdel" {
				for _, p := range returned {
					got = append(got, key(p))
				}
				sort.Strings(got)
				if strings.Join(got, "|") != strings.Join(want, "|") || len(got) != len(want) {
					return st, fmt.Errorf("%s returned %v, a query for the same path reports %v", what, pathsOf(got), pathsOf(want))
				}
				for j, p := range returned {
					c.keep(fmt.Sprintf("%s returned path %d", what, j), i, p)
					if len(p) == 1 {
						st.oneElemDelete = true
					}
				}
			}
		default:
			return st, fmt.Errorf("unknown op %q", op.Kind)
		}
		// clause (a): the call left the caller's slice alone (rewrites inside the visitor included: what the
		// visitor is handed is not the caller's argument)
		if j := sameBacking(before, backing); j >= 0 {
			return st, fmt.Errorf("%s: the call changed slot %d of the backing array of the slice it was given (argument at offset %d, length %d, capacity %d) from %q to %q", what, j, len(before)-cap(arg), len(arg), cap(arg), before[j], backing[j])
		}
		if e := c.checkKept("right after "+what, i); e != nil {
			return st, e
		}
		// the caller uses what it received
		if op.Ret == 1 || op.Ret == 2 || (op.Ret == 3 && returned != nil) {
			for idx := firstNew; idx < len(c.kept); idx++ {
				k := &c.kept[idx]
				switch op.Ret {
				case 1, 3:
					rewrite(k.s, 1+(i+idx)%2, "rewritten-by-the-caller")
					k.want = key(k.s)
					st.retEdited = true
				case 2:
					_ = append(k.s, "appended-by-the-caller")
					_ = append(k.s[:len(k.s):cap(k.s)], "x", "y", "z")
					st.retAppended = true
				}
				if j := sameBacking(before, backing); j >= 0 {
					return st, fmt.Errorf("%s: the caller edited the path slice from %s and slot %d of the slice it had passed to the call changed from %q to %q: the result is a window onto the argument", what, k.origin, j, before[j], backing[j])
				}
				if e := c.checkKept(fmt.Sprintf("after the caller edited the slice from %s", k.origin), i); e != nil {
					return st, e
				}
			}
			if op.Ret == 3 {
				for j := range returned {
					returned[j] = nil
				}
			}
		}
		// the caller goes on using its own slice
		if op.Arg > 0 && backing != nil {
			rewrite(backing, op.Arg, "overwritten-argument")
			st.argOverwritten = true
			if e := c.checkKept(fmt.Sprintf("after the caller overwrote the slice it had passed to %s", what), i); e != nil {
				return st, e
			}
		}
		// clause (c)
		if oerr := m.Observe(t, aliasObsPaths, aliasPatterns); oerr != nil {
			return st, fmt.Errorf("after %s (argument then overwritten: %v, results edited: %v): %v", what, op.Arg > 0, op.Ret > 0, oerr)
		}
		if e := c.checkKept("after observing the tree following "+what, i); e != nil {
			return st, e
		}
	}
	// end of the sequence: every buffer is overwritten once more, then everything kept is compared a last time
	for k := 1; k < len(c.bufs); k++ {
		rewrite(c.bufs[k], 2, "")
		rewrite(c.bufs[k], 1, "final")
	}
	if e := c.checkKept("at the end of the sequence", len(sc.Ops)); e != nil {
		return st, e
	}
	if oerr := m.Observe(t, aliasObsPaths, aliasPatterns); oerr != nil {
		return st, fmt.Errorf("at the end of the sequence: %v", oerr)
	}
	return st, nil
}

// TestC09Alias: ownership of the slices and maps that cross the API boundary, in both directions.
func TestC09Alias(t *testing.T) {
	if !vstat.Enabled("C09") {
		t.Skip()
	}
	rec := vstat.New("C09", "alias")
	rec.RunRapid(t, func(rt *rapid.T) {
		sc := genAliasScenario(rt)
		st, err := runAlias(sc)
		rec.Case(sc, st.nontrivial(), st.labels()...)
		if err != nil {
			class := "model-mismatch"
			if strings.Contains(err.Error(), "not a value of its own") || strings.Contains(err.Error(), "window onto the argument") || strings.Contains(err.Error(), "the call changed slot") {
				class = "slice-ownership"
			}
			rt.Fatalf("%s", rec.Fail(sc, class, "%v", err))
		}
	})
}
