package ctreeprop

// C10 callback-gate part: deterministic schedules INSIDE operations that take a
// user callback.
//
// Every ctree operation that calls back into user code - the condition of
// DeleteConditional / WalkDeleted, the visitor of WalkDeleted, Query, Walk and
// WalkSorted - offers a schedule point in the middle of the operation without
// any hook in the code under test: the callback of thread X parks on a harness
// channel (at its k-th invocation, k part of the scenario), the schedule then
// runs operations of other threads - updates and reads through retained leaf
// handles, adds, lookups, deletes, queries - one at a time, and finally
// releases X. The Add upgrade window (verifhook point ctree.add.upgrade) is a
// second kind of park in the same scenario language.
//
// Quiescence. A thread that needs a lock held by a parked thread waits for a
// sync.RWMutex, which neither a channel handshake nor synctest.Wait can see.
// The executor therefore lets every step run until each thread is
//
//	idle      (its operation returned; an atomic flag),
//	parked    (inside a callback / at the upgrade point, on a harness channel; an atomic flag), or
//	blocked   (waiting for a sync.Mutex / sync.RWMutex; read from a goroutine dump,
//	           which the runtime takes with the world stopped, so that "every
//	           thread is idle, parked or blocked" in one dump is a true quiescent state).
//
// Nothing is ever skipped because of a predicted lock: an operation that cannot
// proceed simply stays in flight (its interval stays open) until whoever holds
// the lock is released, exactly as it would in production. A quiescent state in
// which somebody is blocked and nobody is parked is a deadlock - a structural
// verdict, no clock involved.
//
// Addressing. Which leaf a delete inspects first is decided by map iteration,
// so handle operations select their leaf relative to what the parked operation
// has seen so far: "seen" (k-th inspected leaf), "done" (k-th leaf whose
// inspection is over: kept or already removed), "unseen" (a leaf under the
// pattern not inspected yet) or "abs" (k-th retained handle).
//
// Oracles: the recorded history (intervals from one counter; an operation that
// ran alone inside its step is a snapshot) is judged by the history judge of
// the other C10 parts and by the differential oracle (c10_diff_test.go).
//
// Profile visit-vs-multidelete: 3-10 leaves in several branches; a Query / Walk /
// WalkSorted parks inside its k-th visitor call and a subtree / glob delete of
// many leaves is started meanwhile. On a correct tree the delete waits for the
// root lock the visit holds (state "blocked" above, its interval stays open until
// the visit is released); a tree that lets it through makes the released visit
// report part of what ONE delete removed (clause (2) of c10_rdatomic_test.go).

//
// Profile move-vs-conditional-delete: 3-5 leaves below one branch, all retained,
// of which one or two satisfy the condition; a DeleteConditional / WalkDeleted of
// the branch parks inside its k-th condition call, and a writer then rewrites
// leaves in an order that MOVES the truth of the condition: it makes a leaf whose
// inspection is over ("done": the delete kept it) match and afterwards makes a
// leaf the delete has not inspected yet ("unseen") stop matching - through a
// handle or with an Add on the existing leaf (CBOp.Sel on an add: the path is
// that of the selected leaf). In every sequential order some leaf matches at
// every instant, so the delete must remove one. On a correct tree the first
// rewrite waits until the delete returns (the delete keeps every inspected node
// locked, an Add needs the root); a delete whose decision does not come from one
// exclusive section - a scan under shared locks first, say - lets both through
// and then reports that there was nothing to remove. The reverse order (at most
// one leaf matches at every instant: the delete cannot remove two) and generated
// rewrites are part of the profile.

import (
	"encoding/json"
	"flag"
	"fmt"
	"regexp"
	"runtime"
	"sort"
	"strings"
	"sync"
	"sync/atomic"
	"testing"
	"time"

	"github.com/openconfig/gnmi/ctree"
	"github.com/openconfig/gnmi/verifhook"
	"pgregory.net/rapid"
	"verif/harness/internal/vstat"
)

var c10SettleMax = flag.Duration("c10.settlemax", 60*time.Second, "C10 cbgate: real time after which a step that does not become quiescent makes the case inconclusive (never a violation)")

// CBOp is one operation of a thread's program.
type CBOp struct {
	Kind string   `json:"kind"` // add glv getleaf hupd hval query walk walksorted del delcond walkdel children isbranch tvalue string
	Path []string `json:"path,omitempty"`
	Odd  bool     `json:"odd,omitempty"` // add, hupd: parity of the unique value written (conditional deletes remove even values)
	// hupd, hval: which retained handle: abs | seen | done | unseen (see the file comment); Idx is taken modulo the number of candidates.
	// add with a Sel: an Add on the existing leaf selected that way (Path is ignored unless nothing is retained)
	Sel string `json:"sel,omitempty"`
	Idx int    `json:"idx,omitempty"`
	// ParkAt: the callback invocations (1-based, condition and visitor calls counted together) at which the operation parks
	ParkAt []int `json:"park_at,omitempty"`
	// Park: (add) park at ctree.add.upgrade
	Park bool `json:"park,omitempty"`
}

// CBInit is a leaf added before the threads start.
type CBInit struct {
	Path   []string `json:"path"`
	Odd    bool     `json:"odd,omitempty"`
	Handle bool     `json:"handle,omitempty"` // retain a handle (GetLeaf) for it
}

// CBScenario is the replayable unit of the callback-gate part.
type CBScenario struct {
	Init    []CBInit `json:"init,omitempty"`
	Threads [][]CBOp `json:"cbthreads"`
	Steps   []GStep  `json:"steps"` // run = thread T starts its next operation; rel = thread T is released from its park
	// Profile: (labels only) set by the profiles that are their own generator function
	Profile string `json:"profile,omitempty"`
}

type cbPark struct {
	rel   chan struct{}
	kind  string // delete | query | upgrade
	job   *cbJob
	noted bool // harness side: labels written
}

type cbJob struct {
	t         *cbThread
	spec      *CBOp
	op        HOp
	l         *ctree.Leaf
	got       *ctree.Leaf
	step      int
	calls     int
	parkedAny bool
	seen      []string // keys of the leaves reported to its callbacks so far, in order (guarded by cbRun.mu)
	seenVals  []int
	panic     string
	collected bool
	// what the harness knew when it dispatched the job (labels)
	ctx       string
	hupdClass string
}

type cbThread struct {
	id     int
	gid    string
	cmd    chan *cbJob
	ready  chan struct{}
	busy   atomic.Bool
	parked atomic.Pointer[cbPark]
	job    *cbJob
	next   int
}

type cbRun struct {
	sc      *CBScenario
	st      *gateStats
	hist    *History
	tr      *ctree.Tree
	clock   atomic.Int64
	mu      sync.Mutex
	valPath map[int]string
	armed   map[int]*cbJob
	threads []*cbThread
	handles []burstHandle
	lastCB  *cbJob
	step    int
	// updates dispatched during the current park of a delete: did one aim at a leaf the delete had already removed
	removedUpdateInPark *cbJob
	// writes dispatched during the current park of a conditional delete: did one make a leaf the delete had inspected and kept match
	keptMadeMatching *cbJob
}

func (r *cbRun) now() int64 { return r.clock.Add(1) }

func curGoroutineID() string {
	var buf [64]byte
	s := string(buf[:runtime.Stack(buf[:], false)])
	s = strings.TrimPrefix(s, "goroutine ")
	if i := strings.IndexByte(s, ' '); i > 0 {
		return s[:i]
	}
	return ""
}

// thread is the body of one scenario thread (a goroutine that lives for the case).
func (r *cbRun) thread(t *cbThread) {
	t.gid = curGoroutineID()
	close(t.ready)
	for job := range t.cmd {
		r.execJob(job)
		t.busy.Store(false)
	}
}

func (r *cbRun) execJob(job *cbJob) {
	defer func() {
		if p := recover(); p != nil {
			buf := make([]byte, 2048)
			job.panic = fmt.Sprintf("%v\n%s", p, buf[:runtime.Stack(buf, false)])
		}
	}()
	o := &job.op
	cb := func(val interface{}, path []string) { r.onCallback(job, val, path) }
	switch job.spec.Kind {
	case "delcond":
		o.Call = r.now()
		res := r.tr.DeleteConditional(o.Path, func(v interface{}) bool { cb(v, nil); return evenCond(v) })
		o.Ret = r.now()
		o.Paths = copyPaths(res)
	case "walkdel":
		o.Vals = []int{}
		o.Call = r.now()
		r.tr.WalkDeleted(o.Path, func(v interface{}) bool { cb(v, nil); return evenCond(v) },
			func(v interface{}) { o.Vals = append(o.Vals, obsInt(o, o.Path, v)); cb(v, nil) })
		o.Ret = r.now()
	case "query", "walk", "walksorted":
		o.KV = []KV{}
		visit := func(path []string, _ *ctree.Leaf, val interface{}) error {
			p := append([]string{}, path...)
			o.KV = append(o.KV, KV{p, obsInt(o, p, val)})
			cb(val, p)
			return nil
		}
		o.Call = r.now()
		switch job.spec.Kind {
		case "query":
			r.tr.Query(o.Path, visit)
		case "walk":
			r.tr.Walk(visit)
		default:
			r.tr.WalkSorted(visit)
		}
		o.Ret = r.now()
	default:
		job.got = perform(r.tr, o, job.l, r.now)
	}
}

func (r *cbRun) onCallback(job *cbJob, val interface{}, path []string) {
	r.mu.Lock()
	job.calls++
	k, known := "", false
	if path != nil {
		k, known = key(path), true
	} else if p, ok := r.valPath[toInt(val)]; ok {
		k, known = p, true
	}
	if known && (len(job.seen) == 0 || job.seen[len(job.seen)-1] != k) {
		job.seen = append(job.seen, k)
		job.seenVals = append(job.seenVals, toInt(val))
	}
	park := false
	for _, at := range job.spec.ParkAt {
		park = park || at == job.calls
	}
	if park {
		job.parkedAny = true
	}
	r.mu.Unlock()
	if park {
		kind := "query"
		if isDelKind(job.spec.Kind) {
			kind = "delete"
		}
		p := &cbPark{rel: make(chan struct{}), kind: kind, job: job}
		job.t.parked.Store(p)
		<-p.rel
	}
}

// cbDumpBuf receives the goroutine dumps (cases run one after the other).
var cbDumpBuf = make([]byte, 1<<21)

var cbGoroutine = regexp.MustCompile(`(?m)^goroutine (\d+) \[([^\],]*)`)

func lockWait(state string) bool {
	return strings.HasPrefix(state, "sync.Mutex.") || strings.HasPrefix(state, "sync.RWMutex.")
}

type cbQuiet struct {
	blocked []*cbThread
	parked  []*cbThread
	timeout bool
	dump    string
}

// settle returns once every thread is idle, parked or waiting for a lock.
func (r *cbRun) settle() cbQuiet {
	var deadline time.Time
	for spin := 0; ; spin++ {
		var need, parked []*cbThread
		for _, t := range r.threads {
			switch {
			case !t.busy.Load():
			case t.parked.Load() != nil:
				parked = append(parked, t)
			default:
				need = append(need, t)
			}
		}
		if len(need) == 0 {
			return cbQuiet{parked: parked}
		}
		if spin < 50 {
			runtime.Gosched()
			continue
		}
		// The flags read above stay valid (only this goroutine starts or releases a
		// thread); the dump is taken with the world stopped.
		dump := string(cbDumpBuf[:runtime.Stack(cbDumpBuf, true)])
		states := map[string]string{}
		for _, m := range cbGoroutine.FindAllStringSubmatch(dump, -1) {
			states[m[1]] = m[2]
		}
		all := true
		for _, t := range need {
			if !lockWait(states[t.gid]) {
				all = false
				break
			}
		}
		if all {
			return cbQuiet{blocked: need, parked: parked, dump: dump}
		}
		if deadline.IsZero() {
			deadline = time.Now().Add(*c10SettleMax)
		} else if time.Now().After(deadline) {
			return cbQuiet{blocked: need, parked: parked, timeout: true, dump: dump}
		}
		if spin > 200 {
			time.Sleep(20 * time.Microsecond)
		} else {
			runtime.Gosched()
		}
	}
}

func (r *cbRun) threadDump(q cbQuiet) string {
	var out []string
	for _, blk := range strings.Split(q.dump, "\n\n") {
		for _, t := range q.blocked {
			if strings.HasPrefix(blk, "goroutine "+t.gid+" ") {
				lines := strings.Split(blk, "\n")
				if len(lines) > 14 {
					lines = lines[:14]
				}
				out = append(out, fmt.Sprintf("thread %d (%s): %s", t.id, t.job.op.String(), strings.Join(lines, " < ")))
			}
		}
	}
	return excerpt(strings.Join(out, "\n"), 5000)
}

// resolve picks the handle a hupd/hval works on.
func (r *cbRun) resolve(spec *CBOp) (burstHandle, string, bool) {
	if len(r.handles) == 0 {
		return burstHandle{}, "", false
	}
	pick := func(c []burstHandle) burstHandle { return c[((spec.Idx%len(c))+len(c))%len(c)] }
	if cbj := r.lastCB; cbj != nil && (spec.Sel == "seen" || spec.Sel == "done" || spec.Sel == "unseen") {
		r.mu.Lock()
		seen := append([]string{}, cbj.seen...)
		r.mu.Unlock()
		pos := map[string]int{}
		for i, k := range seen {
			if _, dup := pos[k]; !dup {
				pos[k] = i
			}
		}
		var c []burstHandle
		if spec.Sel == "done" && len(seen) > 0 {
			seen = seen[:len(seen)-1] // the last one is (or may still be) under inspection
		}
		if spec.Sel == "seen" || spec.Sel == "done" {
			for _, k := range seen {
				for _, h := range r.handles {
					if key(h.path) == k {
						c = append(c, h)
					}
				}
			}
		} else {
			for _, h := range r.handles {
				if _, s := pos[key(h.path)]; !s && Matches(cbj.op.Path, h.path) {
					c = append(c, h)
				}
			}
			if len(c) == 0 {
				for _, h := range r.handles {
					if _, s := pos[key(h.path)]; !s {
						c = append(c, h)
					}
				}
			}
		}
		if len(c) > 0 {
			return pick(c), spec.Sel, true
		}
	}
	return pick(r.handles), "abs", true
}

// classifyHandleTarget: where does the leaf of handle h stand relative to the parked delete.
func (r *cbRun) classifyHandleTarget(del *cbJob, h burstHandle) string {
	r.mu.Lock()
	defer r.mu.Unlock()
	k := key(h.path)
	for i, s := range del.seen {
		if s != k {
			continue
		}
		switch {
		case i == len(del.seen)-1:
			return "leaf-under-inspection"
		case del.seenVals[i]%2 == 0:
			return "leaf-already-removed"
		default:
			return "leaf-inspected-and-kept"
		}
	}
	if Matches(del.op.Path, h.path) {
		return "leaf-not-yet-inspected"
	}
	return "leaf-outside-the-delete"
}

func cbVal(unique int, odd bool) int {
	v := 2 * unique
	if odd {
		v++
	}
	return v
}

// dispatch starts the next operation of t. ok=false: nothing was started.
func (r *cbRun) dispatch(t *cbThread) bool {
	prog := r.sc.Threads[t.id]
	spec := &prog[t.next]
	t.next++
	uniq := 100*(t.id+1) + t.next
	job := &cbJob{t: t, spec: spec, step: r.step}
	o := HOp{G: t.id, Kind: spec.Kind, Path: spec.Path}
	var parkedDel, parkedVisit *cbJob
	for _, x := range r.threads {
		if p := x.parked.Load(); p != nil {
			if job.ctx == "" || p.kind == "delete" {
				job.ctx = p.kind
			}
			if p.kind == "delete" {
				parkedDel = p.job
			}
			if p.kind == "query" {
				parkedVisit = p.job
			}
		}
	}
	switch spec.Kind {
	case "add":
		if spec.Sel != "" {
			// an Add on an existing leaf, addressed like a handle operation
			if h, how, ok := r.resolve(spec); ok {
				o.Path = h.path
				r.st.label("add-on-leaf-selected:" + how)
				if parkedDel != nil {
					job.hupdClass = r.classifyHandleTarget(parkedDel, h)
				}
			}
		}
		o.Val = cbVal(uniq, spec.Odd)
		r.mu.Lock()
		r.valPath[o.Val] = key(o.Path)
		if spec.Park {
			r.armed[o.Val] = job
		}
		r.mu.Unlock()
	case "hupd", "hval":
		h, how, ok := r.resolve(spec)
		if !ok {
			r.st.label("step-skipped-no-handle-retained")
			return false
		}
		job.l, o.H, o.Path = h.l, h.h, h.path
		if spec.Kind == "hupd" {
			o.Val = cbVal(uniq, spec.Odd)
			r.mu.Lock()
			r.valPath[o.Val] = key(h.path)
			r.mu.Unlock()
		}
		r.st.label("handle-selected:" + how)
		if parkedDel != nil {
			job.hupdClass = r.classifyHandleTarget(parkedDel, h)
			if spec.Kind == "hupd" {
				switch job.hupdClass {
				case "leaf-already-removed":
					r.removedUpdateInPark = job
					// On a correct tree this update waits for the delete, so the thread's next
					// operation cannot start inside it; say what it would have been.
					if t.next < len(prog) && prog[t.next].Kind == "hupd" {
						r.st.label("parked-delete:update-of-removed-leaf:same-thread-updates-again-next")
						if prog[t.next].Sel == "unseen" {
							r.st.label("parked-delete:update-of-removed-leaf:same-thread-updates-uninspected-leaf-next")
						}
					}
				case "leaf-not-yet-inspected":
					if r.removedUpdateInPark != nil {
						// the shape no sequential order explains if both take effect inside the delete
						r.st.label("parked-delete:update-of-removed-leaf-then-update-of-uninspected-leaf")
						if r.removedUpdateInPark.t == t {
							r.st.label("parked-delete:update-of-removed-leaf-then-update-of-uninspected-leaf:same-thread")
						}
					}
				}
			}
		}
	case "getleaf":
		o.H = uniq
		if len(o.Path) == 0 {
			o.Kind = "glv" // no handle is ever taken on the root
		}
	case "walksorted":
		o.Kind, o.Sorted = "walk", true
	case "children", "isbranch", "tvalue", "string":
		// the accessor dimension (c10_access_test.go): on the root (empty path) or on the node Get(path) returns,
		// while another thread is parked inside a delete (root write lock held) or a visit (root read lock held,
		// possibly with a delete queued behind it)
		o = burstHOp(t.id, BOp{Kind: spec.Kind, Path: spec.Path}, uniq)
		where := "sub-node"
		if len(o.Path) == 0 {
			where = "root"
		}
		r.st.label("access:" + spec.Kind + ":" + where)
		if job.ctx != "" {
			r.st.label("access:" + spec.Kind + ":" + where + ":started-while-parked-" + job.ctx)
		}
	}
	if parkedDel != nil && parkedDel.spec.Kind != "del" && (o.Kind == "hupd" || (o.Kind == "add" && spec.Sel != "")) {
		// the move shapes (profile move-vs-conditional-delete): the truth of the condition handed from leaf to leaf inside the delete
		switch {
		case job.hupdClass == "leaf-inspected-and-kept" && !spec.Odd:
			r.keptMadeMatching = job
			r.st.label("parked-delete:kept-leaf-made-matching")
			// On a correct tree this write waits for the delete, so the thread's next operation cannot start inside it; say what it would have been.
			if t.next < len(prog) && prog[t.next].Sel == "unseen" && prog[t.next].Odd && (prog[t.next].Kind == "hupd" || prog[t.next].Kind == "add") {
				r.st.label("parked-delete:kept-leaf-made-matching:same-thread-makes-uninspected-leaf-not-matching-next")
			}
		case job.hupdClass == "leaf-not-yet-inspected" && spec.Odd:
			r.st.label("parked-delete:uninspected-leaf-made-not-matching")
			if r.keptMadeMatching != nil {
				r.st.label("parked-delete:kept-leaf-made-matching-then-uninspected-leaf-made-not-matching")
			}
		}
	}
	if parkedVisit != nil && isDelKind(spec.Kind) {
		// what the clause "a delete is atomic for readers" is about: on a correct tree this
		// delete waits for the root lock the parked visit holds
		r.st.label("delete-started-while-parked:" + parkedVisit.spec.Kind)
	}
	job.op = o
	t.job = job
	t.busy.Store(true)
	t.cmd <- job
	return true
}

// collect books the jobs that finished; returns a failure if one of them panicked.
func (r *cbRun) collect(q cbQuiet) *gateFail {
	var fin []*cbJob
	for _, t := range r.threads {
		if j := t.job; j != nil && !j.collected && !t.busy.Load() {
			fin = append(fin, j)
		}
	}
	for _, j := range fin {
		j.collected = true
		o := j.op
		alone := len(fin) == 1 && j.step == r.step && !j.parkedAny
		if alone && (o.Kind == "query" || o.Kind == "walk") {
			// it ran from start to end while every other thread was idle, parked or blocked: a snapshot
			o.Atomic = true
			r.st.label("snapshot-while-others-in-flight")
		}
		r.hist.Ops = append(r.hist.Ops, o)
		if j.panic != "" {
			r.hist.Panic = j.panic
			return &gateFail{"panic", "an operation panicked: " + j.panic}
		}
		if o.Kind == "getleaf" && j.got != nil {
			r.handles = append(r.handles, burstHandle{l: j.got, h: o.H, path: o.Path})
		}
		if o.Kind == "add" && o.Err != "" {
			r.st.label("failed-add")
		}
		if isDelKind(o.Kind) && (len(o.Paths) > 0 || len(o.Vals) > 0) {
			r.st.label("delete-removed-leaf")
		}
		if j.ctx != "" {
			out := "completed-in-its-step"
			if j.step != r.step {
				out = "completed-after-waiting"
			}
			r.st.label(fmt.Sprintf("parked-%s:%s:%s", j.ctx, j.spec.Kind, out))
			if j.hupdClass != "" {
				r.st.label(fmt.Sprintf("parked-delete:%s-on-%s:%s", j.spec.Kind, j.hupdClass, out))
			}
		}
	}
	// jobs started in this step that are now waiting for a lock or parked
	for _, t := range r.threads {
		j := t.job
		if j == nil || j.collected || j.step != r.step || j.ctx == "" {
			continue
		}
		out := "waits-for-lock"
		if t.parked.Load() != nil {
			out = "parked-too"
		}
		r.st.label(fmt.Sprintf("parked-%s:%s:%s", j.ctx, j.spec.Kind, out))
		if j.hupdClass != "" {
			r.st.label(fmt.Sprintf("parked-delete:%s-on-%s:%s", j.spec.Kind, j.hupdClass, out))
		}
	}
	return nil
}

// after every settle: classify the quiescent state.
func (r *cbRun) judgeQuiet(q cbQuiet) *gateFail {
	switch {
	case q.timeout:
		return &gateFail{"inconclusive", fmt.Sprintf("a step did not become quiescent within %v", *c10SettleMax)}
	case len(q.blocked) > 0 && len(q.parked) == 0:
		return &gateFail{"deadlock", fmt.Sprintf("%d thread(s) wait for a lock although every other thread is idle (its operation returned) and nobody is parked: nobody is left to release it\n%s", len(q.blocked), r.threadDump(q))}
	}
	return nil
}

func (r *cbRun) release(t *cbThread) {
	p := t.parked.Swap(nil)
	if p == nil {
		return
	}
	if p.kind == "delete" {
		r.removedUpdateInPark = nil
		r.keptMadeMatching = nil
	}
	close(p.rel)
}

func (r *cbRun) body() *gateFail {
	sc := r.sc
	r.tr = &ctree.Tree{}
	r.valPath, r.armed = map[int]string{}, map[int]*cbJob{}
	verifhook.Set(func(name string, k interface{}) {
		v, ok := k.(int)
		if name != upgradePoint || !ok {
			return
		}
		r.mu.Lock()
		job := r.armed[v]
		delete(r.armed, v) // one shot
		if job != nil {
			job.parkedAny = true
		}
		r.mu.Unlock()
		if job != nil {
			p := &cbPark{rel: make(chan struct{}), kind: "upgrade", job: job}
			job.t.parked.Store(p)
			<-p.rel
		}
	})
	defer verifhook.Set(nil)
	// initial content and retained handles (sequential)
	for i, in := range sc.Init {
		if len(in.Path) == 0 {
			continue
		}
		o := HOp{G: 99, Kind: "add", Path: in.Path, Val: cbVal(10+i, in.Odd)}
		perform(r.tr, &o, nil, r.now)
		r.valPath[o.Val] = key(o.Path)
		r.hist.Ops = append(r.hist.Ops, o)
		if in.Handle && o.Err == "" {
			g := HOp{G: 99, Kind: "getleaf", Path: in.Path, H: 10 + i}
			if l := perform(r.tr, &g, nil, r.now); l != nil {
				r.handles = append(r.handles, burstHandle{l: l, h: g.H, path: g.Path})
			}
			r.hist.Ops = append(r.hist.Ops, g)
		}
	}
	n := len(sc.Threads)
	// thread n takes the final walk, so that a leaked lock shows as a deadlock instead of hanging the harness
	for i := 0; i <= n; i++ {
		t := &cbThread{id: i, cmd: make(chan *cbJob), ready: make(chan struct{})}
		r.threads = append(r.threads, t)
		go r.thread(t)
		<-t.ready
	}
	defer func() {
		// leave nothing parked behind; end the threads that are idle (one that waits for a leaked lock cannot be reclaimed)
		for _, t := range r.threads {
			r.release(t)
		}
		r.settle()
		for _, t := range r.threads {
			if !t.busy.Load() {
				close(t.cmd)
			}
		}
	}()
	afterAction := func() *gateFail {
		q := r.settle()
		if f := r.collect(q); f != nil {
			return f
		}
		for _, t := range q.parked {
			if p := t.parked.Load(); p != nil && !p.noted {
				p.noted = true
				at := p.job.calls
				if at > 3 {
					at = 3
				}
				if p.kind == "upgrade" {
					r.st.label("park:add-upgrade-window")
				} else {
					r.st.label(fmt.Sprintf("park:%s-callback-%d", p.job.spec.Kind, at))
					r.lastCB = p.job
				}
				if len(q.parked) > 1 {
					r.st.label("several-threads-parked")
				}
			}
		}
		return r.judgeQuiet(q)
	}
	if n == 0 {
		return &gateFail{"bad-scenario", "no threads"}
	}
	for _, s := range sc.Steps {
		t := r.threads[((s.T%n)+n)%n]
		r.step++
		switch s.Kind {
		case "rel":
			if t.parked.Load() == nil {
				continue
			}
			r.release(t)
		case "run":
			if t.busy.Load() {
				r.st.label("step-skipped-thread-in-flight")
				continue
			}
			if t.next >= len(sc.Threads[t.id]) || !r.dispatch(t) {
				continue
			}
			if t.job.ctx != "" {
				r.st.nontrivial = true
			}
		default:
			continue
		}
		if f := afterAction(); f != nil {
			return f
		}
	}
	// epilogue: release what is parked, then let every thread finish its program
	for iter := 0; iter < 10000; iter++ {
		r.step++
		acted := false
		for _, t := range r.threads {
			if t.parked.Load() != nil {
				r.release(t)
				acted = true
				break
			}
		}
		if !acted {
			for _, t := range r.threads[:n] {
				if !t.busy.Load() && t.next < len(sc.Threads[t.id]) {
					r.dispatch(t)
					acted = true
					break
				}
			}
		}
		if !acted {
			break
		}
		if f := afterAction(); f != nil {
			return f
		}
	}
	for _, t := range r.threads {
		if t.busy.Load() {
			return &gateFail{"stuck", "a thread is still in flight after the epilogue although the quiescent state was neither a deadlock nor parked"}
		}
	}
	r.step++
	ft := r.threads[n]
	fj := &cbJob{t: ft, spec: &CBOp{Kind: "final"}, step: r.step, op: HOp{G: 98, Kind: "final", Atomic: true}}
	ft.job = fj
	ft.busy.Store(true)
	ft.cmd <- fj
	return afterAction()
}

// runCB executes sc and judges the recorded history.
func runCB(sc *CBScenario) (st *gateStats, hist *History, fail *gateFail) {
	st = &gateStats{labels: map[string]bool{}}
	hist = &History{Workers: len(sc.Threads)}
	r := &cbRun{sc: sc, st: st, hist: hist}
	if sc.Profile != "" {
		st.label("profile:" + sc.Profile)
	}
	func() {
		defer func() {
			if p := recover(); p != nil {
				fail = &gateFail{"panic", fmt.Sprintf("panic in the harness goroutine: %v", p)}
			}
		}()
		fail = r.body()
	}()
	if fail != nil {
		if fail.class == "inconclusive" {
			st.label("case-inconclusive-no-quiescence")
			return st, hist, nil
		}
		return st, hist, fail
	}
	sort.SliceStable(hist.Ops, func(i, j int) bool { return hist.Ops[i].Call < hist.Ops[j].Call })
	_, _, rd := readerDeleteAtomicity(hist)
	rd.labels(st.labels)
	f, inc := judgeSmall(hist, true)
	if f != nil {
		return st, hist, &gateFail{f.class, f.msg}
	}
	for range inc {
		st.label("judge-inconclusive")
	}
	return st, hist, nil
}

// TestC10Callback: callback parks and upgrade parks; see the file comment.
func TestC10Callback(t *testing.T) {
	if !vstat.Enabled("C10") {
		t.Skip()
	}
	rec := vstat.New("C10", "cbgate")
	rec.RunRapid(t, func(rt *rapid.T) {
		sc := genCB(rt)
		rec.Current(sc)
		st, _, fail := runCB(sc)
		if fail != nil {
			rt.Fatalf("%s", rec.Fail(sc, fail.class, "%s", fail.msg))
		}
		rec.Case(sc, st.nontrivial, st.list()...)
	})
}

func replayCB(rf *vstat.ReplayFile) string {
	var sc CBScenario
	if err := json.Unmarshal(rf.Scenario, &sc); err != nil {
		return "bad callback-gate scenario: " + err.Error()
	}
	// which leaf a delete inspects first is decided by map iteration: give every order a chance
	for i := 0; i < 20; i++ {
		_, hist, fail := runCB(&sc)
		if fail != nil {
			for k := range hist.Ops {
				fmt.Println("  ", hist.Ops[k].String())
			}
			return fail.class + ": " + fail.msg
		}
	}
	return ""
}

// ---- generator ----------------------------------------------------------------------------------

func genCB(t *rapid.T) *CBScenario {
	sc := &CBScenario{}
	pool := [][]string{{"a", "x"}, {"a", "y"}, {"a", "z"}, {"a", "w", "p"}, {"a", "w", "q"}, {"b", "x"}, {"b", "y"}}
	extra := [][]string{{"a", "v"}, {"a", "w", "r"}, {"c", "x"}, {"a"}, {"a", "w"}, {"a", "x", "k"}, {"b"}}
	patterns := [][]string{{"a"}, {"a"}, {"a", "*"}, {"a", "*"}, {}, {"*"}, {"*", "*"}, {"a", "w"}, {"b"}, {"*", "x"}, {"a", "x"}, {"a", "*", "*"}}
	profile := rapid.SampledFrom([]string{"delete-vs-handles", "delete-vs-handles", "query-vs-writers", "mixed", "visit-vs-multidelete", "move-vs-conditional-delete"}).Draw(t, "profile")
	if profile == "move-vs-conditional-delete" {
		return genCBMove(t, sc)
	}
	if profile == "visit-vs-multidelete" {
		// 3-10 leaves spread over several branches (two or three levels deep)
		pool, extra = nil, [][]string{{"a", "v"}, {"b", "w", "r"}, {"d", "x"}, {"a"}, {"c", "w"}, {"b", "x", "k"}, {"d"}}
		for _, top := range []string{"a", "b", "c"} {
			for _, mid := range []string{"w", "x", "y"} {
				var leaves [][]string
				switch rapid.IntRange(0, 7).Draw(t, "shape") {
				case 0, 1, 2:
				case 3, 4:
					leaves = [][]string{{top, mid}}
				case 5:
					leaves = [][]string{{top, mid, "p"}}
				default:
					leaves = [][]string{{top, mid, "p"}, {top, mid, "q"}}
				}
				for _, p := range leaves {
					if len(pool) < 10 {
						pool = append(pool, p)
					}
				}
			}
		}
		for _, p := range [][]string{{"a", "w", "p"}, {"b", "x"}, {"c", "y", "q"}} {
			if len(pool) < 3 {
				pool = append(pool, p) // (a duplicate or an Add that meets a leaf merely fails or overwrites)
			}
		}
		patterns = [][]string{{}, {}, {"*"}, {"a"}, {"b"}, {"c"}, {"*", "*"}, {"*", "w"}, {"*", "x"}, {"*", "y"}, {"a", "*"}, {"b", "*"}, {"*", "*", "*"}, {"*", "*", "p"}, {"*", "x", "*"}, {"a", "w"}}
		for _, p := range pool {
			// mostly even values: conditional deletes remove them
			sc.Init = append(sc.Init, CBInit{Path: p, Odd: rapid.IntRange(0, 3).Draw(t, "odd") == 0, Handle: rapid.IntRange(0, 3).Draw(t, "handle") == 0})
		}
	} else {
		for _, i := range rapid.SliceOfNDistinct(rapid.IntRange(0, len(pool)-1), 2, 6, func(i int) int { return i }).Draw(t, "init") {
			sc.Init = append(sc.Init, CBInit{Path: pool[i], Odd: rapid.Bool().Draw(t, "odd"), Handle: rapid.IntRange(0, 4).Draw(t, "handle") != 0})
		}
	}
	parkAt := func(t *rapid.T) []int {
		return rapid.SliceOfNDistinct(rapid.IntRange(1, 4), 1, 2, func(i int) int { return i }).Draw(t, "park_at")
	}
	pattern := func(t *rapid.T) []string { return rapid.SampledFrom(patterns).Draw(t, "pattern") }
	exact := func(t *rapid.T) []string {
		if rapid.IntRange(0, 2).Draw(t, "known") != 0 {
			return rapid.SampledFrom(pool).Draw(t, "path")
		}
		return rapid.SampledFrom(extra).Draw(t, "newpath")
	}
	handleOp := func(t *rapid.T) CBOp {
		o := CBOp{Kind: rapid.SampledFrom([]string{"hupd", "hupd", "hupd", "hupd", "hupd", "hval", "hval"}).Draw(t, "hkind")}
		o.Sel = rapid.SampledFrom([]string{"seen", "seen", "done", "done", "done", "unseen", "unseen", "unseen", "unseen", "abs"}).Draw(t, "sel")
		o.Idx = rapid.IntRange(0, 3).Draw(t, "idx")
		if o.Kind == "hupd" {
			o.Odd = rapid.Bool().Draw(t, "odd")
		}
		return o
	}
	anyOp := func(t *rapid.T, parks bool) CBOp {
		kind := rapid.SampledFrom([]string{"add", "add", "add", "glv", "getleaf", "handle", "handle", "handle", "query", "walk", "walksorted", "del", "delcond", "walkdel",
			"children", "children", "isbranch", "tvalue", "string"}).Draw(t, "kind")
		if kind == "handle" {
			return handleOp(t)
		}
		o := CBOp{Kind: kind}
		switch kind {
		case "add":
			o.Path = exact(t)
			o.Odd = rapid.Bool().Draw(t, "odd")
			o.Park = parks && rapid.Bool().Draw(t, "park")
		case "glv", "getleaf":
			o.Path = exact(t)
		case "children", "isbranch", "tvalue", "string":
			// the root half of the time, else a node at or above a leaf
			if rapid.Bool().Draw(t, "onroot") {
				o.Path = []string{}
			} else {
				p := exact(t)
				o.Path = p[:rapid.IntRange(1, len(p)).Draw(t, "nodedepth")]
			}
			return o
		case "query", "del", "delcond", "walkdel":
			o.Path = pattern(t)
		}
		if parks && kind != "add" && kind != "del" && kind != "glv" && kind != "getleaf" && rapid.Bool().Draw(t, "parks") {
			o.ParkAt = parkAt(t)
		}
		return o
	}
	nOthers := rapid.IntRange(1, 3).Draw(t, "others")
	switch profile {
	case "delete-vs-handles":
		main := CBOp{Kind: rapid.SampledFrom([]string{"delcond", "delcond", "walkdel"}).Draw(t, "main"), Path: pattern(t), ParkAt: parkAt(t)}
		prog := []CBOp{main}
		if rapid.IntRange(0, 2).Draw(t, "more") == 0 {
			prog = append(prog, anyOp(t, false))
		}
		sc.Threads = append(sc.Threads, prog)
		for g := 0; g < nOthers; g++ {
			var p []CBOp
			k := rapid.IntRange(1, 4).Draw(t, "nops")
			updater := rapid.IntRange(0, 3).Draw(t, "updater") != 0
			for i := 0; i < k; i++ {
				if updater {
					p = append(p, handleOp(t))
				} else {
					p = append(p, anyOp(t, false))
				}
			}
			sc.Threads = append(sc.Threads, p)
		}
	case "query-vs-writers":
		main := CBOp{Kind: rapid.SampledFrom([]string{"query", "query", "walk", "walksorted"}).Draw(t, "main"), ParkAt: parkAt(t)}
		if main.Kind == "query" {
			main.Path = pattern(t)
		}
		prog := []CBOp{main}
		if rapid.IntRange(0, 2).Draw(t, "more") == 0 {
			prog = append(prog, anyOp(t, false))
		}
		sc.Threads = append(sc.Threads, prog)
		for g := 0; g < nOthers; g++ {
			var p []CBOp
			k := rapid.IntRange(1, 4).Draw(t, "nops")
			for i := 0; i < k; i++ {
				p = append(p, anyOp(t, false))
			}
			sc.Threads = append(sc.Threads, p)
		}
	case "visit-vs-multidelete":
		// thread 0: a visit that parks inside its k-th visitor call (and possibly again later);
		// thread 1: starts with a delete of many leaves (subtree / glob) - on a correct tree it
		// waits for the root lock until the visit is released; further threads: anything.
		main := CBOp{Kind: rapid.SampledFrom([]string{"query", "walk", "walksorted", "walksorted"}).Draw(t, "main")}
		main.ParkAt = rapid.SliceOfNDistinct(rapid.IntRange(1, 6), 1, 2, func(i int) int { return i }).Draw(t, "park_at")
		if main.Kind == "query" {
			main.Path = pattern(t)
		}
		prog := []CBOp{main}
		if rapid.IntRange(0, 2).Draw(t, "more") == 0 {
			prog = append(prog, anyOp(t, false))
		}
		sc.Threads = append(sc.Threads, prog)
		for g := 0; g < nOthers; g++ {
			var p []CBOp
			if g == 0 || rapid.IntRange(0, 2).Draw(t, "deleter") == 0 {
				p = append(p, CBOp{Kind: rapid.SampledFrom([]string{"del", "del", "del", "delcond", "walkdel"}).Draw(t, "delkind"), Path: pattern(t)})
			}
			k := rapid.IntRange(0, 3).Draw(t, "nops")
			for i := 0; i < k; i++ {
				p = append(p, anyOp(t, false))
			}
			if len(p) == 0 {
				p = append(p, anyOp(t, false))
			}
			sc.Threads = append(sc.Threads, p)
		}
		// the visit starts, the delete starts; then releases and further operations in a generated order
		sc.Steps = []GStep{{Kind: "run", T: 0}, {Kind: "run", T: 1}}
		sc.Steps = append(sc.Steps, rapid.SliceOfN(rapid.Custom(func(t *rapid.T) GStep {
			k := "run"
			if rapid.IntRange(0, 2).Draw(t, "release") == 0 {
				k = "rel"
			}
			return GStep{Kind: k, T: rapid.IntRange(0, nOthers).Draw(t, "t")}
		}), 1, 12).Draw(t, "steps")...)
		return sc
	default:
		for g := 0; g <= nOthers; g++ {
			var p []CBOp
			k := rapid.IntRange(1, 4).Draw(t, "nops")
			for i := 0; i < k; i++ {
				p = append(p, anyOp(t, true))
			}
			sc.Threads = append(sc.Threads, p)
		}
	}
	sc.Steps = []GStep{{Kind: "run", T: 0}}
	sc.Steps = append(sc.Steps, rapid.SliceOfN(rapid.Custom(func(t *rapid.T) GStep {
		k := "run"
		if rapid.IntRange(0, 5).Draw(t, "release") == 0 {
			k = "rel"
		}
		return GStep{Kind: k, T: rapid.IntRange(0, nOthers).Draw(t, "t")}
	}), 3, 18).Draw(t, "steps")...)
	return sc
}

// genCBMove: profile move-vs-conditional-delete (see the file comment).
func genCBMove(t *rapid.T, sc *CBScenario) *CBScenario {
	sc.Profile = "move-vs-conditional-delete"
	names := []string{"x", "y", "z", "v", "u"}[:rapid.IntRange(3, 5).Draw(t, "leaves")]
	// which leaves satisfy the condition (even) at the start: one, sometimes two
	match := map[int]bool{rapid.IntRange(0, len(names)-1).Draw(t, "matching"): true}
	if rapid.IntRange(0, 3).Draw(t, "second") == 0 {
		match[rapid.IntRange(0, len(names)-1).Draw(t, "matching2")] = true
	}
	for i, n := range names {
		sc.Init = append(sc.Init, CBInit{Path: []string{"a", n}, Odd: !match[i], Handle: true})
	}
	if rapid.IntRange(0, 2).Draw(t, "outside") == 0 {
		sc.Init = append(sc.Init, CBInit{Path: []string{"b", "x"}, Odd: rapid.Bool().Draw(t, "outsideodd"), Handle: rapid.Bool().Draw(t, "outsidehandle")})
	}
	main := CBOp{Kind: rapid.SampledFrom([]string{"delcond", "delcond", "walkdel"}).Draw(t, "main"),
		Path:   rapid.SampledFrom([][]string{{"a"}, {"a"}, {"a", "*"}, {}, {"*"}, {"*", "*"}}).Draw(t, "pattern"),
		ParkAt: rapid.SliceOfNDistinct(rapid.IntRange(1, 4), 1, 2, func(i int) int { return i }).Draw(t, "park_at")}
	sc.Threads = append(sc.Threads, []CBOp{main})
	write := func(t *rapid.T, sel string, odd bool) CBOp {
		return CBOp{Kind: rapid.SampledFrom([]string{"hupd", "hupd", "add"}).Draw(t, "via"), Sel: sel, Idx: rapid.IntRange(0, 3).Draw(t, "idx"), Odd: odd, Path: []string{"a", names[0]}}
	}
	var mover []CBOp
	switch rapid.IntRange(0, 5).Draw(t, "shape") {
	case 0, 1, 2: // make a kept leaf match, then make an uninspected leaf stop matching
		mover = []CBOp{write(t, "done", false), write(t, "unseen", true)}
	case 3: // the other order
		mover = []CBOp{write(t, "unseen", true), write(t, "done", false)}
	case 4: // the leaf under inspection is part of the move
		mover = []CBOp{write(t, rapid.SampledFrom([]string{"seen", "done"}).Draw(t, "sel"), false), write(t, "unseen", true), write(t, "unseen", rapid.Bool().Draw(t, "odd"))}
	default:
		k := rapid.IntRange(2, 4).Draw(t, "writes")
		for i := 0; i < k; i++ {
			mover = append(mover, write(t, rapid.SampledFrom([]string{"seen", "done", "done", "unseen", "unseen", "abs"}).Draw(t, "sel"), rapid.Bool().Draw(t, "odd")))
		}
	}
	sc.Threads = append(sc.Threads, mover)
	nThreads := 2
	if rapid.IntRange(0, 2).Draw(t, "third") == 0 {
		// a reader or a second writer
		var p []CBOp
		for i, k := 0, rapid.IntRange(1, 2).Draw(t, "nops"); i < k; i++ {
			switch rapid.IntRange(0, 3).Draw(t, "thirdop") {
			case 0:
				p = append(p, CBOp{Kind: "hval", Sel: rapid.SampledFrom([]string{"done", "unseen"}).Draw(t, "sel"), Idx: rapid.IntRange(0, 3).Draw(t, "idx")})
			case 1:
				p = append(p, CBOp{Kind: "glv", Path: []string{"a", rapid.SampledFrom(names).Draw(t, "name")}})
			case 2:
				p = append(p, write(t, rapid.SampledFrom([]string{"done", "unseen"}).Draw(t, "sel"), rapid.Bool().Draw(t, "odd")))
			default:
				p = append(p, CBOp{Kind: "query", Path: []string{"a"}})
			}
		}
		sc.Threads = append(sc.Threads, p)
		nThreads = 3
	}
	// the delete starts (and parks); the mover's writes; then releases and whatever else, in a generated order
	sc.Steps = []GStep{{Kind: "run", T: 0}}
	for range mover {
		sc.Steps = append(sc.Steps, GStep{Kind: "run", T: 1})
		if nThreads == 3 && rapid.IntRange(0, 3).Draw(t, "interleave") == 0 {
			sc.Steps = append(sc.Steps, GStep{Kind: "run", T: 2})
		}
	}
	sc.Steps = append(sc.Steps, rapid.SliceOfN(rapid.Custom(func(t *rapid.T) GStep {
		k := "run"
		if rapid.IntRange(0, 1).Draw(t, "release") == 0 {
			k = "rel"
		}
		return GStep{Kind: k, T: rapid.IntRange(0, nThreads-1).Draw(t, "t")}
	}), 1, 8).Draw(t, "steps")...)
	return sc
}
