package ctreeprop

// C10: recorded histories of ctree operations and the oracles that judge them.
//
// A history is plain data: every operation with its invocation and response
// stamp (both drawn from one counter) and its result. The same judge is used
// by the gate part (deterministic schedules, stamps = step numbers), by the
// free-running stress part (stamps from one atomic counter) and by replays.
//
// Oracles
//
//	(1) linearizability (porcupine) of the point operations and deletes — and of
//	    every snapshot taken in isolation (gate part, final walk) — against a
//	    sequential model in which every leaf is a node object with an identity:
//	      tree:   path -> generation        (the node currently filed there)
//	      node:   generation -> value       (also for nodes no longer filed)
//	      handle: id -> generation | nil | branch
//	    Add on a filed path writes the filed node (generation kept); Add on a
//	    free path files a new node; Add fails, changing nothing, iff a proper
//	    prefix is filed or the path is interior. Delete(pattern[,cond]) unfiles
//	    exactly the matching (and condition-satisfying) leaves in one step and
//	    returns them. GetLeaf binds a handle to the node filed at that moment;
//	    Update/Value through a handle act on that node whether or not it is
//	    still filed (an update through a stale handle is therefore invisible in
//	    the tree). GetLeafValue(p) is GetLeaf(p) followed by Value() inside one
//	    invocation interval (the code takes the locks twice).
//	(2) interval rule for Query/Walk that ran concurrently with other operations.
//	(3) the content after all operations finished is the model state after the
//	    linearization: the final walk is the last operation of the history.
//	(4) clauses that need no model (c10_rdatomic_test.go): no value of a type
//	    nobody stored is ever handed out; a Query/Walk/WalkSorted reports all or
//	    nothing of the leaves ONE overlapping delete removed (as far as no third
//	    operation touched them meanwhile); WalkSorted reports in sorted order.
import (
	"fmt"
	"sort"
	"strings"
	"time"

	"github.com/anishathalye/porcupine"
	"github.com/openconfig/gnmi/ctree"
)

// KV is one reported leaf.
type KV struct {
	P []string `json:"p"`
	V int      `json:"v"`
}

// HOp is one recorded operation. Values are positive ints; 0 stands for nil.
//
// Kind: add glv getleaf hval hupd query walk del delcond walkdel final, and the
// node accessors of c10_access_test.go: children isbranch (on the root or on the
// node Get(Path) returns) and nkids nisbr nval nstr nwalk (on a retained node H)
type HOp struct {
	G    int      `json:"g"`
	Kind string   `json:"kind"`
	Path []string `json:"path,omitempty"` // exact path or pattern; for hval/hupd the path the handle was taken at
	Val  int      `json:"val,omitempty"`  // add, hupd: value written
	Nil  bool     `json:"nil,omitempty"`  // add: the value written is nil (Val is 0); judged by the differential oracle only
	H    int      `json:"h,omitempty"`    // getleaf binds handle H; hval/hupd use it
	Call int64    `json:"call"`
	Ret  int64    `json:"ret"`

	Err   string     `json:"err,omitempty"`   // add: error text ("" = nil)
	Got   int        `json:"got,omitempty"`   // glv, hval
	Node  string     `json:"node,omitempty"`  // getleaf: nil | leaf | branch
	Paths [][]string `json:"paths,omitempty"` // del, delcond
	Vals  []int      `json:"vals,omitempty"`  // walkdel
	KV    []KV       `json:"kv,omitempty"`    // query, walk, final

	// Atomic: the query/walk ran while no other goroutine was running (gate
	// part): it is a snapshot and takes part in the linearizability check.
	Atomic bool `json:"atomic,omitempty"`
	// Parked: (gate part) the add was held at ctree.add.upgrade below ParkNode.
	Parked   bool     `json:"parked,omitempty"`
	ParkNode []string `json:"park_node,omitempty"`

	// Sorted: (walk) the walk is WalkSorted; KV is in the order of the visits.
	Sorted bool `json:"sorted,omitempty"`
	// Yield: (query, walk) the visitor yields the processor that many times after
	// every reported leaf (a scheduling device: it widens the visit, decides nothing).
	Yield int `json:"yield,omitempty"`
	// Foreign: the tree handed out a value of a type nobody ever stored (recorded
	// as -1 where it was observed): where and which type.
	Foreign string `json:"foreign,omitempty"`

	// The accessor dimension (c10_access_test.go).
	//
	// Via: which exported method made the observation where several map to one Kind:
	//   glv   ""       GetLeafValue(Path)
	//         "value"  Get(Path) followed by (*Tree).Value() (on the root: tr.Value())
	//   walk  ""       Walk / WalkSorted
	//         "string" String(), parsed back into leaves (Sorted is set: the keys of
	//                  every level are documented to come out sorted)
	Via string `json:"via,omitempty"`
	// Base: (glv, getleaf, query; walk: len(Path)) the method is invoked on the
	// sub-tree node n = Get(Path[:Base]) looked up inside the operation's interval,
	// with Path[Base:] as its argument; reported paths are made absolute. 0 = on the root.
	Base int `json:"base,omitempty"`
	// Names: (children, nkids) the child names returned, sorted; Node is "map" or,
	// when Children returned nil, "nil". (isbranch, nisbr) Node is "branch" or "other".
	Names []string `json:"names,omitempty"`
	// Dyn: (del) the path is the Dyn-th name (1-based) the Children call of the same
	// goroutine that precedes it returned: the cache's Reset idiom
	// `for name := range t.Children() { t.Delete([]string{name}) }`. Path holds what was deleted.
	Dyn int `json:"dyn,omitempty"`

	// nd: (getleaf) the node the lookup returned, whatever its kind (not recorded).
	nd *ctree.Tree
}

// History is the replayable unit of the stress part.
type History struct {
	Seed    int64  `json:"seed,omitempty"`
	Index   int    `json:"index,omitempty"`
	Workers int    `json:"workers,omitempty"`
	Ops     []HOp  `json:"ops"`
	Panic   string `json:"panic,omitempty"`
	// RaceReport is set when the violation is a race-detector report that was
	// written while this history ran.
	RaceReport string `json:"race_report,omitempty"`
	Note       string `json:"note,omitempty"`
	// Start: (burst part) what the racers found: "empty" | "populated" (labels only).
	Start string `json:"start,omitempty"`
}

func (o *HOp) String() string {
	var b strings.Builder
	fmt.Fprintf(&b, "g%d[%d,%d] ", o.G, o.Call, o.Ret)
	switch o.Kind {
	case "add":
		if o.Nil {
			fmt.Fprintf(&b, "Add(%q,nil)", o.Path)
		} else {
			fmt.Fprintf(&b, "Add(%q,%d)", o.Path, o.Val)
		}
		if o.Err != "" {
			b.WriteString("=error")
		} else {
			b.WriteString("=nil")
		}
		if o.Parked {
			fmt.Fprintf(&b, " (parked below %q)", o.ParkNode)
		}
	case "glv":
		switch {
		case o.Via == "value" && len(o.Path) == 0:
			fmt.Fprintf(&b, "root.Value()=%s", vstr(o.Got))
		case o.Via == "value":
			fmt.Fprintf(&b, "Get(%q).Value()=%s", o.Path, vstr(o.Got))
		case o.Base > 0:
			fmt.Fprintf(&b, "Get(%q).GetLeafValue(%q)=%s", o.Path[:o.Base], o.Path[o.Base:], vstr(o.Got))
		default:
			fmt.Fprintf(&b, "GetLeafValue(%q)=%s", o.Path, vstr(o.Got))
		}
	case "getleaf":
		if o.Base > 0 {
			fmt.Fprintf(&b, "h%d:=Get(%q).GetLeaf(%q)=%s", o.H, o.Path[:o.Base], o.Path[o.Base:], o.Node)
		} else {
			fmt.Fprintf(&b, "h%d:=GetLeaf(%q)=%s", o.H, o.Path, o.Node)
		}
	case "children", "isbranch", "nkids", "nisbr", "nval", "nstr", "nwalk":
		b.WriteString(o.accessString())
		if o.Foreign != "" {
			fmt.Fprintf(&b, " (%s)", o.Foreign)
		}
	case "hval":
		fmt.Fprintf(&b, "h%d@%q.Value()=%s", o.H, o.Path, vstr(o.Got))
	case "hupd":
		fmt.Fprintf(&b, "h%d@%q.Update(%d)", o.H, o.Path, o.Val)
	case "query", "walk", "final":
		switch {
		case o.Via == "string" && len(o.Path) == 0:
			fmt.Fprintf(&b, "root.String()=%s", kvstr(o.KV))
		case o.Via == "string":
			fmt.Fprintf(&b, "Get(%q).String()=%s", o.Path, kvstr(o.KV))
		case o.Kind == "query" && o.Base > 0:
			fmt.Fprintf(&b, "Get(%q).Query(%q)=%s", o.Path[:o.Base], o.Path[o.Base:], kvstr(o.KV))
		case o.Kind == "walk" && len(o.Path) > 0:
			fmt.Fprintf(&b, "Get(%q).%s()=%s", o.Path, visitKind(o), kvstr(o.KV))
		default:
			fmt.Fprintf(&b, "%s(%q)=%s", visitKind(o), o.Path, kvstr(o.KV))
		}
		if o.Foreign != "" {
			fmt.Fprintf(&b, " (%s)", o.Foreign)
		}
	case "del", "delcond":
		fmt.Fprintf(&b, "%s(%q)=%q", o.Kind, o.Path, o.Paths)
	case "walkdel":
		fmt.Fprintf(&b, "walkdel(%q,even)=%v", o.Path, o.Vals)
	default:
		fmt.Fprintf(&b, "%s(%q)", o.Kind, o.Path)
	}
	return b.String()
}

func vstr(v int) string {
	if v == 0 {
		return "nil"
	}
	return fmt.Sprint(v)
}

func kvstr(kv []KV) string {
	s := make([]string, len(kv))
	for i, e := range kv {
		s[i] = fmt.Sprintf("%s=%d", strings.Join(e.P, "/"), e.V)
	}
	sort.Strings(s)
	return "{" + strings.Join(s, " ") + "}"
}

func isDelKind(k string) bool   { return k == "del" || k == "delcond" || k == "walkdel" }
func isQueryKind(k string) bool { return k == "query" || k == "walk" || k == "final" }

// ---- compiled form -----------------------------------------------------------------------------

const (
	kAdd = iota
	kBind
	kRead
	kGLV // GetLeafValue as one atomic step (strong model, see judge)
	kRootVal
	kUpd
	kDel
	kWalkDel
	kSnap
)

// handle cell encoding inside the state vector
const (
	hUnbound  = 0
	hNil      = 1
	hBranch   = 2
	hDead     = 3
	hAttached = 4 // designates the node currently filed at the handle's path
	hDetached = 5 // hDetached+k: designates an unfiled node; k = smallest live handle on that node
)

type cop struct {
	kind    int
	src     int // index into History.Ops
	p       int // path id
	match   []int
	val     uint16 // value id written
	h       int    // handle index
	cond    bool   // condition "even"
	lastUse bool   // no later operation uses handle h
	// recorded results
	err     bool
	got     uint16
	node    int // -1 unknown, else hNil/hBranch/hAttached(leaf)
	outSet  []int
	outVals []uint16
	outKV   [][2]int // (path id, value id), sorted by path id
	bad     string   // the recorded result can never be legal (why)
}

type compiled struct {
	h        *History
	strong   bool // GetLeafValue is one atomic step
	paths    [][]string
	pathID   map[string]int
	pre, sub [][]int // proper prefixes / proper extensions inside the universe
	valOf    []int   // value id -> value
	valID    map[int]uint16
	even     []bool
	nHnd     int
	hpath    []int   // handle -> path id
	hat      [][]int // path id -> handles taken there (ascending)
	ops      []*cop
}

func (c *compiled) pid(p []string) int {
	k := key(p)
	if id, ok := c.pathID[k]; ok {
		return id
	}
	id := len(c.paths)
	c.pathID[k] = id
	c.paths = append(c.paths, append([]string{}, p...))
	return id
}

func (c *compiled) vid(v int) uint16 {
	if v == 0 {
		return 0
	}
	if id, ok := c.valID[v]; ok {
		return id
	}
	id := uint16(len(c.valOf))
	c.valID[v] = id
	c.valOf = append(c.valOf, v)
	c.even = append(c.even, v%2 == 0)
	return id
}

// compile indexes the history. strong: GetLeafValue is modelled as one atomic
// read (accepts a subset of what the exact two-step model accepts).
func compile(h *History, strong bool) (*compiled, error) {
	c := &compiled{h: h, strong: strong, pathID: map[string]int{}, valID: map[int]uint16{}, valOf: []int{0}, even: []bool{false}}
	if len(h.Ops) > 20000 {
		return nil, fmt.Errorf("history too long (%d ops)", len(h.Ops))
	}
	// universe of exact paths
	for i := range h.Ops {
		o := &h.Ops[i]
		switch o.Kind {
		case "add", "glv", "getleaf", "hval", "hupd":
			c.pid(o.Path)
		}
		for _, p := range o.Paths {
			c.pid(p)
		}
		for _, e := range o.KV {
			c.pid(e.P)
		}
		if o.Kind == "add" || o.Kind == "hupd" {
			c.vid(o.Val)
		}
	}
	n := len(c.paths)
	c.pre, c.sub = make([][]int, n), make([][]int, n)
	for i := 0; i < n; i++ {
		for j := 0; j < n; j++ {
			if isProperPrefix(c.paths[i], c.paths[j]) {
				c.pre[j] = append(c.pre[j], i)
				c.sub[i] = append(c.sub[i], j)
			}
		}
	}
	c.hat = make([][]int, n)
	matchOf := func(pat []string) []int {
		var m []int
		for i, p := range c.paths {
			if Matches(pat, p) {
				m = append(m, i)
			}
		}
		return m
	}
	hidx := map[int]int{}
	newH := func(p int) int {
		c.nHnd++
		c.hpath = append(c.hpath, p)
		c.hat[p] = append(c.hat[p], c.nHnd-1)
		return c.nHnd - 1
	}
	lastUse := map[int]*cop{}
	uses := map[int][]*cop{} // every operation on a GetLeaf handle
	// program order = order of Call inside one goroutine; process in Call order
	order := make([]int, len(h.Ops))
	for i := range order {
		order[i] = i
	}
	sort.SliceStable(order, func(a, b int) bool { return h.Ops[order[a]].Call < h.Ops[order[b]].Call })
	for _, i := range order {
		o := &h.Ops[i]
		if o.Ret < o.Call {
			return nil, fmt.Errorf("op %d returns before it is called", i)
		}
		if o.Nil {
			// a leaf holding nil is an "empty node" (Walk reports it, Query and Delete
			// skip it, an Add may turn it into a branch): outside this model
			return nil, fmt.Errorf("op %d stores the value nil: such histories are judged by the differential oracle only", i)
		}
		switch o.Kind {
		case "add":
			c.ops = append(c.ops, &cop{kind: kAdd, src: i, p: c.pid(o.Path), val: c.vid(o.Val), err: o.Err != ""})
		case "glv":
			got, bad := c.obsVal(o.Got)
			if len(o.Path) == 0 {
				c.ops = append(c.ops, &cop{kind: kRootVal, src: i, p: c.pid(o.Path), got: got, bad: bad})
				break
			}
			if strong {
				c.ops = append(c.ops, &cop{kind: kGLV, src: i, p: c.pid(o.Path), got: got, bad: bad})
				break
			}
			hx := newH(c.pid(o.Path))
			c.ops = append(c.ops, &cop{kind: kBind, src: i, p: c.pid(o.Path), h: hx, node: -1})
			c.ops = append(c.ops, &cop{kind: kRead, src: i, h: hx, got: got, bad: bad, lastUse: true})
		case "getleaf":
			if _, dup := hidx[o.H]; dup {
				return nil, fmt.Errorf("op %d binds handle %d a second time", i, o.H)
			}
			hx := newH(c.pid(o.Path))
			hidx[o.H] = hx
			node := map[string]int{"nil": hNil, "leaf": hAttached, "branch": hBranch}[o.Node]
			if node == 0 {
				return nil, fmt.Errorf("op %d: unknown node kind %q", i, o.Node)
			}
			co := &cop{kind: kBind, src: i, p: c.pid(o.Path), h: hx, node: node, lastUse: true}
			lastUse[hx] = co
			uses[hx] = append(uses[hx], co)
			c.ops = append(c.ops, co)
		case "hval", "hupd":
			hx, ok := hidx[o.H]
			if !ok {
				return nil, fmt.Errorf("op %d uses handle %d before any GetLeaf bound it", i, o.H)
			}
			if lastUse[hx].kind == kBind && lastUse[hx].node != hAttached {
				return nil, fmt.Errorf("op %d uses handle %d which is not a leaf handle", i, o.H)
			}
			lastUse[hx].lastUse = false
			var co *cop
			if o.Kind == "hval" {
				got, bad := c.obsVal(o.Got)
				co = &cop{kind: kRead, src: i, h: hx, got: got, bad: bad, lastUse: true}
			} else {
				co = &cop{kind: kUpd, src: i, h: hx, val: c.vid(o.Val), lastUse: true}
			}
			lastUse[hx] = co
			uses[hx] = append(uses[hx], co)
			c.ops = append(c.ops, co)
		case "del", "delcond":
			co := &cop{kind: kDel, src: i, match: matchOf(o.Path), cond: o.Kind == "delcond"}
			seen := map[int]bool{}
			for _, p := range o.Paths {
				id := c.pid(p)
				if seen[id] {
					co.bad = fmt.Sprintf("returned %q twice", p)
				}
				seen[id] = true
				co.outSet = append(co.outSet, id)
			}
			sort.Ints(co.outSet)
			c.ops = append(c.ops, co)
		case "walkdel":
			co := &cop{kind: kWalkDel, src: i, match: matchOf(o.Path), cond: true}
			for _, v := range o.Vals {
				id, bad := c.obsVal(v)
				if bad != "" {
					co.bad = bad
				}
				co.outVals = append(co.outVals, id)
			}
			sort.Slice(co.outVals, func(a, b int) bool { return co.outVals[a] < co.outVals[b] })
			c.ops = append(c.ops, co)
		case "children", "isbranch", "nkids", "nisbr", "nval", "nstr", "nwalk":
			continue // judged by the accessor rules (c10_access_test.go) and the differential oracle
		case "query", "walk", "final":
			if !o.Atomic && o.Kind != "final" {
				continue // judged by the interval rule only
			}
			co := &cop{kind: kSnap, src: i, match: matchOf(o.Path)}
			seen := map[int]bool{}
			for _, e := range o.KV {
				id := c.pid(e.P)
				if seen[id] {
					co.bad = fmt.Sprintf("reported %q twice", e.P)
				}
				seen[id] = true
				v, bad := c.obsVal(e.V)
				if bad != "" {
					co.bad = bad
				}
				co.outKV = append(co.outKV, [2]int{id, int(v)})
			}
			sort.Slice(co.outKV, func(a, b int) bool { return co.outKV[a][0] < co.outKV[b][0] })
			c.ops = append(c.ops, co)
		default:
			return nil, fmt.Errorf("op %d: unknown kind %q", i, o.Kind)
		}
	}
	// Retiring a handle with its last use keeps the state canonical. "Last" must
	// hold in every legal order: when a handle is shared by several goroutines and
	// another use did not return before the last-called one began, either may come
	// last and the handle is simply never retired.
	for hx, last := range lastUse {
		for _, u := range uses[hx] {
			if u != last && !(h.Ops[u.src].Ret < h.Ops[last.src].Call) {
				last.lastUse = false
			}
		}
	}
	if c.nHnd+hDetached > 65000 || len(c.valOf) > 65000 {
		return nil, fmt.Errorf("history too large for the 16-bit state encoding")
	}
	return c, nil
}

// obsVal maps an observed value to its id; a value nobody wrote cannot be legal.
func (c *compiled) obsVal(v int) (uint16, string) {
	if v == 0 {
		return 0, ""
	}
	id, ok := c.valID[v]
	if !ok {
		return 0, fmt.Sprintf("value %d was never written by any operation", v)
	}
	return id, ""
}

// ---- the sequential model ---------------------------------------------------------------------

// lstate is the model state, immutable once built:
//
//	tv[path]   value filed at the path (0 = no leaf)
//	hc[handle] what the handle designates (see the h* constants)
//	hv[handle] value of the unfiled node whose smallest live handle this is
//
// Node identity ("generation") is not numbered: all handles attached at a path
// designate the node filed there now; a delete moves them, as one group, to an
// unfiled node that keeps the value and stays writable and readable through
// them; a later Add files a new node that none of them designates. A node
// without live handles is dropped, so equal futures mean equal states.
type lstate struct {
	a    []uint16
	hash uint64
}

func (c *compiled) offHC() int { return len(c.paths) }
func (c *compiled) offHV() int { return len(c.paths) + c.nHnd }

//go:norace
func mkState(a []uint16) *lstate {
	h := uint64(14695981039346656037)
	for _, x := range a {
		h ^= uint64(x)
		h *= 1099511628211
	}
	return &lstate{a, h}
}

func (c *compiled) init() *lstate {
	return mkState(make([]uint16, len(c.paths)+2*c.nHnd))
}

//go:norace
func (s *lstate) clone() []uint16 { return append([]uint16(nil), s.a...) }

//go:norace
func (c *compiled) interior(a []uint16, p int) bool {
	for _, q := range c.sub[p] {
		if a[q] != 0 {
			return true
		}
	}
	return false
}

//go:norace
func (c *compiled) addOK(a []uint16, p int) bool {
	for _, q := range c.pre[p] {
		if a[q] != 0 {
			return false
		}
	}
	return !c.interior(a, p)
}

// retire ends the life of handle h in n (a private copy).
//
//go:norace
func (c *compiled) retire(n []uint16, h int) {
	hc, hv := c.offHC(), c.offHV()
	cell := n[hc+h]
	n[hc+h] = hDead
	if cell < hDetached || int(cell-hDetached) != h {
		return
	}
	// h led a group of handles on an unfiled node: hand the node to the next one
	v := n[hv+h]
	n[hv+h] = 0
	next := -1
	for _, k := range c.hat[c.hpath[h]] {
		if n[hc+k] == cell {
			if next < 0 {
				next = k
				n[hv+k] = v
			}
			n[hc+k] = uint16(hDetached + next)
		}
	}
}

// unfile removes the leaf at p in n (a private copy), detaching its handles.
//
//go:norace
func (c *compiled) unfile(n []uint16, p int) {
	hc, hv := c.offHC(), c.offHV()
	lead := -1
	for _, k := range c.hat[p] {
		if n[hc+k] == hAttached {
			if lead < 0 {
				lead = k
				n[hv+k] = n[p]
			}
			n[hc+k] = uint16(hDetached + lead)
		}
	}
	n[p] = 0
}

// step is the sequential specification; it never mutates s.
//
//go:norace
func (c *compiled) step(s *lstate, o *cop) (bool, *lstate) {
	if o.bad != "" {
		return false, s
	}
	a := s.a
	hc, hv := c.offHC(), c.offHV()
	switch o.kind {
	case kAdd:
		ok := c.addOK(a, o.p)
		if ok == o.err {
			return false, s
		}
		if !ok || a[o.p] == o.val {
			return true, s
		}
		n := s.clone()
		n[o.p] = o.val
		return true, mkState(n)
	case kBind:
		cell := uint16(hNil)
		switch {
		case a[o.p] != 0:
			cell = hAttached
		case c.interior(a, o.p):
			cell = hBranch
		}
		if o.node >= 0 && int(cell) != o.node {
			return false, s
		}
		if o.lastUse {
			cell = hDead
		}
		n := s.clone()
		n[hc+o.h] = cell
		return true, mkState(n)
	case kRead, kUpd:
		cell := a[hc+o.h]
		var at int
		switch {
		case cell == hUnbound || cell == hDead:
			return false, s // the lookup has not happened yet
		case cell == hAttached:
			at = c.hpath[o.h]
		case cell >= hDetached:
			at = hv + int(cell-hDetached)
		default: // nil or branch: reads nil (GetLeafValue); the harness never writes through it
			if o.kind == kUpd {
				return false, s
			}
			at = -1
		}
		if o.kind == kRead {
			var want uint16
			if at >= 0 {
				want = a[at]
			}
			if want != o.got {
				return false, s
			}
			if !o.lastUse {
				return true, s
			}
		}
		n := s.clone()
		if o.kind == kUpd {
			n[at] = o.val
		}
		if o.lastUse {
			c.retire(n, o.h)
		}
		return true, mkState(n)
	case kGLV, kRootVal:
		return a[o.p] == o.got, s
	case kDel, kWalkDel:
		var rm []int
		for _, p := range o.match {
			if v := a[p]; v != 0 && (!o.cond || c.even[v]) {
				rm = append(rm, p)
			}
		}
		if o.kind == kDel {
			if len(rm) != len(o.outSet) {
				return false, s
			}
			for i := range rm {
				if rm[i] != o.outSet[i] {
					return false, s
				}
			}
		} else {
			if len(rm) != len(o.outVals) {
				return false, s
			}
			vs := make([]uint16, len(rm))
			for i, p := range rm {
				vs[i] = a[p]
			}
			sort.Slice(vs, func(i, j int) bool { return vs[i] < vs[j] })
			for i := range vs {
				if vs[i] != o.outVals[i] {
					return false, s
				}
			}
		}
		if len(rm) == 0 {
			return true, s
		}
		n := s.clone()
		for _, p := range rm {
			c.unfile(n, p)
		}
		return true, mkState(n)
	case kSnap:
		i := 0
		for _, p := range o.match {
			v := a[p]
			if v == 0 {
				continue
			}
			if i >= len(o.outKV) || o.outKV[i][0] != p || o.outKV[i][1] != int(v) {
				return false, s
			}
			i++
		}
		return i == len(o.outKV), s
	}
	return false, s
}

func (c *compiled) content(s *lstate) string {
	var kv []KV
	for p, v := range s.a[:len(c.paths)] {
		if v != 0 {
			kv = append(kv, KV{c.paths[p], c.valOf[v]})
		}
	}
	return kvstr(kv)
}

//go:norace
func stateEqual(x, y interface{}) bool {
	a, b := x.(*lstate), y.(*lstate)
	if a == b {
		return true
	}
	if a.hash != b.hash || len(a.a) != len(b.a) {
		return false
	}
	for i := range a.a {
		if a.a[i] != b.a[i] {
			return false
		}
	}
	return true
}

func (c *compiled) model() porcupine.Model {
	return porcupine.Model{
		Init: func() interface{} { return c.init() },
		Step: func(state, in, out interface{}) (bool, interface{}) {
			ok, n := c.step(state.(*lstate), in.(*cop))
			return ok, n
		},
		Equal: stateEqual,
		Hash:  func(x interface{}) uint64 { return x.(*lstate).hash },
	}
}

// tscale spreads the recorded stamps so that derived order can be expressed
// between them: invocation stamp t becomes 2*t*tscale, response stamp t becomes
// 2*t*tscale+tscale (a response and an invocation with the same stamp stay
// concurrent, as porcupine's closed intervals have it).
const tscale = int64(1) << 20

// operations renders the history for porcupine. The intervals are narrowed by
// order that every legal sequential explanation must have anyway (values are
// written once, so a value identifies its writer):
//
//	A  an operation that observed value v comes after the operation that wrote v;
//	B  an operation R that saw v filed at path p (atomic GetLeafValue of the
//	   strong model, snapshot, WalkDeleted) has no other successful Add of p and
//	   no delete that removed p between v's writer and itself: such an operation
//	   X comes after R if it began after the writer had returned, and before the
//	   writer if it returned before R began;
//	C  an operation R that saw no leaf at p (nil lookup, unconditional delete or
//	   snapshot whose pattern matches p without reporting it) comes before a
//	   successful Add W of p that did not return before R began, provided every
//	   delete that removed p returned before W began or began after R returned
//	   (nothing could have removed W's leaf again in time).
//
// "X before Y" narrows X's response to Y's and Y's invocation to X's. The
// narrowed history has exactly the same linearizations; porcupine, which tries
// pending operations in invocation order, no longer applies an overwrite before
// a read of the old value and then searches exponentially for the way back.
// Inconsistent constraints (possible only for an illegal history) are dropped
// and the plain intervals judged.
func (c *compiled) operations() []porcupine.Operation {
	n := len(c.ops)
	call, ret := make([]int64, n), make([]int64, n)
	plain := func() {
		for i, o := range c.ops {
			src := &c.h.Ops[o.src]
			call[i], ret[i] = 2*src.Call*tscale, 2*src.Ret*tscale+tscale
		}
	}
	plain()
	if !c.narrow(call, ret) {
		plain()
	}
	out := make([]porcupine.Operation, n)
	for i, o := range c.ops {
		out[i] = porcupine.Operation{ClientId: c.h.Ops[o.src].G, Input: o, Output: o, Call: call[i], Return: ret[i]}
	}
	return out
}

func (c *compiled) narrow(call, ret []int64) bool {
	n := len(c.ops)
	writer := make([]int, len(c.valOf)) // value id -> op index, -1 none, -2 several
	wpath := make([]int, len(c.valOf))
	for i := range writer {
		writer[i] = -1
	}
	adds := make([][]int, len(c.paths))     // successful adds per path
	removers := make([][]int, len(c.paths)) // deletes that removed the path
	for i, o := range c.ops {
		switch o.kind {
		case kAdd, kUpd:
			if o.kind == kAdd && o.err {
				continue
			}
			p := o.p
			if o.kind == kUpd {
				p = c.hpath[o.h]
			} else {
				adds[p] = append(adds[p], i)
			}
			if writer[o.val] == -1 {
				writer[o.val], wpath[o.val] = i, p
			} else {
				writer[o.val] = -2
			}
		case kDel:
			for _, p := range o.outSet {
				removers[p] = append(removers[p], i)
			}
		}
	}
	for i, o := range c.ops {
		if o.kind == kWalkDel {
			for _, v := range o.outVals {
				if writer[v] >= 0 {
					removers[wpath[v]] = append(removers[wpath[v]], i)
				}
			}
		}
	}
	type obs struct{ r, w, p int }
	var seen []obs   // r saw the value written by w filed at p
	var absent []obs // r saw no leaf at p (w unused)
	type edge struct{ x, y int }
	edges := map[edge]bool{}
	for i, o := range c.ops {
		var vals []uint16
		inTree := false
		switch o.kind {
		case kRead:
			vals = []uint16{o.got}
		case kGLV, kRootVal:
			vals, inTree = []uint16{o.got}, true
			if o.got == 0 {
				absent = append(absent, obs{r: i, p: o.p})
			}
		case kBind:
			if o.node == hNil {
				absent = append(absent, obs{r: i, p: o.p})
			}
		case kWalkDel:
			vals, inTree = o.outVals, true
		case kDel:
			if !o.cond {
				k := 0
				for _, p := range o.match {
					if k < len(o.outSet) && o.outSet[k] == p {
						k++
					} else {
						absent = append(absent, obs{r: i, p: p})
					}
				}
			}
		case kSnap:
			inTree = true
			k := 0
			for _, p := range o.match {
				if k < len(o.outKV) && o.outKV[k][0] == p {
					vals = append(vals, uint16(o.outKV[k][1]))
					k++
				} else {
					absent = append(absent, obs{r: i, p: p})
				}
			}
		}
		for _, v := range vals {
			if v == 0 || writer[v] < 0 {
				continue
			}
			edges[edge{writer[v], i}] = true // rule A
			if inTree {
				seen = append(seen, obs{i, writer[v], wpath[v]})
			}
		}
	}
	for round := 0; ; round++ {
		if round > n+2 {
			return false
		}
		// propagate
		for changed, it := true, 0; changed; it++ {
			if it > n+2 {
				return false // cyclic
			}
			changed = false
			for e := range edges {
				if call[e.y] <= call[e.x] {
					call[e.y] = call[e.x] + 1
					changed = true
				}
				if ret[e.x] >= ret[e.y] {
					ret[e.x] = ret[e.y] - 1
					changed = true
				}
			}
		}
		for i := range call {
			if call[i] > ret[i] {
				return false
			}
		}
		// rules B and C with the intervals as narrowed so far
		grew := false
		put := func(e edge) {
			if !edges[e] {
				edges[e] = true
				grew = true
			}
		}
		for _, s := range seen {
			for _, list := range [][]int{adds[s.p], removers[s.p]} {
				for _, x := range list {
					if x == s.w || x == s.r {
						continue
					}
					switch {
					case ret[s.w] < call[x]:
						put(edge{s.r, x})
					case ret[x] < call[s.r]:
						put(edge{x, s.w})
					}
				}
			}
		}
		for _, s := range absent {
		nextAdd:
			for _, w := range adds[s.p] {
				if w == s.r || ret[w] < call[s.r] {
					continue // then some delete lies between them; nothing to derive
				}
				for _, d := range removers[s.p] {
					if d != s.r && !(ret[d] < call[w] || ret[s.r] < call[d]) {
						continue nextAdd
					}
				}
				put(edge{s.r, w})
			}
		}
		if !grew {
			return true
		}
	}
}

// ---- verdict ---------------------------------------------------------------------------------

type hverdict struct {
	class, msg   string // "" = held
	inconclusive string
	linTime      time.Duration
	linOps       int
	twoStep      bool // the exact two-step GetLeafValue model had to be consulted
	partitioned  bool // judged on the per-subtree projections (whole-history check timed out)
}

func hasKind(h *History, k string) bool {
	for i := range h.Ops {
		if h.Ops[i].Kind == k {
			return true
		}
	}
	return false
}

// linCheck runs porcupine: first with the strong model (GetLeafValue atomic) —
// whatever that explains the exact model explains too (run the lookup and the
// read back to back) — and, when the strong model says Illegal, with the exact
// two-step model, which alone can call a history illegal.
func linCheck(h *History, timeout time.Duration) (res porcupine.CheckResult, c *compiled, ops []porcupine.Operation, twoStep bool, err error) {
	if c, err = compile(h, true); err != nil {
		return porcupine.Unknown, nil, nil, false, err
	}
	ops = c.operations()
	res = porcupine.CheckOperationsTimeout(c.model(), ops, timeout)
	if res == porcupine.Illegal && hasKind(h, "glv") {
		if c, err = compile(h, false); err != nil {
			return porcupine.Unknown, nil, nil, true, err
		}
		ops = c.operations()
		res = porcupine.CheckOperationsTimeout(c.model(), ops, timeout)
		twoStep = true
	}
	return res, c, ops, twoStep, nil
}

// partitionHistory projects a history onto the subtrees below the root's
// children. Operations on an exact path, and deletes whose pattern starts with
// a literal element, belong to one subtree; deletes that start with a glob (or
// are empty) and the final walk are projected onto every subtree: pattern kept,
// result restricted to the subtree. The model state is a product over the
// subtrees and every operation acts component-wise, so the projections of a
// legal sequential history are legal: a history is linearizable only if every
// projection is (the converse would also need the projections of one delete to
// take effect at the same instant, which this weaker check does not demand).
// ok=false: the history contains operations on the root path itself, or
// snapshots, which do not project.
func partitionHistory(h *History) (parts map[string]*History, ok bool) {
	parts = map[string]*History{}
	part := func(x string) *History {
		if parts[x] == nil {
			parts[x] = &History{Seed: h.Seed, Index: h.Index, Workers: h.Workers, Note: "projection onto subtree " + x}
		}
		return parts[x]
	}
	valPart := map[int]string{}
	for i := range h.Ops {
		o := &h.Ops[i]
		switch o.Kind {
		case "add", "glv", "getleaf", "hval", "hupd":
			if o.Kind == "glv" && len(o.Path) == 0 && o.Got == 0 {
				continue // the root holds no value: true of every projection, left out of them
			}
			if len(o.Path) == 0 {
				return nil, false
			}
			part(o.Path[0])
			if o.Kind == "add" || o.Kind == "hupd" {
				valPart[o.Val] = o.Path[0]
			}
		case "query", "walk":
			if o.Atomic {
				return nil, false
			}
		}
		for _, p := range o.Paths {
			if len(p) == 0 {
				return nil, false
			}
			part(p[0])
		}
		for _, e := range o.KV {
			if len(e.P) == 0 {
				return nil, false
			}
			part(e.P[0])
		}
	}
	for i := range h.Ops {
		o := h.Ops[i]
		switch {
		case o.Kind == "query" || o.Kind == "walk" || isAccessKind(o.Kind):
		case o.Kind == "glv" && len(o.Path) == 0:
		case o.Kind == "final" || (isDelKind(o.Kind) && (len(o.Path) == 0 || o.Path[0] == "*")):
			for x, ph := range parts {
				po := o
				po.Paths, po.Vals, po.KV = nil, nil, nil
				for _, p := range o.Paths {
					if p[0] == x {
						po.Paths = append(po.Paths, p)
					}
				}
				for _, v := range o.Vals {
					if vp, known := valPart[v]; !known || vp == x {
						po.Vals = append(po.Vals, v)
					}
				}
				for _, e := range o.KV {
					if e.P[0] == x {
						po.KV = append(po.KV, e)
					}
				}
				ph.Ops = append(ph.Ops, po)
			}
		default:
			ph := part(o.Path[0])
			ph.Ops = append(ph.Ops, o)
		}
	}
	return parts, true
}

// judge applies all history oracles. The whole history is checked first
// (exact); if porcupine does not finish within exactTimeout the per-subtree
// projections are checked instead (sound, slightly weaker, see
// partitionHistory). A porcupine timeout is inconclusive, never a violation.
func judge(h *History, exactTimeout, timeout time.Duration) (v hverdict) {
	defer func() {
		if r := recover(); r != nil {
			v = hverdict{inconclusive: fmt.Sprintf("history checker panicked: %v", r)}
		}
	}()
	if h.Panic != "" {
		return hverdict{class: "panic", msg: "an operation panicked: " + h.Panic}
	}
	// Clauses that need no sequential model (they also hold for histories that
	// store nil, which the model below does not cover).
	if cl, msg := universalClauses(h); cl != "" {
		return hverdict{class: cl, msg: msg}
	}
	c, err := compile(h, true)
	if err != nil {
		return hverdict{inconclusive: "malformed history: " + err.Error()}
	}
	// Cheap, exact checks first: they give the sharpest message.
	for _, o := range c.ops {
		if o.bad != "" {
			return hverdict{class: "impossible-result", msg: fmt.Sprintf("%s: %s", &h.Ops[o.src], o.bad)}
		}
	}
	if cl, msg := failedAddTrace(h); cl != "" {
		return hverdict{class: cl, msg: msg}
	}
	if cl, msg := lostAdd(h); cl != "" {
		return hverdict{class: cl, msg: msg}
	}
	if cl, msg := intervalRule(h); cl != "" {
		return hverdict{class: cl, msg: msg}
	}
	if w := widenHeld(h); w != nil {
		if cl, msg := intervalRule(w); cl != "" {
			return hverdict{class: cl, msg: "(visit of a retained node; its interval begins with the lookup that bound the node) " + msg}
		}
	}
	if cl, msg := accessRules(h); cl != "" {
		return hverdict{class: cl, msg: msg}
	}
	t0 := time.Now()
	defer func() { v.linTime = time.Since(t0) }()
	res, c, ops, two, err := linCheck(h, exactTimeout)
	if err != nil {
		return hverdict{inconclusive: "malformed history: " + err.Error()}
	}
	v.linOps, v.twoStep = len(ops), two
	switch res {
	case porcupine.Ok:
		return v
	case porcupine.Illegal:
		v.class = "not-linearizable"
		v.msg = c.explain(ops, timeout)
		return v
	}
	parts, ok := partitionHistory(h)
	if !ok || len(parts) < 2 {
		v.inconclusive = fmt.Sprintf("porcupine gave up after %v on %d operations and the history does not split into subtrees", exactTimeout, len(ops))
		return v
	}
	v.partitioned = true
	var names []string
	for x := range parts {
		names = append(names, x)
	}
	sort.Strings(names)
	for _, x := range names {
		res, pc, pops, two, err := linCheck(parts[x], timeout)
		if err != nil {
			return hverdict{inconclusive: "malformed projection: " + err.Error()}
		}
		v.twoStep = v.twoStep || two
		switch res {
		case porcupine.Illegal:
			v.class = "not-linearizable"
			v.msg = fmt.Sprintf("projection onto the subtree below %q (deletes that span subtrees keep their pattern, results restricted): %s", x, pc.explain(pops, timeout))
			return v
		case porcupine.Unknown:
			v.inconclusive = fmt.Sprintf("porcupine gave up after %v on the whole history (%d operations) and after %v on the projection onto subtree %q (%d operations)", exactTimeout, len(ops), timeout, x, len(pops))
			return v
		}
	}
	return v
}

// lostAdd: an Add that returned nil is present with its value once everything
// has finished, unless a write to the same path or a delete that removed the
// path did not finish before that Add began (then it may have come later).
func lostAdd(h *History) (string, string) {
	var fin *HOp
	for i := range h.Ops {
		if h.Ops[i].Kind == "final" {
			fin = &h.Ops[i]
		}
	}
	if fin == nil {
		return "", ""
	}
	final := map[string]int{}
	for _, e := range fin.KV {
		final[key(e.P)] = e.V
	}
	wpaths := map[int][]string{}
	for i := range h.Ops {
		if o := &h.Ops[i]; o.Kind == "add" || o.Kind == "hupd" {
			wpaths[o.Val] = append(wpaths[o.Val], key(o.Path))
		}
	}
	for i := range h.Ops {
		a := &h.Ops[i]
		if a.Kind != "add" || a.Err != "" || a.Ret > fin.Call {
			continue
		}
		k := key(a.Path)
		if final[k] == a.Val {
			continue
		}
		explained := false
		for j := range h.Ops {
			o := &h.Ops[j]
			if j == i || o.Ret < a.Call {
				continue
			}
			switch {
			case (o.Kind == "add" && o.Err == "" || o.Kind == "hupd") && key(o.Path) == k:
				explained = true
			case isDelKind(o.Kind):
				for _, r := range removedBy(h, o, wpaths) {
					explained = explained || r == k
				}
			}
		}
		if !explained {
			return "lost-add", fmt.Sprintf("%s returned nil, no later or overlapping operation wrote or removed that path, yet the final content has %q=%s: %s", a, a.Path, vstr(final[k]), kvstr(fin.KV))
		}
	}
	return "", ""
}

// explain re-runs the check in verbose mode and describes where the longest
// linearizable prefix stops.
func (c *compiled) explain(ops []porcupine.Operation, timeout time.Duration) string {
	res, info := porcupine.CheckOperationsVerbose(c.model(), ops, timeout)
	msg := fmt.Sprintf("no sequential order of the %d recorded operations that respects real-time order explains their results", len(ops))
	if res != porcupine.Illegal {
		return msg
	}
	var best []int
	for _, part := range info.PartialLinearizations() {
		for _, l := range part {
			if len(l) > len(best) {
				best = l
			}
		}
	}
	s := c.init()
	in := map[int]bool{}
	for _, id := range best {
		ok, n := c.step(s, c.ops[id])
		if !ok {
			break
		}
		s = n
		in[id] = true
	}
	var stuck []string
	var minRet int64 = 1 << 62
	for i, o := range ops {
		if !in[i] && o.Return < minRet {
			minRet = o.Return
		}
	}
	for i, o := range ops {
		if !in[i] && o.Call <= minRet && len(stuck) < 6 {
			stuck = append(stuck, c.h.Ops[c.ops[i].src].String())
		}
	}
	return fmt.Sprintf("%s; the longest explicable prefix has %d operations and leaves the model at %s; none of the operations that had to come next fits: %s",
		msg, len(best), c.content(s), strings.Join(stuck, " | "))
}

// failedAddTrace: an Add that returned an error left no trace — its (unique)
// value is never observed by anybody.
func failedAddTrace(h *History) (string, string) {
	failed := map[int]*HOp{}
	written := map[int]bool{}
	for i := range h.Ops {
		o := &h.Ops[i]
		if o.Kind == "add" && o.Err != "" {
			failed[o.Val] = o
		} else if o.Kind == "add" || o.Kind == "hupd" {
			written[o.Val] = true
		}
	}
	see := func(o *HOp, v int) (string, string) {
		if f, ok := failed[v]; ok && !written[v] {
			return "failed-add-left-trace", fmt.Sprintf("%s returned an error but %s observed its value", f, o)
		}
		return "", ""
	}
	for i := range h.Ops {
		o := &h.Ops[i]
		vals := append([]int{o.Got}, o.Vals...)
		for _, e := range o.KV {
			vals = append(vals, e.V)
		}
		for _, v := range vals {
			if v != 0 {
				if c, m := see(o, v); c != "" {
					return c, m
				}
			}
		}
	}
	return "", ""
}

// removedBy returns the paths a delete operation removed. WalkDeleted reports
// values only; a value identifies its path when exactly one path was ever
// written with it (always so in generated workloads), otherwise the delete is
// treated as possibly having removed every path written with that value.
func removedBy(h *History, o *HOp, wpaths map[int][]string) []string {
	var out []string
	switch o.Kind {
	case "del", "delcond":
		for _, p := range o.Paths {
			out = append(out, key(p))
		}
	case "walkdel":
		for _, v := range o.Vals {
			out = append(out, wpaths[v]...)
		}
	}
	return out
}

// intervalRule judges every Query/Walk:
//
//	must-report: a leaf p matching the pattern for which some successful Add(p)
//	  returned before the query was invoked, while every delete that removed p
//	  either returned before that Add was invoked or was invoked after the
//	  query returned (p was present for the query's whole duration);
//	must-not-report: a leaf p such that every successful Add(p) invoked before
//	  the query returned was followed by a delete that removed p, invoked after
//	  that Add returned and returned before the query was invoked (p was absent
//	  for the whole duration) — in particular a path nobody added;
//	values: a reported value was written to that path by an operation invoked
//	  before the query returned.
func intervalRule(h *History) (string, string) {
	type iv struct{ call, ret int64 }
	adds := map[string][]iv{}
	removers := map[string][]iv{}
	wpaths := map[int][]string{} // value -> paths written with it
	type wr struct {
		path string
		call int64
	}
	writers := map[int][]wr{}
	for i := range h.Ops {
		o := &h.Ops[i]
		switch {
		case o.Kind == "add" && o.Err == "", o.Kind == "hupd":
			k := key(o.Path)
			if o.Kind == "add" {
				adds[k] = append(adds[k], iv{o.Call, o.Ret})
			}
			writers[o.Val] = append(writers[o.Val], wr{k, o.Call})
			dup := false
			for _, p := range wpaths[o.Val] {
				dup = dup || p == k
			}
			if !dup {
				wpaths[o.Val] = append(wpaths[o.Val], k)
			}
		}
	}
	for i := range h.Ops {
		o := &h.Ops[i]
		if isDelKind(o.Kind) {
			for _, k := range removedBy(h, o, wpaths) {
				removers[k] = append(removers[k], iv{o.Call, o.Ret})
			}
		}
	}
	for i := range h.Ops {
		q := &h.Ops[i]
		if !isQueryKind(q.Kind) {
			continue
		}
		reported := map[string]int{}
		for _, e := range q.KV {
			reported[key(e.P)] = e.V
		}
		// must-report
		for k, as := range adds {
			if !Matches(q.Path, unkey(k)) {
				continue
			}
			if _, ok := reported[k]; ok {
				continue
			}
			for _, a := range as {
				if a.ret >= q.Call {
					continue
				}
				stable := true
				for _, d := range removers[k] {
					if !(d.ret < a.call || d.call > q.Ret) {
						stable = false
						break
					}
				}
				if stable {
					return "query-missed-stable-leaf", fmt.Sprintf("%s does not report %q although an Add of it returned at %d (before the query began) and no delete that removed it overlaps [%d,%d]",
						q, unkey(k), a.ret, a.call, q.Ret)
				}
			}
		}
		// must-not-report, values
		for _, e := range q.KV {
			k := key(e.P)
			if !Matches(q.Path, e.P) {
				return "query-reported-nonmatching", fmt.Sprintf("%s reports %q which the pattern does not match", q, e.P)
			}
			alive := false
			cands := 0
			for _, a := range adds[k] {
				if a.call >= q.Ret {
					continue
				}
				cands++
				killed := false
				for _, d := range removers[k] {
					if a.ret < d.call && d.ret < q.Call {
						killed = true
						break
					}
				}
				if !killed {
					alive = true
					break
				}
			}
			if !alive {
				if cands == 0 {
					return "query-reported-absent-leaf", fmt.Sprintf("%s reports %q but no successful Add of that path was invoked before the query returned", q, e.P)
				}
				return "query-reported-absent-leaf", fmt.Sprintf("%s reports %q but each of the %d Adds of that path invoked before the query returned was followed by a delete that removed it and returned before the query began", q, e.P, cands)
			}
			ok := false
			for _, w := range writers[e.V] {
				if w.path == k && w.call < q.Ret {
					ok = true
				}
			}
			if !ok {
				return "query-reported-unwritten-value", fmt.Sprintf("%s reports %q=%d but no operation invoked before the query returned wrote that value to that path", q, e.P, e.V)
			}
		}
	}
	return "", ""
}

// ---- classification for the evidence ----------------------------------------------------------

// related: the two paths/patterns touch a common node or one lies beneath the other.
func related(a, b []string) bool {
	for i := 0; i < len(a) && i < len(b); i++ {
		if a[i] != b[i] && a[i] != "*" && b[i] != "*" {
			return false
		}
	}
	return true
}

type hclass struct {
	nontrivial bool
	labels     map[string]bool
}

func (c *hclass) add(l string) { c.labels[l] = true }

func (c *hclass) list() []string {
	var out []string
	for l := range c.labels {
		out = append(out, l)
	}
	sort.Strings(out)
	return out
}

// classify evaluates the non-trivial rule (>=2 operations on overlapping paths
// whose invocation intervals overlapped) and the labels of a history.
func classify(h *History) *hclass {
	c := &hclass{labels: map[string]bool{}}
	ops := h.Ops
	idx := make([]int, len(ops))
	for i := range idx {
		idx[i] = i
	}
	sort.Slice(idx, func(a, b int) bool { return ops[idx[a]].Call < ops[idx[b]].Call })
	bindOf := map[int]*HOp{}
	wpaths := map[int][]string{}
	for i := range ops {
		o := &ops[i]
		if o.Kind == "getleaf" {
			bindOf[o.H] = o
		}
		if o.Kind == "add" || o.Kind == "hupd" {
			wpaths[o.Val] = append(wpaths[o.Val], key(o.Path))
		}
	}
	type rem struct {
		o *HOp
		k map[string]bool
	}
	var rems []rem
	for i := range ops {
		o := &ops[i]
		switch {
		case o.Kind == "add" && o.Err != "":
			c.add("failed-add")
		case o.Kind == "add" && len(o.Path) == 0:
			c.add("add-at-root")
		case isDelKind(o.Kind):
			r := rem{o, map[string]bool{}}
			for _, k := range removedBy(h, o, wpaths) {
				r.k[k] = true
			}
			if len(r.k) > 0 {
				c.add("delete-removed-leaf")
				if hasGlob(o.Path) || len(r.k) > 1 {
					c.add("multi-leaf-delete")
				}
				rems = append(rems, r)
			}
		}
	}
	// stale handles: taken before a delete that removed the leaf began, used after it returned
	for i := range ops {
		o := &ops[i]
		if o.Kind != "hupd" && o.Kind != "hval" {
			continue
		}
		b := bindOf[o.H]
		if b == nil {
			continue
		}
		for _, r := range rems {
			if r.k[key(o.Path)] && b.Ret < r.o.Call && r.o.Ret < o.Call {
				if o.Kind == "hupd" {
					c.add("handle-update-after-delete")
				} else {
					c.add("handle-value-after-delete")
				}
			}
		}
	}
	for x := 0; x < len(idx); x++ {
		a := &ops[idx[x]]
		if a.Kind == "final" {
			continue
		}
		for y := x + 1; y < len(idx); y++ {
			b := &ops[idx[y]]
			if b.Call > a.Ret {
				break
			}
			if a.G == b.G || b.Kind == "final" {
				continue
			}
			ka, kb := a.Kind, b.Kind
			if ka == "add" && kb == "add" && a.Err == "" && b.Err == "" && len(a.Path) > 1 && len(b.Path) > 1 && a.Path[0] == b.Path[0] && key(a.Path) != key(b.Path) {
				// siblings or cousins: they share the branch nodes above them (and its creation)
				c.nontrivial = true
				c.add("adds-overlap-under-common-branch")
			}
			if !related(a.Path, b.Path) {
				continue
			}
			c.nontrivial = true
			pair := func(p, q func(string) bool) bool { return (p(ka) && q(kb)) || (p(kb) && q(ka)) }
			is := func(k string) func(string) bool { return func(s string) bool { return s == k } }
			isRead := func(s string) bool { return s == "glv" || s == "getleaf" }
			isQ := func(s string) bool { return s == "query" || s == "walk" }
			same := key(a.Path) == key(b.Path)
			switch {
			case ka == "add" && kb == "add" && same:
				c.add("add-overlaps-add-same-path")
			case ka == "add" && kb == "add":
				c.add("add-overlaps-add-prefix-related")
			case pair(isDelKind, is("add")):
				c.add("delete-overlaps-add")
			case pair(isDelKind, isQ):
				c.add("query-overlaps-delete")
			case pair(is("add"), isQ):
				c.add("query-overlaps-add")
			case pair(isDelKind, is("hupd")):
				c.add("handle-update-overlaps-delete")
			case pair(is("add"), is("hupd")) && same:
				c.add("handle-update-overlaps-add")
			case ka == "hupd" && kb == "hupd" && same:
				c.add("handle-update-overlaps-handle-update")
			case pair(isDelKind, isRead):
				c.add("get-overlaps-delete")
			case pair(is("add"), isRead):
				c.add("get-overlaps-add")
			case pair(isDelKind, isDelKind):
				c.add("delete-overlaps-delete")
			}
		}
	}
	return c
}
