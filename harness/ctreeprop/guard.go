package ctreeprop

import (
	"fmt"
	"regexp"
	"runtime"
	"strings"
	"time"
)

// runSeqGuarded runs the scenario on its own goroutine and returns its result,
// or a "blocked:" error when that goroutine is waiting for a sync lock in two
// goroutine dumps taken two seconds apart. The scenario is the only user of
// its tree, so nobody else can ever release the lock: the verdict is
// structural, the clock only decides when the harness looks. (The blocked
// goroutine is abandoned; it holds no resources besides its tree.)
func runSeqGuarded(sc *Scenario, paths, patterns [][]string, observeEvery bool) (seqStats, error) {
	type res struct {
		st  seqStats
		err error
	}
	done := make(chan res, 1)
	go guardedBody(func() {
		st, err := runSeq(sc, paths, patterns, observeEvery)
		done <- res{st, err}
	})
	var last string
	for {
		select {
		case r := <-done:
			return r.st, r.err
		case <-time.After(2 * time.Second):
		}
		state := guardedState()
		if state != "" && state == last {
			select {
			case r := <-done:
				return r.st, r.err
			default:
			}
			return seqStats{}, fmt.Errorf("blocked: a call on the tree does not return: the only goroutine using the tree is waiting for a lock\n%s", state)
		}
		last = state
	}
}

//go:noinline
func guardedBody(f func()) { f() }

var goroutineHeader = regexp.MustCompile(`(?m)^goroutine \d+ \[([^\]]*)\]:$`)

// guardedState returns the stack of the guarded goroutine if it is waiting for
// a sync lock, "" otherwise (running, finished, or blocked on something else).
func guardedState() string {
	buf := make([]byte, 1<<20)
	buf = buf[:runtime.Stack(buf, true)]
	for _, g := range strings.Split(string(buf), "\n\n") {
		if !strings.Contains(g, "ctreeprop.guardedBody") {
			continue
		}
		m := goroutineHeader.FindStringSubmatch(g)
		if m == nil {
			continue
		}
		st := m[1]
		if !(strings.HasPrefix(st, "sync.RWMutex") || strings.HasPrefix(st, "sync.Mutex") || strings.HasPrefix(st, "semacquire")) {
			continue
		}
		// keep the frames, drop the goroutine number and wait duration
		lines := strings.Split(g, "\n")
		if len(lines) > 14 {
			lines = lines[:14]
		}
		var keep []string
		for _, l := range lines[1:] {
			if i := strings.Index(l, " +0x"); i >= 0 {
				l = l[:i]
			}
			keep = append(keep, l)
		}
		return strings.Join(keep, "\n")
	}
	return ""
}
