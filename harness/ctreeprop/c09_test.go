package ctreeprop

import (
	"encoding/json"
	"flag"
	"fmt"
	"os"
	"runtime"
	"strings"
	"sync"
	"sync/atomic"
	"testing"

	"pgregory.net/rapid"
	"verif/harness/internal/vstat"
)

func TestMain(m *testing.M) {
	flag.Parse()
	os.Exit(m.Run())
}

var (
	smallPaths    = allPaths([]string{"a", "b"}, 2)      // 7
	smallPatterns = allPaths([]string{"a", "b", "*"}, 2) // 13
	pat3          = allPaths([]string{"a", "b", "*"}, 3) // 40
	obsPaths      = allPaths([]string{"a", "b"}, 3)      // observation universe (15)
)

// enumerate calls f on every sequence of exactly n ops drawn from ops
// (values are the 1-based position so that every add is distinguishable and
// odd/even alternate for the conditional deletes). The space is split by
// first op over all cores; f must be safe for concurrent use.
func enumerate(ops []Op, n int, f func(*Scenario) bool) {
	var wg sync.WaitGroup
	sem := make(chan struct{}, runtime.NumCPU())
	for first := range ops {
		wg.Add(1)
		sem <- struct{}{}
		go func(first int) {
			defer wg.Done()
			defer func() { <-sem }()
			idx := make([]int, n)
			idx[0] = first
			sc := &Scenario{Ops: make([]Op, n)}
			for {
				for i, j := range idx {
					sc.Ops[i] = ops[j]
					if sc.Ops[i].Kind == "add" {
						sc.Ops[i].Val = i + 1
					}
				}
				if !f(sc) {
					return
				}
				i := n - 1
				for ; i >= 1; i-- {
					idx[i]++
					if idx[i] < len(ops) {
						break
					}
					idx[i] = 0
				}
				if i < 1 {
					return
				}
			}
		}(first)
	}
	wg.Wait()
}

func cloneScenario(sc *Scenario) *Scenario {
	b, _ := json.Marshal(sc)
	var c Scenario
	json.Unmarshal(b, &c)
	return &c
}

func seqHash(sc *Scenario) uint64 { return vstat.Hash(sc) }

// TestC09Exhaustive enumerates all short op sequences over a small alphabet.
func TestC09Exhaustive(t *testing.T) {
	if !vstat.Enabled("C09") {
		t.Skip()
	}
	rec := vstat.New("C09", "exhaustive")
	defer rec.Flush(true)
	rec.SetExhaustive()

	var opsA []Op
	for _, p := range smallPaths {
		opsA = append(opsA, Op{Kind: "add", Path: p})
	}
	for _, p := range smallPatterns {
		opsA = append(opsA, Op{Kind: "del", Path: p})
	}
	var opsB []Op
	for _, p := range smallPaths {
		opsB = append(opsB, Op{Kind: "add", Path: p})
	}
	for _, p := range pat3 {
		opsB = append(opsB, Op{Kind: "del", Path: p})
	}
	for _, p := range smallPatterns {
		opsB = append(opsB, Op{Kind: "delcond", Path: p})
		opsB = append(opsB, Op{Kind: "walkdel", Path: p})
	}
	var violations atomic.Int32
	check := func(sc *Scenario) bool {
		st, err := runSeq(sc, obsPaths, pat3, false)
		nt := st.nontrivial()
		var h uint64
		if nt {
			h = seqHash(sc)
		}
		rec.CaseHash(h, nt, func() any { return cloneScenario(sc) }, st.labels()...)
		if err != nil {
			rec.AddViolation(cloneScenario(sc), "seq", "model-mismatch", "%v", err)
			return violations.Add(1) < 3
		}
		return violations.Load() == 0
	}
	maxA, maxB := 4, 3
	for n := 1; n <= maxA && violations.Load() == 0; n++ {
		enumerate(opsA, n, check)
	}
	for n := 1; n <= maxB && violations.Load() == 0; n++ {
		enumerate(opsB, n, check)
	}
	rec.Note("exhaustive: all sequences of <=%d ops over %d ops (add depth<=2 over {a,b}; delete depth<=2 over {a,b,*}) and all of <=%d ops over %d ops (adds, deletes to depth 3, DeleteConditional and WalkDeleted to depth 2)", maxA, len(opsA), maxB, len(opsB))
	if violations.Load() > 0 {
		t.Fail()
	}
}

var (
	randAlphabet = []string{"a", "b", "c"}
	randObsPaths = allPaths(randAlphabet, 3)
	randPatterns = allPaths([]string{"a", "b", "c", "*"}, 3)
)

func genPath(alpha []string, maxDepth int) *rapid.Generator[[]string] {
	return rapid.Custom(func(t *rapid.T) []string {
		n := rapid.IntRange(0, maxDepth).Draw(t, "len")
		p := make([]string, n)
		for i := range p {
			p[i] = rapid.SampledFrom(alpha).Draw(t, "e")
		}
		return p
	})
}

func genOp(t *rapid.T) Op {
	alphaGlob := []string{"a", "b", "c", "*", "*"}
	kind := rapid.SampledFrom([]string{"add", "add", "add", "add", "del", "del", "delcond", "walkdel", "handle", "hupdate",
		"add", "add", "add", "add", "del", "del", "delcond", "walkdel", "handle", "hupdate", "qstop", "qstop", "wstop", "wsstop", "qpanic", "wpanic", "wspanic", "dcpanic", "wdpanic"}).Draw(t, "kind")
	op := Op{Kind: kind}
	if kind != "hupdate" && rapid.IntRange(0, 2).Draw(t, "relative") == 0 {
		// address relative to an existing leaf: k-th leaf, cut c elements, append suffix
		op.Pick = rapid.IntRange(1, 8).Draw(t, "pick")
		op.Cut = rapid.IntRange(0, 2).Draw(t, "cut")
	}
	switch kind {
	case "add":
		op.Path = genPath(randAlphabet, 4).Draw(t, "path")
		op.Val = rapid.IntRange(1, 1000).Draw(t, "val")
	case "del", "delcond", "walkdel", "dcpanic", "wdpanic":
		op.Path = genPath(alphaGlob, 5).Draw(t, "pat")
	case "qstop", "wstop", "wsstop", "qpanic", "wpanic", "wspanic":
		if kind == "qstop" || kind == "qpanic" {
			op.Path = genPath(alphaGlob, 4).Draw(t, "pat")
		}
		op.Val = rapid.IntRange(1, 3).Draw(t, "stop-at")
	case "handle":
		op.Path = genPath(randAlphabet, 4).Draw(t, "path")
		op.H = rapid.IntRange(0, 3).Draw(t, "h")
	case "hupdate":
		op.H = rapid.IntRange(0, 3).Draw(t, "h")
		op.Val = rapid.IntRange(1, 1000).Draw(t, "val")
	}
	return op
}

func genScenario(t *rapid.T) *Scenario {
	return &Scenario{Ops: rapid.SliceOfN(rapid.Custom(genOp), 1, 40).Draw(t, "ops")}
}

// TestC09Random runs long random sequences with handle updates.
func TestC09Random(t *testing.T) {
	if !vstat.Enabled("C09") {
		t.Skip()
	}
	rec := vstat.New("C09", "random")
	obs := append(append([][]string{}, randObsPaths...), []string{"a", "b", "c", "a"}, []string{"c", "c", "c", "c"})
	rec.RunRapid(t, func(rt *rapid.T) {
		sc := genScenario(rt)
		st, err := runSeqGuarded(sc, obs, randPatterns, true)
		rec.Case(sc, st.nontrivial(), append(st.labels(), st.labelsExtra()...)...)
		if err != nil {
			class := "model-mismatch"
			if strings.HasPrefix(err.Error(), "blocked:") {
				class = "blocked-call"
			}
			rt.Fatalf("%s", rec.Fail(sc, class, "%v", err))
		}
	})
}

// TestReplay re-runs a saved scenario without the library.
func TestReplay(t *testing.T) {
	rf, ok, err := vstat.LoadReplay()
	if !ok {
		t.Skip()
	}
	if err != nil {
		t.Fatal(err)
	}
	rec := vstat.New(rf.Property, "replay")
	defer rec.Flush(true)
	replayT = t // C10 gate replays run in a synctest bubble
	if msg := replayOne(rf); msg != "" {
		rec.AddViolation(json.RawMessage(rf.Scenario), rf.Kind, rf.Class, "%s", msg)
		fmt.Println("REPLAY-FAIL:", msg)
		t.Fail()
		return
	}
	rec.Case(json.RawMessage(rf.Scenario), false, "replayed")
	fmt.Println("REPLAY-OK")
}

func replayOne(rf *vstat.ReplayFile) string {
	if rf.Property == "C09" && rf.Part == "rich" {
		var sc richScenario
		if err := json.Unmarshal(rf.Scenario, &sc); err != nil {
			return "bad scenario: " + err.Error()
		}
		if _, _, err := runRich(&sc); err != nil {
			return err.Error()
		}
		return ""
	}
	if rf.Property == "C09" && rf.Part == "wide" {
		var sc wideScenario
		if err := json.Unmarshal(rf.Scenario, &sc); err != nil {
			return "bad scenario: " + err.Error()
		}
		if _, err := runWide(&sc); err != nil {
			return err.Error()
		}
		return ""
	}
	if rf.Property == "C09" && rf.Part == "callback" {
		var sc cbScenario
		if err := json.Unmarshal(rf.Scenario, &sc); err != nil {
			return "bad scenario: " + err.Error()
		}
		if _, err := runCallback(&sc); err != nil {
			return err.Error()
		}
		return ""
	}
	if rf.Property == "C09" && rf.Part == "alias" {
		var sc aliasScenario
		if err := json.Unmarshal(rf.Scenario, &sc); err != nil {
			return "bad scenario: " + err.Error()
		}
		if _, err := runAlias(&sc); err != nil {
			return err.Error()
		}
		return ""
	}
	switch rf.Kind {
	case "seq", "rapid":
		if rf.Property == "C09" {
			var sc Scenario
			if err := json.Unmarshal(rf.Scenario, &sc); err != nil {
				return "bad scenario: " + err.Error()
			}
			obs := append(append([][]string{}, randObsPaths...), []string{"a", "b", "c", "a"}, []string{"c", "c", "c", "c"})
			if _, err := runSeqGuarded(&sc, obs, randPatterns, true); err != nil {
				return err.Error()
			}
			return ""
		}
	}
	return replayC10(rf)
}
