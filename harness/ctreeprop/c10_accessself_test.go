package ctreeprop

import (
	"math/rand"
	"strings"
	"testing"

	"github.com/openconfig/gnmi/ctree"
)

// TestC10AccessSelfJudge unit-checks the accessor dimension: the String parser
// against Walk on real trees, every accessor kind through perform on a real tree
// used sequentially (the judges must accept what the unchanged tree does), and the
// rules on hand-made histories (legal ones accepted, each illegal shape refused).
func TestC10AccessSelfJudge(t *testing.T) {
	// 1. parser == walk, on random sequential trees; all kinds recorded and judged legal
	r := rand.New(rand.NewSource(7))
	for iter := 0; iter < 300; iter++ {
		tr := &ctree.Tree{}
		h := &History{Workers: 1}
		var clk int64
		now := func() int64 { clk++; return clk }
		var cur burstHandle
		nops := 4 + r.Intn(14)
		for i := 0; i < nops; i++ {
			p := randPathOf(r, []string{"a", "b"}, 0, 3)
			node := p[:r.Intn(len(p)+1)]
			var b BOp
			switch r.Intn(16) {
			case 0, 1, 2, 3, 4:
				b = BOp{Kind: "add", Path: p, Odd: r.Intn(2) == 0}
			case 5:
				b = BOp{Kind: []string{"del", "delcond", "walkdel"}[r.Intn(3)], Path: randPatternOf(r, []string{"a", "b"})}
			case 6:
				b = BOp{Kind: "children", Path: node}
			case 7:
				b = BOp{Kind: "isbranch", Path: node}
			case 8:
				b = BOp{Kind: "tvalue", Path: node}
			case 9:
				b = BOp{Kind: "string", Path: node}
			case 10:
				b = BOp{Kind: []string{"glv", "getleaf", "query", "walk", "walksorted"}[r.Intn(5)], Path: p, Base: 1 + r.Intn(3)}
			case 11:
				b = BOp{Kind: "getleaf", Path: node}
			case 12:
				b = BOp{Kind: "reset"}
			default:
				b = BOp{Kind: []string{"nkids", "nisbr", "nval", "nstr", "nwalk", "nwalksorted"}[r.Intn(6)]}
			}
			var done []HOp
			for _, o := range burstHOps(0, b, 100+i) {
				l, ok := bindOp(&o, cur, done)
				if !ok {
					continue
				}
				got := perform(tr, &o, l, now)
				if o.Kind == "getleaf" {
					cur = retained(&o, got)
				}
				done = append(done, o)
				h.Ops = append(h.Ops, o)
			}
			// String of the root agrees with Walk
			s := HOp{G: 0, Kind: "walk", Via: "string", Sorted: true}
			w := HOp{G: 0, Kind: "walk", Sorted: true}
			perform(tr, &s, nil, now)
			perform(tr, &w, nil, now)
			if kvstr(s.KV) != kvstr(w.KV) || s.Foreign != "" {
				t.Fatalf("String() %q parsed as %s (%s), WalkSorted says %s", tr.String(), kvstr(s.KV), s.Foreign, kvstr(w.KV))
			}
		}
		fin := HOp{G: 1, Kind: "final"}
		perform(tr, &fin, nil, now)
		h.Ops = append(h.Ops, fin)
		if f, inc := judgeSmall(h, true); f != nil || len(inc) > 0 {
			for i := range h.Ops {
				t.Log(h.Ops[i].String())
			}
			t.Fatalf("sequential history refused: %v (inconclusive %v)", f, inc)
		}
	}
	// 2. parser on hand-made texts
	for _, c := range []struct {
		s, want string
		bad     bool
	}{
		{`{ "a": { "p": 12 }, "b": 14 }`, "{a/p=12 b=14}", false},
		{`<nil>`, "{}", false},
		{`12`, "{=12}", false},
		{`{  }`, "{}", false},
		{`{ "a": 12`, "", true},
		{`{ "a": map[string]int{} }`, "", true},
		{`{ "a": 12 } x`, "", true},
	} {
		o := HOp{}
		kv := []KV{}
		err := parseTreeString(c.s, nil, &o, &kv)
		if bad := err != nil || o.Foreign != ""; bad != c.bad || (!bad && kvstr(kv) != c.want) {
			t.Errorf("parse %q: %s err=%v foreign=%q, want %s bad=%v", c.s, kvstr(kv), err, o.Foreign, c.want, c.bad)
		}
	}
	// 3. rules on hand-made histories
	ap, bq := []string{"a", "p"}, []string{"b", "q"}
	base := func(more ...HOp) *History {
		h := &History{Workers: 2, Ops: []HOp{
			{G: 99, Kind: "add", Path: ap, Val: 20, Call: 1, Ret: 2},
			{G: 99, Kind: "add", Path: bq, Val: 22, Call: 3, Ret: 4},
			{G: 99, Kind: "getleaf", Path: []string{"a"}, H: 9, Node: "branch", Call: 5, Ret: 6},
		}}
		h.Ops = append(h.Ops, more...)
		return h
	}
	delAll := HOp{G: 1, Kind: "del", Path: []string{}, Paths: [][]string{ap, bq}, Call: 10, Ret: 13}
	finEmpty := HOp{G: 2, Kind: "final", Call: 20, Ret: 21, KV: []KV{}}
	finFull := HOp{G: 2, Kind: "final", Call: 20, Ret: 21, KV: []KV{{ap, 20}, {bq, 22}}}
	kids := func(call, ret int64, node string, names ...string) HOp {
		return HOp{G: 0, Kind: "children", Path: []string{}, Node: node, Names: names, Call: call, Ret: ret}
	}
	for _, c := range []struct {
		name string
		h    *History
		want string // "" = legal, else a substring of the class
	}{
		{"children of the root, nothing else running", base(kids(10, 11, "map", "a", "b"), finFull), ""},
		{"children misses a stable name", base(kids(10, 11, "map", "a"), finFull), "children-missed-stable-name"},
		{"children nil on a stable branch", base(kids(10, 11, "nil"), finFull), "children-missed-stable-name"},
		{"children reports a name nobody added", base(kids(10, 11, "map", "a", "b", "z"), finFull), "children-reported-absent-name"},
		{"children before an overlapping delete of everything", base(kids(11, 12, "map", "a", "b"), delAll, finEmpty), ""},
		{"children after an overlapping delete of everything", base(kids(11, 12, "nil"), delAll, finEmpty), ""},
		{"children sees half of ONE delete (each name possible, none stable: only a sequential order refutes it)", base(kids(11, 12, "map", "a"), delAll, finEmpty), "not-sequentially-explicable"},
		{"children after a delete that returned before", base(kids(14, 15, "map", "a"), delAll, finEmpty), "children-reported-absent-name"},
		{"isbranch false on a stable branch", base(HOp{G: 0, Kind: "isbranch", Path: []string{"a"}, Node: "other", Call: 10, Ret: 11}, finFull), "isbranch-false-on-stable-branch"},
		{"isbranch true below a leaf", base(HOp{G: 0, Kind: "isbranch", Path: ap, Node: "branch", Call: 10, Ret: 11}, finFull), "isbranch-true-without-children"},
		{"isbranch of a leaf", base(HOp{G: 0, Kind: "isbranch", Path: ap, Node: "other", Call: 10, Ret: 11}, finFull), ""},
		{"retained branch, pruned meanwhile: empty map", base(delAll, HOp{G: 0, Kind: "nkids", Path: []string{"a"}, H: 9, Node: "map", Names: []string{}, Call: 14, Ret: 15}, finEmpty), ""},
		{"retained branch, pruned meanwhile, still shows its child (legal: it did when it was bound)", base(delAll, HOp{G: 0, Kind: "nkids", Path: []string{"a"}, H: 9, Node: "map", Names: []string{"p"}, Call: 14, Ret: 15}, finEmpty), ""},
		{"retained branch misses a stable child", base(HOp{G: 0, Kind: "nkids", Path: []string{"a"}, H: 9, Node: "map", Names: []string{}, Call: 14, Ret: 15}, finFull), "children-missed-stable-name"},
		{"retained branch invents a child", base(HOp{G: 0, Kind: "nkids", Path: []string{"a"}, H: 9, Node: "map", Names: []string{"p", "zz"}, Call: 14, Ret: 15}, finFull), "children-reported-absent-name"},
		{"retained branch: Value is nil", base(HOp{G: 0, Kind: "nval", Path: []string{"a"}, H: 9, Got: 0, Call: 14, Ret: 15}, finFull), ""},
		{"retained branch: String misses a stable leaf", base(HOp{G: 0, Kind: "nstr", Path: []string{"a"}, H: 9, Sorted: true, KV: []KV{}, Call: 14, Ret: 15}, finFull), "query-missed-stable-leaf"},
		{"retained branch: String after the prune may still be empty", base(delAll, HOp{G: 0, Kind: "nstr", Path: []string{"a"}, H: 9, Sorted: true, KV: []KV{}, Call: 14, Ret: 15}, finEmpty), ""},
		{"String of the root out of order", base(HOp{G: 0, Kind: "walk", Via: "string", Sorted: true, KV: []KV{{bq, 22}, {ap, 20}}, Call: 14, Ret: 15}, finFull), "walksorted-out-of-order"},
		{"Get(a).Walk reports a leaf of another subtree", base(HOp{G: 0, Kind: "walk", Path: []string{"a"}, KV: []KV{{ap, 20}, {bq, 22}}, Call: 14, Ret: 15}, finFull), "query-reported-nonmatching"},
		{"Get(a).Value() of a branch is nil", base(HOp{G: 0, Kind: "glv", Via: "value", Path: []string{"a"}, Got: 0, Call: 14, Ret: 15}, finFull), ""},
		{"root.Value() invents a value", base(HOp{G: 0, Kind: "glv", Via: "value", Path: []string{}, Got: 20, Call: 14, Ret: 15}, finFull), "not-"},
	} {
		f, inc := judgeSmall(c.h, true)
		got := ""
		if f != nil {
			got = f.class
		}
		if len(inc) > 0 || (c.want == "") != (f == nil) || !strings.Contains(got, c.want) {
			t.Errorf("%s: judged %q (%v; inconclusive %v), want %q", c.name, got, f, inc, c.want)
		}
	}
}
