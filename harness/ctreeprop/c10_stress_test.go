package ctreeprop

// C10 stress part: free-running histories under the race detector. The
// workload (who does what) is a function of -seed; the schedule is the real
// scheduler's and cannot be reproduced — the recorded history is what a replay
// re-judges.

import (
	"fmt"
	"math/rand"
	"os"
	"regexp"
	"runtime"
	"sort"
	"strconv"
	"strings"
	"sync"
	"sync/atomic"
	"time"

	"github.com/openconfig/gnmi/ctree"
	"github.com/openconfig/gnmi/verifhook"
)

// classD6 is the class of the listed finding D6: Leaf.Update writes the value
// under the leaf's own lock while internalDelete reads it holding only the
// root's write lock.
const classD6 = "race-leaf-update-vs-delete"

// classD6Alias is the same class spelled as the generic frame pair.
const classD6Alias = "race:ctree.(*Leaf).Update|ctree.(*Tree).internalDelete"

// SOp is one operation of a worker's program.
type SOp struct {
	// add glv getleaf hval hupd query walk walksorted del delcond walkdel, and the accessor dimension
	// (c10_access_test.go): children isbranch tvalue string (empty path: on the root, else on the node a
	// fresh Get returns), nkids nisbr nval nstr nwalk nwalksorted (on the node retained in Slot), reset
	// (Children() of the root, then one Delete per name returned)
	Kind string   `json:"kind"`
	Path []string `json:"path,omitempty"`
	Val  int      `json:"val,omitempty"`
	Slot int      `json:"slot,omitempty"` // handle slot of the worker (getleaf fills, hval/hupd and the n* kinds use)
	// Base: (glv getleaf query) the method is invoked on the sub-tree node Get(Path[:Base]); (walk, walksorted) a non-empty Path walks Get(Path)
	Base int `json:"base,omitempty"`
}

// Workload is what the seed determines.
type Workload struct {
	Seed  int64   `json:"seed"`
	Index int     `json:"index"`
	Progs [][]SOp `json:"progs"`
	// SerialiseUpdateDelete: 2 = handle updates never overlap deletes (open finding
	// D6); 1 = they never overlap conditional deletes (open finding
	// conditional-delete-not-atomic-vs-handle-update); 0 = nothing is kept apart.
	SerialiseUpdateDelete int `json:"serialise_update_delete,omitempty"`
	// Readers: that many workers (the last ones) only read (labels only).
	Readers int `json:"readers,omitempty"`
	// Tops: the number of subtrees below the root the paths are drawn from (0 = the flag's value). With one
	// subtree a delete of it, of its last leaf or of everything empties the tree: the root goes back to its
	// zero state and the next Add makes it a branch again, while accessors look at it.
	Tops int `json:"tops,omitempty"`
}

// Three subtrees below the root, two letters further down: paths overlap
// heavily, and a history still splits into three projections when the
// whole-history check is too expensive.
var (
	stressTop      = []string{"a", "b", "c", "d", "e"}[:3]
	stressAlphabet = []string{"a", "b"}
)

func randPath(r *rand.Rand, min, max int) []string { return randPathOf(r, stressTop, min, max) }

func randPathOf(r *rand.Rand, tops []string, min, max int) []string {
	n := min + r.Intn(max-min+1)
	p := make([]string, n)
	for i := range p {
		if i == 0 {
			p[i] = tops[r.Intn(len(tops))]
		} else {
			p[i] = stressAlphabet[r.Intn(len(stressAlphabet))]
		}
	}
	return p
}

func randPattern(r *rand.Rand) []string { return randPatternOf(r, stressTop) }

func randPatternOf(r *rand.Rand, tops []string) []string {
	// depth 0 (everything) is rare: it empties the tree
	var n int
	switch x := r.Intn(20); {
	case x == 0:
		n = 0
	case x < 5:
		n = 1
	case x < 13:
		n = 2
	default:
		n = 3
	}
	p := make([]string, n)
	for i := range p {
		switch {
		case r.Intn(4) == 0:
			p[i] = "*"
		case i == 0:
			p[i] = tops[r.Intn(len(tops))]
		default:
			p[i] = stressAlphabet[r.Intn(len(stressAlphabet))]
		}
	}
	return p
}

// genAccessor draws one operation of the accessor dimension: node is the path of
// the node looked at (empty = the root), pattern a query pattern.
func genAccessor(r *rand.Rand, node func() []string, pattern func() []string, slot int) SOp {
	switch x := r.Intn(20); {
	case x < 4:
		return SOp{Kind: "children", Path: node()}
	case x < 6:
		return SOp{Kind: "isbranch", Path: node()}
	case x < 8:
		return SOp{Kind: "tvalue", Path: node()}
	case x < 10:
		return SOp{Kind: "string", Path: node()}
	case x < 11:
		return SOp{Kind: "reset"}
	case x < 15:
		// a read-only method through a sub-tree node
		k := []string{"glv", "query", "walk", "walksorted"}[r.Intn(4)]
		o := SOp{Kind: k, Path: node(), Base: 1 + r.Intn(2)}
		if k == "query" {
			o.Path = pattern()
		}
		return o
	default:
		return SOp{Kind: []string{"nkids", "nkids", "nisbr", "nval", "nstr", "nwalk", "nwalksorted"}[r.Intn(7)], Slot: slot}
	}
}

// genWorkload draws 2..16 workers with 20..60 operations each; the product is
// capped so that the point-operation history stays around 200 operations.
func genWorkload(r *rand.Rand, index int, budget int) *Workload {
	w := &Workload{Seed: 0, Index: index}
	workers := 2 + r.Intn(15)
	// one history in five lives below ONE subtree: deleting it, its last leaf or everything empties the tree
	// (root back to the zero state) and the next Add turns the root into a branch again, again and again,
	// while the accessors of the root (Children, IsBranch, Value, String, the Reset idiom) look at it.
	// Such a history does not split into projections, so it is kept smaller.
	tops := stressTop
	if r.Intn(5) == 0 {
		tops = stressTop[:1]
		w.Tops = 1
		workers = 2 + r.Intn(7)
		budget = min(budget, 160)
	}
	per := budget / workers
	if per > 60 {
		per = 60
	}
	if per < 20 {
		per = 20
	}
	per = 20 + r.Intn(per-20+1)
	// per-history profile
	delW := 4 + r.Intn(14)   // weight of deletes (out of ~100)
	hupdW := 4 + r.Intn(12)  // weight of handle updates
	queryW := 6 + r.Intn(10) // weight of query+walk
	accW := 4 + r.Intn(14)   // weight of the accessor dimension (c10_access_test.go)
	if w.Tops == 1 {
		delW += 6
		accW += 8
	}
	maxDepth := 2 + r.Intn(2)
	path := func(min, max int) []string { return randPathOf(r, tops, min, max) }
	pattern := func() []string { return randPatternOf(r, tops) }
	// the node an accessor looks at: the root half of the time
	node := func() []string {
		if r.Intn(2) == 0 {
			return []string{}
		}
		return path(1, 2)
	}
	// one history in four: all workers but one or two only read (Query, Walk,
	// WalkSorted, GetLeafValue) while the writers add and delete many leaves at a
	// time: what a reader sees of ONE delete is then comparable leaf by leaf
	// (c10_rdatomic_test.go: nothing else touches the removed leaves meanwhile)
	readers := 0
	if workers >= 3 && r.Intn(4) == 0 {
		readers = workers - 1 - r.Intn(2)
	}
	w.Readers = readers
	for g := 0; g < workers; g++ {
		var prog []SOp
		for readers > 0 && g < workers-readers && len(prog) < per {
			// a writer of that profile: fill several branches, then remove many leaves with one delete
			for k := 3 + r.Intn(6); k > 0 && len(prog) < per; k-- {
				prog = append(prog, SOp{Kind: "add", Path: path(2, 3), Val: (g+1)*1000 + len(prog) + 1})
			}
			pat := [][]string{{}, {"*"}, {tops[r.Intn(len(tops))]}, {"*", "*"}, {"*", stressAlphabet[r.Intn(len(stressAlphabet))]},
				{tops[r.Intn(len(tops))], "*"}, {"*", "*", stressAlphabet[r.Intn(len(stressAlphabet))]}}[r.Intn(7)]
			prog = append(prog, SOp{Kind: []string{"del", "del", "del", "delcond", "walkdel"}[r.Intn(5)], Path: pat})
		}
		for i := 0; len(prog) < per; i++ {
			val := (g+1)*1000 + len(prog) + 1
			x := r.Intn(100)
			if g >= workers-readers {
				switch {
				case x < 32:
					prog = append(prog, SOp{Kind: "query", Path: pattern()})
				case x < 44:
					prog = append(prog, SOp{Kind: "walk"})
				case x < 66:
					prog = append(prog, SOp{Kind: "walksorted"})
				case x < 72:
					prog = append(prog, SOp{Kind: "string"}) // String() of the root holds the root read lock like a walk
				case x < 88:
					// (a reader retains nodes too: getleaf fills the slot the n* kinds use)
					if r.Intn(4) == 0 {
						prog = append(prog, SOp{Kind: "getleaf", Path: path(1, maxDepth), Slot: r.Intn(2)})
					} else if o := genAccessor(r, node, pattern, r.Intn(2)); o.Kind != "reset" {
						prog = append(prog, o)
					}
				default:
					prog = append(prog, SOp{Kind: "glv", Path: path(1, maxDepth)})
				}
				continue
			}
			switch {
			case x < delW:
				k := "del"
				switch r.Intn(5) {
				case 0, 1:
					k = "delcond"
				case 2:
					k = "walkdel"
				}
				prog = append(prog, SOp{Kind: k, Path: pattern()})
			case x < delW+hupdW:
				s := r.Intn(2)
				prog = append(prog, SOp{Kind: "hupd", Slot: s, Val: val})
				if r.Intn(2) == 0 && len(prog) < per {
					prog = append(prog, SOp{Kind: "hval", Slot: s})
				}
			case x < delW+hupdW+queryW:
				if r.Intn(3) == 0 {
					k := "walk"
					if r.Intn(2) == 0 {
						k = "walksorted"
					}
					prog = append(prog, SOp{Kind: k})
				} else {
					prog = append(prog, SOp{Kind: "query", Path: pattern()})
				}
			case x < delW+hupdW+queryW+accW:
				prog = append(prog, genAccessor(r, node, pattern, r.Intn(2)))
			case x < delW+hupdW+queryW+accW+10:
				prog = append(prog, SOp{Kind: "glv", Path: path(1, maxDepth)})
			case x < delW+hupdW+queryW+accW+20:
				s := r.Intn(2)
				prog = append(prog, SOp{Kind: "getleaf", Path: path(1, maxDepth), Slot: s})
				if r.Intn(2) == 0 && len(prog) < per {
					prog = append(prog, SOp{Kind: "hval", Slot: s})
				}
			case x < delW+hupdW+queryW+accW+25:
				prog = append(prog, SOp{Kind: "hval", Slot: r.Intn(2)})
			default:
				p := path(1, maxDepth)
				prog = append(prog, SOp{Kind: "add", Path: p, Val: val})
				// reading back what was just written keeps the order of overlapping writes observable
				if r.Intn(2) == 0 && len(prog) < per {
					prog = append(prog, SOp{Kind: "glv", Path: p})
				}
			}
		}
		w.Progs = append(w.Progs, prog)
	}
	return w
}

type stressRun struct {
	w       *Workload
	tr      *ctree.Tree
	clock   atomic.Int64
	arrived atomic.Int32
	hd      *sync.RWMutex // serialises handle updates against deletes while D6 is open
	hdDel   sync.Mutex
	avoided atomic.Int64 // overlaps of the two kinds the serialisation prevented
	logs    [][]HOp
	panics  []string
}

func (r *stressRun) now() int64 { return r.clock.Add(1) }

// worker is the body of one goroutine (its name is looked for in goroutine dumps).
func (r *stressRun) worker(g int, wg *sync.WaitGroup) {
	defer wg.Done()
	defer func() {
		if p := recover(); p != nil {
			buf := make([]byte, 4096)
			buf = buf[:runtime.Stack(buf, false)]
			r.panics[g] = fmt.Sprintf("%v\n%s", p, buf)
		}
	}()
	prog := r.w.Progs[g]
	log := make([]HOp, 0, len(prog))
	defer func() { r.logs[g] = log }()
	var slots [4]burstHandle
	// start together
	n := int32(len(r.w.Progs))
	r.arrived.Add(1)
	for r.arrived.Load() < n {
		runtime.Gosched()
	}
	for i, op := range prog {
		if op.Kind == "reset" {
			// the cache's Reset idiom: for name := range t.Children() { t.Delete([]string{name}) }
			c := HOp{G: g, Kind: "children"}
			r.guarded(&c, nil)
			log = append(log, c)
			for k, name := range c.Names {
				d := HOp{G: g, Kind: "del", Path: []string{name}, Dyn: k + 1}
				r.guarded(&d, nil)
				log = append(log, d)
			}
			continue
		}
		o := burstHOp(g, BOp{Kind: op.Kind, Path: op.Path, Base: op.Base}, (g+1)*1000+i+1)
		o.Val = op.Val
		from := slots[op.Slot%len(slots)]
		if isHeldKind(o.Kind) && from.n == nil {
			// any node the worker retains will do
			for _, s := range slots {
				if s.n != nil {
					from = s
					break
				}
			}
		}
		l, ok := bindOp(&o, from, nil)
		if !ok {
			continue
		}
		got := r.guarded(&o, l)
		if o.Kind == "getleaf" {
			slots[op.Slot%len(slots)] = retained(&o, got)
		}
		log = append(log, o)
	}
}

// guarded performs o; while finding D6 is open a harness lock keeps handle
// updates (shared side) and deletes (exclusive side) from overlapping. The
// stamps are taken inside, so the recorded intervals are those of the tree calls.
func (r *stressRun) guarded(o *HOp, l *ctree.Leaf) *ctree.Leaf {
	switch {
	case r.hd != nil && o.Kind == "hupd":
		if !r.hd.TryRLock() {
			r.avoided.Add(1)
			r.hd.RLock()
		}
		defer r.hd.RUnlock()
	case r.hd != nil && isDelKind(o.Kind) && (r.w.SerialiseUpdateDelete > 1 || o.Kind != "del"):
		// deletes queue among themselves first (the tree serialises them anyway),
		// so a failed TryLock means a handle update is in flight
		r.hdDel.Lock()
		defer r.hdDel.Unlock()
		if !r.hd.TryLock() {
			r.avoided.Add(1)
			r.hd.Lock()
		}
		defer r.hd.Unlock()
	}
	return perform(r.tr, o, l, r.now)
}

var stallFinding = regexp.MustCompile(`^goroutine (\d+) \[([^\],]*)[^\]]*\]:$`)

// lockedWorkers summarises the goroutines of a goroutine dump whose stack
// contains marker: the frames of each, whether every one of them either waits
// for a sync lock or is parked on a harness channel outside ctree (holding no
// tree lock: the harness never waits on a channel inside a tree call), and
// whether at least one waits for a lock inside ctree. If that holds nobody is
// left who could release a lock: a deadlock, whatever the clock says.
func lockedWorkers(dump, marker string) (stacks map[string]string, allLocked, inCtree bool) {
	stacks = map[string]string{}
	allLocked = true
	for _, blk := range strings.Split(dump, "\n\n") {
		lines := strings.Split(strings.TrimSpace(blk), "\n")
		m := stallFinding.FindStringSubmatch(lines[0])
		if m == nil || !strings.Contains(blk, marker) {
			continue
		}
		state := m[2]
		var frames []string
		for _, l := range lines[1:] {
			if !strings.HasPrefix(l, "\t") && !strings.HasPrefix(l, "created by") {
				if i := strings.LastIndex(l, "("); i > 0 {
					l = l[:i] // drop argument values
				}
				frames = append(frames, l)
			}
		}
		stacks[m[1]] = state + "\n" + strings.Join(frames, "\n")
		ctreeFrame := strings.Contains(blk, "github.com/openconfig/gnmi/ctree.")
		locked := strings.HasPrefix(state, "sync.RWMutex.") || strings.HasPrefix(state, "sync.Mutex.")
		idle := !ctreeFrame && (strings.HasPrefix(state, "chan receive") || strings.HasPrefix(state, "chan send") || strings.HasPrefix(state, "select"))
		allLocked = allLocked && (locked || idle)
		if locked && ctreeFrame {
			inCtree = true
		}
	}
	return stacks, allLocked && len(stacks) > 0, inCtree
}

// watched runs f on a goroutine of its own and waits for it. If it has not
// returned after stall of real time the goroutines whose stacks contain marker
// are inspected twice, confirm apart: deadlock=true only on the structural
// verdict of lockedWorkers with identical stacks both times; otherwise stuck
// describes an inconclusive stall. The wall clock only decides when to look.
func watched(marker string, stall, confirm time.Duration, f func()) (stuck string, deadlock bool) {
	done := make(chan struct{})
	go func() { defer close(done); f() }()
	timer := time.NewTimer(stall)
	defer timer.Stop()
	select {
	case <-done:
		return "", false
	case <-timer.C:
	}
	s1, locked1, in1 := lockedWorkers(allStacks(), marker)
	select {
	case <-done:
		return "", false
	case <-time.After(confirm):
	}
	s2, locked2, in2 := lockedWorkers(allStacks(), marker)
	same := len(s1) == len(s2)
	for id, st := range s1 {
		same = same && s2[id] == st
	}
	select {
	case <-done:
		return "", false
	default:
	}
	if locked1 && locked2 && in1 && in2 && same {
		return fmt.Sprintf("%d goroutines are all waiting for sync locks inside ctree (or idle outside it), identically in two goroutine dumps %v apart:\n%s", len(s2), confirm, trimDump(s2)), true
	}
	return fmt.Sprintf("no return within %v, but not every goroutine is blocked on a lock (allLocked=%v/%v inCtree=%v/%v same=%v)", stall, locked1, locked2, in1, in2, same), false
}

func allStacks() string {
	buf := make([]byte, 1<<22)
	return string(buf[:runtime.Stack(buf, true)])
}

// run executes the workload. stuck != "" means the workers did not join:
// deadlock=true if the structural test says so, otherwise inconclusive.
func (r *stressRun) run(stall, confirm time.Duration) (h *History, stuck string, deadlock bool) {
	n := len(r.w.Progs)
	r.logs = make([][]HOp, n)
	r.panics = make([]string, n)
	r.tr = &ctree.Tree{}
	if r.w.SerialiseUpdateDelete > 0 {
		r.hd = &sync.RWMutex{}
	}
	// widen the upgrade window now and then (decided by the value being added)
	verifhook.Set(func(name string, k interface{}) {
		if v, ok := k.(int); ok && name == upgradePoint && v%3 == 0 {
			for i := 0; i < v%7; i++ {
				runtime.Gosched()
			}
		}
	})
	defer verifhook.Set(nil)
	var wg sync.WaitGroup
	wg.Add(n)
	for g := 0; g < n; g++ {
		go r.worker(g, &wg)
	}
	if stuck, deadlock = watched("ctreeprop.(*stressRun).worker", stall, confirm, wg.Wait); stuck != "" {
		return &History{Seed: r.w.Seed, Index: r.w.Index, Workers: n}, stuck, deadlock
	}
	h = &History{Seed: r.w.Seed, Index: r.w.Index, Workers: n}
	for g := 0; g < n; g++ {
		h.Ops = append(h.Ops, r.logs[g]...)
		if r.panics[g] != "" && h.Panic == "" {
			h.Panic = r.panics[g]
		}
	}
	sort.SliceStable(h.Ops, func(i, j int) bool { return h.Ops[i].Call < h.Ops[j].Call })
	fin := HOp{G: n, Kind: "final"}
	// a lock leaked by a finished worker would hang the walk: watch it as well
	if stuck, deadlock = watched("ctreeprop.(*stressRun).finalWalk", stall, confirm, func() { r.finalWalk(&fin) }); stuck != "" {
		return h, "after all workers had joined the final walk did not return: " + stuck, deadlock
	}
	h.Ops = append(h.Ops, fin)
	return h, "", false
}

func (r *stressRun) finalWalk(o *HOp) { perform(r.tr, o, nil, r.now) }

func trimDump(stacks map[string]string) string {
	var ids []string
	for id := range stacks {
		ids = append(ids, id)
	}
	sort.Strings(ids)
	var b strings.Builder
	for _, id := range ids {
		lines := strings.Split(stacks[id], "\n")
		if len(lines) > 9 {
			lines = lines[:9]
		}
		fmt.Fprintf(&b, "goroutine %s [%s]\n", id, strings.Join(lines, " < "))
	}
	s := b.String()
	if len(s) > 6000 {
		s = s[:6000]
	}
	return s
}

// ---- race detector log ------------------------------------------------------------------------------

type raceLog struct {
	path string
	off  int64
}

// newRaceLog locates the report file of this process from GORACE (log_path=<p> => <p>.<pid>).
func newRaceLog() *raceLog {
	for _, f := range strings.Fields(os.Getenv("GORACE")) {
		if strings.HasPrefix(f, "log_path=") {
			p := strings.TrimPrefix(f, "log_path=")
			if p == "" || p == "stderr" || p == "stdout" {
				return nil
			}
			return &raceLog{path: p + "." + strconv.Itoa(os.Getpid())}
		}
	}
	return nil
}

type raceReport struct {
	text   string
	class  string
	frames [2]string
}

var raceAccess = regexp.MustCompile(`^(Read|Write|Previous read|Previous write|Atomic read|Atomic write|Previous atomic read|Previous atomic write) at 0x[0-9a-f]+ by `)

const gnmiMod = "github.com/openconfig/gnmi/"

// parseRaceReports splits the text into complete reports and classifies each by
// the pair of top-most gnmi frames of the two access stacks.
func parseRaceReports(s string) (reports []raceReport, consumed int) {
	const bar = "==================\n"
	for {
		i := strings.Index(s[consumed:], bar)
		if i < 0 {
			return
		}
		start := consumed + i + len(bar)
		j := strings.Index(s[start:], bar)
		if j < 0 {
			return // incomplete report: leave it for the next look
		}
		body := s[start : start+j]
		consumed = start + j + len(bar)
		if !strings.Contains(body, "DATA RACE") {
			continue
		}
		rep := raceReport{text: body}
		n := 0
		lines := strings.Split(body, "\n")
		for k := 0; k < len(lines) && n < 2; k++ {
			if !raceAccess.MatchString(lines[k]) {
				continue
			}
			top := "-"
			for k++; k < len(lines) && strings.TrimSpace(lines[k]) != ""; k++ {
				l := lines[k]
				if top == "-" && strings.HasPrefix(l, "  ") && !strings.HasPrefix(l, "   ") && strings.Contains(l, gnmiMod) {
					top = strings.TrimSuffix(strings.TrimSpace(l), "()")
					top = strings.TrimPrefix(top, gnmiMod)
				}
			}
			rep.frames[n] = top
			n++
		}
		a, b := rep.frames[0], rep.frames[1]
		if a > b {
			a, b = b, a
		}
		switch {
		case a == "ctree.(*Leaf).Update" && b == "ctree.(*Tree).internalDelete":
			rep.class = classD6
		default:
			rep.class = "race:" + a + "|" + b
		}
		reports = append(reports, rep)
	}
}

// fresh returns the reports written since the last look.
func (l *raceLog) fresh() []raceReport {
	if l == nil {
		return nil
	}
	b, err := os.ReadFile(l.path)
	if err != nil || int64(len(b)) <= l.off {
		return nil
	}
	reps, consumed := parseRaceReports(string(b[l.off:]))
	l.off += int64(consumed)
	return reps
}

// probeD6 runs the minimal racing pair of the listed finding.
func probeD6() {
	tr := &ctree.Tree{}
	tr.Add([]string{"a", "b"}, 1)
	l := tr.GetLeaf([]string{"a", "b"})
	var wg sync.WaitGroup
	wg.Add(2)
	go func() { defer wg.Done(); l.Update(2) }()
	go func() { defer wg.Done(); tr.Delete([]string{"a"}) }()
	wg.Wait()
}
