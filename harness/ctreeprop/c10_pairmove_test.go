package ctreeprop

// C10 pair-move part: the machinery of the pair part (c10_pair_test.go:
// persistent racers, thousands of aligned rounds of one small scenario, every
// round judged through its canonical form) spent on the family
//
//	a value-dependent conditional delete  ||  writers that MOVE the truth of
//	                                          the condition between leaves
//
// "A delete is atomic with respect to everything else": a DeleteConditional /
// WalkDeleted over several leaves decides about ALL of them at one instant. A
// writer that rewrites the values of existing leaves (Add on an existing leaf,
// Leaf.Update through a retained handle - both need shared ancestor locks only)
// one after the other keeps, in every sequential order, whatever invariant its
// own program order keeps:
//
//	make-then-break   p matches, q does not; the writer makes q match and THEN
//	                  makes p not match: at every instant at least one of p, q
//	                  matches, so a delete over {p, q} that removes NOTHING is
//	                  explained by no sequential order;
//	break-then-make   the other order: at no instant do both match, so a delete
//	                  that removes BOTH is explained by no order (nor one that
//	                  reports values that were never stored together);
//	rotate            three leaves, the match handed on p -> q -> r;
//	two-movers        two writers, each moving the match inside its own pair;
//	free              2-4 generated rewrites of the hot leaves.
//
// A delete that judges the leaves at different instants - a scan under shared
// locks before (or instead of) the exclusive section, a decision taken before
// the lock is held, removal of leaves collected earlier - breaks these
// invariants only when the rewrites fall between its looks at the two leaves:
// the scenario therefore surrounds the hot leaves with 0-256 bystander leaves
// below the same branch (they widen a scan; map iteration decides how many lie
// between p and q, sorted iteration meets half of them between "p" and "q"),
// lets either side lead, and skews the start. Nothing of that decides a
// verdict: the oracle is judgeSmall on the recorded round (porcupine against
// the node-identity model, in which a delete removes exactly the selected
// leaves that satisfy the condition in ONE step and reports them, and the
// differential oracle, which runs every sequential order of the racers'
// operations on a real tree). The result of a delete - the set of removed paths
// (DeleteConditional), the values handed to the callback (WalkDeleted),
// "nothing" included - is part of the canonical form of the round.
//
// Conditions are data: the condition of every conditional delete of the engine
// is "the stored int is even", every value is unique, and which write makes a
// leaf match is the generated parity (BOp.Odd) - any other predicate on the
// value (stale / below a threshold) is the same one bit per stored value for a
// tree that treats the condition as opaque.

import (
	"flag"
	"fmt"
	"strings"
	"testing"

	"pgregory.net/rapid"
)

var c10MoveScale = flag.Float64("c10.movescale", 1, "C10 pair-move: factor on the generated number of rounds per scenario")

func TestC10PairMove(t *testing.T) { runPairPart(t, "pair-move", genPairMove) }

// moveRounds: rounds of a scenario with n bystander leaves. A round costs a few
// microseconds plus about one per leaf of the setup and of the final walk; the
// wider the scan, the fewer aligned attempts it takes to get two rewrites in
// between two of its looks (measured on a tree with a shared-lock scan before
// the delete: tens to a few hundred rounds with 32-256 bystanders, hundreds to
// 30000 with none).
func moveRounds(n int) int {
	r := int(*c10MoveScale * min(120000/float64(8+n), 10000))
	return max(r, 300)
}

func genPairMove(t *rapid.T) *PairScenario {
	sc := &PairScenario{Family: "move", Stamped: true}
	cat := func(p []string, more ...string) []string { return append(append([]string{}, p...), more...) }
	parent := [][]string{{"k"}, {"k"}, {"a", "k"}}[rapid.IntRange(0, 2).Draw(t, "parent")]
	shape := rapid.SampledFrom([]string{"make-then-break", "make-then-break", "make-then-break", "break-then-make", "break-then-make", "rotate", "two-movers", "free"}).Draw(t, "shape")
	sc.State = shape
	names := []string{"p", "q"}
	switch shape {
	case "rotate":
		names = []string{"p", "q", "r"}
	case "two-movers":
		names = []string{"p", "q", "r", "s"}
	case "free":
		names = []string{"p", "q", "r"}[:rapid.IntRange(2, 3).Draw(t, "hot")]
	}
	hot := make([][]string, len(names))
	for i, n := range names {
		hot[i] = cat(parent, n)
	}
	// a write: which hot leaf, the parity of the new value, through Add or through a handle
	type write struct {
		leaf int
		odd  bool
	}
	initOdd := make([]bool, len(hot)) // false = matches
	var movers [][]write
	switch shape {
	case "make-then-break":
		initOdd = []bool{false, true}
		movers = [][]write{{{1, false}, {0, true}}}
	case "break-then-make":
		initOdd = []bool{false, true}
		movers = [][]write{{{0, true}, {1, false}}}
	case "rotate":
		initOdd = []bool{false, true, true}
		movers = [][]write{{{1, false}, {0, true}, {2, false}, {1, true}}}
		if rapid.Bool().Draw(t, "short") {
			movers[0] = movers[0][:3]
		}
	case "two-movers":
		initOdd = []bool{false, true, false, true}
		movers = [][]write{{{1, false}, {0, true}}, {{3, false}, {2, true}}}
		if rapid.Bool().Draw(t, "opposed") {
			movers[1] = []write{{2, true}, {3, false}}
		}
	default:
		for i := range initOdd {
			initOdd[i] = rapid.Bool().Draw(t, "initodd")
		}
		k := rapid.IntRange(2, 4).Draw(t, "writes")
		var w []write
		for i := 0; i < k; i++ {
			w = append(w, write{rapid.IntRange(0, len(hot)-1).Draw(t, "leaf"), rapid.Bool().Draw(t, "odd")})
		}
		movers = [][]write{w}
	}
	if shape != "free" && rapid.IntRange(0, 3).Draw(t, "mirror") == 0 {
		// the mirrored predicate: what "matches" is the other parity class for the writer - the invariant becomes
		// the dual one (at most one / at least one exchange their roles)
		for i := range initOdd {
			initOdd[i] = !initOdd[i]
		}
		for _, m := range movers {
			for i := range m {
				m[i].odd = !m[i].odd
			}
		}
		sc.State = shape + "/mirrored"
	}
	for i, p := range hot {
		sc.Setup = append(sc.Setup, BOp{Kind: "add", Path: p, Odd: initOdd[i]})
	}
	if rapid.IntRange(0, 3).Draw(t, "outside") == 0 {
		sc.Setup = append(sc.Setup, BOp{Kind: "add", Path: []string{"b", "r"}, Odd: rapid.Bool().Draw(t, "outsideodd")})
	}

	// the movers' programs: every write is an Add on the existing leaf or an update through a handle (the first
	// handle a racer uses is taken by the setup, a handle on another leaf by a GetLeaf right before the update)
	via := rapid.SampledFrom([]string{"add", "add", "add", "hupd", "mixed", "mixed"}).Draw(t, "via")
	type prog struct {
		ops    []BOp
		handle []string // the handle the setup provides
	}
	var progs []prog
	for _, m := range movers {
		var pr prog
		var have []string
		for _, w := range m {
			k := via
			if via == "mixed" {
				k = rapid.SampledFrom([]string{"add", "hupd"}).Draw(t, "writevia")
			}
			if k == "add" {
				pr.ops = append(pr.ops, BOp{Kind: "add", Path: cat(hot[w.leaf]), Odd: w.odd})
				continue
			}
			switch {
			case pr.handle == nil:
				pr.handle = hot[w.leaf]
			case key(have) != key(hot[w.leaf]):
				pr.ops = append(pr.ops, BOp{Kind: "getleaf", Path: cat(hot[w.leaf])})
			}
			have = hot[w.leaf]
			pr.ops = append(pr.ops, BOp{Kind: "hupd", Odd: w.odd})
		}
		progs = append(progs, pr)
	}

	// the delete: value dependent (mostly), over all hot leaves (mostly)
	var patterns [][]string
	patterns = append(patterns, cat(parent), cat(parent), cat(parent, "*"), cat(parent, "*"), []string{}, []string{"*"})
	if len(parent) == 2 {
		patterns = append(patterns, []string{"a"}, []string{"a", "*"}, []string{"*", "k"}, []string{"*", "*", "*"}, []string{"a", "*", "*"})
	} else {
		patterns = append(patterns, []string{"*", "*"})
	}
	deleter := func(t *rapid.T) BOp {
		o := BOp{Kind: rapid.SampledFrom([]string{"delcond", "delcond", "delcond", "walkdel", "walkdel", "walkdel", "del"}).Draw(t, "delkind"),
			Path: cat(rapid.SampledFrom(patterns).Draw(t, "pattern"))}
		if rapid.IntRange(0, 9).Draw(t, "exact") == 0 {
			o.Path = cat(hot[rapid.IntRange(0, len(hot)-1).Draw(t, "exactleaf")]) // one hot leaf only
		}
		return o
	}
	del := prog{ops: []BOp{deleter(t)}}
	if rapid.IntRange(0, 3).Draw(t, "sweepagain") == 0 {
		del.ops = append(del.ops, deleter(t))
	}
	progs = append(progs, del)
	switch rapid.IntRange(0, 7).Draw(t, "third") {
	case 0:
		progs = append(progs, prog{ops: []BOp{deleter(t)}})
	case 1:
		progs = append(progs, prog{ops: []BOp{{Kind: "glv", Path: cat(hot[rapid.IntRange(0, len(hot)-1).Draw(t, "readleaf")])}}})
	case 2:
		// one more writer of a hot leaf
		progs = append(progs, prog{ops: []BOp{{Kind: "add", Path: cat(hot[rapid.IntRange(0, len(hot)-1).Draw(t, "writeleaf")]), Odd: rapid.Bool().Draw(t, "writeodd")}}})
	}
	// who leads (racer 0 builds the tree, releases the others and starts a little earlier)
	order := rapid.Permutation(func() []int {
		ix := make([]int, len(progs))
		for i := range ix {
			ix[i] = i
		}
		return ix
	}()).Draw(t, "order")
	for g, from := range order {
		sc.Racers = append(sc.Racers, progs[from].ops)
		if progs[from].handle != nil {
			sc.Setup = append(sc.Setup, BOp{Kind: "getleaf", Path: cat(progs[from].handle), For: g})
		}
	}
	// bystanders: leaves below the same branch that nobody writes; they never match, unless the scenario says that
	// one in four does (then the delete removes and reports those too)
	nb := rapid.SampledFrom([]int{0, 2, 8, 8, 32, 32, 32, 128, 128, 256}).Draw(t, "bystanders")
	someMatch := nb > 0 && rapid.IntRange(0, 5).Draw(t, "bystandersmatch") == 0
	for i := 0; i < nb; i++ {
		name := fmt.Sprintf("b%03d", i)
		if i%2 == 1 {
			name = fmt.Sprintf("pz%03d", i) // sorts between "p" and "q"
		}
		sc.Setup = append(sc.Setup, BOp{Kind: "add", Path: cat(parent, name), Odd: !(someMatch && i%4 == 0)})
	}
	sc.Skew = rapid.SampledFrom([]int{0, 0, 3, 10, 40, 160}).Draw(t, "skew")
	sc.Rounds = moveRounds(nb)
	return sc
}

// moveStaticLabels: which shapes of the move family the scenario has.
func moveStaticLabels(sc *PairScenario) map[string]bool {
	lab := map[string]bool{"family:move": true, "shape:" + sc.State: true}
	switch strings.TrimSuffix(sc.State, "/mirrored") {
	case "make-then-break", "rotate":
		lab["invariant:at-least-one-leaf-matches-at-every-instant"] = true
	case "break-then-make":
		lab["invariant:at-most-one-leaf-matches-at-every-instant"] = true
	case "two-movers":
		lab["invariant:one-per-mover"] = true
	}
	if strings.HasSuffix(sc.State, "/mirrored") {
		// the delete removes the even values: for it the mirrored writer keeps the dual invariant
		dual := map[string]string{"invariant:at-least-one-leaf-matches-at-every-instant": "invariant:at-most-one-leaf-matches-at-every-instant",
			"invariant:at-most-one-leaf-matches-at-every-instant": "invariant:at-least-one-leaf-matches-at-every-instant"}
		for a, b := range dual {
			if lab[a] {
				delete(lab, a)
				lab[b] = true
				break
			}
		}
	}
	nb, hot := 0, 0
	matching := false
	for _, o := range sc.Setup {
		if o.Kind != "add" {
			continue
		}
		if last := o.Path[len(o.Path)-1]; len(last) > 1 {
			nb++
			matching = matching || !o.Odd
		} else if o.Path[0] != "b" {
			hot++
		}
	}
	switch {
	case nb == 0:
		lab["bystanders:0"] = true
	case nb <= 8:
		lab["bystanders:2-8"] = true
	case nb <= 32:
		lab["bystanders:32"] = true
	default:
		lab["bystanders:128-256"] = true
	}
	if matching {
		lab["bystanders:some-match-the-condition"] = true
	}
	lab[fmt.Sprintf("hot-leaves-%d", hot)] = true
	for _, prog := range sc.Racers {
		adds, hupds, dels := 0, 0, 0
		for _, o := range prog {
			switch {
			case o.Kind == "add":
				adds++
			case o.Kind == "hupd":
				hupds++
			case isDelKind(o.Kind):
				dels++
				lab["deleter:"+o.Kind] = true
				switch {
				case hasGlob(o.Path):
					lab["delete-pattern:glob"] = true
				case len(o.Path) == 0:
					lab["delete-pattern:everything"] = true
				case strings.Contains("pqrs", o.Path[len(o.Path)-1]):
					lab["delete-pattern:one-hot-leaf"] = true
				default:
					lab["delete-pattern:subtree"] = true
				}
			}
		}
		switch {
		case adds+hupds < 2:
		case hupds == 0:
			lab["mover-writes:add-on-existing-leaf"] = true
		case adds == 0:
			lab["mover-writes:handle-update"] = true
		default:
			lab["mover-writes:add-and-handle-update"] = true
		}
		if dels > 1 {
			lab["deleter-sweeps-twice"] = true
		}
	}
	if sc.Skew > 0 {
		lab["start-skew"] = true
	}
	lab[fmt.Sprintf("racers-%d", len(sc.Racers))] = true
	if len(sc.Racers) > 0 && len(sc.Racers[0]) > 0 {
		k := sc.Racers[0][0].Kind
		switch {
		case isDelKind(k):
		case k == "glv":
			k = "reader"
		default:
			k = "mover"
		}
		lab["leads:"+k] = true
	}
	return lab
}

// moveLabels: what a recorded round of the move family exercised. A function of
// the canonical form of the round (results and precedence), so the rounds given
// to the full judges - the first of every form - show every label the case reached.
func moveLabels(h *History, into map[string]bool) {
	for i := range h.Ops {
		d := &h.Ops[i]
		if d.G == 99 || !isDelKind(d.Kind) {
			continue
		}
		// the writes of every other racer, in program order
		writes := map[int][]*HOp{}
		for j := range h.Ops {
			w := &h.Ops[j]
			if w.G != 99 && w.G != d.G && (w.Kind == "add" || w.Kind == "hupd") {
				writes[w.G] = append(writes[w.G], w)
			}
		}
		for _, ws := range writes {
			if len(ws) < 2 {
				continue
			}
			in := 0
			for _, w := range ws {
				if w.Call < d.Ret && d.Call < w.Ret {
					in++
				}
			}
			switch {
			case in == len(ws):
				into["delete-overlaps-every-write-of-a-mover"] = true
			case in > 0:
				into["delete-overlaps-some-writes-of-a-mover"] = true
			case ws[0].Call > d.Ret:
				into["delete-before-the-mover"] = true
			case ws[len(ws)-1].Ret < d.Call:
				into["delete-after-the-mover"] = true
			default:
				into["delete-between-two-writes-of-a-mover"] = true
			}
			if d.Kind != "del" && in > 0 {
				n := len(d.Paths) + len(d.Vals)
				switch {
				case n == 0:
					into["overlapping-conditional-delete-removed:nothing"] = true
				case n == 1:
					into["overlapping-conditional-delete-removed:one-leaf"] = true
				default:
					into["overlapping-conditional-delete-removed:several-leaves"] = true
				}
			}
		}
	}
}

// TestC10PairMoveSelfJudge unit-checks the judges on hand-made rounds of the
// family and runs the machinery itself.
func TestC10PairMoveSelfJudge(t *testing.T) {
	kp, kq := []string{"k", "p"}, []string{"k", "q"}
	// setup: p=20 (matches) q=23; writer g0: two Adds in program order; the delete of g1 spans both
	mk := func(first, second HOp, kind string, removed [][]string, vals []int, final []KV) *History {
		d := HOp{G: 1, Kind: kind, Path: []string{"k"}, Call: 5, Ret: 14}
		if kind == "walkdel" {
			d.Vals = append([]int{}, vals...)
		} else {
			d.Paths = append([][]string{}, removed...)
		}
		first.G, first.Call, first.Ret = 0, 6, 7
		second.G, second.Call, second.Ret = 0, 8, 9
		return &History{Workers: 2, Ops: []HOp{
			{G: 99, Kind: "add", Path: kp, Val: 20, Call: 1, Ret: 2},
			{G: 99, Kind: "add", Path: kq, Val: 23, Call: 3, Ret: 4},
			d, first, second,
			{G: 2, Kind: "final", Call: 15, Ret: 16, KV: final},
		}}
	}
	makeQ, breakP := HOp{Kind: "add", Path: kq, Val: 202}, HOp{Kind: "add", Path: kp, Val: 205}
	for _, c := range []struct {
		name string
		h    *History
		bad  bool
	}{
		{"make-then-break: delete first", mk(makeQ, breakP, "delcond", [][]string{kp}, nil, []KV{{kp, 205}, {kq, 202}}), false},
		{"make-then-break: delete between", mk(makeQ, breakP, "delcond", [][]string{kp, kq}, nil, []KV{{kp, 205}}), false},
		{"make-then-break: delete last", mk(makeQ, breakP, "delcond", [][]string{kq}, nil, []KV{{kp, 205}}), false},
		{"make-then-break: NOTHING removed", mk(makeQ, breakP, "delcond", nil, nil, []KV{{kp, 205}, {kq, 202}}), true},
		{"make-then-break: walkdel NOTHING removed", mk(makeQ, breakP, "walkdel", nil, []int{}, []KV{{kp, 205}, {kq, 202}}), true},
		{"make-then-break: walkdel between", mk(makeQ, breakP, "walkdel", nil, []int{20, 202}, []KV{{kp, 205}}), false},
		{"make-then-break: walkdel reports the old p and leaves the new q", mk(makeQ, breakP, "walkdel", nil, []int{20}, []KV{{kp, 205}, {kq, 202}}), false},
		{"break-then-make: delete between removes nothing", mk(breakP, makeQ, "delcond", nil, nil, []KV{{kp, 205}, {kq, 202}}), false},
		{"break-then-make: BOTH removed", mk(breakP, makeQ, "delcond", [][]string{kp, kq}, nil, []KV{}), true},
		{"break-then-make: walkdel reports BOTH matching values", mk(breakP, makeQ, "walkdel", nil, []int{20, 202}, []KV{}), true},
		{"break-then-make: delete last", mk(breakP, makeQ, "delcond", [][]string{kq}, nil, []KV{{kp, 205}}), false},
	} {
		f, inc := judgeSmall(c.h, true)
		if len(inc) > 0 || (f != nil) != c.bad {
			t.Errorf("%s: judged %v (inconclusive %v), want refused=%v", c.name, f, inc, c.bad)
		}
		if dv := diffJudge(c.h, 100000); dv.inconclusive != "" || dv.ok == c.bad {
			t.Errorf("%s: differential oracle ok=%v, want %v", c.name, dv.ok, !c.bad)
		}
	}
	// the machinery: every round is recorded completely and judged legal on this tree
	for seed := 0; seed < 8; seed++ {
		sc := rapid.Custom(genPairMove).Example(seed)
		labels, _, n, fail := runPair(sc, min(sc.Rounds, 2000))
		if fail != nil || n != min(sc.Rounds, 2000) {
			t.Fatalf("example %d: %d rounds, %v", seed, n, fail)
		}
		if !strings.Contains(strings.Join(labels, " "), "family:move") {
			t.Errorf("labels %v", labels)
		}
	}
}
