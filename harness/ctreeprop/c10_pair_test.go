package ctreeprop

// C10 pair part: MILLIONS of tiny aligned rounds.
//
// Some windows are a handful of instructions wide and contain no schedule point
// (for instance: a node is looked up, every lock is dropped, and the node found
// is locked again to be written). An operation of another goroutine gets into
// such a window only when the first goroutine is held up inside it by the
// machine or arrives at exactly the right instruction, once in 10^2..10^5
// aligned attempts depending on who starts first; the burst part (16-64 rounds of a scenario, a
// goroutine per racer and round, the general judges for every round) makes a few
// hundred thousand rounds per run spread over every shape it knows. This part
// makes the ROUND cheap instead and spends all of its rounds on one family:
//
//	tree    1-3 leaves (a focus leaf at depth 1-3, optionally a sibling and a
//	        leaf in another subtree), values even or odd
//	racers  2-3 goroutines x 1 (sometimes 2) operations from an aligned start:
//	        a writer to what EXISTS (Add on the focus leaf, Leaf.Update through a
//	        handle taken before the race, Add of / next to a sibling, Add that must
//	        fail at / below the leaf), a delete whose result depends on or reports
//	        the value (DeleteConditional(even), WalkDeleted(even, report), also a
//	        plain Delete) with an exact / parent / glob / root pattern, optionally a
//	        third writer, deleter or reader (GetLeafValue, Leaf.Value)
//	rounds  -c10.pairrounds executions (tens of thousands) of the same scenario
//
// The racers are persistent goroutines; racer 0 builds the fresh tree of the
// round, releases the others through a generation counter they spin on, runs its
// own operations, waits for the others, takes the final walk and judges. A round
// costs about a microsecond. Scheduling devices (they decide no verdict): a start
// skew per racer and round (a few spin iterations, cycling), stamps taken from a
// shared counter or not at all, and which racer leads (racer 0 starts a cache
// miss earlier than the racers it releases).
//
// Oracle. Every round is judged. The values of a scenario are the same in every
// round, so a round is, for the judges, its canonical form
//
//	(result of every operation, final content, which operation returned before
//	 which other was invoked)
//
// and there are only a few dozen of those per scenario. The first round of every
// form is turned into a History and given to judgeSmall: the model-free clauses,
// the porcupine/model judge and the differential oracle (which enumerates the
// sequential orders of the 2-5 operations on a real tree). A form judged legal is
// remembered; later rounds of the same form are accepted by a map lookup. Only a
// verdict "legal" is ever reused, a violation is always the verdict of the
// existing judges on the recorded history of that very round. One round in 4096 is
// given to the full judges whatever its form. Without stamps all racer operations
// are concurrent for the judges (weaker, sound); a scenario without stamps has one
// operation per racer.
//
// All racers join (the structural deadlock test watches the whole case: a racer
// that waits long parks on a timer channel outside ctree, which that test counts
// as idle). A failing case carries the history of the failing round (witness); a
// replay runs the scenario again with many more rounds and then re-judges the
// witness.

import (
	"encoding/json"
	"flag"
	"fmt"
	"runtime"
	"sort"
	"strconv"
	"strings"
	"sync"
	"sync/atomic"
	"testing"
	"time"

	"github.com/openconfig/gnmi/ctree"
	"pgregory.net/rapid"
	"verif/harness/internal/vstat"
)

var (
	c10PairRounds = flag.Int("c10.pairrounds", 0, "C10 pair: rounds of every generated scenario (0 = the scenario's own number)")
	c10PairForce  = flag.String("c10.pairforce", "", "C10 pair (diagnostics): comma list of stamped / unstamped / noskew (override the generated scenario), count (go on after a failing case and print it) and trace (print what every case cost)")
	c10PairSpin   = flag.Int("c10.pairspin", 300, "C10 pair: loads a waiting racer spins before it starts yielding")
	c10PairFull   = flag.Int("c10.pairfull", 4096, "C10 pair: one round in that many is given to the full judges whatever its canonical form")
)

// PairScenario is the replayable unit of the pair part.
type PairScenario struct {
	Setup  []BOp   `json:"setup"` // adds (the leaves), then getleaf (For = the racer that starts with the handle)
	Racers [][]BOp `json:"racers"`
	// Stamped: invocation/response stamps from one shared counter (real-time order
	// between racers is judged); otherwise all racer operations count as concurrent.
	Stamped bool `json:"stamped,omitempty"`
	// Skew: in round r racer g spins (r*(2g+3)) mod (Skew+1) iterations after the release.
	Skew    int      `json:"skew,omitempty"`
	Rounds  int      `json:"rounds"`
	Witness *History `json:"witness,omitempty"`
	// Family: "" = a writer to what exists against a value-dependent delete (this file);
	// "access" = accessors against root transitions (c10_pairaccess_test.go); "move" = writers that move the truth of
	// the condition between leaves against conditional deletes (c10_pairmove_test.go). Labels only.
	Family string `json:"family,omitempty"`
	// State: (access) what the setup leaves behind; (move) the shape of the writers' programs (labels only)
	State string `json:"state,omitempty"`
}

type padCounter struct {
	v atomic.Int64
	_ [56]byte
}

type pairRun struct {
	sc      *PairScenario
	n       int
	stamped bool
	spin    bool
	_       [64]byte
	gen     padCounter // round released
	done    padCounter // racers finished in this round
	clock   padCounter
	stop    atomic.Bool

	// published by racer 0 before gen is stored, read by the others after they saw it
	tr  *ctree.Tree
	hnd []burstHandle

	setupT []HOp
	tmpl   [][]HOp
	ops    [][]HOp    // the buffer of the round being judged (racer 0 only)
	bufs   [2][][]HOp // round r is recorded in bufs[r&1]: a racer prepares the next round while racer 0 still reads this one
	base   int64      // unstamped: the stamp every racer operation is invoked at
	panics []string

	// judging (racer 0 only)
	cache     map[string]bool
	buf       []byte
	rounds    int
	fullEvery int
	fail      *burstFail
	witness   *History
	stats     pairStats
}

type pairStats struct {
	lab        map[string]bool // what the rounds given to the full judges exercised (accessLabels)
	forms      int             // distinct canonical forms
	outcomes   map[string]int
	overlap    int // stamped rounds in which operations of two racers overlapped
	judgedFull int
	inconcl    int
}

func (p *pairRun) now() int64 { return p.clock.v.Add(1) }

// await spins until c >= want; false when the run was stopped meanwhile.
func (p *pairRun) await(c *atomic.Int64, want int64) bool {
	for i := 0; c.Load() < want; i++ {
		if p.spin && i < *c10PairSpin {
			continue
		}
		if p.stop.Load() {
			return false
		}
		if i < 30000 {
			// (also runs a racer that a lock release inside the tree has just made runnable on this processor)
			runtime.Gosched()
		} else {
			// somebody is slow (the machine is oversubscribed) or stuck inside the tree: free the
			// processor, and wait where the deadlock test counts this goroutine as idle
			<-time.After(200 * time.Microsecond)
		}
	}
	return !p.stop.Load()
}

var pairSink atomic.Int64

func (p *pairRun) skew(g int, r int64) {
	if p.sc.Skew <= 0 {
		return
	}
	k := (r * int64(2*g+3)) % int64(p.sc.Skew+1)
	x := int64(0)
	for i := int64(0); i < k; i++ {
		x += i ^ r
	}
	if x == -1 {
		pairSink.Add(x)
	}
}

// operate runs the operations of racer g in the current round.
func (p *pairRun) operate(g int, r int64) {
	ops := p.bufs[r&1][g]
	cur := p.hnd[g]
	now := p.now
	if !p.stamped {
		k := int64(0)
		now = func() int64 { k++; return p.base + (k+1)&1 } // invoked at base, returns at base+1
	}
	for i := range ops {
		o := &ops[i]
		l, ok := bindOp(o, cur, ops[:i])
		if !ok {
			continue // no handle / no such name: the operation is not performed (Call stays 0)
		}
		got := perform(p.tr, o, l, now)
		if o.Kind == "getleaf" {
			cur = retained(o, got)
		}
	}
}

// worker is the body of racer g (its name is looked for in goroutine dumps).
func (p *pairRun) worker(g int, wg *sync.WaitGroup) {
	defer wg.Done()
	defer func() {
		if x := recover(); x != nil {
			buf := make([]byte, 4096)
			buf = buf[:runtime.Stack(buf, false)]
			p.panics[g] = fmt.Sprintf("%v\n%s", x, buf)
			if g != 0 {
				p.done.v.Add(1) // racer 0 collects the panic and stops the run
			} else {
				p.stop.Store(true)
			}
		}
	}()
	if g == 0 {
		p.lead()
		p.stop.Store(true)
		return
	}
	for r := int64(1); ; r++ {
		copy(p.bufs[r&1][g], p.tmpl[g])
		if !p.await(&p.gen.v, r) {
			return
		}
		p.skew(g, r)
		p.operate(g, r)
		p.done.v.Add(1)
	}
}

// lead is racer 0: it builds the tree of every round, releases the others, races, collects and judges.
func (p *pairRun) lead() {
	total := p.rounds
	p.rounds = 0
	setup := make([]HOp, len(p.setupT))
	for r := int64(1); r <= int64(total); r++ {
		tr := &ctree.Tree{}
		copy(setup, p.setupT)
		for g := range p.hnd {
			p.hnd[g] = burstHandle{}
		}
		snow := p.now
		if !p.stamped {
			k := int64(0)
			snow = func() int64 { k++; return k }
		}
		for i := range setup {
			x := &setup[i]
			got := perform(tr, x, nil, snow)
			if x.Kind == "getleaf" {
				if hd := retained(x, got); hd.n != nil {
					p.hnd[p.forRacer(i)] = hd
				}
			}
		}
		p.tr = tr
		p.ops = p.bufs[r&1]
		copy(p.ops[0], p.tmpl[0])
		p.done.v.Store(0)
		p.gen.v.Store(r) // release
		p.skew(0, r)
		p.operate(0, r)
		p.done.v.Add(1)
		if !p.await(&p.done.v, int64(p.n)) {
			return
		}
		p.rounds++
		// (a large tree is read back through WalkSorted: the canonical form needs the leaves in order anyway)
		fin := HOp{G: p.n, Kind: "final", Sorted: len(p.setupT) > 16}
		fnow := p.now
		if !p.stamped {
			k := int64(0)
			fnow = func() int64 { k++; return p.base + 1 + k }
		}
		perform(tr, &fin, nil, fnow)
		if p.judgeRound(setup, &fin, r) {
			return
		}
	}
}

func (p *pairRun) forRacer(setupIndex int) int {
	f := p.sc.Setup[setupIndex].For
	return ((f % p.n) + p.n) % p.n
}

// history assembles the recorded round.
func (p *pairRun) history(setup []HOp, fin *HOp) *History {
	h := &History{Workers: p.n, Start: "populated"}
	if p.sc.State == "fresh" || p.sc.State == "emptied" {
		h.Start = "empty"
	}
	h.Ops = append(h.Ops, setup...)
	k := len(h.Ops)
	for g := range p.ops {
		for i := range p.ops[g] {
			// (an operation that was skipped for want of a handle, or that panicked, has no interval)
			if o := &p.ops[g][i]; o.Call > 0 && o.Ret >= o.Call {
				h.Ops = append(h.Ops, *o)
			}
		}
		if p.panics[g] != "" && h.Panic == "" {
			h.Panic = p.panics[g]
		}
	}
	racers := h.Ops[k:]
	sort.SliceStable(racers, func(i, j int) bool { return racers[i].Call < racers[j].Call })
	h.Ops = append(h.Ops, *fin)
	// deep enough a copy: the result slices are fresh in every round, the inputs are never written
	return h
}

// appendResult renders the result of o canonically (what resultKey distinguishes, and the foreign marker).
func appendResult(b []byte, o *HOp) []byte {
	switch o.Kind {
	case "add":
		if o.Err != "" {
			b = append(b, 'E')
		} else {
			b = append(b, 'N')
		}
	case "glv", "hval":
		b = strconv.AppendInt(b, int64(o.Got), 10)
	case "getleaf":
		b = append(b, o.Node...)
	case "del", "delcond":
		if len(o.Paths) > 1 {
			sort.Slice(o.Paths, func(i, j int) bool { return strings.Join(o.Paths[i], "/") < strings.Join(o.Paths[j], "/") })
		}
		for _, q := range o.Paths {
			b = append(b, '[')
			for _, e := range q {
				b = append(b, e...)
				b = append(b, '/')
			}
		}
	case "walkdel":
		if len(o.Vals) > 1 {
			sort.Ints(o.Vals)
		}
		for _, v := range o.Vals {
			b = strconv.AppendInt(b, int64(v), 10)
			b = append(b, ',')
		}
	case "children", "nkids", "isbranch", "nisbr":
		b = append(b, o.Node...)
		for _, x := range o.Names {
			b = append(b, ',')
			b = append(b, x...)
		}
	case "nval":
		b = strconv.AppendInt(b, int64(o.Got), 10)
	case "query", "walk", "final", "nstr", "nwalk":
		if len(o.KV) > 1 && !o.Sorted {
			sort.Slice(o.KV, func(i, j int) bool { return strings.Join(o.KV[i].P, "/") < strings.Join(o.KV[j].P, "/") })
		}
		for _, e := range o.KV {
			for _, s := range e.P {
				b = append(b, s...)
				b = append(b, '/')
			}
			b = append(b, '=')
			b = strconv.AppendInt(b, int64(e.V), 10)
			b = append(b, ' ')
		}
	}
	if o.Foreign != "" {
		b = append(b, '!')
		b = append(b, o.Foreign...)
	}
	return append(b, ';')
}

// judgeRound judges the round just executed; true = stop (violation or panic).
func (p *pairRun) judgeRound(setup []HOp, fin *HOp, r int64) (stop bool) {
	b := p.buf[:0]
	panicked := false
	for g := range p.ops {
		panicked = panicked || p.panics[g] != ""
		for i := range p.ops[g] {
			b = appendResult(b, &p.ops[g][i])
		}
	}
	b = appendResult(b, fin)
	nres := len(b)
	if p.stamped {
		// which operation returned before which other was invoked (program order is implied by the stamps too)
		over := false
		for g := range p.ops {
			for i := range p.ops[g] {
				x := &p.ops[g][i]
				for g2 := g + 1; g2 < len(p.ops); g2++ {
					for j := range p.ops[g2] {
						y := &p.ops[g2][j]
						switch {
						case x.Ret < y.Call:
							b = append(b, '<')
						case y.Ret < x.Call:
							b = append(b, '>')
						default:
							b = append(b, '|')
							over = true
						}
					}
				}
			}
		}
		if over {
			p.stats.overlap++
		}
	}
	p.buf = b
	full := p.fullEvery > 0 && r%int64(p.fullEvery) == 0
	if !panicked && !full {
		if p.cache[string(b)] {
			return false
		}
	}
	h := p.history(setup, fin)
	p.stats.judgedFull++
	switch p.sc.Family {
	case "access":
		accessLabels(h, p.stats.lab)
	case "move":
		moveLabels(h, p.stats.lab)
	}
	f, inc := judgeSmall(h, true)
	if f != nil {
		p.fail, p.witness = f, h
		return true
	}
	if len(inc) > 0 {
		p.stats.inconcl++
		return false
	}
	if _, known := p.cache[string(b)]; !known {
		p.cache[string(b)] = true
		p.stats.forms++
		p.stats.outcomes[string(b[:nres])]++
	}
	return false
}

// runPair executes rounds of the scenario; fail carries the first illegal round.
func runPair(sc *PairScenario, rounds int) (labels []string, nontrivial bool, done int, fail *burstFail) {
	n := len(sc.Racers)
	p := &pairRun{sc: sc, n: n, stamped: sc.Stamped, hnd: make([]burstHandle, n), tmpl: make([][]HOp, n), bufs: [2][][]HOp{make([][]HOp, n), make([][]HOp, n)},
		panics: make([]string, n), cache: map[string]bool{}, rounds: rounds, fullEvery: *c10PairFull}
	p.stats.outcomes = map[string]int{}
	p.stats.lab = map[string]bool{}
	p.spin = runtime.GOMAXPROCS(0) >= 2*n
	for i, o := range sc.Setup {
		// (unique values: setup 20..179 and from 2160 on, racers 202..; a setup of the move family has hundreds of leaves)
		u := 10 + i
		if i >= 80 {
			u = 1000 + i
		}
		p.setupT = append(p.setupT, burstHOp(99, o, u))
	}
	p.base = int64(2*len(sc.Setup) + 1)
	for g, prog := range sc.Racers {
		for i, o := range prog {
			p.tmpl[g] = append(p.tmpl[g], burstHOps(g, o, 100*(g+1)+i+1)...)
		}
		for k := range p.bufs {
			p.bufs[k][g] = make([]HOp, len(p.tmpl[g]))
		}
	}
	var wg sync.WaitGroup
	wg.Add(n)
	for g := n - 1; g >= 0; g-- {
		go p.worker(g, &wg)
	}
	stuck, deadlock := watched("ctreeprop.(*pairRun).worker", *c10Stall, *c10Confirm, wg.Wait)
	lab := pairStaticLabels(sc)
	switch sc.Family {
	case "access":
		lab = accessStaticLabels(sc)
	case "move":
		lab = moveStaticLabels(sc)
	}
	if stuck != "" {
		if deadlock {
			return nil, false, 0, &burstFail{"deadlock", stuck}
		}
		// not a deadlock: the machine is too busy for that many rounds within the stall guard (or a racer
		// is stuck for another reason). The rounds made so far are all judged; stop after the current one.
		p.stop.Store(true)
		joined := make(chan struct{})
		go func() { wg.Wait(); close(joined) }()
		select {
		case <-joined:
			lab["case-cut-short-by-the-stall-guard"] = true
		case <-time.After(*c10Confirm):
			// the racers cannot be reclaimed and their records must not be read: nothing is concluded from this case
			return []string{"case-inconclusive-stall"}, false, 0, nil
		}
	}
	p.stop.Store(true)
	if p.fail != nil {
		sc.Witness = p.witness
		return nil, false, p.rounds, p.fail
	}
	if p.panics[0] != "" {
		return nil, false, p.rounds, &burstFail{"panic", "the coordinating racer panicked: " + p.panics[0]}
	}
	if p.stats.inconcl > 0 {
		lab["round-inconclusive-oracle"] = true
	}
	if len(p.stats.outcomes) >= 2 {
		lab["observed:two-or-more-different-outcomes"] = true
	}
	if p.stats.overlap > 0 {
		lab["observed:stamped-overlap"] = true
	}
	for l := range p.stats.lab {
		lab["observed:"+l] = true
	}
	lab[fmt.Sprintf("forms-judged-by-the-full-judges:%s", bucket(p.stats.forms))] = true
	for l := range lab {
		labels = append(labels, l)
	}
	sort.Strings(labels)
	return labels, len(p.stats.outcomes) >= 2 || p.stats.overlap > 0, p.rounds, nil
}

func bucket(n int) string {
	switch {
	case n <= 1:
		return "1"
	case n <= 3:
		return "2-3"
	case n <= 10:
		return "4-10"
	case n <= 40:
		return "11-40"
	}
	return ">40"
}

// patMatches: does the delete pattern remove a leaf at path (Query semantics: a
// pattern that ends above the leaf removes the subtree; one trailing glob may stand for nothing).
func patMatches(pat, path []string) bool {
	for i, e := range pat {
		if i >= len(path) {
			return e == "*" && i == len(pat)-1
		}
		if e != "*" && e != path[i] {
			return false
		}
	}
	return true
}

// pairStaticLabels: which family the scenario belongs to.
func pairStaticLabels(sc *PairScenario) map[string]bool {
	lab := map[string]bool{}
	leaves := map[string]bool{}
	for _, o := range sc.Setup {
		if o.Kind == "add" {
			leaves[strings.Join(o.Path, "/")] = true
		}
	}
	handle := map[int][]string{}
	for _, o := range sc.Setup {
		if o.Kind == "getleaf" && len(sc.Racers) > 0 {
			n := len(sc.Racers)
			handle[((o.For%n)+n)%n] = o.Path
		}
	}
	type wr struct {
		g        int
		path     []string
		kind     string
		existing bool
	}
	var writers []wr
	for g, prog := range sc.Racers {
		for _, o := range prog {
			switch o.Kind {
			case "add":
				writers = append(writers, wr{g, o.Path, "add", leaves[strings.Join(o.Path, "/")]})
			case "hupd":
				if hp, ok := handle[g]; ok {
					writers = append(writers, wr{g, hp, "hupd", true})
				}
			}
		}
	}
	for g, prog := range sc.Racers {
		for _, o := range prog {
			if !isDelKind(o.Kind) {
				if o.Kind == "glv" || o.Kind == "hval" {
					lab["reader"] = true
				}
				continue
			}
			lab["deleter:"+o.Kind] = true
			for _, w := range writers {
				if w.g == g {
					continue
				}
				dep := "plain-delete"
				if o.Kind != "del" {
					dep = "value-dependent-delete"
				}
				switch {
				case w.existing && patMatches(o.Path, w.path):
					lab["family:"+w.kind+"-on-existing-leaf-vs-"+dep+"-of-it"] = true
				case !w.existing && patMatches(o.Path, w.path):
					lab["family:add-of-new-path-vs-"+dep+"-covering-it"] = true
				}
			}
		}
	}
	if sc.Stamped {
		lab["stamped"] = true
	} else {
		lab["unstamped"] = true
	}
	if sc.Skew > 0 {
		lab["start-skew"] = true
	}
	lab[fmt.Sprintf("racers-%d", len(sc.Racers))] = true
	if len(sc.Racers) > 0 && len(sc.Racers[0]) > 0 {
		lab["leads:"+sc.Racers[0][0].Kind] = true // racer 0 starts a little earlier than the racers it releases
	}
	return lab
}

// TestC10Pair: see the file comment.
func TestC10Pair(t *testing.T) { runPairPart(t, "pair", genPair) }

func runPairPart(t *testing.T, part string, gen func(*rapid.T) *PairScenario) {
	if !vstat.Enabled("C10") {
		t.Skip()
	}
	rec := vstat.New("C10", part)
	total, cases := 0, 0
	start := time.Now()
	rec.RunRapid(t, func(rt *rapid.T) {
		sc := gen(rt)
		for _, f := range strings.Split(*c10PairForce, ",") {
			switch f {
			case "stamped":
				sc.Stamped = true
			case "unstamped":
				sc.Stamped = false
				for g := range sc.Racers {
					sc.Racers[g] = sc.Racers[g][:1]
					if sc.Racers[g][0].Kind == "reset" {
						sc.Stamped = true // (several recorded operations: program order needs the stamps)
					}
				}
			case "noskew":
				sc.Skew = 0
			}
		}
		rec.Current(sc)
		rounds := sc.Rounds
		if *c10PairRounds > 0 {
			rounds = *c10PairRounds
		}
		caseStart := time.Now()
		labels, nontrivial, n, fail := runPair(sc, rounds)
		if strings.Contains(*c10PairForce, "trace") {
			// diagnostics: what every case cost
			fmt.Printf("CASE %d setup=%d racers=%d rounds=%d in %v (%.0f rounds/s) hit=%v %v\n", cases, len(sc.Setup), len(sc.Racers), n, time.Since(caseStart).Round(time.Millisecond),
				float64(n)/time.Since(caseStart).Seconds(), fail != nil, labels)
		}
		if fail != nil && strings.Contains(*c10PairForce, "count") {
			// diagnostics: count the failing cases instead of stopping at the first
			b, _ := json.Marshal(sc.Racers)
			fmt.Printf("HIT case %d after %d rounds (%v since start) stamped=%v skew=%d %s: %s\n", cases, n, time.Since(start).Round(time.Millisecond), sc.Stamped, sc.Skew, b, fail.class)
			fail = nil
		}
		if fail != nil {
			rt.Fatalf("%s", rec.Fail(sc, fail.class, "%s", fail.msg))
		}
		total += n
		cases++
		// total rounds = sum over these labels
		rl := fmt.Sprintf("rounds-per-case-%d", n)
		if n != rounds {
			rl = "rounds-per-case:fewer-than-requested"
		}
		rec.Case(sc, nontrivial, append(labels, rl)...)
	})
	el := time.Since(start)
	rec.Note(part+": %d rounds in %v (%.0f rounds/s), every round judged (canonical form looked up; first occurrence and one round in %d by the full judges)", total, el.Round(time.Millisecond), float64(total)/el.Seconds(), *c10PairFull)
	rec.Flush(t.Failed() || cases >= vstat.RapidChecks())
}

// replayPair runs a saved pair scenario again (many more rounds) and, if the
// schedule does not come back, re-judges its witness.
func replayPair(rf *vstat.ReplayFile) string {
	var sc PairScenario
	if err := json.Unmarshal(rf.Scenario, &sc); err != nil {
		return "bad pair scenario: " + err.Error()
	}
	if len(sc.Racers) == 0 {
		return "bad pair scenario: no racers"
	}
	wit := sc.Witness
	sc.Witness = nil
	rounds := min(max(sc.Rounds, 1000)*5, 200000) // (a corpus replay has two minutes, also on a busy machine)
	fmt.Printf("NOTE: a pair scenario is free-running: it is executed for %d rounds as recorded and again with the other stamping mode; the original schedule cannot be forced\n", rounds)
	for _, stamped := range []bool{sc.Stamped, !sc.Stamped} {
		if sc.Stamped = stamped; !stamped {
			multi := false
			for _, prog := range sc.Racers {
				multi = multi || len(prog) > 1 || (len(prog) == 1 && prog[0].Kind == "reset")
			}
			if multi {
				continue // without stamps program order is not recorded: one operation per racer only
			}
		}
		if _, _, _, fail := runPair(&sc, rounds); fail != nil {
			if sc.Witness != nil {
				for i := range sc.Witness.Ops {
					fmt.Println("  ", sc.Witness.Ops[i].String())
				}
			}
			return fail.class + ": " + fail.msg
		}
	}
	if wit != nil {
		fmt.Println("NOTE: the schedule did not come back; the recorded history of the failing round is re-judged")
		for i := range wit.Ops {
			fmt.Println("  ", wit.Ops[i].String())
		}
		if f, _ := judgeSmall(wit, true); f != nil {
			return f.class + ": " + f.msg
		}
	}
	return ""
}

// ---- generator ----------------------------------------------------------------------------------

func genPair(t *rapid.T) *PairScenario {
	sc := &PairScenario{}
	cat := func(p []string, more ...string) []string { return append(append([]string{}, p...), more...) }
	depth := rapid.SampledFrom([]int{1, 2, 2, 2, 3}).Draw(t, "depth")
	focus := []string{"a", "p", "x"}[:depth]
	parent := focus[:depth-1]
	sibling := cat(parent, "q")
	odd := func(name string) bool { return rapid.Bool().Draw(t, name) }
	sc.Setup = append(sc.Setup, BOp{Kind: "add", Path: cat(focus), Odd: odd("focusodd")})
	hasSibling := rapid.IntRange(0, 2).Draw(t, "sibling") == 0
	if hasSibling {
		sc.Setup = append(sc.Setup, BOp{Kind: "add", Path: sibling, Odd: odd("siblingodd")})
	}
	other := rapid.SampledFrom([][]string{nil, nil, nil, {"b"}, {"b", "r"}}).Draw(t, "other")
	if other != nil {
		sc.Setup = append(sc.Setup, BOp{Kind: "add", Path: other, Odd: odd("otherodd")})
	}
	leafPaths := [][]string{cat(focus)}
	if hasSibling {
		leafPaths = append(leafPaths, sibling)
	}
	if other != nil {
		leafPaths = append(leafPaths, other)
	}

	writer := func(t *rapid.T) BOp {
		switch x := rapid.IntRange(0, 11).Draw(t, "writer"); {
		case x < 5:
			return BOp{Kind: "add", Path: cat(focus), Odd: odd("odd")}
		case x < 7:
			return BOp{Kind: "hupd", Path: cat(focus), Odd: odd("odd")} // Path: where the handle is taken (setup)
		case x < 8:
			return BOp{Kind: "add", Path: sibling, Odd: odd("odd")} // existing or new, next to the focus
		case x < 9:
			return BOp{Kind: "add", Path: cat(parent, "n"), Odd: odd("odd")} // a new leaf next to the focus
		case x < 10:
			return BOp{Kind: "add", Path: cat(focus, "z"), Odd: odd("odd")} // fails while the focus is a leaf
		case x < 11 && depth > 1:
			return BOp{Kind: "add", Path: cat(parent), Odd: odd("odd")} // fails while the parent is a branch
		default:
			return BOp{Kind: "add", Path: rapid.SampledFrom(leafPaths).Draw(t, "leaf"), Odd: odd("odd")}
		}
	}
	patterns := [][]string{cat(focus), cat(focus), cat(parent), cat(parent, "*"), {}, {"*"}, focus[:1]}
	if depth >= 2 {
		patterns = append(patterns, cat([]string{"*"}, focus[1:]...), []string{"a", "*"})
	}
	if depth == 3 {
		patterns = append(patterns, []string{"a", "*", "x"}, []string{"*", "*", "*"})
	}
	deleter := func(t *rapid.T) BOp {
		return BOp{Kind: rapid.SampledFrom([]string{"delcond", "delcond", "delcond", "walkdel", "walkdel", "walkdel", "del", "del"}).Draw(t, "delkind"),
			Path: cat(rapid.SampledFrom(patterns).Draw(t, "pattern"))}
	}
	reader := func(t *rapid.T) BOp {
		switch rapid.IntRange(0, 3).Draw(t, "reader") {
		case 0:
			return BOp{Kind: "hval", Path: cat(focus)}
		case 1:
			return BOp{Kind: "glv", Path: rapid.SampledFrom(leafPaths).Draw(t, "leaf")}
		}
		return BOp{Kind: "glv", Path: cat(focus)}
	}
	progs := [][]BOp{{writer(t)}, {deleter(t)}}
	if rapid.IntRange(0, 3).Draw(t, "third") == 0 {
		switch rapid.IntRange(0, 2).Draw(t, "thirdrole") {
		case 0:
			progs = append(progs, []BOp{writer(t)})
		case 1:
			progs = append(progs, []BOp{deleter(t)})
		default:
			progs = append(progs, []BOp{reader(t)})
		}
	}
	sc.Stamped = rapid.IntRange(0, 2).Draw(t, "stamped") != 0
	if sc.Stamped && rapid.IntRange(0, 2).Draw(t, "second") == 0 {
		// a second operation for one racer: read back / write again / delete again
		g := rapid.IntRange(0, len(progs)-1).Draw(t, "secondfor")
		var o BOp
		switch rapid.IntRange(0, 3).Draw(t, "secondrole") {
		case 0:
			o = writer(t)
		case 1:
			o = deleter(t)
		default:
			o = reader(t)
		}
		progs[g] = append(progs[g], o)
	}
	// who leads (racer 0 releases the others and starts a little earlier)
	perm := rapid.Permutation(progs).Draw(t, "order")
	sc.Racers = perm
	// handles: a racer that uses one gets it from the setup (one handle per racer, the first path asked for)
	for g, prog := range sc.Racers {
		for i := range prog {
			if prog[i].Kind == "hupd" || prog[i].Kind == "hval" {
				sc.Setup = append(sc.Setup, BOp{Kind: "getleaf", Path: prog[i].Path, For: g})
				break
			}
		}
		for i := range prog {
			if prog[i].Kind == "hupd" || prog[i].Kind == "hval" {
				prog[i].Path = nil
			}
		}
	}
	sc.Skew = rapid.SampledFrom([]int{0, 0, 3, 10, 40}).Draw(t, "skew")
	sc.Rounds = rapid.SampledFrom([]int{10000, 20000, 40000}).Draw(t, "rounds")
	return sc
}

// TestC10PairSelfJudge unit-checks the part on hand-made rounds of its family
// (both stamping modes: without stamps all racer operations share one interval)
// and runs the machinery itself for a few thousand rounds.
func TestC10PairSelfJudge(t *testing.T) {
	ap := []string{"a", "p"}
	mk := func(add, del [2]int64, kind string, newVal int, removed bool, reported []int, final []KV) *History {
		d := HOp{G: 1, Kind: kind, Path: []string{"a"}, Call: del[0], Ret: del[1]}
		if kind == "walkdel" {
			d.Vals = append([]int{}, reported...)
		} else {
			d.Paths = [][]string{}
			if removed {
				d.Paths = [][]string{ap}
			}
		}
		if final == nil {
			final = []KV{}
		}
		return &History{Workers: 2, Ops: []HOp{
			{G: 99, Kind: "add", Path: ap, Val: 20, Call: 1, Ret: 2},
			{G: 0, Kind: "add", Path: ap, Val: newVal, Call: add[0], Ret: add[1]},
			d,
			{G: 2, Kind: "final", Call: 7, Ret: 8, KV: final},
		}}
	}
	for _, iv := range []struct {
		name     string
		add, del [2]int64
	}{{"unstamped", [2]int64{3, 4}, [2]int64{3, 4}}, {"stamped", [2]int64{3, 6}, [2]int64{4, 5}}} {
		for _, c := range []struct {
			name string
			h    *History
			bad  bool
		}{
			{"delete first, the Add files the leaf again", mk(iv.add, iv.del, "delcond", 203, true, nil, []KV{{ap, 203}}), false},
			{"Add first, the condition is false for the new value", mk(iv.add, iv.del, "delcond", 203, false, nil, []KV{{ap, 203}}), false},
			{"Add first, the new value is removed", mk(iv.add, iv.del, "delcond", 202, true, nil, nil), false},
			{"LOST UPDATE: the delete judged the old value, the Add returned nil, the leaf is gone", mk(iv.add, iv.del, "delcond", 203, true, nil, nil), true},
			{"walkdel first: old value reported, new leaf present", mk(iv.add, iv.del, "walkdel", 202, true, []int{20}, []KV{{ap, 202}}), false},
			{"walkdel second: new value reported, leaf gone", mk(iv.add, iv.del, "walkdel", 202, true, []int{202}, nil), false},
			{"LOST UPDATE: old value reported, Add returned nil, leaf gone", mk(iv.add, iv.del, "walkdel", 202, true, []int{20}, nil), true},
		} {
			f, inc := judgeSmall(c.h, true)
			if len(inc) > 0 || (f != nil) != c.bad {
				t.Errorf("%s / %s: judged %v (inconclusive %v), want refused=%v", iv.name, c.name, f, inc, c.bad)
			}
			if dv := diffJudge(c.h, 100000); dv.inconclusive != "" || dv.ok == c.bad {
				t.Errorf("%s / %s: differential oracle ok=%v, want %v", iv.name, c.name, dv.ok, !c.bad)
			}
		}
	}
	// the machinery: every round is recorded completely and judged legal on this tree
	for _, stamped := range []bool{true, false} {
		sc := &PairScenario{
			Setup:   []BOp{{Kind: "add", Path: ap}, {Kind: "add", Path: []string{"a", "q"}, Odd: true}, {Kind: "getleaf", Path: ap, For: 2}},
			Racers:  [][]BOp{{{Kind: "add", Path: ap, Odd: true}}, {{Kind: "delcond", Path: []string{"a"}}}, {{Kind: "hupd"}}},
			Stamped: stamped, Skew: 3, Rounds: 3000,
		}
		labels, _, n, fail := runPair(sc, sc.Rounds)
		if fail != nil || n != sc.Rounds {
			t.Fatalf("stamped=%v: %d rounds, %v", stamped, n, fail)
		}
		if !strings.Contains(strings.Join(labels, " "), "family:hupd-on-existing-leaf-vs-value-dependent-delete-of-it") {
			t.Errorf("labels %v", labels)
		}
	}
}
