package ctreeprop

// C10 differential history oracle.
//
// "Once all operations have finished the content equals that produced by some
// sequential ordering of them", and every point operation and delete is atomic:
// a recorded history of a SMALL concurrent run is legal iff some total order of
// its operations that respects real-time order (an operation that returned
// before another one was invoked comes first; this includes every goroutine's
// program order) reproduces every recorded result AND the recorded final
// content. The specification the orders are run against is the tree itself,
// used from one goroutine on a fresh instance (its sequential behaviour is what
// C09 decides): the oracle is a brute-force linearizability check, exact for
// whatever operations and values the history contains - the empty path, nil
// values, emptied trees included - and independent of the hand-written
// sequential model behind porcupine (c10_model_test.go), which judges the same
// histories whenever they lie inside its domain.
//
// Queries and walks that ran concurrently with other operations are not part of
// the check (the property promises the interval rule for them, not a snapshot);
// snapshots (Atomic) and the final walk are. GetLeafValue is Get followed by
// Value (the node is looked up, the locks are dropped, then its value is read):
// as in the model judge it is first tried as one step and, if no order is found,
// as two steps inside its interval (a delete plus an update through a retained
// handle may legally fall between them).
//
// The search is a depth-first enumeration with pruning at the first result that
// differs; the tree is rebuilt from the prefix after every dead end. budget
// bounds the number of operations executed; running out of it is inconclusive,
// never a violation.

import (
	"fmt"
	"sort"
	"strings"

	"github.com/openconfig/gnmi/ctree"
)

type diffVerdict struct {
	ok           bool
	inconclusive string
	msg          string
	execs        int
	orders       int  // dead ends + 1: how much of the order space had to be looked at
	twoStep      bool // GetLeafValue had to be split into lookup and read
}

type diffEnv struct {
	tr    *ctree.Tree
	hnd   map[int]*ctree.Leaf
	nodes map[int]*ctree.Tree // two-step GetLeafValue: the node its lookup found, by operation index
}

func newDiffEnv() *diffEnv {
	return &diffEnv{tr: &ctree.Tree{}, hnd: map[int]*ctree.Leaf{}, nodes: map[int]*ctree.Tree{}}
}

// dstep is one atomic step of the sequential execution: a whole operation, or
// one half of a GetLeafValue (phase 1 = lookup, phase 2 = read).
type dstep struct {
	src   int // index into h.Ops
	phase int
}

type diffJ struct {
	h      *History
	idx    []dstep
	want   []string // their recorded results, canonical
	execs  int
	budget int
	orders int
	// diagnostics: the longest prefix that could be reproduced and what stopped it
	best     []int
	bestStop []string
}

// resultKey renders the result of an operation canonically.
func resultKey(o *HOp) string {
	switch o.Kind {
	case "add":
		if o.Err != "" {
			return "error"
		}
		return "nil"
	case "glv", "hval":
		return vstr(o.Got)
	case "getleaf":
		return o.Node
	case "hupd":
		return ""
	case "del", "delcond":
		ks := make([]string, len(o.Paths))
		for i, p := range o.Paths {
			ks[i] = strings.Join(p, "/")
		}
		sort.Strings(ks)
		return "[" + strings.Join(ks, " ") + "]"
	case "walkdel":
		vs := append([]int{}, o.Vals...)
		sort.Ints(vs)
		return fmt.Sprint(vs)
	case "query", "walk", "final":
		return kvstr(o.KV)
	case "children":
		if o.Node == "nil" {
			return "nil"
		}
		return fmt.Sprintf("%q", o.Names)
	case "isbranch":
		return o.Node
	}
	return "?"
}

func diffTakesPart(o *HOp) bool {
	if o.Kind == "query" || o.Kind == "walk" {
		return o.Atomic
	}
	// accessors of retained nodes are judged by their interval rules only
	return !isHeldKind(o.Kind)
}

// diffTwoSteps: the operation is a lookup followed by a read of the node found,
// with every lock dropped in between (GetLeafValue; Get(path) and then Value,
// Children or IsBranch; a lookup through a sub-tree node, see c10_access_test.go).
func diffTwoSteps(o *HOp) bool {
	return o.Kind == "glv" || ((o.Kind == "children" || o.Kind == "isbranch") && len(o.Path) > 0)
}

func hasTwoSteps(h *History) bool {
	for i := range h.Ops {
		if diffTwoSteps(&h.Ops[i]) {
			return true
		}
	}
	return false
}

// apply executes step k (of d.idx) sequentially on e and reports its
// canonical result; ok=false if it cannot be executed at all.
func (d *diffJ) apply(e *diffEnv, k int) (res string, ok bool) {
	d.execs++
	st := d.idx[k]
	src := &d.h.Ops[st.src]
	defer func() {
		if r := recover(); r != nil {
			res, ok = fmt.Sprintf("panic: %v", r), false
		}
	}()
	switch st.phase {
	case 1:
		e.nodes[st.src] = e.tr.Get(src.Path)
		return "", true
	case 2:
		n := e.nodes[st.src]
		switch src.Kind {
		case "children":
			m := n.Children()
			if m == nil {
				return "nil", true
			}
			names := make([]string, 0, len(m))
			for k := range m {
				names = append(names, k)
			}
			sort.Strings(names)
			return fmt.Sprintf("%q", names), true
		case "isbranch":
			if n.IsBranch() {
				return "branch", true
			}
			return "other", true
		}
		return vstr(toInt(n.Value())), true
	}
	x := HOp{G: src.G, Kind: src.Kind, Path: src.Path, Val: src.Val, Nil: src.Nil, H: src.H, Sorted: src.Sorted, Via: src.Via, Base: src.Base}
	var l *ctree.Leaf
	if x.Kind == "hval" || x.Kind == "hupd" {
		if l = e.hnd[x.H]; l == nil {
			return "no leaf handle " + fmt.Sprint(x.H) + " in this order", false
		}
	}
	var clk int64
	got := perform(e.tr, &x, l, func() int64 { clk++; return clk })
	if x.Kind == "getleaf" && got != nil {
		e.hnd[x.H] = got
	}
	return resultKey(&x), true
}

func (d *diffJ) replay(path []int) *diffEnv {
	e := newDiffEnv()
	for _, k := range path {
		d.apply(e, k)
	}
	return e
}

// enabled: the steps not yet executed that no other unexecuted step precedes in
// real time (the read of a two-step GetLeafValue also waits for its lookup).
func (d *diffJ) enabled(done []bool) []int {
	var out []int
	for k, st := range d.idx {
		if done[k] {
			continue
		}
		if st.phase == 2 && !done[k-1] {
			continue
		}
		call := d.h.Ops[st.src].Call
		free := true
		for j, o := range d.idx {
			if j != k && !done[j] && d.h.Ops[o.src].Ret < call {
				free = false
				break
			}
		}
		if free {
			out = append(out, k)
		}
	}
	return out
}

func (d *diffJ) stepString(k int) string {
	st := d.idx[k]
	s := d.h.Ops[st.src].String()
	switch st.phase {
	case 1:
		return s + " [lookup]"
	case 2:
		return s + " [read]"
	}
	return s
}

// dfs: e holds the tree after path on entry and is consumed.
func (d *diffJ) dfs(done []bool, path []int, e *diffEnv) (found bool) {
	if len(path) == len(d.idx) {
		return true
	}
	var stop []string
	dirty := false
	for _, k := range d.enabled(done) {
		if d.execs > d.budget {
			return false
		}
		if dirty {
			e = d.replay(path)
			d.orders++
		}
		dirty = true
		res, ok := d.apply(e, k)
		if !ok || res != d.want[k] {
			if len(stop) < 6 {
				stop = append(stop, fmt.Sprintf("%s (sequentially here: %s)", d.stepString(k), res))
			}
			continue
		}
		done[k] = true
		if d.dfs(done, append(path, k), e) {
			return true
		}
		done[k] = false
	}
	if len(path) >= len(d.best) && len(stop) > 0 {
		d.best = append([]int{}, path...)
		d.bestStop = stop
	}
	return false
}

// diffJudge decides whether some sequential order explains the history.
func diffJudge(h *History, budget int) (v diffVerdict) {
	if h.Panic != "" {
		return diffVerdict{msg: "an operation panicked: " + h.Panic}
	}
	// a value of a type nobody stored cannot be reproduced by any order (and the
	// queries and walks that overlapped other operations are not re-executed below)
	if _, m := foreignResult(h); m != "" {
		return diffVerdict{msg: m}
	}
	for i := range h.Ops {
		if h.Ops[i].Ret < h.Ops[i].Call {
			return diffVerdict{inconclusive: fmt.Sprintf("malformed history: op %d returns before it is called", i)}
		}
	}
	v = diffSearch(h, budget, false)
	if !v.ok && v.inconclusive == "" && hasTwoSteps(h) {
		w := diffSearch(h, budget-v.execs, true)
		w.execs += v.execs
		w.orders += v.orders
		w.twoStep = true
		return w
	}
	return v
}

func diffSearch(h *History, budget int, twoStep bool) (v diffVerdict) {
	d := &diffJ{h: h, budget: budget}
	var srcs []int
	for i := range h.Ops {
		if diffTakesPart(&h.Ops[i]) {
			srcs = append(srcs, i)
		}
	}
	sort.SliceStable(srcs, func(a, b int) bool { return h.Ops[srcs[a]].Call < h.Ops[srcs[b]].Call })
	for _, i := range srcs {
		if twoStep && diffTwoSteps(&h.Ops[i]) {
			d.idx = append(d.idx, dstep{i, 1}, dstep{i, 2})
			d.want = append(d.want, "", resultKey(&h.Ops[i]))
			continue
		}
		d.idx = append(d.idx, dstep{i, 0})
		d.want = append(d.want, resultKey(&h.Ops[i]))
	}
	found := d.dfs(make([]bool, len(d.idx)), nil, newDiffEnv())
	v.execs, v.orders = d.execs, d.orders+1
	switch {
	case found:
		v.ok = true
	case d.execs > d.budget:
		v.inconclusive = fmt.Sprintf("the differential oracle ran out of its budget of %d sequential operations on a history of %d", budget, len(d.idx))
	default:
		var pre []string
		for _, k := range d.best {
			pre = append(pre, d.stepString(k))
		}
		if len(pre) > 12 {
			pre = append([]string{fmt.Sprintf("... %d more ...", len(pre)-12)}, pre[len(pre)-12:]...)
		}
		v.msg = fmt.Sprintf("no sequential order of the %d recorded operations that respects real-time order reproduces their results and the final content on a tree used from one goroutine; the longest reproducible prefix has %d steps [%s]; none of the steps that could come next fits: %s",
			len(srcs), len(d.best), strings.Join(pre, " ; "), strings.Join(d.bestStop, " | "))
	}
	return v
}
