package ctreeprop

// C10 differential history oracle.
//
// "Once all operations have finished the content equals that produced by some
// sequential ordering of them", and every point operation and delete is atomic:
// a recorded history of a SMALL concurrent run is legal iff some total order of
// its operations that respects real-time order (an operation that returned
// before another one was invoked comes first; this includes every goroutine's
// program order) reproduces every recorded result AND the recorded final
// content. The specification the orders are run against is the tree itself,
// used from one goroutine on a fresh instance (its sequential behaviour is what
// C09 decides): the oracle is a brute-force linearizability check, exact for
// whatever operations and values the history contains - the empty path, nil
// values, emptied trees included - and independent of the hand-written
// sequential model behind porcupine (c10_model_test.go), which judges the same
// histories whenever they lie inside its domain.
//
// Queries and walks that ran concurrently with other operations are not part of
// the check (the property promises the interval rule for them, not a snapshot);
// snapshots (Atomic) and the final walk are.
//
// The search is a depth-first enumeration with pruning at the first result that
// differs; the tree is rebuilt from the prefix after every dead end. budget
// bounds the number of operations executed; running out of it is inconclusive,
// never a violation.

import (
	"fmt"
	"sort"
	"strings"

	"github.com/openconfig/gnmi/ctree"
)

type diffVerdict struct {
	ok           bool
	inconclusive string
	msg          string
	execs        int
	orders       int // dead ends + 1: how much of the order space had to be looked at
}

type diffEnv struct {
	tr  *ctree.Tree
	hnd map[int]*ctree.Leaf
}

type diffJ struct {
	h      *History
	idx    []int    // indices into h.Ops of the operations that take part
	want   []string // their recorded results, canonical
	execs  int
	budget int
	orders int
	// diagnostics: the longest prefix that could be reproduced and what stopped it
	best     []int
	bestStop []string
}

// resultKey renders the result of an operation canonically.
func resultKey(o *HOp) string {
	switch o.Kind {
	case "add":
		if o.Err != "" {
			return "error"
		}
		return "nil"
	case "glv", "hval":
		return vstr(o.Got)
	case "getleaf":
		return o.Node
	case "hupd":
		return ""
	case "del", "delcond":
		ks := make([]string, len(o.Paths))
		for i, p := range o.Paths {
			ks[i] = strings.Join(p, "/")
		}
		sort.Strings(ks)
		return "[" + strings.Join(ks, " ") + "]"
	case "walkdel":
		vs := append([]int{}, o.Vals...)
		sort.Ints(vs)
		return fmt.Sprint(vs)
	case "query", "walk", "final":
		return kvstr(o.KV)
	}
	return "?"
}

func diffTakesPart(o *HOp) bool {
	if o.Kind == "query" || o.Kind == "walk" {
		return o.Atomic
	}
	return true
}

// apply executes the operation at position k (of d.idx) sequentially on e and
// reports its canonical result; ok=false if it cannot be executed at all.
func (d *diffJ) apply(e *diffEnv, k int) (res string, ok bool) {
	d.execs++
	src := &d.h.Ops[d.idx[k]]
	x := HOp{G: src.G, Kind: src.Kind, Path: src.Path, Val: src.Val, Nil: src.Nil, H: src.H}
	var l *ctree.Leaf
	if x.Kind == "hval" || x.Kind == "hupd" {
		if l = e.hnd[x.H]; l == nil {
			return "no leaf handle " + fmt.Sprint(x.H) + " in this order", false
		}
	}
	defer func() {
		if r := recover(); r != nil {
			res, ok = fmt.Sprintf("panic: %v", r), false
		}
	}()
	var clk int64
	got := perform(e.tr, &x, l, func() int64 { clk++; return clk })
	if x.Kind == "getleaf" && got != nil {
		e.hnd[x.H] = got
	}
	return resultKey(&x), true
}

func (d *diffJ) replay(path []int) *diffEnv {
	e := &diffEnv{tr: &ctree.Tree{}, hnd: map[int]*ctree.Leaf{}}
	for _, k := range path {
		d.apply(e, k)
	}
	return e
}

// enabled: the not yet executed operations no other unexecuted operation precedes in real time.
func (d *diffJ) enabled(done []bool) []int {
	var out []int
	for k := range d.idx {
		if done[k] {
			continue
		}
		call := d.h.Ops[d.idx[k]].Call
		free := true
		for j := range d.idx {
			if j != k && !done[j] && d.h.Ops[d.idx[j]].Ret < call {
				free = false
				break
			}
		}
		if free {
			out = append(out, k)
		}
	}
	return out
}

// dfs: e holds the tree after path on entry and is consumed.
func (d *diffJ) dfs(done []bool, path []int, e *diffEnv) (found bool) {
	if len(path) == len(d.idx) {
		return true
	}
	var stop []string
	dirty := false
	for _, k := range d.enabled(done) {
		if d.execs > d.budget {
			return false
		}
		if dirty {
			e = d.replay(path)
			d.orders++
		}
		dirty = true
		res, ok := d.apply(e, k)
		if !ok || res != d.want[k] {
			if len(stop) < 6 {
				stop = append(stop, fmt.Sprintf("%s (sequentially here: %s)", d.h.Ops[d.idx[k]].String(), res))
			}
			continue
		}
		done[k] = true
		if d.dfs(done, append(path, k), e) {
			return true
		}
		done[k] = false
	}
	if len(path) >= len(d.best) && len(stop) > 0 {
		d.best = append([]int{}, path...)
		d.bestStop = stop
	}
	return false
}

// diffJudge decides whether some sequential order explains the history.
func diffJudge(h *History, budget int) (v diffVerdict) {
	if h.Panic != "" {
		return diffVerdict{msg: "an operation panicked: " + h.Panic}
	}
	d := &diffJ{h: h, budget: budget}
	for i := range h.Ops {
		o := &h.Ops[i]
		if o.Ret < o.Call {
			return diffVerdict{inconclusive: fmt.Sprintf("malformed history: op %d returns before it is called", i)}
		}
		if diffTakesPart(o) {
			d.idx = append(d.idx, i)
		}
	}
	sort.SliceStable(d.idx, func(a, b int) bool { return h.Ops[d.idx[a]].Call < h.Ops[d.idx[b]].Call })
	for _, i := range d.idx {
		d.want = append(d.want, resultKey(&h.Ops[i]))
	}
	found := d.dfs(make([]bool, len(d.idx)), nil, &diffEnv{tr: &ctree.Tree{}, hnd: map[int]*ctree.Leaf{}})
	v.execs, v.orders = d.execs, d.orders+1
	switch {
	case found:
		v.ok = true
	case d.execs > d.budget:
		v.inconclusive = fmt.Sprintf("the differential oracle ran out of its budget of %d sequential operations on a history of %d", budget, len(d.idx))
	default:
		var pre []string
		for _, k := range d.best {
			pre = append(pre, d.h.Ops[d.idx[k]].String())
		}
		if len(pre) > 12 {
			pre = append([]string{fmt.Sprintf("... %d more ...", len(pre)-12)}, pre[len(pre)-12:]...)
		}
		v.msg = fmt.Sprintf("no sequential order of the %d recorded operations that respects real-time order reproduces their results and the final content on a tree used from one goroutine; the longest reproducible prefix has %d operations [%s]; none of the operations that could come next fits: %s",
			len(d.idx), len(d.best), strings.Join(pre, " ; "), strings.Join(d.bestStop, " | "))
	}
	return v
}
