package ctreeprop

import (
	"errors"
	"fmt"
	"sort"
	"strings"
	"testing"

	"github.com/openconfig/gnmi/ctree"
	"pgregory.net/rapid"
	"verif/harness/internal/vstat"
)

// Part callback of C09: the functions the caller hands to the tree have state and a call protocol.
//
// The other parts use conditions that are predicates of the value (even, a function of the type), so the model
// can predict what a conditional delete removes and nobody notices how often, or in which pass, the condition
// is asked. Callers' conditions are closures: a one-shot permit, "evict at most N", "once per value", a closure
// that notes what it let go (DeleteConditional returns paths only, so this is the one way to learn the removed
// VALUES). For those the property's "a delete removes and returns exactly the leaves a query for the same path
// would report (restricted by the condition, if any)" is judged without predicting anything the tree does not
// promise (the tree visits in map order, so WHICH leaves a budget of k picks is open):
//
//   reading adopted (doc comments of DeleteConditional "removes all leaves at or below subpath ... for those
//   leaves which the given conditional function returns true, returning the list of all leaves removed" and of
//   WalkDeleted "removes nodes ... that match path and satisfy the condition function and calls function f on
//   every removed node"): ONE call of the delete puts every leaf a query for the same path reports to the
//   condition exactly once, and nothing else; the leaves for which it answered yes in this call are removed and
//   returned (WalkDeleted: handed to f, each once, never before the condition accepted that value), the leaves
//   for which it answered no stay.
//
// Judged per call, as multisets of values (the condition sees values only; scenarios with all-distinct values
// make that a statement about leaves, scenarios over 1..4 have several leaves holding the same value):
//   (1) consulted[v] == number of matching leaves holding v (never for a value no matching leaf holds);
//   (2) at every instant f-calls[v] <= yes-answers[v]; at the end f-calls == yes-answers (WalkDeleted);
//   (3) the paths DeleteConditional returned are exactly the leaves gone from the tree (Walk before/after);
//   (4) every leaf gone is one the query for the same path reported;
//   (5) values of the leaves gone == yes-answers; hence values of the matching leaves that stayed == no-answers;
//   (6) conditions that ARE predicates of the value (control group) remove exactly what the model predicts;
//   (7) the model then drops exactly the leaves gone and the full observation set is compared after every op
//       (pruning: Get/IsBranch/Children of every ancestor), "readd" ops Add at (an ancestor of) a leaf the last
//       delete removed: succeeds iff the model says the position is free;
//   (8) visitors of Query/Walk/WalkSorted are stateful too (record, stop at their k-th invocation): invoked once
//       per reported leaf, never again after they returned an error, the handle they were given reads the
//       reported value after the visit.
// The state of a condition may be carried into the next conditional delete (a budget spent over two deletes).

type cbCond struct {
	// Mode: even | always | never (predicates of the value: control group) |
	// first-k (yes to the first K consultations that it has not yet said yes to K times: a budget of K; K=1 is a one-shot permit) |
	// skip-k (no to the first K consultations, yes afterwards) | alternate (yes to every other consultation, K picks the phase) |
	// once-per-value (yes if v%3 != 0 and it has not yet said yes to this value) | even-budget (yes to even values, at most K times)
	Mode string `json:"mode"`
	K    int    `json:"k,omitempty"`
	// Carry: go on with the condition (and its state) of the previous conditional delete of the scenario
	Carry bool `json:"carry,omitempty"`
}

type cbOp struct {
	// Kind: add | readd | del | delcond | walkdel | query | walk | wsorted
	Kind string   `json:"kind"`
	Path []string `json:"path"`
	Val  int      `json:"val,omitempty"`
	Pick int      `json:"pick,omitempty"` // as Op.Pick / Op.Cut; readd: Pick-th leaf removed by the last delete
	Cut  int      `json:"cut,omitempty"`
	Cond cbCond   `json:"cond"`
	// Stop>0: the visitor of query/walk/wsorted returns an error from its Stop-th invocation
	Stop int `json:"stop,omitempty"`
}

type cbScenario struct {
	Ops []cbOp `json:"ops"`
}

func cbPure(mode string) bool { return mode == "even" || mode == "always" || mode == "never" }

type cbState struct {
	spec     cbCond
	calls    int
	yes      int
	accepted map[int]bool
}

func newCbState(c cbCond) *cbState { return &cbState{spec: c, accepted: map[int]bool{}} }

func (s *cbState) decide(v int) bool {
	s.calls++
	ans := false
	switch s.spec.Mode {
	case "even":
		ans = v%2 == 0
	case "always":
		ans = true
	case "never":
	case "first-k":
		ans = s.yes < s.spec.K
	case "skip-k":
		ans = s.calls > s.spec.K
	case "alternate":
		ans = (s.calls+s.spec.K)%2 == 0
	case "once-per-value":
		ans = v%3 != 0 && !s.accepted[v]
	case "even-budget":
		ans = v%2 == 0 && s.yes < s.spec.K
	}
	if ans {
		s.yes++
		s.accepted[v] = true
	}
	return ans
}

func (c cbCond) String() string {
	switch c.Mode {
	case "first-k", "skip-k", "alternate", "even-budget":
		return fmt.Sprintf("%s(%d)", c.Mode, c.K)
	}
	return c.Mode
}

// cbEvent: one invocation of a callback during a delete, in the order they happened.
type cbEvent struct {
	visit bool // f of WalkDeleted (else: the condition)
	v     int
	ans   bool
	bad   bool // the callback was handed something that is not a stored value
	badV  string
}

// cbError: head is independent of the order in which the tree visited (it goes to rapid, which wants the same
// text from two runs of one input), detail names values and paths.
type cbError struct{ head, detail string }

func (e *cbError) Error() string { return e.head + ": " + e.detail }

func cbErr(head, format string, a ...interface{}) error {
	return &cbError{head, fmt.Sprintf(format, a...)}
}

func bagString(b map[int]int) string {
	var vs []int
	for v, n := range b {
		for i := 0; i < n; i++ {
			vs = append(vs, v)
		}
	}
	sort.Ints(vs)
	return fmt.Sprint(vs)
}

func bagKeys(bs ...map[int]int) []int {
	set := map[int]bool{}
	for _, b := range bs {
		for v := range b {
			set[v] = true
		}
	}
	var vs []int
	for v := range set {
		vs = append(vs, v)
	}
	sort.Ints(vs)
	return vs
}

func bagEqual(a, b map[int]int) bool {
	for _, v := range bagKeys(a, b) {
		if a[v] != b[v] {
			return false
		}
	}
	return true
}

type cbStats struct {
	lab        map[string]bool
	nontrivial bool
}

func (s *cbStats) l(name string) { s.lab[name] = true }

var (
	cbObsPaths = append(append([][]string{}, randObsPaths...), []string{"a", "b", "c", "a"}, []string{"c", "c", "c", "c"})
	errCbStop  = errors.New("stop")
)

func runCallback(sc *cbScenario) (st cbStats, err error) {
	st.lab = map[string]bool{}
	defer func() {
		if r := recover(); r != nil {
			err = &cbError{"panic", fmt.Sprint(r)}
		}
	}()
	t := &ctree.Tree{}
	m := NewModel()
	var last *cbState           // condition of the previous conditional delete
	var lastGone []string       // leaves the last delete removed, sorted
	pruned := map[string]bool{} // positions emptied by a delete; value: by a stateful one
	lastWasCondDelete := false
	for i, op := range sc.Ops {
		path := m.resolve(Op{Path: op.Path, Pick: op.Pick, Cut: op.Cut})
		if op.Kind == "readd" {
			// at (an ancestor of) a leaf the last delete removed
			if len(lastGone) == 0 {
				continue
			}
			base := unkey(lastGone[(max(op.Pick, 1)-1)%len(lastGone)])
			cut := min(op.Cut, len(base))
			path = append(append([]string{}, base[:len(base)-cut]...), op.Path...)
			op.Kind = "add"
			st.l("cb:add-at-or-above-a-leaf-the-last-delete-removed")
		}
		condDelete := false
		switch op.Kind {
		case "add":
			if hasGlob(path) {
				continue
			}
			want := m.AddOK(path)
			if want && pruned[key(path)] {
				st.l("cb:add-at-a-branch-position-pruned-by-a-stateful-delete")
			}
			if want && len(path) > 0 && pruned[key(path[:len(path)-1])] {
				st.l("cb:add-below-a-branch-position-pruned-by-a-stateful-delete")
			}
			gerr := t.Add(path, op.Val)
			if want != (gerr == nil) {
				return st, cbErr("Add: success differs from the model", "op %d Add(%q,%d): error=%v, model says success=%v", i, path, op.Val, gerr, want)
			}
			m.Add(path, op.Val)
			if !want {
				st.l("failed-add")
			}
		case "del", "delcond", "walkdel":
			name := map[string]string{"del": "Delete", "delcond": "DeleteConditional", "walkdel": "WalkDeleted"}[op.Kind]
			matches := m.Query(path)
			M := map[int]int{}
			for _, k := range matches {
				M[m.leaves[k]]++
			}
			isMatch := map[string]bool{}
			for _, k := range matches {
				isMatch[k] = true
			}
			before := map[string]int{}
			for k, v := range m.leaves {
				before[k] = v
			}
			var state *cbState
			carried := false
			if op.Kind != "del" {
				condDelete = true
				if op.Cond.Carry && last != nil && lastWasCondDelete {
					state, carried = last, true
				} else {
					state = newCbState(op.Cond)
				}
				last = state
			}
			what := fmt.Sprintf("op %d %s(%q)", i, name, path)
			kindOf := name
			if state != nil {
				what += " with condition " + state.spec.String()
				kindOf += " with condition " + state.spec.Mode
				if carried {
					what += fmt.Sprintf(" carried over from the previous delete (consulted %d times, yes %d times so far)", state.calls, state.yes)
				}
			}
			var log []cbEvent
			cond := func(v interface{}) bool {
				iv, ok := v.(int)
				if !ok {
					log = append(log, cbEvent{bad: true, badV: fmt.Sprintf("%T", v)})
					return false
				}
				ans := state.decide(iv)
				log = append(log, cbEvent{v: iv, ans: ans})
				return ans
			}
			visit := func(v interface{}) {
				iv, ok := v.(int)
				if !ok {
					log = append(log, cbEvent{visit: true, bad: true, badV: fmt.Sprintf("%T", v)})
					return
				}
				log = append(log, cbEvent{visit: true, v: iv})
			}
			var returned [][]string
			switch op.Kind {
			case "del":
				returned = t.Delete(path)
			case "delcond":
				returned = t.DeleteConditional(path, cond)
			case "walkdel":
				t.WalkDeleted(path, cond, visit)
			}
			// (1), (2): the protocol
			asked, yes, no, visited := map[int]int{}, map[int]int{}, map[int]int{}, map[int]int{}
			early := false
			earlyV := 0
			for _, e := range log {
				if e.bad {
					cb := "the condition"
					if e.visit {
						cb = "f"
					}
					return st, cbErr(kindOf+": a callback was handed something that is not a stored value", "%s: %s was called with a %s", what, cb, e.badV)
				}
				if e.visit {
					visited[e.v]++
					if visited[e.v] > yes[e.v] && (!early || e.v < earlyV) {
						early, earlyV = true, e.v
					}
					continue
				}
				asked[e.v]++
				if e.ans {
					yes[e.v]++
				} else {
					no[e.v]++
				}
			}
			for _, v := range bagKeys(asked, M) {
				if asked[v] > M[v] {
					return st, cbErr(kindOf+": the condition was consulted more often than once per matching leaf",
						"%s: the condition was consulted %d times for the value %d, which %d of the leaves matching the path hold (matching values %s; consulted for %s; it answered yes for %s)",
						what, asked[v], v, M[v], bagString(M), bagString(asked), bagString(yes))
				}
			}
			if early {
				return st, cbErr(kindOf+": f was called for a value the condition had not accepted", "%s: f was called for the value %d before the condition had said yes to it that often (condition said yes for %s, f was called for %s)", what, earlyV, bagString(yes), bagString(visited))
			}
			for _, v := range bagKeys(asked, M) {
				if state != nil && asked[v] < M[v] {
					return st, cbErr(kindOf+": a matching leaf was never put to the condition",
						"%s: %d leaves matching the path hold the value %d, the condition was consulted for it %d times (matching values %s; consulted for %s)",
						what, M[v], v, asked[v], bagString(M), bagString(asked))
				}
			}
			// what is gone from the tree
			now, werr := collect(t.Walk)
			if werr != nil {
				return st, cbErr("Walk: error", "after %s: Walk error %v", what, werr)
			}
			nowSet := map[string]bool{}
			sort.SliceStable(now, func(a, b int) bool { return now[a].k < now[b].k })
			for _, e := range now {
				bv, ok := before[e.k]
				if !ok || nowSet[e.k] || e.v != bv {
					return st, cbErr(kindOf+": the walk after the delete reports a leaf that was not stored before it", "after %s: Walk reports %q=%v (before the delete: stored=%v value %v)", what, unkey(e.k), e.v, ok, bv)
				}
				nowSet[e.k] = true
			}
			var gone []string
			R := map[int]int{}
			for k, v := range before {
				if !nowSet[k] {
					gone = append(gone, k)
					R[v]++
				}
			}
			sort.Strings(gone)
			// (3)
			if op.Kind != "walkdel" {
				var got []string
				for _, p := range returned {
					got = append(got, key(p))
				}
				sort.Strings(got)
				if strings.Join(got, "|") != strings.Join(gone, "|") || len(got) != len(gone) {
					return st, cbErr(kindOf+": the returned paths are not the leaves removed", "%s returned %q; the leaves gone from the tree are %q", what, pathsOf(got), pathsOf(gone))
				}
			}
			// (4)
			for _, k := range gone {
				if !isMatch[k] {
					return st, cbErr(kindOf+": removed a leaf the query for the same path does not report", "%s removed %q; a query for the same path reports %q", what, unkey(k), pathsOf(matches))
				}
			}
			if op.Kind == "del" {
				if len(gone) != len(matches) {
					return st, cbErr("Delete: did not remove what the query for the same path reports", "%s removed %q; a query for the same path reports %q", what, pathsOf(gone), pathsOf(matches))
				}
			} else {
				// (5)
				if !bagEqual(R, yes) {
					return st, cbErr(kindOf+": the leaves removed are not the leaves the condition accepted",
						"%s: the condition answered yes for the values %s and no for %s; the leaves removed (%q) held %s", what, bagString(yes), bagString(no), pathsOf(gone), bagString(R))
				}
				// (2) at the end
				if op.Kind == "walkdel" && !bagEqual(visited, yes) {
					return st, cbErr(kindOf+": f was not called once for every removed leaf", "%s: the condition answered yes for the values %s, f was called for %s", what, bagString(yes), bagString(visited))
				}
				// (6)
				if cbPure(state.spec.Mode) {
					var want []string
					for _, k := range matches {
						if newCbState(state.spec).decide(before[k]) {
							want = append(want, k)
						}
					}
					if strings.Join(want, "|") != strings.Join(gone, "|") {
						return st, cbErr(kindOf+": did not remove the matching leaves that satisfy the predicate", "%s removed %q, the matching leaves satisfying the predicate are %q", what, pathsOf(gone), pathsOf(want))
					}
				}
			}
			// (7) the model follows; labels
			for _, k := range gone {
				delete(m.leaves, k)
				delete(m.gen, k)
			}
			lastGone = gone
			stateful := state != nil && !cbPure(state.spec.Mode)
			nYes, nNo := 0, 0
			for _, n := range yes {
				nYes += n
			}
			for _, n := range no {
				nNo += n
			}
			if state != nil {
				st.l("cb:condition:" + state.spec.Mode)
			}
			if stateful {
				st.l("cb:stateful-condition")
				if nYes+nNo > 0 {
					st.l("cb:stateful-condition-consulted")
				}
				if nYes > 0 {
					st.l("cb:stateful-condition-accepted-a-leaf")
					st.nontrivial = true
				}
				if nYes > 0 && nNo > 0 {
					st.l("cb:stateful-condition-accepted-some-refused-some-in-one-call")
				}
				if nYes > 0 && nYes < len(matches) {
					// would a predicate of the value have done the same? not if one value got both answers
					for v := range yes {
						if no[v] > 0 {
							st.l("cb:same-value-accepted-and-refused-in-one-call")
						}
					}
				}
				if len(matches) == 1 && nYes == 1 && !hasGlob(path) {
					st.l("cb:stateful-condition-accepted-the-one-leaf-at-a-literal-path")
				}
				if len(matches) >= 3 {
					st.l("cb:stateful-condition-over->=3-matching-leaves")
				}
				if carried {
					st.l("cb:condition-state-carried-over-two-deletes")
					if nYes > 0 {
						st.l("cb:carried-condition-accepted-a-leaf-in-the-second-delete")
					}
				}
				if op.Kind == "walkdel" && nYes > 0 {
					st.l("cb:walkdeleted-f-against-stateful-condition")
				}
			}
			if state != nil {
				for _, n := range M {
					if n > 1 {
						st.l("cb:several-matching-leaves-hold-the-same-value")
					}
				}
			}
			for _, k := range gone {
				p := unkey(k)
				for j := len(p) - 1; j >= 0; j-- {
					if !m.IsInterior(p[:j]) {
						if stateful {
							pruned[key(p[:j])] = true
							st.l("cb:stateful-delete-emptied-a-branch")
						}
					}
				}
			}
		case "query", "walk", "wsorted":
			var want []string
			name := ""
			switch op.Kind {
			case "query":
				want, name = m.Query(path), fmt.Sprintf("Query(%q)", path)
			case "walk":
				want, name = m.Query(nil), "Walk"
			case "wsorted":
				want, name = m.Query(nil), "WalkSorted"
			}
			kindOf := map[string]string{"query": "Query", "walk": "Walk", "wsorted": "WalkSorted"}[op.Kind]
			what := fmt.Sprintf("op %d %s with a recording visitor", i, name)
			if op.Stop > 0 {
				what = fmt.Sprintf("op %d %s with a visitor failing at invocation %d", i, name, op.Stop)
			}
			calls, afterStop, done := 0, 0, false
			var seen []kv
			var handles []*ctree.Leaf
			visitor := func(p []string, l *ctree.Leaf, v interface{}) error {
				calls++
				if done {
					afterStop++
				}
				seen = append(seen, kv{key(append([]string{}, p...)), v})
				handles = append(handles, l)
				if op.Stop > 0 && calls >= op.Stop {
					done = true
					return errCbStop
				}
				return nil
			}
			var gerr error
			switch op.Kind {
			case "query":
				gerr = t.Query(path, visitor)
			case "walk":
				gerr = t.Walk(visitor)
			case "wsorted":
				gerr = t.WalkSorted(visitor)
			}
			if afterStop > 0 {
				return st, cbErr(kindOf+": the visitor was invoked again after it had returned an error", "%s: %d more invocations after the visitor returned its error (%d leaves match)", what, afterStop, len(want))
			}
			wantCalls := len(want)
			if op.Stop > 0 && op.Stop < wantCalls {
				wantCalls = op.Stop
			}
			if calls != wantCalls {
				return st, cbErr(kindOf+": number of visitor invocations", "%s: %d invocations, %d leaves match", what, calls, len(want))
			}
			stops := op.Stop > 0 && len(want) >= op.Stop
			if stops != (gerr == errCbStop) || (!stops && gerr != nil) {
				return st, cbErr(kindOf+": returned error", "%s (%d leaves match) returned %v", what, len(want), gerr)
			}
			if !stops {
				if e := m.checkSet(name, seen, want); e != nil {
					return st, &cbError{kindOf + ": reported leaves", fmt.Sprintf("op %d %v", i, e)}
				}
			} else {
				st.l("cb:visit-stopped-by-visitor-error")
				isWant := map[string]bool{}
				for _, k := range want {
					isWant[k] = true
				}
				ss := append([]kv{}, seen...)
				sort.SliceStable(ss, func(a, b int) bool { return ss[a].k < ss[b].k })
				for j, e := range ss {
					if !isWant[e.k] || e.v != m.leaves[e.k] || (j > 0 && ss[j-1].k == e.k) {
						return st, cbErr(kindOf+": reported leaves", "%s reported %q=%v (model: matches=%v value %v, reported twice=%v)", what, unkey(e.k), e.v, isWant[e.k], m.leaves[e.k], j > 0 && ss[j-1].k == e.k)
					}
				}
			}
			if op.Kind == "wsorted" {
				sorted := m.SortedPaths()
				for j := range seen {
					if seen[j].k != key(sorted[j]) {
						return st, cbErr("WalkSorted: order", "%s: position %d is %q, lexicographic order wants %q", what, j, unkey(seen[j].k), sorted[j])
					}
				}
			}
			// the handle the visitor was given may be retained and read after the visit
			for j, h := range handles {
				if h == nil || h.Value() != seen[j].v {
					return st, cbErr(kindOf+": the leaf handle given to the visitor", "%s: the handle given to the visitor for %q (value %v) is nil or reads another value after the visit", what, unkey(seen[j].k), seen[j].v)
				}
			}
			if len(handles) > 0 {
				st.l("cb:visitor-handles-read-after-the-visit")
			}
		default:
			return st, &cbError{"unknown op", op.Kind}
		}
		lastWasCondDelete = condDelete || (lastWasCondDelete && (op.Kind == "query" || op.Kind == "walk" || op.Kind == "wsorted"))
		if oerr := m.Observe(t, cbObsPaths, randPatterns); oerr != nil {
			return st, &cbError{"observation after " + op.Kind + " differs from the model", fmt.Sprintf("after op %d (%s %q): %v", i, op.Kind, path, oerr)}
		}
	}
	return st, nil
}

var cbModes = []string{"first-k", "first-k", "skip-k", "alternate", "once-per-value", "even-budget", "first-k", "even", "always", "never", "alternate", "once-per-value"}

func genCbScenario(t *rapid.T) *cbScenario {
	// few distinct values (several leaves hold the same one: answers and effects compare as multisets) or all over the range
	maxVal := rapid.SampledFrom([]int{1000, 4, 1000, 6}).Draw(t, "values-up-to")
	alphaGlob := []string{"a", "b", "c", "*", "*"}
	add := func(t *rapid.T) cbOp {
		n := rapid.SampledFrom([]int{2, 3, 2, 3, 1, 4}).Draw(t, "len")
		p := make([]string, n)
		for i := range p {
			p[i] = rapid.SampledFrom(randAlphabet).Draw(t, "e")
		}
		return cbOp{Kind: "add", Path: p, Val: rapid.IntRange(1, maxVal).Draw(t, "val")}
	}
	op := func(t *rapid.T) cbOp {
		kind := rapid.SampledFrom([]string{"delcond", "add", "walkdel", "readd", "add", "delcond", "del", "query", "walkdel", "add", "readd", "walk", "wsorted", "delcond"}).Draw(t, "kind")
		if kind == "add" {
			return add(t)
		}
		o := cbOp{Kind: kind}
		switch kind {
		case "readd":
			o.Pick = rapid.IntRange(1, 4).Draw(t, "pick")
			o.Cut = rapid.SampledFrom([]int{1, 0, 1, 2, 3}).Draw(t, "cut")
			if rapid.IntRange(0, 3).Draw(t, "deeper") == 0 {
				o.Path = []string{rapid.SampledFrom(randAlphabet).Draw(t, "e")}
			}
			o.Val = rapid.IntRange(1, maxVal).Draw(t, "val")
		case "del", "delcond", "walkdel", "query":
			if rapid.IntRange(0, 1).Draw(t, "relative") == 0 {
				o.Pick = rapid.IntRange(1, 8).Draw(t, "pick")
				o.Cut = rapid.IntRange(0, 3).Draw(t, "cut")
				if rapid.IntRange(0, 1).Draw(t, "suffix") == 0 {
					o.Path = genPath(alphaGlob, 2).Draw(t, "pat")
				}
			} else {
				o.Path = genPath(alphaGlob, 4).Draw(t, "pat")
			}
			if kind == "delcond" || kind == "walkdel" {
				o.Cond.Mode = rapid.SampledFrom(cbModes).Draw(t, "cond")
				o.Cond.K = rapid.IntRange(0, 3).Draw(t, "k")
				o.Cond.Carry = rapid.IntRange(0, 3).Draw(t, "carry") == 0
			}
		}
		if kind == "query" || kind == "walk" || kind == "wsorted" {
			o.Stop = rapid.SampledFrom([]int{0, 1, 2, 0, 3}).Draw(t, "stop-at")
		}
		return o
	}
	ops := rapid.SliceOfN(rapid.Custom(add), 1, 8).Draw(t, "prelude")
	// nested so that sequences are long on average and still shrink element by element
	for _, chunk := range rapid.SliceOfN(rapid.SliceOfN(rapid.Custom(op), 1, 6), 1, 4).Draw(t, "ops") {
		ops = append(ops, chunk...)
	}
	return &cbScenario{Ops: ops}
}

func cbClass(err error) string {
	var ce *cbError
	if errors.As(err, &ce) && (strings.Contains(ce.head, "condition") || strings.Contains(ce.head, "callback") || strings.Contains(ce.head, " f was ") || strings.Contains(ce.head, "visitor")) {
		return "callback-protocol"
	}
	return "model-mismatch"
}

// TestC09Callback: stateful conditions and visitors; answers of the condition against effects of the delete.
func TestC09Callback(t *testing.T) {
	if !vstat.Enabled("C09") {
		t.Skip()
	}
	rec := vstat.New("C09", "callback")
	rec.RunRapid(t, func(rt *rapid.T) {
		sc := genCbScenario(rt)
		st, err := runCallback(sc)
		rec.Case(sc, st.nontrivial, keysOfSet(st.lab)...)
		if err != nil {
			rec.Fail(sc, cbClass(err), "%v", err)
			head := err.Error()
			var ce *cbError
			if errors.As(err, &ce) {
				head = ce.head + " (details in the violation record)"
			}
			rt.Fatalf("%s", head)
		}
	})
}
