// Package ctreeprop decides C09 (sequential map semantics of ctree.Tree) and
// C10 (the same tree under concurrency) by generated operation sequences
// compared against a reference model.
package ctreeprop

import (
	"fmt"
	"sort"
	"strings"

	"github.com/openconfig/gnmi/ctree"
)

const sep = "\x00"

func key(p []string) string { return strings.Join(p, sep) }

func unkey(k string) []string {
	if k == "" {
		return []string{}
	}
	return strings.Split(k, sep)
}

// Matches is the documented query relation: q reports the leaf stored at p.
// Every element the two have in common agrees (a glob in the query agrees with
// anything), the query is no longer than the leaf path, except that one
// trailing glob may match nothing.
func Matches(q, p []string) bool {
	switch {
	case len(q) <= len(p):
	case len(q) == len(p)+1 && q[len(q)-1] == "*":
	default:
		return false
	}
	for i := 0; i < len(q) && i < len(p); i++ {
		if q[i] != "*" && q[i] != p[i] {
			return false
		}
	}
	return true
}

// Model is the reference: a prefix-free map from path to value. Every leaf
// also carries a generation so that retained handles can be modelled: a
// handle taken at generation g writes through only while g is still stored.
type Model struct {
	leaves map[string]int
	gen    map[string]int
	nextG  int
}

func NewModel() *Model { return &Model{leaves: map[string]int{}, gen: map[string]int{}} }

func isProperPrefix(a, b []string) bool {
	if len(a) >= len(b) {
		return false
	}
	for i := range a {
		if a[i] != b[i] {
			return false
		}
	}
	return true
}

// AddOK reports whether an add at p must succeed.
func (m *Model) AddOK(p []string) bool {
	for k := range m.leaves {
		q := unkey(k)
		if isProperPrefix(q, p) { // through a leaf
			return false
		}
		if isProperPrefix(p, q) { // p is an interior node
			return false
		}
	}
	return true
}

func (m *Model) Add(p []string, v int) bool {
	if !m.AddOK(p) {
		return false
	}
	k := key(p)
	if _, ok := m.leaves[k]; !ok {
		m.nextG++
		m.gen[k] = m.nextG
	}
	m.leaves[k] = v
	return true
}

// Query returns the sorted keys of the leaves pattern q reports.
func (m *Model) Query(q []string) []string {
	var out []string
	for k := range m.leaves {
		if Matches(q, unkey(k)) {
			out = append(out, k)
		}
	}
	sort.Strings(out)
	return out
}

// Delete removes what q reports and cond accepts; returns the removed keys, sorted.
func (m *Model) Delete(q []string, cond func(int) bool) ([]string, []int) {
	var out []string
	var vals []int
	for _, k := range m.Query(q) {
		if cond == nil || cond(m.leaves[k]) {
			out = append(out, k)
			vals = append(vals, m.leaves[k])
			delete(m.leaves, k)
			delete(m.gen, k)
		}
	}
	return out, vals
}

// IsInterior reports whether p is a proper prefix of some leaf.
func (m *Model) IsInterior(p []string) bool {
	for k := range m.leaves {
		if isProperPrefix(p, unkey(k)) {
			return true
		}
	}
	return false
}

// Children returns the sorted child names of interior node p.
func (m *Model) Children(p []string) []string {
	set := map[string]bool{}
	for k := range m.leaves {
		q := unkey(k)
		if isProperPrefix(p, q) {
			set[q[len(p)]] = true
		}
	}
	var out []string
	for c := range set {
		out = append(out, c)
	}
	sort.Strings(out)
	return out
}

// SortedPaths returns all leaf paths in element-wise lexicographic order.
func (m *Model) SortedPaths() [][]string {
	var ps [][]string
	for k := range m.leaves {
		ps = append(ps, unkey(k))
	}
	sort.Slice(ps, func(i, j int) bool { return lessPath(ps[i], ps[j]) })
	return ps
}

func lessPath(a, b []string) bool {
	for i := 0; i < len(a) && i < len(b); i++ {
		if a[i] != b[i] {
			return a[i] < b[i]
		}
	}
	return len(a) < len(b)
}

// observation helpers on the real tree ---------------------------------------

type kv struct {
	k string
	v interface{}
}

func collect(visit func(ctree.VisitFunc) error) ([]kv, error) {
	var out []kv
	err := visit(func(path []string, _ *ctree.Leaf, val interface{}) error {
		out = append(out, kv{key(append([]string{}, path...)), val})
		return nil
	})
	return out, err
}

// checkSet compares a visit result with the model keys: each exactly once, right value.
func (m *Model) checkSet(what string, got []kv, want []string) error {
	err := m.checkSetOrdered(what, got, want)
	if err == nil {
		return nil
	}
	// Query and Walk visit in map order: name the first discrepancy in path order so that the message
	// (and with it the shrinking of the scenario) does not depend on the order of this particular run
	sorted := append([]kv{}, got...)
	sort.SliceStable(sorted, func(i, j int) bool { return sorted[i].k < sorted[j].k })
	if e := m.checkSetOrdered(what, sorted, want); e != nil {
		return e
	}
	return err
}

func (m *Model) checkSetOrdered(what string, got []kv, want []string) error {
	seen := map[string]bool{}
	for _, e := range got {
		if seen[e.k] {
			return fmt.Errorf("%s reported %q twice", what, unkey(e.k))
		}
		seen[e.k] = true
		mv, ok := m.leaves[e.k]
		if !ok {
			return fmt.Errorf("%s reported %q=%v which the model does not hold", what, unkey(e.k), e.v)
		}
		if e.v != mv {
			return fmt.Errorf("%s reported %q=%v, model has %v", what, unkey(e.k), e.v, mv)
		}
	}
	for _, k := range want {
		if !seen[k] {
			return fmt.Errorf("%s did not report %q (model value %v)", what, unkey(k), m.leaves[k])
		}
	}
	if len(got) != len(want) {
		gk := []string{}
		for _, e := range got {
			gk = append(gk, fmt.Sprint(unkey(e.k)))
		}
		return fmt.Errorf("%s reported %v, model expects %d leaves", what, gk, len(want))
	}
	return nil
}

// Observe compares every observation the property lists for the given
// universe of exact paths and query patterns.
func (m *Model) Observe(t *ctree.Tree, paths, patterns [][]string) error {
	// every lookup goes through ONE scratch slice that is overwritten for the next path (callers
	// build paths in reused buffers): the tree must not keep, or key anything on, the caller's slice
	var scratch []string
	for _, orig := range paths {
		scratch = append(scratch[:0], orig...)
		p := scratch
		k := key(p)
		mv, isLeaf := m.leaves[k]
		interior := m.IsInterior(p)
		got := t.GetLeafValue(p)
		if isLeaf {
			if got != mv {
				return fmt.Errorf("GetLeafValue(%q)=%v, model %v", p, got, mv)
			}
			l := t.GetLeaf(p)
			if l == nil {
				return fmt.Errorf("GetLeaf(%q)=nil for a stored leaf", p)
			}
			if l.Value() != mv {
				return fmt.Errorf("GetLeaf(%q).Value()=%v, model %v", p, l.Value(), mv)
			}
		} else if got != nil {
			return fmt.Errorf("GetLeafValue(%q)=%v, model has no leaf there", p, got)
		}
		node := t.Get(p)
		if len(p) > 0 {
			if (isLeaf || interior) != (node != nil) {
				return fmt.Errorf("Get(%q) non-nil=%v, model leaf=%v interior=%v", p, node != nil, isLeaf, interior)
			}
			if !isLeaf && !interior && t.GetLeaf(p) != nil {
				return fmt.Errorf("GetLeaf(%q) non-nil for an absent path", p)
			}
		}
		if node.IsBranch() != interior {
			return fmt.Errorf("IsBranch(%q)=%v, model interior=%v", p, node.IsBranch(), interior)
		}
		ch := node.Children()
		var names []string
		for n := range ch {
			names = append(names, n)
		}
		sort.Strings(names)
		want := m.Children(p)
		if strings.Join(names, sep) != strings.Join(want, sep) {
			return fmt.Errorf("Children(%q)=%q, model %q", p, names, want)
		}
	}
	for _, q := range patterns {
		got, err := collect(func(f ctree.VisitFunc) error { return t.Query(q, f) })
		if err != nil {
			return fmt.Errorf("Query(%q) error %v", q, err)
		}
		if err := m.checkSet(fmt.Sprintf("Query(%q)", q), got, m.Query(q)); err != nil {
			return err
		}
	}
	// Walk and WalkSorted hand every visitor invocation a path slice of its own (callers such as
	// client.CacheClient.Leaves keep it): a kept slice still reads the same after the walk.
	for name, walk := range map[string]func(ctree.VisitFunc) error{"Walk": t.Walk, "WalkSorted": t.WalkSorted} {
		var kept [][]string
		var copies []string
		walk(func(path []string, _ *ctree.Leaf, _ interface{}) error {
			kept = append(kept, path)
			copies = append(copies, key(append([]string{}, path...)))
			return nil
		})
		for i := range kept {
			if key(kept[i]) != copies[i] {
				return fmt.Errorf("%s: the path slice handed to visitor invocation %d read %q during the invocation and reads %q after the walk", name, i, unkey(copies[i]), kept[i])
			}
		}
	}
	all := m.Query(nil)
	got, err := collect(t.Walk)
	if err != nil {
		return fmt.Errorf("Walk error %v", err)
	}
	if err := m.checkSet("Walk", got, all); err != nil {
		return err
	}
	got, err = collect(t.WalkSorted)
	if err != nil {
		return fmt.Errorf("WalkSorted error %v", err)
	}
	if err := m.checkSet("WalkSorted", got, all); err != nil {
		return err
	}
	sorted := m.SortedPaths()
	for i := range got {
		if got[i].k != key(sorted[i]) {
			return fmt.Errorf("WalkSorted order: position %d is %q, lexicographic order wants %q", i, unkey(got[i].k), sorted[i])
		}
	}
	return nil
}
