package ctreeprop

// C10 gate part: deterministic schedules around the reader->writer lock
// exchange of ctree.Add. Every case runs in its own synctest bubble; a thread
// whose Add is armed parks at verifhook point "ctree.add.upgrade" (read lock of
// the node dropped, write lock not yet requested, read locks of all ancestors
// still held) while other threads add / look up / query beneath the same node.
//
// sync.RWMutex waits are not "durably blocked" for synctest, so a step that
// waits for a lock held by a parked thread would hang synctest.Wait. The
// executor therefore predicts, from a sequential model of the completed
// operations, which node an operation will write-lock and skips (and counts)
// any step that would need a lock held by a parked thread:
//
//	parked thread Y below node t holds read locks on the proper prefixes of t;
//	Add(q) write-locks the first node along q whose child is missing (or q itself
//	  when q exists); it is runnable iff that node is not a proper prefix of any
//	  parked thread's node (every lock it takes further down lies beneath it);
//	Delete* needs the root write lock: runnable iff every parked thread is parked
//	  below the root itself (holding nothing);
//	lookups, queries and walks only take read locks: always runnable;
//	releasing X is allowed iff X's node is not a proper prefix of another parked
//	  thread's node; at the end the deepest parked thread is released first.
//
// vstat.Watchdog is the safety net should a mutated tree invalidate a prediction.

import (
	"fmt"
	"runtime"
	"sort"
	"sync"
	"sync/atomic"
	"testing"
	"testing/synctest"
	"time"

	"github.com/openconfig/gnmi/ctree"
	"github.com/openconfig/gnmi/verifhook"
	"pgregory.net/rapid"
	"verif/harness/internal/vstat"
)

const upgradePoint = "ctree.add.upgrade"

// GOp is one operation of a thread's program.
type GOp struct {
	Kind string   `json:"kind"` // add glv getleaf query walk del delcond
	Path []string `json:"path,omitempty"`
	Park bool     `json:"park,omitempty"` // add: arm the upgrade gate for this operation
}

// GStep: run = thread T executes its next operation (to completion, or until it
// parks); rel = thread T is released from the gate.
type GStep struct {
	Kind string `json:"kind"`
	T    int    `json:"t"`
}

// GateScenario is the replayable unit of the gate part.
type GateScenario struct {
	Init    [][]string `json:"init,omitempty"` // leaves added before the threads start
	Threads [][]GOp    `json:"threads"`
	Steps   []GStep    `json:"steps"`
	// Drain: after the schedule, the threads that are not parked run the rest of
	// their programs (round robin) before the parked ones are released.
	Drain bool `json:"drain,omitempty"`
}

type gateStats struct {
	labels     map[string]bool
	nontrivial bool
}

func (s *gateStats) label(l string) { s.labels[l] = true }
func (s *gateStats) list() []string {
	var out []string
	for l := range s.labels {
		out = append(out, l)
	}
	sort.Strings(out)
	return out
}

type gateFail struct{ class, msg string }

func evenCond(v interface{}) bool { i, ok := v.(int); return ok && i%2 == 0 }

func toInt(v interface{}) int {
	switch x := v.(type) {
	case nil:
		return 0
	case int:
		return x
	}
	return -1 // a value of a foreign type: never written, hence an impossible result
}

// perform executes o on tr, stamping invocation and response with now and
// storing the result in o. l is the handle for hval/hupd; the handle a getleaf
// obtained is returned when it designates a leaf.
func perform(tr *ctree.Tree, o *HOp, l *ctree.Leaf, now func() int64) (got *ctree.Leaf) {
	switch o.Kind {
	case "add":
		var v interface{} = o.Val
		if o.Nil {
			v = nil
		}
		o.Call = now()
		err := tr.Add(o.Path, v)
		o.Ret = now()
		if err != nil {
			o.Err = err.Error()
		}
	case "glv":
		var v interface{}
		o.Call = now()
		switch {
		case o.Via == "value" && len(o.Path) == 0:
			v = tr.Value()
		case o.Via == "value":
			v = tr.Get(o.Path).Value() // Value is documented to be safe on a nil node
		case o.Base > 0:
			// through a sub-tree node (every method but Value, IsBranch, Children and String needs a non-nil receiver)
			if n := tr.Get(o.Path[:o.Base]); n != nil {
				v = n.GetLeafValue(o.Path[o.Base:])
			}
		default:
			v = tr.GetLeafValue(o.Path)
		}
		o.Ret = now()
		o.Got = obsInt(o, o.Path, v)
	case "getleaf":
		var h *ctree.Leaf
		o.Call = now()
		if o.Base > 0 {
			if n := tr.Get(o.Path[:o.Base]); n != nil {
				h = n.GetLeaf(o.Path[o.Base:])
			}
		} else {
			h = tr.GetLeaf(o.Path)
		}
		o.Ret = now()
		o.nd = (*ctree.Tree)(h)
		switch {
		case h == nil:
			o.Node = "nil"
		case (*ctree.Tree)(h).IsBranch():
			// A node never changes its kind (values are non-nil), so looking after the fact is exact.
			o.Node = "branch"
		default:
			o.Node = "leaf"
			got = h
		}
	case "hval":
		o.Call = now()
		v := l.Value()
		o.Ret = now()
		o.Got = obsInt(o, o.Path, v)
	case "hupd":
		o.Call = now()
		l.Update(o.Val)
		o.Ret = now()
	case "query", "walk", "final":
		kv := []KV{}
		visit := func(path []string, _ *ctree.Leaf, val interface{}) error {
			p := append([]string{}, path...)
			kv = append(kv, KV{p, obsInt(o, p, val)})
			for i := 0; i < o.Yield; i++ {
				runtime.Gosched()
			}
			return nil
		}
		if o.Via != "" || o.Base > 0 || (o.Kind == "walk" && len(o.Path) > 0) {
			performVisitVariant(tr, o, nil, &kv, now)
			o.KV = kv
			break
		}
		o.Call = now()
		switch {
		case o.Kind == "query":
			tr.Query(o.Path, visit)
		case o.Sorted:
			tr.WalkSorted(visit)
		default:
			tr.Walk(visit)
		}
		o.Ret = now()
		o.KV = kv
	case "children", "isbranch", "nkids", "nisbr", "nval", "nstr", "nwalk":
		performAccess(tr, o, l, now)
	case "del":
		o.Call = now()
		res := tr.Delete(o.Path)
		o.Ret = now()
		o.Paths = copyPaths(res)
	case "delcond":
		o.Call = now()
		res := tr.DeleteConditional(o.Path, evenCond)
		o.Ret = now()
		o.Paths = copyPaths(res)
	case "walkdel":
		o.Vals = []int{}
		o.Call = now()
		tr.WalkDeleted(o.Path, evenCond, func(v interface{}) { o.Vals = append(o.Vals, obsInt(o, o.Path, v)) })
		o.Ret = now()
	default:
		panic("unknown op kind " + o.Kind)
	}
	return got
}

func copyPaths(ps [][]string) [][]string {
	out := [][]string{}
	for _, p := range ps {
		out = append(out, append([]string{}, p...))
	}
	return out
}

// writeLockNode predicts where Add(q) takes its write lock given the content m:
// "none" (fails at a leaf on the way, read locks only), "terminal" (q exists or
// is the root: terminalAdd locks q) or "upgrade" (child missing below node).
func writeLockNode(m *Model, q []string) (node []string, kind string) {
	for i := 0; ; i++ {
		n := q[:i]
		if i == len(q) {
			return n, "terminal"
		}
		if _, leaf := m.leaves[key(n)]; leaf {
			return nil, "none"
		}
		child := q[:i+1]
		if _, leaf := m.leaves[key(child)]; !leaf && !m.IsInterior(child) {
			return n, "upgrade"
		}
	}
}

type gpark struct {
	rel     chan struct{}
	reached bool
	node    []string
	res     *gres
	thread  int
	path    []string
}

type gres struct {
	done  bool
	panic string
	ops   []HOp // one op, or getleaf followed by hval
}

type gateRun struct {
	sc       *GateScenario
	st       *gateStats
	hist     *History
	tr       *ctree.Tree
	m        *Model
	mu       sync.Mutex
	armed    map[int]*gpark
	clock    atomic.Int64
	next     []int
	park     []*gpark // per thread
	nextH    int
	diverged string
}

func (g *gateRun) now() int64 { return g.clock.Add(1) }

func (g *gateRun) parkedList() []*gpark {
	var out []*gpark
	for _, p := range g.park {
		if p != nil {
			out = append(out, p)
		}
	}
	return out
}

// lockFree: no parked thread holds a read lock on node.
func (g *gateRun) lockFree(node []string, except *gpark) bool {
	for _, p := range g.parkedList() {
		if p != except && isProperPrefix(node, p.node) {
			return false
		}
	}
	return true
}

// start runs the ops on a fresh goroutine of the bubble and waits for quiescence.
func (g *gateRun) start(ops []HOp, arm *gpark) *gres {
	res := &gres{}
	if arm != nil {
		g.mu.Lock()
		g.armed[ops[0].Val] = arm
		g.mu.Unlock()
	}
	go func() {
		defer func() {
			g.mu.Lock()
			if r := recover(); r != nil {
				res.panic = fmt.Sprint(r)
			}
			res.ops = ops
			res.done = true
			g.mu.Unlock()
		}()
		var l *ctree.Leaf
		for i := range ops {
			if (ops[i].Kind == "hval" || ops[i].Kind == "hupd") && l == nil {
				ops = ops[:i]
				break
			}
			if h := perform(g.tr, &ops[i], l, g.now); h != nil {
				l = h
			}
		}
	}()
	synctest.Wait()
	if arm != nil {
		g.mu.Lock()
		delete(g.armed, ops[0].Val)
		g.mu.Unlock()
	}
	return res
}

// completed books a finished goroutine: history, model, divergence check.
func (g *gateRun) completed(res *gres) *gateFail {
	g.mu.Lock()
	done, pan, ops := res.done, res.panic, res.ops
	g.mu.Unlock()
	if !done {
		return &gateFail{"stuck", "an operation neither completed nor reached the gate although the bubble is quiescent"}
	}
	g.hist.Ops = append(g.hist.Ops, ops...)
	if pan != "" {
		g.hist.Panic = pan
		return &gateFail{"panic", "an operation panicked: " + pan}
	}
	for i := range ops {
		o := &ops[i]
		switch o.Kind {
		case "add":
			want := g.m.AddOK(o.Path)
			if want != (o.Err == "") {
				g.diverged = fmt.Sprintf("%s but the completion-order model says success=%v", o, want)
			}
			if o.Err == "" {
				// book what the tree says happened; the judge decides whether that was legal
				g.m.forceAdd(o.Path, o.Val)
			} else {
				g.st.label("failed-add")
			}
		case "del", "delcond":
			var cond func(int) bool
			if o.Kind == "delcond" {
				cond = even
			}
			want, _ := g.m.Delete(o.Path, cond)
			got := []string{}
			for _, p := range o.Paths {
				got = append(got, key(p))
			}
			sort.Strings(got)
			if fmt.Sprint(got) != fmt.Sprint(append([]string{}, want...)) {
				g.diverged = fmt.Sprintf("%s but the completion-order model removes %q", o, pathsOf(want))
			}
			if len(want) > 0 {
				g.st.label("delete-removed-leaf")
			}
		}
	}
	// Silent look at the whole content (read locks only): keeps the predictions honest.
	if g.diverged == "" {
		got, _ := collect(g.tr.Walk)
		if err := g.m.checkSet("Walk", got, g.m.Query(nil)); err != nil {
			g.diverged = err.Error()
		}
	}
	return nil
}

// forceAdd files v at p whatever else the model holds (used to follow the real tree).
func (m *Model) forceAdd(p []string, v int) {
	k := key(p)
	if _, ok := m.leaves[k]; !ok {
		m.nextG++
		m.gen[k] = m.nextG
	}
	m.leaves[k] = v
}

// windowLabels labels what a just-completed operation did inside open upgrade windows.
func (g *gateRun) windowLabels(o *HOp, self *gpark) {
	for _, p := range g.parkedList() {
		if p == self {
			continue
		}
		beneath := len(o.Path) > len(p.node) && key(o.Path[:len(p.node)]) == key(p.node)
		switch o.Kind {
		case "add":
			if o.Err == "" && beneath {
				g.st.nontrivial = true
				g.st.label("upgrade-window-competing-add")
				if o.Path[len(p.node)] == p.path[len(p.node)] {
					g.st.label("upgrade-window-competing-add-same-new-branch")
				}
			}
			if o.Err == "" && (isProperPrefix(o.Path, p.path) || key(o.Path) == key(p.path)) {
				g.st.label("upgrade-window-add-on-parked-path-or-prefix")
			}
		case "glv", "getleaf":
			if beneath {
				g.st.label("upgrade-window-get")
			}
		case "query", "walk":
			if related(o.Path, p.path) {
				g.st.label("upgrade-window-query")
			}
		case "del", "delcond":
			g.st.label("upgrade-window-delete")
		}
	}
}

func gateBody(g *gateRun) *gateFail {
	sc := g.sc
	g.tr, g.m = &ctree.Tree{}, NewModel()
	g.armed = map[int]*gpark{}
	g.next = make([]int, len(sc.Threads))
	g.park = make([]*gpark, len(sc.Threads))
	verifhook.Set(func(name string, k interface{}) {
		v, ok := k.(int)
		if name != upgradePoint || !ok {
			return
		}
		g.mu.Lock()
		p := g.armed[v]
		delete(g.armed, v) // one shot: the same Add may pass the point again further down
		if p != nil {
			p.reached = true
		}
		g.mu.Unlock()
		if p != nil {
			<-p.rel
		}
	})
	for i, p := range sc.Init {
		res := g.start([]HOp{{G: 99, Kind: "add", Path: p, Val: 9000 + i + 1}}, nil)
		if f := g.completed(res); f != nil {
			return f
		}
	}
	release := func(t int) *gateFail {
		p := g.park[t]
		exists := false
		if len(p.path) > len(p.node) {
			child := p.path[:len(p.node)+1]
			_, leaf := g.m.leaves[key(child)]
			exists = leaf || g.m.IsInterior(child)
		}
		close(p.rel)
		synctest.Wait()
		g.park[t] = nil
		g.mu.Lock()
		if p.res.done && len(p.res.ops) == 1 {
			p.res.ops[0].Parked, p.res.ops[0].ParkNode = true, p.node
		}
		g.mu.Unlock()
		f := g.completed(p.res)
		if f != nil {
			return f
		}
		if exists {
			g.st.label("recheck-found-branch-added-meanwhile")
		}
		o := &p.res.ops[0]
		if o.Err != "" {
			g.st.label("released-add-failed")
		}
		g.windowLabels(o, p)
		return nil
	}
	steps := sc.Steps
	if sc.Drain {
		steps = append([]GStep{}, steps...)
		for round := 0; round < 4; round++ {
			for t := range sc.Threads {
				steps = append(steps, GStep{Kind: "run", T: t})
			}
		}
	}
	for _, s := range steps {
		if g.diverged != "" {
			break
		}
		if len(sc.Threads) == 0 {
			break
		}
		t := s.T % len(sc.Threads)
		switch s.Kind {
		case "rel":
			p := g.park[t]
			if p == nil {
				continue
			}
			if !g.lockFree(p.node, p) {
				g.st.label("step-skipped-release-needs-held-lock")
				continue
			}
			if f := release(t); f != nil {
				return f
			}
		case "run":
			if g.park[t] != nil || g.next[t] >= len(sc.Threads[t]) {
				continue
			}
			op := sc.Threads[t][g.next[t]]
			val := (t+1)*100 + g.next[t] + 1
			var ops []HOp
			var arm *gpark
			switch op.Kind {
			case "add":
				node, kind := writeLockNode(g.m, op.Path)
				if op.Park && kind == "upgrade" {
					arm = &gpark{rel: make(chan struct{}), node: append([]string{}, node...), thread: t, path: op.Path}
				} else if kind != "none" && !g.lockFree(node, nil) {
					g.st.label("step-skipped-add-needs-held-lock")
					continue
				}
				ops = []HOp{{G: t, Kind: "add", Path: op.Path, Val: val}}
			case "del", "delcond":
				safe := true
				for _, p := range g.parkedList() {
					safe = safe && len(p.node) == 0
				}
				if !safe {
					g.st.label("step-skipped-delete-needs-held-lock")
					continue
				}
				ops = []HOp{{G: t, Kind: op.Kind, Path: op.Path}}
			case "getleaf":
				if len(op.Path) == 0 {
					ops = []HOp{{G: t, Kind: "glv", Path: op.Path}}
					break
				}
				g.nextH++
				ops = []HOp{{G: t, Kind: "getleaf", Path: op.Path, H: g.nextH}, {G: t, Kind: "hval", Path: op.Path, H: g.nextH}}
			case "glv":
				ops = []HOp{{G: t, Kind: "glv", Path: op.Path}}
			case "query", "walk":
				// nothing else runs while it executes: a snapshot
				ops = []HOp{{G: t, Kind: op.Kind, Path: op.Path, Atomic: true}}
			default:
				return &gateFail{"bad-scenario", "unknown op kind " + op.Kind}
			}
			g.next[t]++
			res := g.start(ops, arm)
			g.mu.Lock()
			reached := arm != nil && arm.reached
			g.mu.Unlock()
			if reached {
				arm.res = res
				for _, p := range g.parkedList() {
					if key(p.node) == key(arm.node) {
						g.st.label("two-parked-below-same-node")
					} else if isProperPrefix(p.node, arm.node) || isProperPrefix(arm.node, p.node) {
						g.st.label("parked-nested")
					}
				}
				g.park[t] = arm
				g.st.label(fmt.Sprintf("parked-depth-%d", len(arm.node)))
				continue
			}
			if arm != nil {
				g.st.label("gate-armed-not-reached")
			}
			if f := g.completed(res); f != nil {
				return f
			}
			for i := range res.ops {
				g.windowLabels(&res.ops[i], nil)
			}
		}
	}
	// epilogue: release everything, deepest first
	for {
		best := -1
		for t, p := range g.park {
			if p != nil && (best < 0 || len(p.node) > len(g.park[best].node)) {
				best = t
			}
		}
		if best < 0 {
			break
		}
		if f := release(best); f != nil {
			return f
		}
	}
	fin := HOp{G: 98, Kind: "final", Atomic: true}
	perform(g.tr, &fin, nil, g.now)
	g.hist.Ops = append(g.hist.Ops, fin)
	return nil
}

// runGate executes sc in a fresh bubble and judges the recorded history.
func runGate(t *testing.T, sc *GateScenario) (st *gateStats, hist *History, fail *gateFail) {
	st = &gateStats{labels: map[string]bool{}}
	hist = &History{}
	g := &gateRun{sc: sc, st: st, hist: hist}
	stop := vstat.Watchdog(20*time.Second, 5*time.Second)
	defer stop()
	defer func() {
		// synctest.Test panics on this goroutine when goroutines of the bubble can never exit
		if r := recover(); r != nil {
			fail = &gateFail{"deadlock", fmt.Sprintf("bubble did not terminate: %v", r)}
		}
	}()
	synctest.Test(t, func(*testing.T) {
		defer func() {
			if r := recover(); r != nil {
				fail = &gateFail{"panic", fmt.Sprintf("panic: %v", r)}
			}
			verifhook.Set(nil)
			for {
				// leave nothing behind in the bubble (deepest first)
				best := -1
				for t, p := range g.park {
					if p != nil && (best < 0 || len(p.node) > len(g.park[best].node)) {
						best = t
					}
				}
				if best < 0 {
					break
				}
				close(g.park[best].rel)
				g.park[best] = nil
				synctest.Wait()
			}
		}()
		fail = gateBody(g)
	})
	if fail != nil {
		return st, hist, fail
	}
	if g.diverged != "" {
		st.label("diverged-from-completion-order-model")
	}
	v := judge(hist, 20*time.Second, 20*time.Second)
	switch {
	case v.class != "":
		return st, hist, &gateFail{v.class, v.msg}
	case v.inconclusive != "":
		st.label("judge-inconclusive")
	case g.diverged != "":
		// The history is explicable by some order, yet not by completion order:
		// legal for the property, but the step-safety predictions rest on it.
		st.label("diverged-but-linearizable")
	}
	return st, hist, nil
}

// ---- generator ----------------------------------------------------------------------------------

func genGate(t *rapid.T) *GateScenario {
	ab := []string{"a", "b"}
	abc := []string{"a", "b", "c"}
	glob := []string{"a", "b", "*"}
	sc := &GateScenario{}
	// the branch the threads' adds share; it does not exist unless Init happens to create it
	shared := rapid.SliceOfN(rapid.SampledFrom(ab), 1, 2).Draw(t, "shared")
	sc.Init = rapid.SliceOfN(rapid.Custom(func(t *rapid.T) []string {
		if rapid.IntRange(0, 2).Draw(t, "sibling") == 0 {
			// a sibling beneath the parent of the shared branch: the parent exists, parking happens deeper
			return append(append([]string{}, shared[:len(shared)-1]...), "c", "x")
		}
		return rapid.SliceOfN(rapid.SampledFrom(abc), 1, 3).Draw(t, "p")
	}), 0, 2).Draw(t, "init")
	under := func(t *rapid.T) []string {
		suf := rapid.SliceOfN(rapid.SampledFrom(ab), 1, 2).Draw(t, "suffix")
		return append(append([]string{}, shared...), suf...)
	}
	anyPath := func(t *rapid.T) []string {
		if rapid.IntRange(0, 3).Draw(t, "beneath") != 0 {
			return under(t)
		}
		return rapid.SliceOfN(rapid.SampledFrom(ab), 0, 3).Draw(t, "path")
	}
	genOp := rapid.Custom(func(t *rapid.T) GOp {
		kind := rapid.SampledFrom([]string{"add", "add", "add", "add", "add", "add", "add", "add", "glv", "getleaf", "query", "query", "walk", "del", "delcond"}).Draw(t, "kind")
		op := GOp{Kind: kind}
		switch kind {
		case "add":
			op.Path = anyPath(t)
			op.Park = rapid.Bool().Draw(t, "park")
		case "glv", "getleaf":
			op.Path = anyPath(t)
		case "query", "del", "delcond":
			switch rapid.IntRange(0, 2).Draw(t, "patkind") {
			case 0:
				op.Path = append(append([]string{}, shared...), "*")
			case 1:
				op.Path = append([]string{}, shared...)
			default:
				op.Path = rapid.SliceOfN(rapid.SampledFrom(glob), 0, 3).Draw(t, "pat")
			}
		}
		return op
	})
	sc.Threads = rapid.SliceOfN(rapid.SliceOfN(genOp, 1, 4), 2, 4).Draw(t, "threads")
	sc.Steps = rapid.SliceOfN(rapid.Custom(func(t *rapid.T) GStep {
		k := "run"
		if rapid.IntRange(0, 3).Draw(t, "release") == 0 {
			k = "rel"
		}
		return GStep{Kind: k, T: rapid.IntRange(0, 3).Draw(t, "t")}
	}), 2, 24).Draw(t, "steps")
	sc.Drain = rapid.Bool().Draw(t, "drain")
	return sc
}
