package ctreeprop

// C10 pair-access part: the machinery of the pair part (c10_pair_test.go:
// persistent racers, tens of thousands of aligned rounds of one tiny scenario,
// every round judged through its canonical form) spent on another family:
//
//	tree    what the ROOT is when the racers start: a branch with ONE top-level
//	        element (a focus leaf at depth 1-3 below "a", optionally a sibling), a
//	        branch with two top-level elements, the zero value (fresh tree), the
//	        zero value again after a delete emptied the tree, or a leaf (Add at the
//	        empty path)
//	racers  2-4 goroutines x 1 (sometimes 2) operations from an aligned start:
//	        at least one ACCESSOR - Children, IsBranch, Value, String, Walk,
//	        WalkSorted, Query, Get + a method on the sub-tree node, the same on a
//	        node retained from before the race, the Reset idiom (Children of the
//	        root, then one Delete per name) - on the root (mostly) or on a node on
//	        the way to the focus, and at least one MUTATOR of the root's state: a
//	        delete (Delete, DeleteConditional, WalkDeleted) of everything / of the
//	        only top-level element / of the last leaf, which takes the root back to
//	        its zero state, the first Add into an empty tree, which makes it a
//	        branch (or a leaf), a Reset; optionally further mutators (writers queue
//	        for the root lock: whoever waits when a reader leaves goes first, so a
//	        method that looks at the root in two separately locked steps finds it
//	        changed in between far more often than the few instructions between the
//	        steps suggest), a refill right after the emptying delete, or a reader
//	        that keeps the root read-locked for a while (a visitor that yields).
//
// Oracle: judgeSmall on the recorded round - no panic (a panic on any racer is
// recovered, the round recorded and judged: class panic, with the scenario),
// all racers join (structural deadlock test), the accessor interval rules and
// the model-free clauses, the porcupine/model judge and the differential
// oracle, in which Children / IsBranch / Value on the root are atomic steps.

import (
	"fmt"
	"testing"

	"pgregory.net/rapid"
)

func TestC10PairAccess(t *testing.T) { runPairPart(t, "pair-access", genPairAccess) }

func genPairAccess(t *rapid.T) *PairScenario {
	sc := &PairScenario{Family: "access"}
	cat := func(p []string, more ...string) []string { return append(append([]string{}, p...), more...) }
	depth := rapid.SampledFrom([]int{1, 1, 2, 2, 3}).Draw(t, "depth")
	focus := []string{"a", "p", "x"}[:depth]
	parent := focus[:depth-1]
	odd := func(name string) bool { return rapid.Bool().Draw(t, name) }
	sc.State = rapid.SampledFrom([]string{"one-top", "one-top", "one-top", "one-top", "two-top", "two-top", "fresh", "emptied", "root-leaf"}).Draw(t, "state")
	hasLeaf := false
	switch sc.State {
	case "one-top", "two-top", "emptied":
		sc.Setup = append(sc.Setup, BOp{Kind: "add", Path: cat(focus), Odd: odd("focusodd")})
		hasLeaf = true
		if depth > 1 && rapid.IntRange(0, 2).Draw(t, "sibling") == 0 {
			sc.Setup = append(sc.Setup, BOp{Kind: "add", Path: cat(parent, "q"), Odd: odd("siblingodd")})
		}
		switch sc.State {
		case "two-top":
			sc.Setup = append(sc.Setup, BOp{Kind: "add", Path: rapid.SampledFrom([][]string{{"b"}, {"b", "r"}}).Draw(t, "other"), Odd: odd("otherodd")})
		case "emptied":
			sc.Setup = append(sc.Setup, BOp{Kind: rapid.SampledFrom([]string{"del", "del", "delcond", "walkdel"}).Draw(t, "emptier"),
				Path: rapid.SampledFrom([][]string{{}, {"*"}, {"a"}}).Draw(t, "all")})
			for i := range sc.Setup[:len(sc.Setup)-1] {
				sc.Setup[i].Odd = false // (conditional deletes remove even values)
			}
			hasLeaf = false
		}
	case "root-leaf":
		sc.Setup = append(sc.Setup, BOp{Kind: "add", Path: []string{}, Odd: odd("rootodd")})
	}
	// the node an accessor looks at: the root three times out of five, else a node on the way to the focus
	nodePath := func(t *rapid.T) []string {
		if rapid.IntRange(0, 4).Draw(t, "onroot") < 3 {
			return []string{}
		}
		return cat(focus[:rapid.IntRange(1, depth).Draw(t, "nodedepth")])
	}
	patterns := [][]string{{}, {}, {"*"}, {"a"}, {"a"}, cat(focus), cat(parent, "*"), {"*", "*"}}
	pattern := func(t *rapid.T) []string { return cat(rapid.SampledFrom(patterns).Draw(t, "pattern")) }
	held := map[int]bool{}
	accessor := func(t *rapid.T, g int) BOp {
		k := rapid.SampledFrom([]string{"children", "children", "children", "children", "isbranch", "isbranch", "tvalue", "string", "string",
			"walk", "walksorted", "query", "sub", "held", "reset", "reset"}).Draw(t, "accessor")
		switch k {
		case "children", "isbranch", "tvalue", "string":
			return BOp{Kind: k, Path: nodePath(t)}
		case "query":
			return BOp{Kind: k, Path: pattern(t)}
		case "sub":
			o := BOp{Kind: rapid.SampledFrom([]string{"glv", "query", "walk", "walksorted"}).Draw(t, "subkind"), Path: cat(focus), Base: rapid.IntRange(1, depth).Draw(t, "base")}
			if o.Kind == "walk" || o.Kind == "walksorted" {
				o.Path = o.Path[:o.Base]
			}
			return o
		case "held":
			if !hasLeaf {
				return BOp{Kind: "children"}
			}
			held[g] = true
			return BOp{Kind: rapid.SampledFrom([]string{"nkids", "nkids", "nisbr", "nval", "nstr", "nwalk", "nwalksorted"}).Draw(t, "heldkind")}
		}
		return BOp{Kind: k}
	}
	mutator := func(t *rapid.T) BOp {
		switch x := rapid.IntRange(0, 11).Draw(t, "mutator"); {
		case x < 6:
			return BOp{Kind: rapid.SampledFrom([]string{"del", "del", "del", "delcond", "walkdel"}).Draw(t, "delkind"), Path: pattern(t)}
		case x < 8:
			return BOp{Kind: "add", Path: cat(focus), Odd: odd("odd")} // into an empty tree: the root becomes a branch
		case x < 9:
			return BOp{Kind: "add", Path: []string{"c"}, Odd: odd("odd")} // a new top-level element (root write lock)
		case x < 10:
			return BOp{Kind: "add", Path: cat(parent, "n"), Odd: odd("odd")}
		case x < 11:
			return BOp{Kind: "add", Path: []string{}, Odd: odd("odd")} // succeeds on an empty tree only: the root becomes a leaf
		}
		return BOp{Kind: "reset"}
	}
	longReader := func(t *rapid.T) BOp {
		o := BOp{Kind: rapid.SampledFrom([]string{"walk", "walksorted", "query"}).Draw(t, "longreader"), Yield: rapid.IntRange(1, 4).Draw(t, "yield")}
		return o
	}
	progs := [][]BOp{{accessor(t, 0)}, {mutator(t)}}
	for extra := rapid.SampledFrom([]int{0, 0, 1, 1, 1, 2}).Draw(t, "extra"); extra > 0; extra-- {
		g := len(progs)
		switch rapid.IntRange(0, 5).Draw(t, "extrarole") {
		case 0, 1, 2:
			progs = append(progs, []BOp{mutator(t)})
		case 3, 4:
			progs = append(progs, []BOp{accessor(t, g)})
		default:
			progs = append(progs, []BOp{longReader(t)})
		}
	}
	sc.Stamped = rapid.IntRange(0, 3).Draw(t, "stamped") != 0
	if sc.Stamped && rapid.IntRange(0, 2).Draw(t, "second") == 0 {
		// a second operation for one racer: refill after a delete, look again after an accessor
		g := rapid.IntRange(0, len(progs)-1).Draw(t, "secondfor")
		if rapid.Bool().Draw(t, "secondmutates") {
			if isDelKind(progs[g][0].Kind) && rapid.Bool().Draw(t, "refill") {
				// emptied and refilled at once
				progs[g] = append(progs[g], BOp{Kind: "add", Path: rapid.SampledFrom([][]string{cat(focus), {"c"}, cat(parent, "n")}).Draw(t, "refillpath"), Odd: odd("odd")})
			} else {
				progs[g] = append(progs[g], mutator(t))
			}
		} else {
			progs[g] = append(progs[g], accessor(t, g))
		}
	}
	for _, prog := range progs {
		if len(prog) > 1 || prog[0].Kind == "reset" {
			sc.Stamped = true // several recorded operations per racer: program order needs the stamps
		}
	}
	// who leads (racer 0 releases the others and starts a little earlier); handles follow their racer
	order := rapid.Permutation(func() []int {
		ix := make([]int, len(progs))
		for i := range ix {
			ix[i] = i
		}
		return ix
	}()).Draw(t, "order")
	for g, from := range order {
		sc.Racers = append(sc.Racers, progs[from])
		if held[from] {
			sc.Setup = append(sc.Setup, BOp{Kind: "getleaf", Path: cat(focus[:rapid.IntRange(1, depth).Draw(t, "helddepth")]), For: g})
		}
	}
	sc.Skew = rapid.SampledFrom([]int{0, 0, 3, 10, 40}).Draw(t, "skew")
	sc.Rounds = rapid.SampledFrom([]int{5000, 10000, 20000}).Draw(t, "rounds")
	return sc
}

// accessStaticLabels: which shapes of the access family the scenario has.
func accessStaticLabels(sc *PairScenario) map[string]bool {
	lab := map[string]bool{"family:access": true, "state:" + sc.State: true}
	rootWriters := 0
	for g, prog := range sc.Racers {
		for i, o := range prog {
			x := burstHOp(g, o, 1)
			switch {
			case o.Kind == "reset":
				lab["accessor:reset-idiom"] = true
				lab["mutator:reset-idiom"] = true
				rootWriters++
			case x.Kind == "children" || x.Kind == "isbranch" || x.Via != "":
				where := "sub-node"
				if len(x.Path) == 0 {
					where = "root"
				}
				lab[fmt.Sprintf("accessor:%s:%s", o.Kind, where)] = true
			case isHeldKind(x.Kind):
				lab["accessor:retained-node:"+x.Kind] = true
			case x.Base > 0 || subNodeVisit(&x):
				lab["accessor:through-sub-node:"+o.Kind] = true
			case isQueryKind(x.Kind) && o.Yield > 0:
				lab["long-reader:"+o.Kind] = true
			case isQueryKind(x.Kind):
				lab["accessor:"+o.Kind+":root"] = true
			case isDelKind(o.Kind):
				rootWriters++
				lab["mutator:"+o.Kind] = true
				if len(o.Path) == 0 || (len(o.Path) == 1 && (o.Path[0] == "*" || (o.Path[0] == "a" && sc.State == "one-top"))) {
					lab["mutator:delete-of-everything"] = true
				}
			case o.Kind == "add":
				lab["mutator:add"] = true
				if sc.State == "fresh" || sc.State == "emptied" {
					lab["mutator:add-into-empty-tree"] = true
				}
				if i > 0 && isDelKind(prog[i-1].Kind) {
					lab["mutator:refill-right-after-delete"] = true
				}
			}
		}
	}
	if rootWriters >= 2 {
		lab["two-or-more-deleters"] = true
	}
	if sc.Stamped {
		lab["stamped"] = true
	} else {
		lab["unstamped"] = true
	}
	if sc.Skew > 0 {
		lab["start-skew"] = true
	}
	lab[fmt.Sprintf("racers-%d", len(sc.Racers))] = true
	if len(sc.Racers) > 0 && len(sc.Racers[0]) > 0 {
		lab["leads:"+sc.Racers[0][0].Kind] = true
	}
	return lab
}
