package ctreeprop

// C10 burst part: many SHORT free-running rounds per generated case.
//
// The long histories of the stress part (c10_stress_test.go) spend almost all
// of their time on a populated tree: windows that exist only while a node is
// EMPTY - the root of a fresh tree, the root of a tree a delete has emptied
// again, a leaf that holds the value nil - and that are a few instructions wide
// are practically never entered there. A burst case is a small scenario
//
//	setup   a few sequential operations that bring a fresh tree into a state
//	        (fresh, emptied again, nil leaf / leaf / branch at the focus node, random;
//	        or populated: 3-10 leaves spread over several branches)
//	racers  2..4 goroutines with 1..3 operations each, addressed relative to one
//	        focus node (at it, through it, above it, next to it), the empty path,
//	        nil values and deletes of everything included; on a populated tree one
//	        racer starts with a subtree / glob delete of many leaves and another with
//	        a Query / Walk / WalkSorted of the same region (genBurstPopulated)
//	aligned whether the racers are released together by a spinning start barrier
//
// that is executed Reps times, every time on a fresh tree and on the real
// scheduler, every execution recorded (invocation/response stamps from one
// atomic counter, results, final walk) and judged by
//
//	(1) the history judge of the other C10 parts (porcupine against the
//	    node-identity model, lost-add / failed-add-trace / interval rules),
//	    unless the scenario stores nil values, which that model does not cover;
//	(2) the differential oracle (c10_diff_test.go): some sequential order of the
//	    operations, run on a fresh tree from one goroutine, reproduces every
//	    result and the final content;
//	(3) all goroutines join (structural deadlock test) and, when built with
//	    -race, no race report;
//	(4) the model-free clauses of c10_rdatomic_test.go (foreign values, a delete is
//	    atomic for readers, WalkSorted order), for every history, nil or not.
//
// All verdicts are schedule independent; the schedule only decides whether a
// window is hit. A failing case carries the recorded history of the failing
// execution (witness): a replay runs the scenario again many times and, should
// the schedule not come back, re-judges the witness.

import (
	"encoding/json"
	"flag"
	"fmt"
	"runtime"
	"sort"
	"sync"
	"sync/atomic"
	"testing"
	"time"

	"github.com/openconfig/gnmi/ctree"
	"pgregory.net/rapid"
	"verif/harness/internal/vstat"
)

var (
	c10BurstReps  = flag.Int("c10.burstreps", 0, "C10 burst: executions of every generated round (0 = the scenario's own number)")
	c10BurstName  = flag.String("c10.burstname", "burst", "C10 burst: name of the part in the result file (the same test is registered plain and with -race)")
	c10DiffBudget = flag.Int("c10.diffbudget", 200000, "C10: sequential operations the differential oracle may execute per history before it is inconclusive")
)

// BOp is one operation of a burst scenario.
type BOp struct {
	// add glv getleaf hval hupd query walk walksorted del delcond walkdel, and the accessor dimension
	// (c10_access_test.go): children isbranch tvalue string (on the root for an empty path, else on
	// the node Get(path) returns), nkids nisbr nval nstr nwalk nwalksorted (on the node the racer
	// retained from its last lookup), reset (Children() of the root, then one Delete per name returned)
	Kind string   `json:"kind"`
	Path []string `json:"path,omitempty"`
	// Base: (glv getleaf query) invoke the method on the sub-tree node Get(Path[:Base]) with Path[Base:];
	// (walk walksorted) a non-empty Path walks the sub-tree node Get(Path)
	Base int  `json:"base,omitempty"`
	Nil  bool `json:"nil,omitempty"` // add: store nil
	Odd  bool `json:"odd,omitempty"` // add, hupd: parity of the (unique) value written; conditional deletes remove even values
	For  int  `json:"for,omitempty"` // setup getleaf: the racer that starts with this handle
	// query, walk, walksorted: the visitor yields the processor that many times per
	// reported leaf (widens the visit; a scheduling device, it decides no verdict)
	Yield int `json:"yield,omitempty"`
}

// BurstScenario is the replayable unit of the burst part.
type BurstScenario struct {
	Setup   []BOp    `json:"setup,omitempty"`
	Racers  [][]BOp  `json:"racers"`
	Aligned bool     `json:"aligned,omitempty"`
	Reps    int      `json:"reps"`
	Witness *History `json:"witness,omitempty"`
	Race    string   `json:"race_report,omitempty"`
}

func (sc *BurstScenario) hasNil() bool {
	for _, o := range sc.Setup {
		if o.Nil {
			return true
		}
	}
	for _, p := range sc.Racers {
		for _, o := range p {
			if o.Nil {
				return true
			}
		}
	}
	return false
}

type burstHandle struct {
	l    *ctree.Leaf // the node, if it is a leaf (hval, hupd)
	h    int
	path []string
	n    *ctree.Tree // the node, whatever its kind (nkids, nisbr, nval, nstr, nwalk)
}

// retained: what a racer keeps of a lookup (nothing when no node was found).
func retained(o *HOp, got *ctree.Leaf) burstHandle {
	if got == nil && o.nd == nil {
		return burstHandle{}
	}
	return burstHandle{l: got, h: o.H, path: o.Path, n: o.nd}
}

// bind prepares o (a copy of the template) for execution by a goroutine whose
// retained node is cur and whose operations so far are prev: handle operations
// get their handle, a Dyn delete the name the preceding Children call returned.
// ok=false: the operation cannot be performed (nothing retained / no such name).
func bindOp(o *HOp, cur burstHandle, prev []HOp) (l *ctree.Leaf, ok bool) {
	switch {
	case o.Kind == "hval" || o.Kind == "hupd":
		if cur.l == nil {
			return nil, false
		}
		o.H, o.Path = cur.h, cur.path
		return cur.l, true
	case isHeldKind(o.Kind):
		if cur.n == nil {
			return nil, false
		}
		o.H, o.Path = cur.h, cur.path
		return (*ctree.Leaf)(cur.n), true
	case o.Dyn > 0:
		for i := len(prev) - 1; i >= 0; i-- {
			if c := &prev[i]; c.Kind == "children" && c.Ret > 0 {
				if o.Dyn > len(c.Names) {
					return nil, false
				}
				o.Path = []string{c.Names[o.Dyn-1]}
				return nil, true
			}
		}
		return nil, false
	}
	return nil, true
}

type burstRun struct {
	sc      *BurstScenario
	tr      *ctree.Tree
	clock   atomic.Int64
	arrived atomic.Int32
	goFlag  atomic.Int32
	ops     [][]HOp
	ran     [][]bool
	initial []burstHandle
	panics  []string
	spin    bool
}

func (b *burstRun) now() int64 { return b.clock.Add(1) }

func burstVal(unique int, o BOp) int {
	v := 2 * unique
	if o.Odd {
		v++
	}
	return v
}

// racer is the body of one racing goroutine (its name is looked for in goroutine dumps).
func (b *burstRun) racer(g int, wg *sync.WaitGroup) {
	defer wg.Done()
	defer func() {
		if p := recover(); p != nil {
			buf := make([]byte, 4096)
			buf = buf[:runtime.Stack(buf, false)]
			b.panics[g] = fmt.Sprintf("%v\n%s", p, buf)
		}
	}()
	ops := b.ops[g]
	cur := b.initial[g]
	if b.sc.Aligned {
		// start barrier: the last racer to arrive releases the others, who spin
		// briefly (each on a processor of its own) and yield after that
		if b.arrived.Add(1) == int32(len(b.ops)) {
			b.goFlag.Store(1)
		}
		for i := 0; b.goFlag.Load() == 0; i++ {
			if !b.spin || i > 2000 {
				runtime.Gosched()
			}
		}
	}
	for i := range ops {
		o := &ops[i]
		l, ok := bindOp(o, cur, ops[:i])
		if !ok {
			continue
		}
		got := perform(b.tr, o, l, b.now)
		b.ran[g][i] = true
		if o.Kind == "getleaf" {
			cur = retained(o, got)
		}
	}
}

func (b *burstRun) finalWalk(o *HOp) { perform(b.tr, o, nil, b.now) }

// burstHOps turns a scenario operation into the recorded form; the Reset idiom
// expands into the Children call and one delete per name it may return.
func burstHOps(g int, o BOp, unique int) []HOp {
	if o.Kind == "reset" {
		out := []HOp{{G: g, Kind: "children"}}
		for k := 1; k <= 3; k++ {
			out = append(out, HOp{G: g, Kind: "del", Dyn: k})
		}
		return out
	}
	return []HOp{burstHOp(g, o, unique)}
}

// toHOp turns a scenario operation into the recorded form (inputs only).
func burstHOp(g int, o BOp, unique int) HOp {
	x := HOp{G: g, Kind: o.Kind, Path: o.Path}
	switch o.Kind {
	case "walksorted":
		x.Kind, x.Sorted = "walk", true
	case "nwalksorted":
		x.Kind, x.Sorted = "nwalk", true
	case "tvalue":
		x.Kind, x.Via = "glv", "value"
	case "string":
		x.Kind, x.Via, x.Sorted = "walk", "string", true
	case "nstr":
		x.Sorted = true
	}
	if b := min(max(o.Base, 0), len(o.Path)); b > 0 && (x.Kind == "glv" || x.Kind == "getleaf" || x.Kind == "query") && x.Via == "" {
		for b > 0 && hasGlob(o.Path[:b]) {
			b-- // Get takes no globs
		}
		x.Base = b
	}
	if x.Kind == "walk" && x.Via == "" && o.Base <= 0 {
		x.Path = nil // a plain Walk of the root
	}
	if isQueryKind(x.Kind) {
		x.Yield = min(max(o.Yield, 0), 64)
	}
	switch o.Kind {
	case "add":
		if o.Nil {
			x.Nil = true
		} else {
			x.Val = burstVal(unique, o)
		}
	case "hupd":
		x.Val = burstVal(unique, o)
	case "getleaf":
		x.H = unique
		if len(o.Path) == 0 {
			// no handle is ever taken on the root: a write through it would replace the whole tree
			x.Kind, x.H = "glv", 0
		}
	}
	return x
}

// runOnce executes the scenario once on a fresh tree.
func (sc *BurstScenario) runOnce(stall, confirm time.Duration) (h *History, stuck string, deadlock bool) {
	n := len(sc.Racers)
	b := &burstRun{sc: sc, tr: &ctree.Tree{}, ops: make([][]HOp, n), ran: make([][]bool, n), initial: make([]burstHandle, n), panics: make([]string, n)}
	b.spin = runtime.GOMAXPROCS(0) >= 2*n
	h = &History{Workers: n}
	for i, o := range sc.Setup {
		x := burstHOp(99, o, 10+i)
		got := perform(b.tr, &x, nil, b.now)
		h.Ops = append(h.Ops, x)
		if x.Kind == "getleaf" && n > 0 {
			if hd := retained(&x, got); hd.n != nil {
				b.initial[((o.For%n)+n)%n] = hd
			}
		}
	}
	// silent look (read locks only, nobody else is running yet): what do the racers find
	h.Start = "empty"
	b.tr.Walk(func([]string, *ctree.Leaf, interface{}) error { h.Start = "populated"; return nil })
	for g, prog := range sc.Racers {
		b.ops[g] = nil
		for i, o := range prog {
			b.ops[g] = append(b.ops[g], burstHOps(g, o, 100*(g+1)+i+1)...)
		}
		b.ran[g] = make([]bool, len(b.ops[g]))
	}
	var wg sync.WaitGroup
	wg.Add(n)
	for g := 0; g < n; g++ {
		go b.racer(g, &wg)
	}
	if stuck, deadlock = watched("ctreeprop.(*burstRun).racer", stall, confirm, wg.Wait); stuck != "" {
		b.goFlag.Store(1)
		return h, stuck, deadlock
	}
	for g := 0; g < n; g++ {
		for i := range b.ops[g] {
			if b.ran[g][i] {
				h.Ops = append(h.Ops, b.ops[g][i])
			}
		}
		if b.panics[g] != "" && h.Panic == "" {
			h.Panic = b.panics[g]
		}
	}
	sort.SliceStable(h.Ops, func(i, j int) bool { return h.Ops[i].Call < h.Ops[j].Call })
	fin := HOp{G: n, Kind: "final"}
	if stuck, deadlock = watched("ctreeprop.(*burstRun).finalWalk", stall, confirm, func() { b.finalWalk(&fin) }); stuck != "" {
		return h, "after all racers had joined the final walk did not return: " + stuck, deadlock
	}
	h.Ops = append(h.Ops, fin)
	return h, "", false
}

type burstFail struct{ class, msg string }

// judgeSmall applies both history oracles to a small history.
func judgeSmall(h *History, withModel bool) (fail *burstFail, inconclusive []string) {
	if h.Panic == "" {
		// the clauses that need no model (c10_rdatomic_test.go) also judge histories that store nil
		if cl, msg := universalClauses(h); cl != "" {
			return &burstFail{cl, msg}, nil
		}
	}
	if withModel {
		v := judge(h, 2*time.Second, 10*time.Second)
		switch {
		case v.class != "":
			return &burstFail{v.class, v.msg}, nil
		case v.inconclusive != "":
			inconclusive = append(inconclusive, "model: "+v.inconclusive)
		}
	}
	dv := diffJudge(h, *c10DiffBudget)
	switch {
	case dv.inconclusive != "":
		inconclusive = append(inconclusive, "differential: "+dv.inconclusive)
	case !dv.ok:
		cls := "not-sequentially-explicable"
		if h.Panic != "" {
			cls = "panic"
		}
		return &burstFail{cls, dv.msg}, inconclusive
	}
	return nil, inconclusive
}

// burstLabels: what one executed round exercised (beyond classify).
func burstLabels(h *History, n int, into map[string]bool) (nontrivial bool) {
	cl := classify(h)
	for l := range cl.labels {
		into[l] = true
	}
	_, _, rd := readerDeleteAtomicity(h)
	rd.labels(into)
	accessLabels(h, into)
	ops := h.Ops
	// WalkSorted on a node that is empty (the root of an empty tree, a leaf holding
	// nil) while an Add goes through that node
	for i := range ops {
		v := &ops[i]
		if v.G >= n || v.Kind != "walk" || !v.Sorted {
			continue
		}
		into["walksorted"] = true
		for j := range ops {
			a := &ops[j]
			if a.G >= n || a.G == v.G || a.Kind != "add" || a.Err != "" || len(a.Path) == 0 || a.Call > v.Ret || v.Call > a.Ret {
				continue
			}
			into["overlap:walksorted-vs-successful-add"] = true
			if h.Start == "empty" {
				into["overlap:walksorted-vs-add-into-tree-empty-at-start"] = true
			}
			for k := range ops {
				if s := &ops[k]; s.Kind == "add" && s.Nil && s.Err == "" && s.Ret < a.Call && isProperPrefix(s.Path, a.Path) {
					into["overlap:walksorted-vs-add-through-nil-leaf"] = true
				}
			}
		}
	}
	first := map[int]*HOp{}
	for i := range ops {
		o := &ops[i]
		if o.G >= n {
			continue
		}
		if f := first[o.G]; f == nil || o.Call < f.Call {
			first[o.G] = o
		}
	}
	for i := range ops {
		a := &ops[i]
		if a.G >= n {
			continue
		}
		if len(a.Path) == 0 {
			switch {
			case a.Kind == "add":
				into["empty-path:add"] = true
			case a.Kind == "glv":
				into["empty-path:get"] = true
			case isDelKind(a.Kind):
				into["empty-path:delete-everything"] = true
			}
		}
		if a.Nil {
			into["nil-value-add"] = true
		}
		for j := range ops {
			b := &ops[j]
			if b.G >= n || a.G == b.G || a.Kind != "add" || b.Kind != "add" || !isProperPrefix(a.Path, b.Path) {
				continue
			}
			if a.Call > b.Ret || b.Call > a.Ret {
				continue
			}
			// a ends at a node b passes through, and they overlapped
			nontrivial = true
			into["overlap:add-at-node-vs-add-through-it"] = true
			if first[a.G] == a && first[b.G] == b {
				into["overlap:add-at-node-vs-add-through-it:both-first-operations"] = true
			}
			switch {
			case a.Err == "" && b.Err != "":
				into["add-at-node-won"] = true
			case a.Err != "" && b.Err == "":
				into["add-through-node-won"] = true
			case a.Err == "" && b.Err == "":
				into["add-at-node-and-add-through-it-both-nil"] = true // legal only with a delete (or nil value) in between
			}
		}
	}
	return nontrivial || cl.nontrivial
}

// runBurst executes all repetitions of a scenario; fail carries the first illegal history.
func runBurst(sc *BurstScenario, reps int, rl *raceLog) (labels []string, nontrivial bool, rounds int, fail *burstFail) {
	lab := map[string]bool{}
	if sc.Aligned {
		lab["aligned-start"] = true
	} else {
		lab["free-start"] = true
	}
	withModel := !sc.hasNil()
	n := len(sc.Racers)
	for r := 0; r < reps; r++ {
		h, stuck, deadlock := sc.runOnce(*c10Stall, *c10Confirm)
		rounds++
		if stuck != "" {
			if deadlock {
				sc.Witness = h
				return nil, false, rounds, &burstFail{"deadlock", stuck}
			}
			lab["round-inconclusive-stall"] = true
			break // the goroutines cannot be reclaimed
		}
		if burstLabels(h, n, lab) {
			nontrivial = true
		}
		f, inc := judgeSmall(h, withModel)
		if f != nil {
			sc.Witness = h
			return nil, false, rounds, f
		}
		for range inc {
			lab["round-inconclusive-oracle"] = true
		}
	}
	for _, rep := range rl.fresh() {
		sc.Race = rep.text
		return nil, false, rounds, &burstFail{rep.class, fmt.Sprintf("race detector: %s / %s\n%s", rep.frames[0], rep.frames[1], excerpt(rep.text, 1800))}
	}
	for l := range lab {
		labels = append(labels, l)
	}
	sort.Strings(labels)
	return labels, nontrivial, rounds, nil
}

// TestC10Burst: short aligned rounds on empty / emptied / nil nodes; see the file comment.
func TestC10Burst(t *testing.T) {
	if !vstat.Enabled("C10") {
		t.Skip()
	}
	rec := vstat.New("C10", *c10BurstName)
	rl := newRaceLog()
	if !raceEnabled {
		rl = nil
	}
	rl.fresh()
	rec.RunRapid(t, func(rt *rapid.T) {
		sc := genBurst(rt)
		rec.Current(sc)
		reps := sc.Reps
		if *c10BurstReps > 0 {
			reps = *c10BurstReps
		}
		labels, nontrivial, n, fail := runBurst(sc, reps, rl)
		if fail != nil {
			rt.Fatalf("%s", rec.Fail(sc, fail.class, "%s", fail.msg))
		}
		// every generated scenario is run on a fresh tree that many times: total rounds = sum over these labels
		rec.Case(sc, nontrivial, append(labels, fmt.Sprintf("rounds-per-case-%d", n))...)
	})
}

// replayBurst runs a saved burst scenario again (many more executions than the
// case had) and, if the schedule does not come back, re-judges its witness.
func replayBurst(rf *vstat.ReplayFile) string {
	var sc BurstScenario
	if err := json.Unmarshal(rf.Scenario, &sc); err != nil {
		return "bad burst scenario: " + err.Error()
	}
	wit := sc.Witness
	sc.Witness = nil
	reps := max(sc.Reps, 1) * *c10ReplayRuns
	fmt.Printf("NOTE: a burst scenario is free-running: it is executed %d times; the original schedule cannot be forced\n", reps)
	rl := newRaceLog()
	if !raceEnabled {
		rl = nil
	}
	rl.fresh()
	for _, aligned := range []bool{sc.Aligned, true} {
		// as recorded, then (again) with the start barrier, which hits narrow windows far more often
		sc.Aligned = aligned
		if _, _, _, fail := runBurst(&sc, reps, rl); fail != nil {
			if sc.Witness != nil {
				for i := range sc.Witness.Ops {
					fmt.Println("  ", sc.Witness.Ops[i].String())
				}
			}
			return fail.class + ": " + fail.msg
		}
	}
	if wit != nil {
		fmt.Println("NOTE: the schedule did not come back; the recorded history of the failing execution is re-judged")
		for i := range wit.Ops {
			fmt.Println("  ", wit.Ops[i].String())
		}
		hasNil := false
		for i := range wit.Ops {
			hasNil = hasNil || wit.Ops[i].Nil
		}
		if f, _ := judgeSmall(wit, !hasNil); f != nil {
			return f.class + ": " + f.msg
		}
	}
	return ""
}

// ---- generator ----------------------------------------------------------------------------------

func genBurst(t *rapid.T) *BurstScenario {
	elems := []string{"a", "b"}
	sc := &BurstScenario{}
	// the focus node: the root in two cases out of five
	var focus []string
	if rapid.IntRange(0, 4).Draw(t, "focusdepth") >= 2 {
		focus = rapid.SliceOfN(rapid.SampledFrom(elems), 1, 2).Draw(t, "focus")
	}
	nilOK := rapid.IntRange(0, 4).Draw(t, "nilvalues") < 2
	cat := func(p []string, more ...string) []string { return append(append([]string{}, p...), more...) }
	elem := func(t *rapid.T) string { return rapid.SampledFrom(elems).Draw(t, "e") }
	relPath := func(t *rapid.T) []string {
		switch x := rapid.IntRange(0, 13).Draw(t, "rel"); {
		case x < 4:
			return cat(focus)
		case x < 8:
			return cat(focus, elem(t))
		case x < 10:
			return cat(focus, elem(t), elem(t))
		case x < 11:
			if len(focus) > 0 {
				return cat(focus[:len(focus)-1])
			}
			return cat(focus)
		case x < 12:
			if len(focus) > 0 {
				return cat(focus[:len(focus)-1], elem(t))
			}
			return cat(focus, elem(t))
		default:
			return rapid.SliceOfN(rapid.SampledFrom(elems), 0, 3).Draw(t, "free")
		}
	}
	relPattern := func(t *rapid.T) []string {
		switch x := rapid.IntRange(0, 9).Draw(t, "relpat"); {
		case x < 2:
			return cat(focus)
		case x < 4:
			return cat(focus, "*")
		case x < 5:
			return cat(focus, elem(t))
		case x < 6:
			return []string{}
		case x < 7:
			return []string{"*"}
		case x < 8:
			if len(focus) > 0 {
				return cat(focus[:len(focus)-1], "*")
			}
			return []string{"*", "*"}
		default:
			return rapid.SliceOfN(rapid.SampledFrom([]string{"a", "b", "*"}), 0, 3).Draw(t, "freepat")
		}
	}
	odd := func(t *rapid.T) bool { return rapid.Bool().Draw(t, "odd") }
	below := func(t *rapid.T) []string {
		return cat(focus, rapid.SliceOfN(rapid.SampledFrom(elems), 1, 2).Draw(t, "below")...)
	}
	handles := !nilOK // no handle is taken in a scenario that may store nil (a nil leaf can turn into a branch)
	genOp := func(t *rapid.T, setup bool) BOp {
		kinds := []string{"add", "add", "add", "add", "add", "add", "add", "add", "glv", "glv", "del", "del", "delcond", "walkdel", "query", "walk", "walksorted"}
		// the accessor dimension (c10_access_test.go): the remaining exported methods, on the root, on the
		// node a fresh Get returns and on the node retained from the racer's last lookup
		kinds = append(kinds, "children", "children", "isbranch", "tvalue", "string", "reset", "sub")
		if handles {
			kinds = append(kinds, "getleaf", "hupd", "hval", "held", "held")
		}
		if setup {
			kinds = []string{"add", "add", "add", "del", "delcond"}
		}
		o := BOp{Kind: rapid.SampledFrom(kinds).Draw(t, "kind")}
		switch o.Kind {
		case "sub":
			// a read-only method invoked on a sub-tree node: Get(base), then the method
			o.Kind = rapid.SampledFrom([]string{"glv", "getleaf", "query", "walk", "walksorted"}).Draw(t, "subkind")
			if !handles && o.Kind == "getleaf" {
				o.Kind = "glv"
			}
			o.Base = rapid.IntRange(1, 3).Draw(t, "base")
		case "held":
			o.Kind = rapid.SampledFrom([]string{"nkids", "nkids", "nisbr", "nval", "nstr", "nwalk", "nwalksorted"}).Draw(t, "heldkind")
		}
		switch o.Kind {
		case "add":
			o.Path = relPath(t)
			o.Odd = odd(t)
			if nilOK && rapid.IntRange(0, 3).Draw(t, "nil") == 0 {
				o.Nil, o.Odd = true, false
			}
		case "glv", "getleaf", "children", "isbranch", "tvalue", "string":
			o.Path = relPath(t)
		case "walk", "walksorted":
			if o.Base > 0 {
				o.Path = relPath(t)
			}
		case "hupd":
			o.Odd = odd(t)
		case "del", "delcond", "walkdel", "query":
			o.Path = relPattern(t)
		}
		return o
	}
	provideNodes := func() {
		if !handles {
			return
		}
		// a racer that begins with an accessor of a retained node holds a node from before the race: a leaf
		// the setup added or a branch above it (which a delete of the race may prune)
		for g, prog := range sc.Racers {
			needs := false
			for _, o := range prog {
				if o.Kind == "getleaf" {
					break
				}
				needs = needs || isHeldKind(burstHOp(g, o, 1).Kind)
			}
			if !needs {
				continue
			}
			var adds []int
			for i, o := range sc.Setup {
				if o.Kind == "add" && len(o.Path) > 0 {
					adds = append(adds, i)
				}
			}
			if len(adds) == 0 {
				continue
			}
			// right after the Add: a delete of the setup may prune the node again, the racer keeps it
			i := adds[rapid.IntRange(0, len(adds)-1).Draw(t, "nodeof")]
			p := sc.Setup[i].Path
			get := BOp{Kind: "getleaf", Path: p[:rapid.IntRange(1, len(p)).Draw(t, "nodedepth")], For: g}
			sc.Setup = append(sc.Setup[:i+1], append([]BOp{get}, sc.Setup[i+1:]...)...)
		}
	}
	// setup: which state the racers find
	state := rapid.IntRange(0, 12).Draw(t, "state")
	if nilOK && len(focus) > 0 && rapid.Bool().Draw(t, "nilfocus") {
		state = 4
	}
	if state >= 10 {
		genBurstPopulated(t, sc, func(t *rapid.T) BOp { return genOp(t, false) })
		provideNodes()
		return sc
	}
	if state == 9 {
		genBurstRoot(t, sc, func(t *rapid.T) BOp { return genOp(t, false) })
		provideNodes()
		return sc
	}
	switch {
	case state < 2: // fresh
	case state < 4: // used and emptied again by a delete
		k := rapid.IntRange(1, 2).Draw(t, "used")
		for i := 0; i < k; i++ {
			p := below(t)
			if rapid.IntRange(0, 3).Draw(t, "rootleaf") == 0 {
				p = []string{}
			}
			sc.Setup = append(sc.Setup, BOp{Kind: "add", Path: p})
		}
		sc.Setup = append(sc.Setup, BOp{Kind: rapid.SampledFrom([]string{"del", "del", "delcond", "walkdel"}).Draw(t, "emptier"),
			Path: rapid.SampledFrom([][]string{{}, {"*"}, {}}).Draw(t, "all")})
	case state < 6: // an empty node that is not the root: a leaf holding nil
		if nilOK && len(focus) > 0 {
			sc.Setup = append(sc.Setup, BOp{Kind: "add", Path: cat(focus), Nil: true})
			if rapid.Bool().Draw(t, "sibling") {
				sc.Setup = append(sc.Setup, BOp{Kind: "add", Path: cat(focus[:len(focus)-1], "m"), Odd: odd(t)})
			}
		}
	case state < 7: // a leaf at the focus
		sc.Setup = append(sc.Setup, BOp{Kind: "add", Path: cat(focus), Odd: odd(t)})
	case state < 8: // a branch at the focus
		sc.Setup = append(sc.Setup, BOp{Kind: "add", Path: below(t), Odd: odd(t)})
	default:
		k := rapid.IntRange(1, 3).Draw(t, "nsetup")
		for i := 0; i < k; i++ {
			sc.Setup = append(sc.Setup, genOp(t, true))
		}
	}
	nr := rapid.SampledFrom([]int{2, 2, 2, 3, 3, 4}).Draw(t, "racers")
	for g := 0; g < nr; g++ {
		k := rapid.SampledFrom([]int{1, 1, 2, 2, 3}).Draw(t, "nops")
		var prog []BOp
		for i := 0; i < k; i++ {
			prog = append(prog, genOp(t, false))
		}
		sc.Racers = append(sc.Racers, prog)
	}
	if handles && rapid.IntRange(0, 2).Draw(t, "retained") == 0 {
		// a racer starts with a handle retained from before the race
		for i := range sc.Setup {
			if o := sc.Setup[i]; o.Kind == "add" && len(o.Path) > 0 {
				sc.Setup = append(sc.Setup, BOp{Kind: "getleaf", Path: o.Path, For: rapid.IntRange(0, nr-1).Draw(t, "for")})
				break
			}
		}
	}
	provideNodes()
	sc.Aligned = rapid.IntRange(0, 4).Draw(t, "aligned") != 0
	sc.Reps = rapid.SampledFrom([]int{16, 32, 64}).Draw(t, "reps")
	return sc
}

// genBurstPopulated: the racers find 3-10 leaves spread over several branches;
// one racer starts with a delete that removes many of them at once (subtree or
// glob pattern), another with a visit of the same region (Query, Walk,
// WalkSorted, the visitor optionally yielding after every leaf), the others with
// either or anything. A reader must see all or nothing of what one delete
// removed (clause (2) of c10_rdatomic_test.go).
func genBurstPopulated(t *rapid.T, sc *BurstScenario, anyOp func(*rapid.T) BOp) {
	n := 0
	for _, top := range []string{"a", "b", "c"} {
		for _, mid := range []string{"a", "b"} {
			var leaves [][]string
			switch rapid.IntRange(0, 5).Draw(t, "shape") {
			case 0:
			case 1:
				leaves = [][]string{{top, mid}}
			case 2:
				leaves = [][]string{{top, mid, "a"}}
			case 3:
				leaves = [][]string{{top, mid, "b"}}
			default:
				leaves = [][]string{{top, mid, "a"}, {top, mid, "b"}}
			}
			for _, p := range leaves {
				if n < 10 {
					sc.Setup = append(sc.Setup, BOp{Kind: "add", Path: p, Odd: rapid.IntRange(0, 3).Draw(t, "odd") == 0})
					n++
				}
			}
		}
	}
	for _, p := range [][]string{{"a", "a", "a"}, {"b", "b", "b"}, {"c", "a", "b"}} {
		if n < 3 {
			// (an Add that meets a leaf on its way fails: legal, merely one leaf less)
			sc.Setup = append(sc.Setup, BOp{Kind: "add", Path: p})
			n++
		}
	}
	patterns := [][]string{{}, {}, {"*"}, {"a"}, {"b"}, {"c"}, {"*", "*"}, {"*", "a"}, {"*", "b"}, {"a", "*"}, {"b", "*"}, {"*", "*", "*"}, {"*", "*", "a"}, {"*", "a", "*"}, {"a", "b"}}
	pattern := func(t *rapid.T) []string { return rapid.SampledFrom(patterns).Draw(t, "pattern") }
	deleter := func(t *rapid.T) BOp {
		return BOp{Kind: rapid.SampledFrom([]string{"del", "del", "del", "delcond", "walkdel"}).Draw(t, "delkind"), Path: pattern(t)}
	}
	visitor := func(t *rapid.T) BOp {
		o := BOp{Kind: rapid.SampledFrom([]string{"walksorted", "walksorted", "walk", "walk", "query", "query", "string"}).Draw(t, "visitkind")}
		if o.Kind == "query" {
			o.Path = pattern(t)
		}
		o.Yield = rapid.SampledFrom([]int{0, 0, 0, 1, 2, 4}).Draw(t, "yield")
		return o
	}
	nr := rapid.SampledFrom([]int{2, 2, 3, 3, 4}).Draw(t, "racers")
	for g := 0; g < nr; g++ {
		var first BOp
		role := g
		if g >= 2 {
			role = rapid.IntRange(0, 2).Draw(t, "role")
		}
		switch role {
		case 0:
			first = deleter(t)
		case 1:
			first = visitor(t)
		default:
			first = anyOp(t)
		}
		prog := []BOp{first}
		if rapid.IntRange(0, 2).Draw(t, "second") == 0 {
			if rapid.Bool().Draw(t, "visitagain") {
				prog = append(prog, visitor(t))
			} else {
				prog = append(prog, anyOp(t))
			}
		}
		sc.Racers = append(sc.Racers, prog)
	}
	sc.Aligned = true
	sc.Reps = rapid.SampledFrom([]int{16, 32, 64}).Draw(t, "reps")
}

// genBurstRoot: the transitions of the ROOT. Everything the racers find hangs
// below ONE top-level element (1-3 leaves, even values), so that a delete of
// everything, of that element or of the last leaf takes the root back to its
// zero state; one racer starts with such a delete (and may refill the tree at
// once), another with an accessor of the root (Children, IsBranch, Value, String,
// Walk, WalkSorted, Query, the Reset idiom), the others with a further delete (writers
// queue for the root lock), an Add of a new top-level element, or anything.
func genBurstRoot(t *rapid.T, sc *BurstScenario, anyOp func(*rapid.T) BOp) {
	leaves := rapid.SampledFrom([][][]string{{{"a"}}, {{"a", "a"}}, {{"a", "a"}, {"a", "b"}}, {{"a", "a", "a"}}, {{"a", "a", "a"}, {"a", "b"}}, {{"a", "a"}, {"a", "b", "a"}, {"a", "b", "b"}}}).Draw(t, "leaves")
	for _, p := range leaves {
		sc.Setup = append(sc.Setup, BOp{Kind: "add", Path: p})
	}
	emptier := func(t *rapid.T) BOp {
		pats := [][]string{{}, {}, {"*"}, {"a"}, {"a"}}
		if len(leaves) == 1 {
			pats = append(pats, leaves[0])
		}
		return BOp{Kind: rapid.SampledFrom([]string{"del", "del", "del", "delcond", "walkdel"}).Draw(t, "delkind"), Path: rapid.SampledFrom(pats).Draw(t, "all")}
	}
	rootAccessor := func(t *rapid.T) BOp {
		o := BOp{Kind: rapid.SampledFrom([]string{"children", "children", "children", "isbranch", "tvalue", "string", "walk", "walksorted", "query", "reset"}).Draw(t, "rootaccessor")}
		if o.Kind == "walk" || o.Kind == "walksorted" || o.Kind == "query" {
			o.Yield = rapid.SampledFrom([]int{0, 0, 1, 2}).Draw(t, "yield")
		}
		return o
	}
	refill := func(t *rapid.T) BOp {
		return BOp{Kind: "add", Path: rapid.SampledFrom([][]string{leaves[0], {"b"}, {"a", "c"}, {}}).Draw(t, "refill"), Odd: rapid.Bool().Draw(t, "odd")}
	}
	nr := rapid.SampledFrom([]int{2, 2, 3, 3, 4}).Draw(t, "racers")
	for g := 0; g < nr; g++ {
		role := g
		if g >= 2 {
			role = rapid.IntRange(0, 3).Draw(t, "role")
		}
		var prog []BOp
		switch role {
		case 0:
			prog = []BOp{emptier(t)}
			if rapid.IntRange(0, 2).Draw(t, "refills") == 0 {
				prog = append(prog, refill(t))
			}
		case 1:
			prog = []BOp{rootAccessor(t)}
			if rapid.IntRange(0, 2).Draw(t, "again") == 0 {
				prog = append(prog, rootAccessor(t))
			}
		case 2:
			prog = []BOp{refill(t)}
		default:
			prog = []BOp{anyOp(t)}
		}
		sc.Racers = append(sc.Racers, prog)
	}
	sc.Aligned = true
	sc.Reps = rapid.SampledFrom([]int{16, 32, 64}).Draw(t, "reps")
}
