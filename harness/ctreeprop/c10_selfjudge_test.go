package ctreeprop

import (
	"strings"
	"testing"
	"time"
)

// TestC10SelfJudge unit-checks the history judge on hand-made histories
// (legal ones must pass, illegal ones must be refused with the stated class).
func TestC10SelfJudge(t *testing.T) {
	ab := []string{"a", "b"}
	op := func(g int, kind string, path []string, call, ret int64, f func(*HOp)) HOp {
		o := HOp{G: g, Kind: kind, Path: path, Call: call, Ret: ret}
		if f != nil {
			f(&o)
		}
		return o
	}
	val := func(v int) func(*HOp) { return func(o *HOp) { o.Val = v } }
	cases := []struct {
		name, want string
		twoStep    bool
		ops        []HOp
	}{
		{"GetLeafValue looks the node up before a delete and reads it after a stale update: needs the two-step model", "", true, []HOp{
			op(0, "add", ab, 1, 2, val(1)),
			op(0, "getleaf", ab, 3, 4, func(o *HOp) { o.H, o.Node = 1, "leaf" }),
			op(1, "glv", ab, 5, 12, func(o *HOp) { o.Got = 7 }),
			op(2, "del", []string{"a"}, 6, 7, func(o *HOp) { o.Paths = [][]string{ab} }),
			op(0, "hupd", ab, 8, 9, func(o *HOp) { o.H, o.Val = 1, 7 }),
			op(3, "final", nil, 13, 14, nil),
		}},
		{"a value nobody wrote", "impossible-result", false, []HOp{
			op(0, "add", ab, 1, 2, val(1)),
			op(1, "glv", ab, 3, 4, func(o *HOp) { o.Got = 9 }),
			op(3, "final", nil, 13, 14, func(o *HOp) { o.KV = []KV{{ab, 1}} }),
		}},
		{"an update through a stale handle shows in the tree", "not-linearizable", false, []HOp{
			op(0, "add", ab, 1, 2, val(1)),
			op(0, "getleaf", ab, 3, 4, func(o *HOp) { o.H, o.Node = 1, "leaf" }),
			op(1, "del", []string{"a"}, 5, 6, func(o *HOp) { o.Paths = [][]string{ab} }),
			op(1, "add", ab, 7, 8, val(3)),
			op(0, "hupd", ab, 9, 10, func(o *HOp) { o.H, o.Val = 1, 5 }),
			op(1, "glv", ab, 11, 12, func(o *HOp) { o.Got = 5 }),
			op(3, "final", nil, 13, 14, func(o *HOp) { o.KV = []KV{{ab, 5}} }),
		}},
		{"two handles on one unfiled node share its value; the re-added leaf is another node", "", false, []HOp{
			op(0, "add", ab, 1, 2, val(1)),
			op(0, "getleaf", ab, 3, 4, func(o *HOp) { o.H, o.Node = 1, "leaf" }),
			op(1, "getleaf", ab, 5, 6, func(o *HOp) { o.H, o.Node = 2, "leaf" }),
			op(2, "del", nil, 7, 8, func(o *HOp) { o.Paths = [][]string{ab} }),
			op(2, "add", ab, 9, 10, val(3)),
			op(0, "hupd", ab, 11, 12, func(o *HOp) { o.H, o.Val = 1, 5 }),
			op(1, "hval", ab, 13, 14, func(o *HOp) { o.H, o.Got = 2, 5 }),
			op(2, "glv", ab, 15, 16, func(o *HOp) { o.Got = 3 }),
			op(3, "final", nil, 17, 18, func(o *HOp) { o.KV = []KV{{ab, 3}} }),
		}},
		{"add on a filed path keeps the node: the handle sees the new value", "", false, []HOp{
			op(0, "add", ab, 1, 2, val(1)),
			op(0, "getleaf", ab, 3, 4, func(o *HOp) { o.H, o.Node = 1, "leaf" }),
			op(1, "add", ab, 5, 6, val(3)),
			op(0, "hval", ab, 7, 8, func(o *HOp) { o.H, o.Got = 1, 3 }),
			op(3, "final", nil, 17, 18, func(o *HOp) { o.KV = []KV{{ab, 3}} }),
		}},
		{"lost add", "lost-add", false, []HOp{
			op(0, "add", ab, 1, 4, val(1)),
			op(1, "add", []string{"a", "c"}, 2, 3, val(3)),
			op(3, "final", nil, 5, 6, func(o *HOp) { o.KV = []KV{{ab, 1}} }),
		}},
		{"a failed add left a trace", "failed-add-left-trace", false, []HOp{
			op(0, "add", []string{"a"}, 1, 2, val(1)),
			op(1, "add", ab, 3, 4, func(o *HOp) { o.Val, o.Err = 3, "leaf in the way" }),
			op(2, "del", []string{"a"}, 5, 6, func(o *HOp) { o.Paths = [][]string{{"a"}} }),
			op(2, "glv", ab, 7, 8, func(o *HOp) { o.Got = 3 }),
			op(3, "final", nil, 9, 10, func(o *HOp) { o.KV = []KV{{ab, 3}} }),
		}},
		{"a query misses a leaf that was there all the time", "query-missed-stable-leaf", false, []HOp{
			op(0, "add", ab, 1, 2, val(1)),
			op(1, "query", []string{"a", "*"}, 3, 6, func(o *HOp) { o.KV = []KV{} }),
			op(2, "add", []string{"a", "c"}, 4, 5, val(3)),
			op(3, "final", nil, 9, 10, func(o *HOp) { o.KV = []KV{{ab, 1}, {[]string{"a", "c"}, 3}} }),
		}},
		{"a query reports a leaf deleted before it began", "query-reported-absent-leaf", false, []HOp{
			op(0, "add", ab, 1, 2, val(1)),
			op(0, "del", ab, 3, 4, func(o *HOp) { o.Paths = [][]string{ab} }),
			op(1, "walk", nil, 5, 6, func(o *HOp) { o.KV = []KV{{ab, 1}} }),
			op(3, "final", nil, 9, 10, nil),
		}},
		{"overlapping add and delete: either order, the results decide", "", false, []HOp{
			op(0, "add", ab, 1, 4, val(1)),
			op(1, "del", []string{"*"}, 2, 3, func(o *HOp) { o.Paths = [][]string{} }),
			op(1, "query", []string{"a"}, 5, 6, func(o *HOp) { o.KV = []KV{{ab, 1}} }),
			op(3, "final", nil, 9, 10, func(o *HOp) { o.KV = []KV{{ab, 1}} }),
		}},
		{"delete returned the leaf yet it is still there", "query-reported-absent-leaf", false, []HOp{
			op(0, "add", ab, 1, 2, val(1)),
			op(1, "del", []string{"*"}, 3, 4, func(o *HOp) { o.Paths = [][]string{ab} }),
			op(3, "final", nil, 9, 10, func(o *HOp) { o.KV = []KV{{ab, 1}} }),
		}},
	}
	for _, c := range cases {
		h := &History{Ops: c.ops}
		for i := range h.Ops {
			if isQueryKind(h.Ops[i].Kind) && h.Ops[i].KV == nil {
				h.Ops[i].KV = []KV{}
			}
		}
		v := judge(h, 5*time.Second, 5*time.Second)
		if v.inconclusive != "" {
			t.Errorf("%s: inconclusive: %s", c.name, v.inconclusive)
		}
		if v.class != c.want {
			t.Errorf("%s: judged %q (%s), want %q", c.name, v.class, v.msg, c.want)
		}
		if c.want == "" && v.twoStep != c.twoStep {
			t.Errorf("%s: twoStep=%v, want %v", c.name, v.twoStep, c.twoStep)
		}
		// the differential oracle (sequential orders on the real tree) must agree wherever it has an opinion:
		// it does not judge concurrent queries, everything else it must refuse / accept like the model judge
		diffBad := c.want == "impossible-result" || c.want == "not-linearizable" || c.want == "lost-add" || c.want == "failed-add-left-trace" ||
			c.name == "delete returned the leaf yet it is still there"
		dv := diffJudge(h, 100000)
		if dv.inconclusive != "" || dv.ok == diffBad {
			t.Errorf("%s: differential oracle ok=%v inconclusive=%q (%s), want ok=%v", c.name, dv.ok, dv.inconclusive, dv.msg, !diffBad)
		}
		if c.want == "" && dv.twoStep != c.twoStep {
			t.Errorf("%s: differential oracle twoStep=%v, want %v", c.name, dv.twoStep, c.twoStep)
		}
		// the per-subtree projections must agree on legal histories
		if parts, ok := partitionHistory(h); ok && c.want == "" {
			for x, ph := range parts {
				if res, _, _, _, err := linCheck(ph, 5*time.Second); err != nil || string(res) != "Ok" {
					t.Errorf("%s: projection %s judged %v %v", c.name, x, res, err)
				}
			}
		}
	}
	// the recorded probe history of the conditional-delete finding is refused whatever tree produced it
	ph := &History{Ops: []HOp{
		op(0, "add", []string{"a", "x"}, 1, 2, val(1)),
		op(0, "getleaf", []string{"a", "x"}, 3, 4, func(o *HOp) { o.H, o.Node = 1, "leaf" }),
		op(0, "add", []string{"a", "z"}, 9, 10, val(5)),
		op(0, "getleaf", []string{"a", "z"}, 11, 12, func(o *HOp) { o.H, o.Node = 3, "leaf" }),
		op(0, "delcond", []string{"a"}, 13, 18, func(o *HOp) { o.Paths = [][]string{{"a", "z"}} }),
		op(1, "hupd", []string{"a", "x"}, 14, 15, func(o *HOp) { o.H, o.Val = 1, 102 }),
		op(1, "hupd", []string{"a", "z"}, 16, 17, func(o *HOp) { o.H, o.Val = 3, 106 }),
		op(2, "final", nil, 19, 20, func(o *HOp) { o.KV = []KV{{[]string{"a", "x"}, 102}} }),
	}}
	if v := judge(ph, 5*time.Second, 5*time.Second); v.class != "not-linearizable" || !strings.Contains(v.msg, "delcond") {
		t.Errorf("probe history judged %q (%s)", v.class, v.msg)
	}
	if dv := diffJudge(ph, 100000); dv.ok || dv.inconclusive != "" {
		t.Errorf("probe history: differential oracle ok=%v inconclusive=%q", dv.ok, dv.inconclusive)
	}
	// a handle shared by two goroutines: the use that was called last need not come last
	sh := &History{Ops: []HOp{
		op(9, "add", ab, 1, 2, val(28)),
		op(9, "getleaf", ab, 3, 4, func(o *HOp) { o.H, o.Node = 1, "leaf" }),
		op(0, "del", nil, 5, 9, func(o *HOp) { o.Paths = [][]string{ab} }),
		op(1, "hupd", ab, 6, 12, func(o *HOp) { o.H, o.Val = 1, 802 }),
		op(2, "hval", ab, 7, 11, func(o *HOp) { o.H, o.Got = 1, 28 }),
		op(3, "final", nil, 13, 14, func(o *HOp) { o.KV = []KV{} }),
	}}
	if v := judge(sh, 5*time.Second, 5*time.Second); v.class != "" || v.inconclusive != "" {
		t.Errorf("shared handle history judged %q %q (%s)", v.class, v.inconclusive, v.msg)
	}
	if dv := diffJudge(sh, 100000); !dv.ok {
		t.Errorf("shared handle history: differential oracle ok=%v inconclusive=%q (%s)", dv.ok, dv.inconclusive, dv.msg)
	}
	// a delete is atomic for readers (c10_rdatomic_test.go): all or nothing of what ONE delete removed
	ax, by, cz := []string{"a", "x"}, []string{"b", "y", "p"}, []string{"c", "z"}
	rdBase := func(v HOp, extra ...HOp) *History {
		ops := []HOp{
			op(9, "add", ax, 1, 2, val(2)),
			op(9, "add", by, 3, 4, val(4)),
			op(9, "add", cz, 5, 6, val(6)),
			v,
			op(1, "del", []string{"*"}, 11, 14, func(o *HOp) { o.Paths = [][]string{ax, by, cz} }),
		}
		ops = append(ops, extra...)
		ops = append(ops, op(3, "final", nil, 40, 41, nil))
		return &History{Ops: ops}
	}
	sorted := func(kv ...KV) func(*HOp) { return func(o *HOp) { o.Sorted, o.KV = true, kv } }
	for _, c := range []struct {
		name, want string
		h          *History
	}{
		{"visit saw everything the overlapping delete removed", "", rdBase(op(0, "walk", nil, 10, 20, sorted(KV{ax, 2}, KV{by, 4}, KV{cz, 6})))},
		{"visit saw nothing of what the overlapping delete removed", "", rdBase(op(0, "walk", nil, 10, 20, sorted()))},
		{"visit saw a strict subset of ONE delete", "visit-saw-part-of-one-delete", rdBase(op(0, "walk", nil, 10, 20, sorted(KV{ax, 2})))},
		{"same for Query, restricted to what its pattern matches", "visit-saw-part-of-one-delete", rdBase(op(0, "query", []string{"*", "*"}, 10, 20, func(o *HOp) { o.KV = []KV{{cz, 6}} }))},
		{"a query whose pattern matches one removed leaf only has nothing to compare", "", rdBase(op(0, "query", []string{"a"}, 10, 20, func(o *HOp) { o.KV = []KV{{ax, 2}} }))},
	} {
		for i := range c.h.Ops {
			if isQueryKind(c.h.Ops[i].Kind) && c.h.Ops[i].KV == nil {
				c.h.Ops[i].KV = []KV{}
			}
		}
		if v := judge(c.h, 5*time.Second, 5*time.Second); v.class != c.want || v.inconclusive != "" {
			t.Errorf("%s: judged %q %q (%s), want %q", c.name, v.class, v.inconclusive, v.msg, c.want)
		}
		if f, _ := judgeSmall(c.h, false); (f == nil) != (c.want == "") {
			t.Errorf("%s: judgeSmall without the model: %v, want class %q", c.name, f, c.want)
		}
	}
	// ... unless another operation that met the two touched the missing leaf: then it may have been gone before (or come back after)
	{
		h := rdBase(op(0, "walk", nil, 10, 20, sorted(KV{ax, 2}, KV{by, 4})),
			op(2, "del", []string{"c"}, 8, 9, func(o *HOp) { o.Paths = [][]string{} }))
		// (the second delete returned nothing, but it met the hull only if its interval does: [8,9] does not)
		if cl, _, _ := readerDeleteAtomicity(h); cl == "" {
			t.Errorf("a delete that ended before the visit and the delete began must not excuse the subset")
		}
		h = rdBase(op(0, "walk", nil, 10, 20, sorted(KV{ax, 2}, KV{cz, 6})),
			op(2, "add", []string{"b", "y"}, 12, 13, func(o *HOp) { o.Val, o.Err = 8, "branch in the way" }))
		if cl, _, st := readerDeleteAtomicity(h); cl != "" || st.pairs != 1 || st.all != 1 {
			t.Errorf("an Add at a prefix of the missing leaf met the interval: the leaf is not compared (class %q, stats %+v)", cl, st)
		}
		h = rdBase(op(0, "walk", nil, 10, 20, sorted(KV{ax, 2})),
			op(2, "add", []string{"b", "y"}, 12, 13, func(o *HOp) { o.Val, o.Err = 8, "branch in the way" }))
		if cl, _, _ := readerDeleteAtomicity(h); cl != "visit-saw-part-of-one-delete" {
			t.Errorf("a/x reported, c/z missed, both untouched: want the violation, got %q", cl)
		}
	}
	// a visitor handed a value of a type nobody stored: refused by every judge, with and without nil values in the history
	for _, withNil := range []bool{false, true} {
		h := &History{Ops: []HOp{
			op(9, "add", []string{"a", "n"}, 1, 2, func(o *HOp) { o.Nil, o.Val = withNil, map[bool]int{false: 2}[withNil] }),
			op(0, "walk", nil, 3, 6, func(o *HOp) {
				o.Sorted, o.KV, o.Foreign = true, []KV{{[]string{"a", "n"}, -1}}, "at path [a n]: a value of type ctree.branch"
			}),
			op(1, "add", []string{"a", "n", "c"}, 4, 5, func(o *HOp) { o.Val = 4; o.Err = map[bool]string{false: "leaf in the way"}[withNil] }),
			op(3, "final", nil, 9, 10, func(o *HOp) {
				o.KV = []KV{{[]string{"a", "n"}, 2}}
				if withNil {
					o.KV = []KV{{[]string{"a", "n", "c"}, 4}}
				}
			}),
		}}
		if v := judge(h, 5*time.Second, 5*time.Second); v.class != "impossible-result" {
			t.Errorf("foreign value (nil=%v): model judge says %q %q", withNil, v.class, v.inconclusive)
		}
		if dv := diffJudge(h, 100000); dv.ok || dv.inconclusive != "" {
			t.Errorf("foreign value (nil=%v): differential oracle ok=%v inconclusive=%q", withNil, dv.ok, dv.inconclusive)
		}
		if f, _ := judgeSmall(h, !withNil); f == nil || f.class != "impossible-result" {
			t.Errorf("foreign value (nil=%v): judgeSmall says %v", withNil, f)
		}
		h.Ops[1].KV, h.Ops[1].Foreign = []KV{{[]string{"a", "n"}, h.Ops[0].Val}}, ""
		if withNil {
			h.Ops[1].KV = []KV{{[]string{"a", "n", "c"}, 4}}
		}
		if f, inc := judgeSmall(h, !withNil); f != nil || len(inc) > 0 {
			t.Errorf("the same history with a legal walk result (nil=%v): %v %v", withNil, f, inc)
		}
	}
	// WalkSorted order
	{
		h := rdBase(op(0, "walk", nil, 30, 31, sorted()))
		h.Ops[3].Call, h.Ops[3].Ret = 7, 8
		h.Ops[3].KV = []KV{{by, 4}, {ax, 2}, {cz, 6}}
		if v := judge(h, 5*time.Second, 5*time.Second); v.class != "walksorted-out-of-order" {
			t.Errorf("unsorted WalkSorted: judged %q", v.class)
		}
		h.Ops[3].KV = []KV{{ax, 2}, {by, 4}, {cz, 6}}
		if v := judge(h, 5*time.Second, 5*time.Second); v.class != "" {
			t.Errorf("sorted WalkSorted: judged %q (%s)", v.class, v.msg)
		}
	}
	// empty nodes: a terminal add and an add through the same empty node cannot both succeed ...
	root := []string{}
	both := &History{Ops: []HOp{
		op(0, "add", root, 1, 4, val(3)),
		op(1, "add", []string{"c"}, 2, 3, val(5)),
		op(3, "final", nil, 5, 6, func(o *HOp) { o.KV = []KV{{root, 3}} }),
	}}
	if v := judge(both, 5*time.Second, 5*time.Second); v.class == "" {
		t.Errorf("both adds at/through the empty root succeeded: model judge accepted it")
	}
	if dv := diffJudge(both, 100000); dv.ok || dv.inconclusive != "" {
		t.Errorf("both adds at/through the empty root succeeded: differential oracle ok=%v inconclusive=%q", dv.ok, dv.inconclusive)
	}
	// ... unless the node holds nil again in between (differential oracle only: the model does not cover nil values)
	nilOK := &History{Ops: []HOp{
		op(9, "add", ab, 1, 2, func(o *HOp) { o.Nil = true }),
		op(0, "add", ab, 3, 4, val(3)),
		op(0, "add", ab, 5, 6, func(o *HOp) { o.Nil = true }),
		op(1, "add", []string{"a", "b", "c"}, 7, 8, val(5)),
		op(3, "final", nil, 9, 10, func(o *HOp) { o.KV = []KV{{[]string{"a", "b", "c"}, 5}} }),
	}}
	if v := judge(nilOK, 5*time.Second, 5*time.Second); v.class != "" || v.inconclusive == "" {
		t.Errorf("history with nil values: model judge must be inconclusive, got %q %q", v.class, v.inconclusive)
	}
	if dv := diffJudge(nilOK, 100000); !dv.ok {
		t.Errorf("nil leaf turned into a branch: differential oracle ok=%v inconclusive=%q (%s)", dv.ok, dv.inconclusive, dv.msg)
	}
	nilBad := &History{Ops: []HOp{
		op(9, "add", ab, 1, 2, func(o *HOp) { o.Nil = true }),
		op(0, "add", ab, 3, 6, val(3)),
		op(1, "add", []string{"a", "b", "c"}, 4, 5, val(5)),
		op(3, "final", nil, 9, 10, func(o *HOp) { o.KV = []KV{{ab, 3}} }),
	}}
	if dv := diffJudge(nilBad, 100000); dv.ok || dv.inconclusive != "" {
		t.Errorf("add at and add through a nil leaf both succeeded: differential oracle ok=%v inconclusive=%q", dv.ok, dv.inconclusive)
	}
}
