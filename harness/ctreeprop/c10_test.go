package ctreeprop

import "verif/harness/internal/vstat"

func replayC10(rf *vstat.ReplayFile) string { return "unknown replay kind " + rf.Kind }
