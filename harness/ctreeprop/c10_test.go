package ctreeprop

import (
	"encoding/json"
	"flag"
	"fmt"
	"math/rand"
	"os"
	"os/exec"
	"path/filepath"
	"sort"
	"strings"
	"testing"
	"time"

	"pgregory.net/rapid"
	"verif/harness/internal/vstat"
)

var (
	c10Histories  = flag.Int("c10.histories", 0, "C10 stress: number of free-running histories (0 = 200 quick / 3000 thorough)")
	c10OpBudget   = flag.Int("c10.ops", 300, "C10 stress: cap on workers x operations per history")
	c10Exact      = flag.Duration("c10.exacttimeout", 400*time.Millisecond, "C10 stress: porcupine budget for the whole history before the per-subtree projections are judged instead")
	c10LinTimeout = flag.Duration("c10.lintimeout", 20*time.Second, "C10: porcupine timeout per history (a timeout is inconclusive)")
	c10Stall      = flag.Duration("c10.stall", 60*time.Second, "C10 stress: real time after which unjoined workers are inspected for a deadlock")
	c10Confirm    = flag.Duration("c10.confirm", 5*time.Second, "C10 stress: distance between the two goroutine dumps of the deadlock test")
	c10DumpSlow   = flag.String("c10.dumpslow", "", "C10 stress (diagnostics): write the history with the slowest linearizability check to this file")
	c10Top        = flag.Int("c10.top", 3, "C10 stress: number of subtrees below the root (1..5)")
	c10ReplayRuns = flag.Int("c10.replayruns", 200, "C10 replay of a workload (crash / race class): how many free-running executions")
)

// replayT is set by TestReplay (synctest needs the *testing.T).
var replayT *testing.T

// TestC10Gate: deterministic schedules around the lock exchange of Add.
func TestC10Gate(t *testing.T) {
	if !vstat.Enabled("C10") {
		t.Skip()
	}
	rec := vstat.New("C10", "gate")
	rec.RunRapid(t, func(rt *rapid.T) {
		sc := genGate(rt)
		rec.Current(sc)
		st, _, fail := runGate(t, sc)
		rec.Case(sc, st.nontrivial, st.list()...)
		if fail != nil {
			rt.Fatalf("%s", rec.Fail(sc, fail.class, "%s", fail.msg))
		}
	})
}

type stressSample struct {
	Seed     int64 `json:"seed"`
	Index    int   `json:"index"`
	Workers  int   `json:"workers"`
	TotalOps int   `json:"total_ops"`
	FirstOps []HOp `json:"first_ops"`
}

// TestC10Stress: free-running histories, judged afterwards; built with -race by the driver.
func TestC10Stress(t *testing.T) {
	if !vstat.Enabled("C10") {
		t.Skip()
	}
	rec := vstat.New("C10", "stress")
	n := *c10Histories
	if n <= 0 {
		n = 200
		if *vstat.Tier == "thorough" {
			n = 3000
		}
	}
	rec.SetRequested(n)
	completed := false
	defer func() { rec.Flush(completed) }()

	open := vstat.OpenClasses("C10")
	if f, ok := open[classD6Alias]; ok {
		open[classD6] = f // the same class under the generic frame-pair name
	}
	_, d6open := open[classD6]
	rl := newRaceLog()
	switch {
	case !raceEnabled:
		rec.Note("stress part built without -race: the race-report oracle is inactive in this run")
		rl = nil
	case rl == nil:
		rec.Note("GORACE has no log_path: race reports cannot be read back, the race-report oracle is inactive in this run")
	}
	raceClasses := map[string]bool{}
	violations := 0
	raceVerdict := func(h *History) {
		for _, rep := range rl.fresh() {
			if raceClasses[rep.class] {
				continue
			}
			raceClasses[rep.class] = true
			if f, listed := open[rep.class]; listed {
				// A listed open finding is not a violation; the workload is built to stay clear of it, so say that it did not.
				rec.Note("race class %s is a listed open finding (%s) and was reported inside the workload although the workload is built to avoid it", rep.class, f.ID)
				continue
			}
			hh := *h
			hh.RaceReport = rep.text
			hh.Note = "race reports depend on the schedule; a replay re-runs nothing, it re-judges the recorded history"
			rec.AddViolation(&hh, "history", rep.class, "race detector: %s / %s\n%s", rep.frames[0], rep.frames[1], excerpt(rep.text, 1800))
			violations++
			t.Fail()
		}
	}
	if d6open {
		f := open[classD6]
		rl.fresh()
		probeD6()
		found := false
		for _, rep := range rl.fresh() {
			if rep.class == classD6 {
				found = true
			} else if !raceClasses[rep.class] {
				raceClasses[rep.class] = true
				rec.AddViolation(&History{RaceReport: rep.text, Note: "reported by the minimal Leaf.Update || Delete probe"}, "history", rep.class, "race detector: %s / %s\n%s", rep.frames[0], rep.frames[1], excerpt(rep.text, 1800))
				violations++
				t.Fail()
			}
		}
		switch {
		case found:
			rec.KnownFinding(fmt.Sprintf("KNOWN-FINDING: property=C10 %s (%s: minimal probe Leaf.Update(2) || Delete([a]) still reports the race; handle updates and deletes are kept apart in the workload)", f.What, f.ID))
			raceClasses[classD6] = true
		case rl != nil:
			rec.Note("open finding %s (%s) is listed but the minimal probe no longer reports the race", f.ID, classD6)
		}
		rec.Note("open finding %s: handle updates and deletes are serialised by the harness; every prevented overlap is counted in excluded_known", classD6)
	}

	// deterministic probe: conditional delete vs two sequential handle updates
	finding20, d20open := open[classCondDelete]
	{
		var ph *History
		rec.Current(map[string]string{"probe": classCondDelete})
		if stuck, deadlock := watched("ctreeprop.probeCondDelete", *c10Stall, *c10Confirm, func() { ph = probeCondDelete() }); stuck != "" {
			if deadlock {
				rec.AddViolation(&History{Ops: []HOp{}, Note: "probe: " + classCondDelete}, "probe", "deadlock", "the conditional-delete probe never returned: %s", stuck)
				t.Fail()
				completed = true
			} else {
				rec.Note("probe inconclusive: %s", stuck)
			}
			return // its goroutines cannot be reclaimed
		}
		pv := judge(ph, 20*time.Second, 20*time.Second)
		rec.Label("probe-conditional-delete-vs-handle-updates")
		switch {
		case pv.class != "" && d20open:
			rec.KnownFinding(fmt.Sprintf("KNOWN-FINDING: property=C10 %s (%s: the forced schedule still yields a history no sequential order explains; handle updates and conditional deletes are kept apart in the workload)", finding20.What, finding20.ID))
		case pv.class != "":
			ph.Note += "; deterministic: a replay runs the probe again"
			cls := pv.class
			if cls == "not-linearizable" {
				cls = classCondDelete
			}
			rec.AddViolation(ph, "probe", cls, "DeleteConditional is not atomic with respect to Leaf.Update through retained handles: %s", pv.msg)
			violations++
			t.Fail()
		case d20open:
			rec.Note("open finding %s (%s) is listed but the probe's history is linearizable now", finding20.ID, classCondDelete)
		}
		if d20open {
			rec.Note("open finding %s: handle updates and conditional deletes are serialised by the harness; every prevented overlap is counted in excluded_known", classCondDelete)
		}
	}
	serialise := 0
	switch {
	case d6open:
		serialise = 2
	case d20open:
		serialise = 1
	}
	exclClass := classD6
	if !d6open {
		exclClass = classCondDelete
	}

	stressTop = []string{"a", "b", "c", "d", "e"}[:max(1, min(5, *c10Top))]
	rng := rand.New(rand.NewSource(*vstat.Seed))
	var worst, total time.Duration
	worstOps, inconclusive, judged, partitioned, twoStep := 0, 0, 0, 0, 0
	for i := 0; i < n && violations < 3; i++ {
		w := genWorkload(rng, i, *c10OpBudget)
		w.Seed = *vstat.Seed
		w.SerialiseUpdateDelete = serialise
		rec.Current(w)
		run := &stressRun{w: w}
		h, stuck, deadlock := run.run(*c10Stall, *c10Confirm)
		for k := int64(0); k < run.avoided.Load(); k++ {
			rec.Excluded(exclClass)
		}
		if stuck != "" {
			if deadlock {
				rec.AddViolation(w, "workload", "deadlock", "%s", stuck)
				violations++
				completed = true
				t.Fail()
			} else {
				rec.Note("history %d inconclusive: %s", i, stuck)
				inconclusive++
			}
			// the stuck goroutines cannot be reclaimed: stop here
			return
		}
		raceVerdict(h)
		v := judge(h, *c10Exact, *c10LinTimeout)
		if v.linTime > worst {
			worst, worstOps = v.linTime, v.linOps
			if *c10DumpSlow != "" {
				b, _ := json.Marshal(map[string]any{"property": "C10", "part": "stress", "kind": "history", "class": "slow", "message": v.linTime.String(), "scenario": h})
				os.WriteFile(*c10DumpSlow, b, 0o644)
			}
		}
		total += v.linTime
		if v.inconclusive != "" {
			rec.Note("history %d (seed %d) inconclusive: %s", i, w.Seed, v.inconclusive)
			inconclusive++
			continue
		}
		judged++
		cl := classify(h)
		_, _, rd := readerDeleteAtomicity(h)
		rd.labels(cl.labels)
		if w.Readers > 0 {
			cl.add("profile:mostly-readers")
			if rd.pairs > 0 {
				cl.add("profile:mostly-readers:delete-atomic-for-readers:judged")
			}
		}
		if hasSortedWalk(h) {
			cl.add("walksorted")
		}
		accessLabels(h, cl.labels)
		if w.Tops == 1 {
			cl.add("profile:single-subtree")
		}
		if v.partitioned {
			partitioned++
			cl.add("judged-on-subtree-projections")
		}
		if v.twoStep {
			twoStep++
			cl.add("two-step-getleafvalue-model-consulted")
		}
		rec.CaseHash(vstat.Hash(h.Ops), cl.nontrivial, func() any {
			s := stressSample{Seed: h.Seed, Index: h.Index, Workers: h.Workers, TotalOps: len(h.Ops), FirstOps: h.Ops}
			if len(s.FirstOps) > 30 {
				s.FirstOps = s.FirstOps[:30]
			}
			return s
		}, cl.list()...)
		if v.class != "" {
			h.Note = "free-running history: the schedule cannot be reproduced; a replay re-judges this recorded history"
			rec.AddViolation(h, "history", v.class, "%s", v.msg)
			violations++
			t.Fail()
		}
	}
	if judged > 0 {
		rec.Note("stress: %d histories judged (%d of them on per-subtree projections after the whole-history check exceeded %v), %d needed the exact two-step GetLeafValue model, %d inconclusive; worst linearizability check %v (%d model operations), mean %v; schedules are the real scheduler's and are not reproducible, replay files hold the recorded history",
			judged, partitioned, *c10Exact, twoStep, inconclusive, worst.Round(time.Microsecond), worstOps, (total / time.Duration(judged)).Round(time.Microsecond))
	}
	if len(raceClasses) > 0 {
		var cs []string
		for c := range raceClasses {
			cs = append(cs, c)
		}
		sort.Strings(cs)
		rec.Note("race classes reported: %v", cs)
	}
	completed = violations > 0 || inconclusive*20 <= n
}

func excerpt(s string, n int) string {
	if len(s) > n {
		return s[:n] + "…"
	}
	return s
}

// replayC10 re-runs a saved C10 input: gate scenarios deterministically;
// stress histories are re-judged (their schedule cannot be reproduced);
// workloads (crash files, deadlocks) are executed again free-running.
func replayC10(rf *vstat.ReplayFile) string {
	if rf.Property != "C10" {
		return "unknown replay kind " + rf.Kind
	}
	switch {
	case rf.Part == "cbgate":
		return replayCB(rf)
	case strings.HasPrefix(rf.Part, "burst"):
		return replayBurst(rf)
	case strings.HasPrefix(rf.Part, "pair"):
		return replayPair(rf)
	}
	var probe struct {
		Threads json.RawMessage `json:"threads"`
		Ops     json.RawMessage `json:"ops"`
		Progs   json.RawMessage `json:"progs"`
	}
	if err := json.Unmarshal(rf.Scenario, &probe); err != nil {
		return "bad scenario: " + err.Error()
	}
	switch {
	case probe.Threads != nil:
		var sc GateScenario
		if err := json.Unmarshal(rf.Scenario, &sc); err != nil {
			return "bad gate scenario: " + err.Error()
		}
		if replayT == nil {
			return "gate replay needs the test handle"
		}
		_, hist, fail := runGate(replayT, &sc)
		for i := range hist.Ops {
			fmt.Println("  ", hist.Ops[i].String())
		}
		if fail != nil {
			return fail.class + ": " + fail.msg
		}
		return ""
	case probe.Progs != nil:
		var w Workload
		if err := json.Unmarshal(rf.Scenario, &w); err != nil {
			return "bad workload: " + err.Error()
		}
		fmt.Printf("NOTE: a workload is replayed free-running %d times; the original schedule cannot be reproduced\n", *c10ReplayRuns)
		rl := newRaceLog()
		if !raceEnabled {
			rl = nil
		}
		for i := 0; i < *c10ReplayRuns; i++ {
			run := &stressRun{w: &w}
			h, stuck, deadlock := run.run(*c10Stall, *c10Confirm)
			if stuck != "" {
				if deadlock {
					return "deadlock: " + stuck
				}
				fmt.Println("NOTE: inconclusive:", stuck)
				return ""
			}
			if v := judge(h, *c10Exact, *c10LinTimeout); v.class != "" {
				return v.class + ": " + v.msg
			}
			for _, rep := range rl.fresh() {
				if rep.class != classD6 || rf.Class == classD6 {
					return rep.class + ": race detector: " + rep.frames[0] + " / " + rep.frames[1]
				}
			}
		}
		return ""
	case probe.Ops != nil && rf.Kind == "probe":
		fmt.Println("NOTE: deterministic probe: the forced schedule is executed again and its history judged")
		var ph *History
		if stuck, deadlock := watched("ctreeprop.probeCondDelete", *c10Stall, *c10Confirm, func() { ph = probeCondDelete() }); stuck != "" {
			if deadlock {
				return "deadlock: " + stuck
			}
			fmt.Println("NOTE: inconclusive:", stuck)
			return ""
		}
		for i := range ph.Ops {
			fmt.Println("  ", ph.Ops[i].String())
		}
		if v := judge(ph, 20*time.Second, 20*time.Second); v.class != "" {
			return classCondDelete + ": " + v.msg
		}
		return ""
	case probe.Ops != nil:
		var h History
		if err := json.Unmarshal(rf.Scenario, &h); err != nil {
			return "bad history: " + err.Error()
		}
		fmt.Println("NOTE: recorded free-running history: the schedule cannot be reproduced, the history is re-judged by the oracles")
		v := judge(&h, *c10Exact, *c10LinTimeout)
		switch {
		case v.class != "":
			return v.class + ": " + v.msg
		case v.inconclusive != "":
			fmt.Println("NOTE: inconclusive:", v.inconclusive)
		case h.RaceReport != "":
			fmt.Println("NOTE: this file records a race-detector report; the recorded history itself satisfies the history oracles and the report cannot be re-created from it")
			if rf.Class == classD6 || rf.Class == classD6Alias {
				// the class has a minimal deterministic probe: run it in a child process whose race log can be read
				switch reported, err := probeD6InChild(); {
				case err != nil:
					fmt.Println("NOTE: minimal probe not run:", err)
				case reported:
					return classD6 + ": the minimal probe Leaf.Update(2) || Delete([a]) still makes the race detector report ctree.(*Leaf).Update / ctree.(*Tree).internalDelete"
				default:
					fmt.Println("NOTE: the minimal probe Leaf.Update(2) || Delete([a]) no longer reports the race")
				}
			}
		}
		return ""
	}
	return "unrecognised C10 scenario"
}

// TestC10ProbeChild is the body of the child process started by probeD6InChild.
func TestC10ProbeChild(t *testing.T) {
	if os.Getenv("C10_PROBE_CHILD") != "1" {
		t.Skip()
	}
	probeD6()
}

// probeD6InChild runs the minimal racing pair in a copy of this test binary
// with GORACE pointing at a scratch log and reports whether the class shows up.
func probeD6InChild() (bool, error) {
	if !raceEnabled {
		return false, fmt.Errorf("this binary was built without -race (add \"race\": true to the replay file)")
	}
	dir, err := os.MkdirTemp("", "c10probe")
	if err != nil {
		return false, err
	}
	defer os.RemoveAll(dir)
	self, err := os.Executable()
	if err != nil {
		return false, err
	}
	cmd := exec.Command(self, "-test.run", "^TestC10ProbeChild$", "-test.count", "1")
	cmd.Env = append(os.Environ(), "C10_PROBE_CHILD=1", "GORACE=log_path="+filepath.Join(dir, "race")+" halt_on_error=0")
	cmd.Dir = dir
	out, _ := cmd.CombinedOutput() // exits non-zero when a race is reported
	if !strings.Contains(string(out), "TestC10ProbeChild") && !strings.Contains(string(out), "PASS") && !strings.Contains(string(out), "FAIL") {
		return false, fmt.Errorf("child process did not run: %s", excerpt(string(out), 300))
	}
	files, _ := filepath.Glob(filepath.Join(dir, "race.*"))
	for _, f := range files {
		b, _ := os.ReadFile(f)
		reps, _ := parseRaceReports(string(b))
		for _, r := range reps {
			if r.class == classD6 {
				return true, nil
			}
		}
	}
	return false, nil
}

func hasSortedWalk(h *History) bool {
	for i := range h.Ops {
		if h.Ops[i].Kind == "walk" && h.Ops[i].Sorted {
			return true
		}
	}
	return false
}
