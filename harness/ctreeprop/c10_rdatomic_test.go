package ctreeprop

// C10: history clauses that need no sequential model. They are applied by every
// judge (model judge, differential oracle, judgeSmall) before anything else and
// hold for every history the parts record, also those that store nil.
//
// (1) foreign value. Every value the harness stores is a positive int or nil. A
//     visitor, lookup or delete callback that is handed anything else (recorded
//     as -1, HOp.Foreign says where and which type) was handed something that was
//     never in the tree: "a query reports nothing that was absent for its whole
//     duration" - whatever else the history contains.
//
// (2) a delete is atomic for readers. The interval rule (c10_model_test.go)
//     looks at one leaf at a time: each reported leaf was present at some point
//     of the visit, each leaf present throughout is reported. A visit that
//     reports a strict, non-empty subset of the leaves ONE delete removed
//     satisfies it - yet it saw the tree before and after the same delete.
//
//     Clause. V a visit (Query, Walk, WalkSorted), D a delete (Delete,
//     DeleteConditional, WalkDeleted) whose intervals overlap. R = the leaves D
//     removed (its return value; WalkDeleted: the paths of the unique values it
//     visited) that V's pattern matches and that no other operation X of the
//     history "touches" whose interval meets the hull [min call, max return] of V
//     and D, where X touches leaf p if X is
//         an Add (successful or not) at p, at a prefix of p or through p,
//         an update through a handle taken at p,
//         a delete whose pattern agrees with p on every common element.
//     Then V reports every leaf of R or none.
//
//     Soundness (unchanged tree, every schedule). Delete* holds the ROOT write
//     lock from before it looks at anything until it returns; Query, Walk and
//     WalkSorted each hold the ROOT read lock from before they look at anything
//     until they return (the deferred RUnlock of the outermost queryInternal /
//     walkInternal / walkInternalSorted frame), visitor calls included. The two
//     critical sections exclude each other, so V's whole traversal lies before
//     D's first inspection or after D's last removal - for all three visit kinds
//     alike. Let p in R. Presence and value of p change only through the
//     operations listed as "touching" (an Add elsewhere, a delete whose pattern
//     disagrees with p on a common element, a handle on another path cannot file,
//     unfile or rewrite p), and each of them acts inside its own interval. An
//     instant between V's and D's critical sections lies inside the hull, because
//     the intervals of V and D overlap; so an X acting there meets the hull and p
//     would not be in R. Hence p has the same state at V's traversal and at D's
//     start (V first: present with a non-nil value, since D removed it - V
//     reports it; Query skips only nil leaves) or at D's end (D first: absent - V
//     cannot report it). The same side applies to every p in R.
//     Stamps are drawn from one counter before the call and after the return, so
//     stamp intervals contain the real ones: "meets the hull" by stamps excludes
//     at least what it must, "overlap" by stamps only selects the pairs looked at
//     (the clause is equally true for pairs that do not overlap).
//
// (3) WalkSorted reports in element-wise lexicographic order. Every branch node
//     is read-locked while its sorted child names are visited and a child map is
//     only modified under the node's write lock, so the order holds under every
//     schedule.

import (
	"fmt"
	"sort"
	"strings"
)

func visitKind(o *HOp) string {
	if o.Kind == "walk" && o.Sorted {
		return "walksorted"
	}
	return o.Kind
}

// obsInt records an observed value in o: its int, 0 for nil, -1 (and a note in
// o.Foreign) for a value of any other type. Only the type is looked at: the
// value may be something other goroutines write to.
func obsInt(o *HOp, where []string, v interface{}) int {
	x := toInt(v)
	if x == -1 && o.Foreign == "" {
		o.Foreign = fmt.Sprintf("at path %q: a value of type %T", where, v)
	}
	return x
}

// foreignResult: clause (1).
func foreignResult(h *History) (string, string) {
	for i := range h.Ops {
		o := &h.Ops[i]
		bad := o.Foreign != "" || o.Got == -1
		for _, v := range o.Vals {
			bad = bad || v == -1
		}
		for _, e := range o.KV {
			bad = bad || e.V == -1
		}
		if bad {
			what := o.Foreign
			if what == "" {
				what = "recorded as -1"
			}
			return "impossible-result", fmt.Sprintf("%s was handed a value that no operation ever stored (%s): every stored value is an int or nil, so this was never in the tree", o, what)
		}
	}
	return "", ""
}

// sortedOrder: clause (3).
func sortedOrder(h *History) (string, string) {
	for i := range h.Ops {
		o := &h.Ops[i]
		if (o.Kind != "walk" && o.Kind != "nwalk" && o.Kind != "nstr") || !o.Sorted {
			continue
		}
		for k := 1; k < len(o.KV); k++ {
			if !lessPath(o.KV[k-1].P, o.KV[k].P) {
				return "walksorted-out-of-order", fmt.Sprintf("%s visited %q before %q", o, o.KV[k-1].P, o.KV[k].P)
			}
		}
	}
	return "", ""
}

// rdStats: what clause (2) had to say about a history (for the labels).
type rdStats struct {
	pairs   int             // overlapping (visit, delete) pairs with |R| >= 2
	maxR    int             // largest R
	kinds   map[string]bool // kinds of the visits / deletes in those pairs
	all     int             // pairs in which the visit reported all of R
	none    int             // ... none of R
	overlap int             // overlapping (visit, delete) pairs in which the delete removed >= 2 leaves the visit's pattern matches
}

func (s *rdStats) labels(into map[string]bool) {
	if s.overlap > 0 {
		into["visit-overlaps-multi-leaf-delete"] = true
	}
	if s.pairs == 0 {
		return
	}
	into["delete-atomic-for-readers:judged"] = true
	if s.maxR >= 3 {
		into["delete-atomic-for-readers:judged:3+leaves"] = true
	}
	for k := range s.kinds {
		into["delete-atomic-for-readers:judged:"+k] = true
	}
	if s.all > 0 {
		into["delete-atomic-for-readers:visit-saw-all"] = true
	}
	if s.none > 0 {
		into["delete-atomic-for-readers:visit-saw-none"] = true
	}
}

func prefixEq(a, b []string) bool { return key(a) == key(b) || isProperPrefix(a, b) }

// touches: may x file, unfile or rewrite the leaf at p (see the file comment).
func touches(x *HOp, p []string, k string) bool {
	switch {
	case x.Kind == "add":
		return prefixEq(x.Path, p) || prefixEq(p, x.Path)
	case x.Kind == "hupd":
		return key(x.Path) == k
	case isDelKind(x.Kind):
		return related(x.Path, p)
	}
	return false
}

// readerDeleteAtomicity: clause (2).
func readerDeleteAtomicity(h *History) (class, msg string, st rdStats) {
	st.kinds = map[string]bool{}
	ops := h.Ops
	var visits, dels, writers []int
	for i := range ops {
		switch o := &ops[i]; {
		case (o.Kind == "query" || o.Kind == "walk") && !subNodeVisit(o):
			// (a visit that starts at a sub-tree node holds that node's read lock, not the root's)
			visits = append(visits, i)
		case isDelKind(o.Kind):
			dels = append(dels, i)
			writers = append(writers, i)
		case o.Kind == "add" || o.Kind == "hupd":
			writers = append(writers, i)
		}
	}
	if len(visits) == 0 || len(dels) == 0 {
		return "", "", st
	}
	// value -> the distinct paths it was ever written to (WalkDeleted reports values only)
	wpaths := map[int][]string{}
	for _, i := range writers {
		if o := &ops[i]; (o.Kind == "add" && !o.Nil) || o.Kind == "hupd" {
			k, dup := key(o.Path), false
			for _, q := range wpaths[o.Val] {
				dup = dup || q == k
			}
			if !dup {
				wpaths[o.Val] = append(wpaths[o.Val], k)
			}
		}
	}
	for _, di := range dels {
		d := &ops[di]
		// the leaves d certainly removed
		var removed []string
		seen := map[string]bool{}
		put := func(k string) {
			if !seen[k] {
				seen[k] = true
				removed = append(removed, k)
			}
		}
		if d.Kind == "walkdel" {
			for _, v := range d.Vals {
				if v > 0 && len(wpaths[v]) == 1 {
					put(wpaths[v][0])
				}
			}
		} else {
			for _, p := range d.Paths {
				put(key(p))
			}
		}
		if len(removed) < 2 {
			continue
		}
		for _, vi := range visits {
			v := &ops[vi]
			if v.Ret < d.Call || d.Ret < v.Call {
				continue
			}
			lo, hi := min(v.Call, d.Call), max(v.Ret, d.Ret)
			var R []string
			matched := 0
			for _, k := range removed {
				p := unkey(k)
				if !Matches(v.Path, p) {
					continue
				}
				matched++
				touched := false
				for _, xi := range writers {
					x := &ops[xi]
					if xi == di || x.Ret < lo || x.Call > hi {
						continue
					}
					if touches(x, p, k) {
						touched = true
						break
					}
				}
				if !touched {
					R = append(R, k)
				}
			}
			if matched >= 2 {
				st.overlap++
			}
			if len(R) < 2 {
				continue
			}
			st.pairs++
			st.maxR = max(st.maxR, len(R))
			st.kinds[visitKind(v)] = true
			st.kinds[d.Kind] = true
			reported := map[string]bool{}
			for _, e := range v.KV {
				reported[key(e.P)] = true
			}
			var got, missed []string
			for _, k := range R {
				if reported[k] {
					got = append(got, strings.Join(unkey(k), "/"))
				} else {
					missed = append(missed, strings.Join(unkey(k), "/"))
				}
			}
			switch {
			case len(missed) == 0:
				st.all++
			case len(got) == 0:
				st.none++
			default:
				sort.Strings(got)
				sort.Strings(missed)
				return "visit-saw-part-of-one-delete", fmt.Sprintf("%s reports [%s] but not [%s], although ONE delete, %s, removed all of them and no other operation that met the interval [%d,%d] of the two added, removed or updated any of these paths: the visit saw the tree before and after the same delete, which no order of {visit, delete} explains (a delete is atomic with respect to everything else)",
					v, strings.Join(got, " "), strings.Join(missed, " "), d, lo, hi), st
			}
		}
	}
	return "", "", st
}

// universalClauses applies (1)-(3); "" = all hold.
func universalClauses(h *History) (class, msg string) {
	if cl, m := foreignResult(h); cl != "" {
		return cl, m
	}
	if cl, m := sortedOrder(h); cl != "" {
		return cl, m
	}
	cl, m, _ := readerDeleteAtomicity(h)
	return cl, m
}
