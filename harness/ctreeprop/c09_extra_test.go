package ctreeprop

import (
	"encoding/json"
	"fmt"
	"math"
	"reflect"
	"sort"
	"testing"

	"github.com/openconfig/gnmi/ctree"
	"pgregory.net/rapid"
	"verif/harness/internal/vstat"
)

// Two further parts of C09 that the small alphabets of the main parts cannot
// reach: (1) element strings with characters on both sides of '/' and one
// element being a prefix of its sibling, for "sorted walks in lexicographic
// order" (element-wise, not as a joined string); (2) values of every kind a
// caller stores — in particular values that Go cannot compare with == — for
// "an add either stores the value or fails leaving the tree unchanged".

var richElems = []string{"a", "b", "a-b", "a.1", "a b", "a!", "a/", "a/b", "", "~", "ab", "A", "é", "a\x01", "a*"}

func genRichPath(t *rapid.T) []string {
	n := rapid.IntRange(1, 4).Draw(t, "len")
	p := make([]string, n)
	for i := range p {
		p[i] = rapid.SampledFrom(richElems).Draw(t, "e")
	}
	return p
}

// mkValue builds the stored value of kind k from the integer v.
func mkValue(k, v int) interface{} {
	switch k {
	case 1:
		return fmt.Sprintf("s%d", v)
	case 2:
		return []byte{byte(v), byte(v >> 8)}
	case 3:
		return []interface{}{v, "x"}
	case 4:
		if v%3 == 0 {
			return 0.0
		}
		if v%3 == 1 {
			return math.Copysign(0, -1)
		}
		return float64(v)
	case 5:
		return struct {
			TS  int
			Val []int
		}{v, []int{v}}
	case 6:
		return map[string]int{"v": v}
	}
	return v
}

func rkey(p []string) string {
	b, _ := json.Marshal(p)
	return string(b)
}

func runkey(k string) []string {
	var p []string
	json.Unmarshal([]byte(k), &p)
	return p
}

func sameValue(a, b interface{}) bool {
	if fa, ok := a.(float64); ok {
		fb, ok := b.(float64)
		return ok && math.Float64bits(fa) == math.Float64bits(fb)
	}
	return reflect.DeepEqual(a, b)
}

type richOp struct {
	Kind string   `json:"kind"` // add | del
	Path []string `json:"path"`
	K    int      `json:"k"`
	V    int      `json:"v"`
	Pick int      `json:"pick,omitempty"` // re-address to the Pick-th stored leaf (an Add at an existing leaf)
}

type richScenario struct {
	Ops []richOp `json:"ops"`
}

func genRichScenario(t *rapid.T) *richScenario {
	op := func(t *rapid.T) richOp {
		o := richOp{Kind: rapid.SampledFrom([]string{"add", "add", "add", "add", "del"}).Draw(t, "kind")}
		o.Path = genRichPath(t)
		o.K = rapid.IntRange(0, 6).Draw(t, "vkind")
		o.V = rapid.IntRange(0, 50).Draw(t, "v")
		if rapid.IntRange(0, 2).Draw(t, "again") == 0 {
			o.Pick = rapid.IntRange(1, 6).Draw(t, "pick")
		}
		return o
	}
	return &richScenario{Ops: rapid.SliceOfN(rapid.Custom(op), 2, 30).Draw(t, "ops")}
}

func runRich(sc *richScenario) (labels []string, nontrivial bool, err error) {
	defer func() {
		if r := recover(); r != nil {
			err = fmt.Errorf("panic: %v", r)
		}
	}()
	t := &ctree.Tree{}
	model := map[string]interface{}{}
	lab := map[string]bool{}
	addOK := func(p []string) bool {
		for k := range model {
			q := runkey(k)
			if isProperPrefix(q, p) || isProperPrefix(p, q) {
				return false
			}
		}
		return true
	}
	sortedKeys := func() [][]string {
		var ps [][]string
		for k := range model {
			ps = append(ps, runkey(k))
		}
		sort.Slice(ps, func(i, j int) bool { return lessPath(ps[i], ps[j]) })
		return ps
	}
	for i, op := range sc.Ops {
		p := op.Path
		if op.Pick > 0 && len(model) > 0 {
			ks := sortedKeys()
			p = ks[(op.Pick-1)%len(ks)]
		}
		switch op.Kind {
		case "add":
			val := mkValue(op.K, op.V)
			want := addOK(p)
			if old, ok := model[rkey(p)]; ok {
				lab["add-at-existing-leaf"] = true
				if reflect.TypeOf(old) == reflect.TypeOf(val) && !reflect.TypeOf(val).Comparable() {
					lab["overwrite-with-uncomparable-value-of-same-type"] = true
					nontrivial = true
				}
				if _, isF := val.(float64); isF {
					if of, ok := old.(float64); ok && of == val.(float64) && !sameValue(old, val) {
						lab["overwrite-zero-with-negative-zero"] = true
					}
				}
			}
			gerr := t.Add(p, val)
			if want != (gerr == nil) {
				return keysOfSet(lab), nontrivial, fmt.Errorf("op %d Add(%q, %#v): error=%v, model says success=%v", i, p, val, gerr, want)
			}
			if want {
				model[rkey(p)] = val
			}
		case "del":
			var gone []string
			for k := range model {
				if Matches(p, runkey(k)) {
					gone = append(gone, k)
				}
			}
			got := t.Delete(p)
			if len(got) != len(gone) {
				return keysOfSet(lab), nontrivial, fmt.Errorf("op %d Delete(%q) returned %d leaves, model %d", i, p, len(got), len(gone))
			}
			for _, k := range gone {
				delete(model, k)
			}
		}
		// every stored value is what was stored last
		for k, want := range model {
			if got := t.GetLeafValue(runkey(k)); !sameValue(got, want) {
				return keysOfSet(lab), nontrivial, fmt.Errorf("after op %d: GetLeafValue(%q) = %#v, last stored %#v", i, runkey(k), got, want)
			}
		}
		// WalkSorted: exactly the stored leaves, in element-wise lexicographic order
		var walked [][]string
		t.WalkSorted(func(path []string, _ *ctree.Leaf, _ interface{}) error {
			walked = append(walked, append([]string{}, path...))
			return nil
		})
		want := sortedKeys()
		if len(walked) != len(want) {
			return keysOfSet(lab), nontrivial, fmt.Errorf("after op %d: WalkSorted visited %d leaves, %d are stored", i, len(walked), len(want))
		}
		for j := range want {
			if rkey(walked[j]) != rkey(want[j]) {
				return keysOfSet(lab), nontrivial, fmt.Errorf("after op %d: WalkSorted position %d is %q, element-wise lexicographic order wants %q (full order %q)", i, j, walked[j], want[j], want)
			}
		}
		for j := 0; j+1 < len(want); j++ {
			a, b := want[j], want[j+1]
			for d := 0; d < len(a) && d < len(b); d++ {
				if a[d] != b[d] {
					if len(a[d]) < len(b[d]) && b[d][:len(a[d])] == a[d] && d+1 < len(a) {
						lab["element-is-prefix-of-sibling-with-deeper-leaves"] = true
						nontrivial = true
					}
					break
				}
			}
		}
	}
	return keysOfSet(lab), nontrivial, nil
}

func keysOfSet(m map[string]bool) []string {
	var out []string
	for k := range m {
		out = append(out, k)
	}
	sort.Strings(out)
	return out
}

// TestC09Rich: rich element strings and value kinds.
func TestC09Rich(t *testing.T) {
	if !vstat.Enabled("C09") {
		t.Skip()
	}
	rec := vstat.New("C09", "rich")
	rec.RunRapid(t, func(rt *rapid.T) {
		sc := genRichScenario(rt)
		labels, nt, err := runRich(sc)
		rec.Case(sc, nt, labels...)
		if err != nil {
			rt.Fatalf("%s", rec.Fail(sc, "model-mismatch", "%v", err))
		}
	})
}
