package ctreeprop

import (
	"encoding/json"
	"errors"
	"fmt"
	"math"
	"reflect"
	"regexp"
	"sort"
	"strings"
	"testing"

	"github.com/openconfig/gnmi/ctree"
	"pgregory.net/rapid"
	"verif/harness/internal/vstat"
)

// Two further parts of C09 that the small alphabets of the main parts cannot
// reach: (1) element strings with characters on both sides of '/' and one
// element being a prefix of its sibling, for "sorted walks in lexicographic
// order" (element-wise, not as a joined string); (2) values of every kind a
// caller stores — in particular values that Go cannot compare with == — for
// "an add either stores the value or fails leaving the tree unchanged".

var richElems = []string{"a", "b", "a-b", "a.1", "a b", "a!", "a/", "a/b", "", "~", "ab", "A", "é", "a\x01", "a*"}

func genRichPath(t *rapid.T) []string {
	n := rapid.IntRange(1, 4).Draw(t, "len")
	p := make([]string, n)
	for i := range p {
		p[i] = rapid.SampledFrom(richElems).Draw(t, "e")
	}
	return p
}

// mkValue builds the stored value of kind k from the integer v.
func mkValue(k, v int) interface{} {
	switch k {
	case 1:
		return fmt.Sprintf("s%d", v)
	case 2:
		return []byte{byte(v), byte(v >> 8)}
	case 3:
		return []interface{}{v, "x"}
	case 4:
		if v%3 == 0 {
			return 0.0
		}
		if v%3 == 1 {
			return math.Copysign(0, -1)
		}
		return float64(v)
	case 5:
		return struct {
			TS  int
			Val []int
		}{v, []int{v}}
	case 6:
		return map[string]int{"v": v}
	}
	return v
}

func rkey(p []string) string {
	b, _ := json.Marshal(p)
	return string(b)
}

func runkey(k string) []string {
	var p []string
	json.Unmarshal([]byte(k), &p)
	return p
}


type richOp struct {
	// Kind: add | del | delcond | walkdel | upd (Leaf.Update through a handle taken with GetLeaf)
	Kind string   `json:"kind"`
	Path []string `json:"path"`
	K    int      `json:"k"`
	V    int      `json:"v"`
	Pick int      `json:"pick,omitempty"` // re-address to the Pick-th stored leaf (an Add at an existing leaf)
	// Same: an add/upd at an existing leaf stores a value of the kind the leaf holds (K is ignored then)
	Same bool `json:"same,omitempty"`
	// G: deletes only; bit i set = element i of the path is replaced by the glob, bit 4 = a trailing glob is appended
	G int `json:"g,omitempty"`
}

type richScenario struct {
	Ops []richOp `json:"ops"`
}

// value kinds 0-6 are plain data (mkValue); 7-14 are the values a caller can build from the package's own
// exported API, or that look like the tree's internal representation, or that look "empty" (mkTreeValue).
var richKinds = []int{0, 1, 2, 3, 4, 5, 6, 7, 9, 10, 0, 1, 2, 3, 4, 5, 6, 8, 11, 12, 13, 14, 7, 9}

func genRichScenario(t *rapid.T) *richScenario {
	op := func(t *rapid.T) richOp {
		o := richOp{Kind: rapid.SampledFrom([]string{"add", "add", "add", "add", "del", "add", "add", "upd", "delcond", "walkdel", "add", "del"}).Draw(t, "kind")}
		o.Path = genRichPath(t)
		o.K = rapid.SampledFrom(richKinds).Draw(t, "vkind")
		o.V = rapid.IntRange(0, 50).Draw(t, "v")
		if rapid.IntRange(0, 2).Draw(t, "again") == 0 {
			o.Pick = rapid.IntRange(1, 6).Draw(t, "pick")
			o.Same = rapid.IntRange(0, 2).Draw(t, "same-kind") == 0
		}
		if o.Kind != "add" && o.Kind != "upd" && rapid.IntRange(0, 2).Draw(t, "globbed") == 0 {
			o.G = rapid.IntRange(1, 31).Draw(t, "globs")
		}
		return o
	}
	// nested so that sequences are long on average and still shrink element by element
	var ops []richOp
	for _, chunk := range rapid.SliceOfN(rapid.SliceOfN(rapid.Custom(op), 2, 8), 1, 4).Draw(t, "ops") {
		ops = append(ops, chunk...)
	}
	return &richScenario{Ops: ops}
}

// namedBranch has the tree's own (unexported) representation of an interior node as underlying type.
type namedBranch map[string]*ctree.Tree

var richSourceLeaves = [][]string{{"x", "y"}, {"x", "z"}, {"w"}, {"a"}, {"a b", "a"}}

// richSource builds the tree the tree-related values are taken from (never the tree under test: a value that
// reaches the tree it is stored in is a cycle, and the tree's own error texts print values with %#v).
func richSource() *ctree.Tree {
	s := &ctree.Tree{}
	for i, p := range richSourceLeaves {
		if i == 2 {
			s.Add(p, "w-value")
			continue
		}
		s.Add(p, i+1)
	}
	return s
}

func checkRichSource(s *ctree.Tree) error {
	var got []string
	s.WalkSorted(func(path []string, _ *ctree.Leaf, v interface{}) error {
		got = append(got, fmt.Sprintf("%q=%v", path, v))
		return nil
	})
	want := `["a"]=4 ["a b" "a"]=5 ["w"]=w-value ["x" "y"]=1 ["x" "z"]=2`
	if g := strings.Join(got, " "); g != want {
		return fmt.Errorf("the tree that values were taken from (Children(), Get, GetLeaf) holds %s, it held %s before its nodes were stored as VALUES in another tree", g, want)
	}
	return nil
}

// mkTreeValue builds the value of kind k (7..14) from v; src is the tree snapshots and nodes are taken from.
func mkTreeValue(src *ctree.Tree, k, v int) interface{} {
	switch k {
	case 7: // what Children() returns
		switch v % 3 {
		case 0:
			return src.Children()
		case 1:
			return src.Get([]string{"x"}).Children()
		}
		return src.Get([]string{"w"}).Children() // Children of a leaf: a nil map of that type (not a nil interface)
	case 8: // maps of that type built by hand
		switch v % 3 {
		case 0:
			return map[string]*ctree.Tree{}
		case 1:
			return map[string]*ctree.Tree{"n": nil, "a": {}}
		}
		return map[string]*ctree.Tree{"a": src.Get([]string{"x"}), "b": src}
	case 9: // nodes
		switch v % 5 {
		case 0:
			return src
		case 1:
			return src.Get([]string{"x"})
		case 2:
			return src.Get([]string{"w"})
		case 3:
			return &ctree.Tree{}
		}
		return (*ctree.Tree)(nil)
	case 10: // leaf handles
		switch v % 4 {
		case 0:
			return ctree.DetachedLeaf(v)
		case 1:
			return src.GetLeaf([]string{"w"})
		case 2:
			return src.GetLeaf([]string{"x"})
		}
		return (*ctree.Leaf)(nil)
	case 11: // by value
		if v%2 == 0 {
			return ctree.Tree{}
		}
		return ctree.Leaf{}
	case 12: // functions
		switch v % 3 {
		case 0:
			return func() int { return v }
		case 1:
			return (func())(nil)
		}
		return ctree.VisitFunc(func([]string, *ctree.Leaf, interface{}) error { return nil })
	case 13: // look-alikes of the internal representation
		switch v % 5 {
		case 0:
			return namedBranch{"a": {}}
		case 1:
			return map[string]*ctree.Leaf{"a": ctree.DetachedLeaf(v)}
		case 2:
			m := src.Children()
			return &m
		case 3:
			return map[string]interface{}{"a": v}
		}
		return make(chan int)
	case 14: // values that look empty
		switch v % 10 {
		case 0:
			return ""
		case 1:
			return false
		case 2:
			return 0
		case 3:
			return []byte{}
		case 4:
			return []byte(nil)
		case 5:
			return (*int)(nil)
		case 6:
			return struct{}{}
		case 7:
			return [0]int{}
		case 8:
			return []string(nil)
		}
		return errors.New("")
	}
	return mkValue(k, v)
}

var richKindName = map[int]string{7: "children-snapshot", 8: "map-of-nodes", 9: "node-pointer", 10: "leaf-handle", 11: "node-by-value", 12: "func",
	13: "look-alike-of-a-branch", 14: "empty-looking"}

// sameValue: is got the value that was stored? Identity for reference kinds that have one (maps, funcs, channels,
// pointers), == for other comparable types (floats by bits), structure for slices and structs holding them.
func sameValue(a, b interface{}) bool {
	if reflect.TypeOf(a) != reflect.TypeOf(b) {
		return false
	}
	if a == nil {
		return true
	}
	if fa, ok := a.(float64); ok {
		return math.Float64bits(fa) == math.Float64bits(b.(float64))
	}
	va, vb := reflect.ValueOf(a), reflect.ValueOf(b)
	switch va.Kind() {
	case reflect.Map, reflect.Func, reflect.Chan:
		return va.Pointer() == vb.Pointer()
	}
	if va.Type().Comparable() {
		return a == b
	}
	return reflect.DeepEqual(a, b)
}

// describe names a value in messages without printing addresses.
func describe(v interface{}) string {
	switch v.(type) {
	case int, string, float64, bool, []byte, []interface{}, map[string]int:
		return fmt.Sprintf("%#v", v)
	}
	rv := reflect.ValueOf(v)
	switch rv.Kind() {
	case reflect.Map, reflect.Slice:
		return fmt.Sprintf("%T(nil=%v,len=%d)", v, rv.IsNil(), rv.Len())
	case reflect.Pointer, reflect.Func, reflect.Chan:
		return fmt.Sprintf("%T(nil=%v)", v, rv.IsNil())
	}
	return fmt.Sprintf("%T", v)
}

var hexAddr = regexp.MustCompile(`0x[0-9a-f]+`)

// acceptValue is the condition of the conditional deletes: a function of the dynamic type alone, so that the
// model can evaluate it on what it stored.
func acceptValue(v interface{}) bool { return len(fmt.Sprintf("%T", v))%2 == 0 }

type richKV struct {
	k string
	v interface{}
}

type richEntry struct {
	val  interface{}
	kind int
}

func runRich(sc *richScenario) (labels []string, nontrivial bool, err error) {
	defer func() {
		if r := recover(); r != nil {
			err = fmt.Errorf("panic: %v", r)
		}
		if err != nil {
			// the tree's own error texts print values with %#v (addresses): keep the message reproducible
			err = errors.New(hexAddr.ReplaceAllString(err.Error(), "0x?"))
		}
	}()
	t := &ctree.Tree{}
	src := richSource()
	model := map[string]richEntry{}
	lab := map[string]bool{}
	touched := map[string]bool{} // leaves holding a tree-related value
	addOK := func(p []string) bool {
		for k := range model {
			q := runkey(k)
			if isProperPrefix(q, p) || isProperPrefix(p, q) {
				return false
			}
		}
		return true
	}
	sortedKeys := func() [][]string {
		var ps [][]string
		for k := range model {
			ps = append(ps, runkey(k))
		}
		sort.Slice(ps, func(i, j int) bool { return lessPath(ps[i], ps[j]) })
		return ps
	}
	matching := func(q []string) []string {
		var out []string
		for k := range model {
			if Matches(q, runkey(k)) {
				out = append(out, k)
			}
		}
		sort.Strings(out)
		return out
	}
	// checkSet: got is exactly the leaves want, each once, each with the stored value
	checkSet := func(what string, got []richKV, want []string) error {
		got = append([]richKV{}, got...) // visits run in map order: name the first discrepancy in path order
		sort.SliceStable(got, func(i, j int) bool { return got[i].k < got[j].k })
		seen := map[string]bool{}
		for _, e := range got {
			if seen[e.k] {
				return fmt.Errorf("%s reported %s twice", what, e.k)
			}
			seen[e.k] = true
			me, ok := model[e.k]
			if !ok {
				return fmt.Errorf("%s reported a leaf at %s (value %s); the stored leaves are %q", what, e.k, describe(e.v), sortedKeys())
			}
			if !sameValue(e.v, me.val) {
				return fmt.Errorf("%s reported %s = %s, last stored there: %s", what, e.k, describe(e.v), describe(me.val))
			}
		}
		for _, k := range want {
			if !seen[k] {
				return fmt.Errorf("%s did not report the stored leaf %s (value %s)", what, k, describe(model[k].val))
			}
		}
		if len(got) != len(want) {
			return fmt.Errorf("%s reported %d leaves, %d stored leaves match", what, len(got), len(want))
		}
		return nil
	}
	visit := func(f func(ctree.VisitFunc) error) ([]richKV, error) {
		var out []richKV
		e := f(func(path []string, l *ctree.Leaf, v interface{}) error {
			out = append(out, richKV{rkey(path), v})
			return nil
		})
		return out, e
	}
	for i, op := range sc.Ops {
		p := op.Path
		if op.Pick > 0 && len(model) > 0 {
			ks := sortedKeys()
			p = ks[(op.Pick-1)%len(ks)]
		}
		switch op.Kind {
		case "add", "upd":
			old, exists := model[rkey(p)]
			if op.Kind == "upd" && !exists {
				break
			}
			if op.Same && exists {
				op.K = old.kind
			}
			val := mkTreeValue(src, op.K, op.V)
			want := addOK(p)
			if exists {
				lab["add-at-existing-leaf"] = true
				if reflect.TypeOf(old.val) == reflect.TypeOf(val) && !reflect.TypeOf(val).Comparable() {
					lab["overwrite-with-uncomparable-value-of-same-type"] = true
					nontrivial = true
				}
				if _, isF := val.(float64); isF {
					if of, ok := old.val.(float64); ok && of == val.(float64) && !sameValue(old.val, val) {
						lab["overwrite-zero-with-negative-zero"] = true
					}
				}
				if touched[rkey(p)] {
					lab["tree-related-value-overwritten"] = true
					nontrivial = true
				}
			}
			if !want {
				for k := range touched {
					if isProperPrefix(runkey(k), p) {
						lab["add-through-a-leaf-holding-a-tree-related-value"] = true
						nontrivial = true
					}
				}
			}
			if op.Kind == "upd" {
				l := t.GetLeaf(p)
				if l == nil {
					return keysOfSet(lab), nontrivial, fmt.Errorf("op %d GetLeaf(%q) = nil for a stored leaf", i, p)
				}
				l.Update(val)
				lab["value-written-through-a-leaf-handle"] = true
			} else {
				gerr := t.Add(p, val)
				if want != (gerr == nil) {
					return keysOfSet(lab), nontrivial, fmt.Errorf("op %d Add(%q, %s): error=%v, model says success=%v", i, p, describe(val), gerr, want)
				}
			}
			if want {
				model[rkey(p)] = richEntry{val, op.K}
				delete(touched, rkey(p))
				if n, ok := richKindName[op.K]; ok {
					lab["value:"+n] = true
					if op.K != 14 {
						touched[rkey(p)] = true
					}
					if rv := reflect.ValueOf(val); (rv.Kind() == reflect.Map || rv.Kind() == reflect.Pointer || rv.Kind() == reflect.Func || rv.Kind() == reflect.Slice) && rv.IsNil() {
						lab["value:typed-nil"] = true
					}
				}
			}
		case "del", "delcond", "walkdel":
			q := append([]string{}, p...)
			for j := range q {
				if op.G>>uint(j)&1 == 1 {
					q[j] = "*"
				}
			}
			if op.G>>4&1 == 1 {
				q = append(q, "*")
			}
			if op.G != 0 {
				lab["glob-delete"] = true
			}
			matches := matching(q)
			var gone []string
			for _, k := range matches {
				if op.Kind == "del" || acceptValue(model[k].val) {
					gone = append(gone, k)
				}
			}
			var strayed interface{}
			stray := false
			condCalls := 0
			cond := func(v interface{}) bool {
				condCalls++
				found := false
				for _, k := range matches {
					if sameValue(v, model[k].val) {
						found = true
					}
				}
				if !found && !stray {
					stray, strayed = true, v
				}
				return v != nil && acceptValue(v)
			}
			var got []richKV
			what := fmt.Sprintf("op %d %s(%q)", i, op.Kind, q)
			switch op.Kind {
			case "del":
				for _, r := range t.Delete(q) {
					got = append(got, richKV{k: rkey(r)})
				}
			case "delcond":
				for _, r := range t.DeleteConditional(q, cond) {
					got = append(got, richKV{k: rkey(r)})
				}
			case "walkdel":
				var vals []interface{}
				t.WalkDeleted(q, cond, func(v interface{}) { vals = append(vals, v) })
				// the visited values are the removed values, as a multiset
				used := make([]bool, len(vals))
				for _, k := range gone {
					found := false
					for j, v := range vals {
						if !used[j] && sameValue(v, model[k].val) {
							used[j], found = true, true
							break
						}
					}
					if !found {
						return keysOfSet(lab), nontrivial, fmt.Errorf("%s did not visit the value %s of the matching leaf %s", what, describe(model[k].val), k)
					}
				}
				if len(vals) != len(gone) {
					return keysOfSet(lab), nontrivial, fmt.Errorf("%s visited %d values, %d leaves match and satisfy the condition", what, len(vals), len(gone))
				}
			}
			if stray {
				return keysOfSet(lab), nontrivial, fmt.Errorf("%s: the condition was consulted for the value %s, which no leaf matching the path holds", what, describe(strayed))
			}
			if op.Kind != "del" && condCalls != len(matches) {
				return keysOfSet(lab), nontrivial, fmt.Errorf("%s: the condition was consulted %d times, %d leaves match the path (one call puts every matching leaf to the condition once)", what, condCalls, len(matches))
			}
			if op.Kind != "walkdel" {
				sort.Slice(got, func(a, b int) bool { return got[a].k < got[b].k })
				for j := range got {
					if j >= len(gone) || got[j].k != gone[j] {
						return keysOfSet(lab), nontrivial, fmt.Errorf("%s returned %v, a query for the same path reports %q", what, got, gone)
					}
				}
				if len(got) != len(gone) {
					return keysOfSet(lab), nontrivial, fmt.Errorf("%s returned %d leaves, model %d (%q)", what, len(got), len(gone), gone)
				}
			}
			for _, k := range gone {
				if touched[k] {
					lab["tree-related-value-deleted"] = true
					nontrivial = true
				}
				delete(model, k)
				delete(touched, k)
			}
			// the query for the same path now reports what the delete left
			qs, qerr := visit(func(f ctree.VisitFunc) error { return t.Query(q, f) })
			if qerr != nil {
				return keysOfSet(lab), nontrivial, fmt.Errorf("after %s: Query error %v", what, qerr)
			}
			if e := checkSet(fmt.Sprintf("after %s: Query(%q)", what, q), qs, matching(q)); e != nil {
				return keysOfSet(lab), nontrivial, e
			}
		}
		after := fmt.Sprintf("after op %d (%s %q)", i, op.Kind, p)
		// every stored leaf is a leaf holding what was stored last; every proper prefix is an interior node
		interior := map[string][]string{}
		for k, want := range model {
			kp := runkey(k)
			if got := t.GetLeafValue(kp); !sameValue(got, want.val) {
				return keysOfSet(lab), nontrivial, fmt.Errorf("%s: GetLeafValue(%q) = %s, last stored %s", after, kp, describe(got), describe(want.val))
			}
			n := t.Get(kp)
			if n == nil || n.IsBranch() || n.Children() != nil {
				return keysOfSet(lab), nontrivial, fmt.Errorf("%s: Get(%q): node nil=%v IsBranch=%v Children=%d; a leaf holding %s is stored there", after, kp, n == nil, n.IsBranch(), len(n.Children()), describe(want.val))
			}
			if got := t.GetLeaf(kp).Value(); !sameValue(got, want.val) {
				return keysOfSet(lab), nontrivial, fmt.Errorf("%s: GetLeaf(%q).Value() = %s, last stored %s", after, kp, describe(got), describe(want.val))
			}
			for d := 0; d < len(kp); d++ {
				interior[rkey(kp[:d])] = kp[:d]
			}
			// nothing is below a leaf
			if t.Get(append(append([]string{}, kp...), "a")) != nil {
				return keysOfSet(lab), nontrivial, fmt.Errorf("%s: Get(%q + a) found a node below the leaf holding %s", after, kp, describe(want.val))
			}
		}
		for _, ip := range interior {
			n := t.Get(ip)
			if n == nil || !n.IsBranch() || n.Value() != nil {
				return keysOfSet(lab), nontrivial, fmt.Errorf("%s: Get(%q): node nil=%v IsBranch=%v; leaves are stored below it", after, ip, n == nil, n.IsBranch())
			}
			names := map[string]bool{}
			for k := range model {
				if kp := runkey(k); isProperPrefix(ip, kp) {
					names[kp[len(ip)]] = true
				}
			}
			ch := n.Children()
			for name := range ch {
				if !names[name] {
					return keysOfSet(lab), nontrivial, fmt.Errorf("%s: Children(%q) has %q, no stored leaf is below it", after, ip, name)
				}
			}
			if len(ch) != len(names) {
				return keysOfSet(lab), nontrivial, fmt.Errorf("%s: Children(%q) has %d entries, model %d", after, ip, len(ch), len(names))
			}
		}
		if len(model) == 0 && t.IsBranch() {
			return keysOfSet(lab), nontrivial, fmt.Errorf("%s: the root is a branch, nothing is stored", after)
		}
		all := matching(nil)
		for name, f := range map[string]func(ctree.VisitFunc) error{"Walk": t.Walk, "Query(nil)": func(f ctree.VisitFunc) error { return t.Query(nil, f) }} {
			got, e := visit(f)
			if e != nil {
				return keysOfSet(lab), nontrivial, fmt.Errorf("%s: %s error %v", after, name, e)
			}
			if e := checkSet(after+": "+name, got, all); e != nil {
				return keysOfSet(lab), nontrivial, e
			}
		}
		// WalkSorted: exactly the stored leaves, in element-wise lexicographic order
		walked, werr := visit(t.WalkSorted)
		if werr != nil {
			return keysOfSet(lab), nontrivial, fmt.Errorf("%s: WalkSorted error %v", after, werr)
		}
		if e := checkSet(after+": WalkSorted", walked, all); e != nil {
			return keysOfSet(lab), nontrivial, e
		}
		want := sortedKeys()
		for j := range want {
			if walked[j].k != rkey(want[j]) {
				return keysOfSet(lab), nontrivial, fmt.Errorf("%s: WalkSorted position %d is %s, element-wise lexicographic order wants %q (full order %q)", after, j, walked[j].k, want[j], want)
			}
		}
		for j := 0; j+1 < len(want); j++ {
			a, b := want[j], want[j+1]
			for d := 0; d < len(a) && d < len(b); d++ {
				if a[d] != b[d] {
					if len(a[d]) < len(b[d]) && b[d][:len(a[d])] == a[d] && d+1 < len(a) {
						lab["element-is-prefix-of-sibling-with-deeper-leaves"] = true
						nontrivial = true
					}
					break
				}
			}
		}
		// values are opaque: what they reference is never modified by the tree
		if e := checkRichSource(src); e != nil {
			return keysOfSet(lab), nontrivial, fmt.Errorf("%s: %v", after, e)
		}
	}
	return keysOfSet(lab), nontrivial, nil
}

func keysOfSet(m map[string]bool) []string {
	var out []string
	for k := range m {
		out = append(out, k)
	}
	sort.Strings(out)
	return out
}

// TestC09Rich: rich element strings and value kinds.
func TestC09Rich(t *testing.T) {
	if !vstat.Enabled("C09") {
		t.Skip()
	}
	rec := vstat.New("C09", "rich")
	rec.RunRapid(t, func(rt *rapid.T) {
		sc := genRichScenario(rt)
		labels, nt, err := runRich(sc)
		rec.Case(sc, nt, labels...)
		if err != nil {
			rt.Fatalf("%s", rec.Fail(sc, "model-mismatch", "%v", err))
		}
	})
}
