package ctreeprop

import (
	"fmt"
	"slices"
	"sort"
	"strconv"
	"strings"
	"testing"

	"github.com/openconfig/gnmi/ctree"
	"pgregory.net/rapid"
	"verif/harness/internal/vstat"
)

// Part wide of C09: nodes with MANY children (around every step at which a container changes its
// capacity: 100, 127/128/129, 200, 255/256/257, 512, 1000, 1024, 4096+), at the root and at depth 1-2,
// built up and torn down inside one sequence. The small alphabets of the other parts can never build
// such a node, whatever the sequence length; everything that depends on the NUMBER of children of a
// node (its child map and how it is grown, shrunk or rebuilt, sorted walks over it, Children()
// snapshots of it, a glob in the middle of a query ranging over it, one delete call that removes most
// of it) is only exercised here. The scenario is a short list of BULK steps (plain data), the oracle
// is the prefix-free map model of the property with the documented match relation; the model and all
// comparisons cost O(leaves) per step.

type wideNode struct {
	// Pos: 0 the root; 1 ["n<i>"]; 2 ["dev","n<i>"] (i = index in Nodes)
	Pos int `json:"pos"`
	// Names of the children: 0 "k0042"; 1 "42" (string order differs from numeric order); 2 "eth42"
	Names int `json:"names"`
	// Shape of child i: 0 a leaf; 1 a branch {state}; 2 a branch {state,cfg};
	// 3 every 4th {state,cfg}, the others {state}; 4 every 4th a leaf, the others {state}
	Shape int `json:"shape"`
}

type wideStep struct {
	// Kind: fill (Add children From..From+N-1 of Node) | del | delcond | walkdel (ONE call, path by Form,
	// condition by Cond/Frac) | lit (N literal deletes, child From, From+Stride, ...) | addat | side
	Kind   string `json:"kind"`
	Node   int    `json:"node"`
	From   int    `json:"from,omitempty"`
	N      int    `json:"n,omitempty"`
	Stride int    `json:"stride,omitempty"`
	// Form of the delete path, np = path of the node: 0 np | 1 np,* | 2 np,*,* | 3 np,*,state | 4 np,*,cfg |
	// 5 np with its last element globbed | 6 globs only, one level below the node | 7 np,*,*,* | 8 globs only, at the leaves
	// addat: 0 np | 1 np,child | 2 np,child,state | 3 np,child,state,deeper | 4 np,child,extra
	Form int `json:"form,omitempty"`
	// Cond (delcond/walkdel), on the child index a value encodes: 0 all | 1 index >= T | 2 index%4 != 0 |
	// 3 index%10 != 0 | 4 index != From | 5 index even | 6 none | 7 the state leaves (and leaf children) only | 8 index < T
	Cond int `json:"cond,omitempty"`
	// Frac selects T relative to the node's peak / present number of children (resolved when the step runs)
	Frac int `json:"frac,omitempty"`
	// Leafwise (lit): delete the child's first leaf by its full path instead of the child
	Leafwise bool `json:"leafwise,omitempty"`
}

type wideScenario struct {
	Nodes []wideNode `json:"nodes"`
	Steps []wideStep `json:"steps"`
}

func wideNodePath(n wideNode, i int) []string {
	switch n.Pos {
	case 0:
		return []string{}
	case 1:
		return []string{"n" + strconv.Itoa(i)}
	}
	return []string{"dev", "n" + strconv.Itoa(i)}
}

func wideChildName(style, i int) string {
	switch style {
	case 1:
		return strconv.Itoa(i)
	case 2:
		return "eth" + strconv.Itoa(i)
	}
	return fmt.Sprintf("k%04d", i)
}

func wideSuffixes(shape, i int) [][]string {
	switch shape {
	case 1:
		return [][]string{{"state"}}
	case 2:
		return [][]string{{"state"}, {"cfg"}}
	case 3:
		if i%4 == 0 {
			return [][]string{{"state"}, {"cfg"}}
		}
		return [][]string{{"state"}}
	case 4:
		if i%4 == 0 {
			return [][]string{nil}
		}
		return [][]string{{"state"}}
	}
	return [][]string{nil}
}

func cat(p []string, more ...string) []string {
	return append(append(make([]string, 0, len(p)+len(more)), p...), more...)
}

// the reference ---------------------------------------------------------------------------------

type wideLeaf struct {
	k    string
	path []string
	val  int
}

// wideModel is the prefix-free map, with an index of child names per interior path so that an add, a
// literal delete and "does anything exist at p" cost O(depth) instead of O(leaves).
type wideModel struct {
	leaves map[string]*wideLeaf
	below  map[string]int             // path -> number of leaves it is a proper prefix of
	kids   map[string]map[string]bool // interior path -> names of its children
	peak   map[string]int             // path -> the largest number of children it has had
}

func newWideModel() *wideModel {
	return &wideModel{leaves: map[string]*wideLeaf{}, below: map[string]int{}, kids: map[string]map[string]bool{}, peak: map[string]int{}}
}

func (m *wideModel) exists(p []string) bool {
	k := key(p)
	return m.leaves[k] != nil || m.below[k] > 0
}

func (m *wideModel) addOK(p []string) bool {
	if m.below[key(p)] > 0 { // an interior node
		return false
	}
	for j := 0; j < len(p); j++ { // through a leaf
		if m.leaves[key(p[:j])] != nil {
			return false
		}
	}
	return true
}

func (m *wideModel) add(p []string, v int) {
	k := key(p)
	if l := m.leaves[k]; l != nil {
		l.val = v
		return
	}
	m.leaves[k] = &wideLeaf{k, cat(p), v}
	for j := len(p) - 1; j >= 0; j-- {
		pk := key(p[:j])
		m.below[pk]++
		s := m.kids[pk]
		if s == nil {
			s = map[string]bool{}
			m.kids[pk] = s
		}
		s[p[j]] = true
		if len(s) > m.peak[pk] {
			m.peak[pk] = len(s)
		}
	}
}

func (m *wideModel) remove(l *wideLeaf) {
	delete(m.leaves, l.k)
	p := l.path
	for j := len(p) - 1; j >= 0; j-- {
		pk := key(p[:j])
		m.below[pk]--
		if j == len(p)-1 || m.below[key(p[:j+1])] == 0 {
			delete(m.kids[pk], p[j])
		}
		if m.below[pk] == 0 {
			delete(m.below, pk)
			delete(m.kids, pk)
		}
	}
}

func (m *wideModel) nkids(p []string) int { return len(m.kids[key(p)]) }

// matches returns the leaves a query for q reports (the documented relation Matches), sorted by key.
// A query without a glob reports the leaves q is a prefix of: those are found through the index.
func (m *wideModel) matches(q []string) []*wideLeaf {
	var out []*wideLeaf
	if !hasGlob(q) {
		var rec func(p []string)
		rec = func(p []string) {
			k := key(p)
			if l := m.leaves[k]; l != nil {
				out = append(out, l)
				return
			}
			for name := range m.kids[k] {
				rec(cat(p, name))
			}
		}
		if len(q) == 0 || m.exists(q) {
			rec(q)
		}
	} else {
		for _, l := range m.leaves {
			if Matches(q, l.path) {
				out = append(out, l)
			}
		}
	}
	slices.SortFunc(out, func(a, b *wideLeaf) int { return strings.Compare(a.k, b.k) })
	return out
}

// checkVisit: got is exactly the leaves want (sorted by key), each once, each with the stored value.
func checkVisit(what string, got []kv, want []*wideLeaf) error {
	got = append([]kv{}, got...)
	slices.SortFunc(got, func(a, b kv) int { return strings.Compare(a.k, b.k) })
	i, j := 0, 0
	for i < len(got) || j < len(want) {
		switch {
		case i > 0 && i < len(got) && got[i].k == got[i-1].k:
			return fmt.Errorf("%s reported %q twice", what, unkey(got[i].k))
		case j >= len(want) || (i < len(got) && got[i].k < want[j].k):
			return fmt.Errorf("%s reported %q=%v, which is not among the %d stored leaves that match (it reported %d)", what, unkey(got[i].k), got[i].v, len(want), len(got))
		case i >= len(got) || got[i].k > want[j].k:
			return fmt.Errorf("%s did not report the stored leaf %q=%d (it reported %d leaves, %d stored leaves match)", what, want[j].path, want[j].val, len(got), len(want))
		default:
			if got[i].v != interface{}(want[j].val) {
				return fmt.Errorf("%s reported %q=%v, stored there: %d", what, want[j].path, got[i].v, want[j].val)
			}
			i++
			j++
		}
	}
	return nil
}

// the run ---------------------------------------------------------------------------------------

type wideStats struct {
	lab        map[string]bool
	nontrivial bool
}

func (s *wideStats) labels() []string { return keysOfSet(s.lab) }

type wideRun struct {
	t     *ctree.Tree
	m     *wideModel
	sc    *wideScenario
	st    *wideStats
	torn  map[int]int // node -> number of bulk teardowns so far
	refil map[int]bool
	obs   int
}

const wideIdx = 100000 // value = child index + wideIdx*(leaf number + 2*generation)

func wideCond(s wideStep, T int) func(int) bool {
	switch s.Cond {
	case 1:
		return func(v int) bool { return v%wideIdx >= T }
	case 2:
		return func(v int) bool { return v%wideIdx%4 != 0 }
	case 3:
		return func(v int) bool { return v%wideIdx%10 != 0 }
	case 4:
		return func(v int) bool { return v%wideIdx != s.From }
	case 5:
		return func(v int) bool { return v%wideIdx%2 == 0 }
	case 6:
		return func(v int) bool { return false }
	case 7:
		return func(v int) bool { return v/wideIdx%2 == 0 }
	case 8:
		return func(v int) bool { return v%wideIdx < T }
	}
	return func(v int) bool { return true }
}

func wideThreshold(frac, peak, now int) int {
	switch frac {
	case 1:
		return peak/4 + 1
	case 2:
		return peak/4 - 1
	case 3:
		return now / 4
	case 4:
		return 1
	case 5:
		return peak / 2
	case 6:
		return 128
	case 7:
		return 127
	case 8:
		return 64
	case 9:
		return peak/4 + 2
	}
	return peak / 4
}

func wideDeletePath(np []string, form int) []string {
	switch form {
	case 1:
		return cat(np, "*")
	case 2:
		return cat(np, "*", "*")
	case 3:
		return cat(np, "*", "state")
	case 4:
		return cat(np, "*", "cfg")
	case 5:
		if len(np) == 0 {
			return []string{"*"}
		}
		return cat(np[:len(np)-1], "*")
	case 6, 8:
		q := []string{}
		for i := 0; i <= len(np); i++ {
			q = append(q, "*")
		}
		if form == 8 {
			q = append(q, "*")
		}
		return q
	case 7:
		return cat(np, "*", "*", "*")
	}
	return cat(np)
}

func (r *wideRun) nodePath(i int) []string {
	i = ((i % len(r.sc.Nodes)) + len(r.sc.Nodes)) % len(r.sc.Nodes)
	return wideNodePath(r.sc.Nodes[i], i)
}

func (r *wideRun) node(i int) (int, wideNode) {
	i = ((i % len(r.sc.Nodes)) + len(r.sc.Nodes)) % len(r.sc.Nodes)
	return i, r.sc.Nodes[i]
}

// doDelete performs one delete call and judges it: it removes and returns exactly the leaves a query
// for the same path reports (restricted by the condition), the removed leaves are gone, every branch
// the call emptied is pruned, a query for the same path reports what is left.
func (r *wideRun) doDelete(what, kind string, q []string, cond func(int) bool) (int, error) {
	m, t := r.m, r.t
	matches := m.matches(q)
	var gone []*wideLeaf
	for _, l := range matches {
		if cond == nil || cond(l.val) {
			gone = append(gone, l)
		}
	}
	calls := 0
	var stray interface{}
	icond := func(v interface{}) bool {
		calls++
		iv, ok := v.(int)
		if !ok {
			stray = v
			return false
		}
		return cond == nil || cond(iv)
	}
	switch kind {
	case "del", "delcond":
		var ret [][]string
		if kind == "del" {
			ret = t.Delete(q)
		} else {
			ret = t.DeleteConditional(q, icond)
		}
		got := make([]kv, len(ret))
		for i, p := range ret {
			got[i] = kv{key(p), nil}
		}
		slices.SortFunc(got, func(a, b kv) int { return strings.Compare(a.k, b.k) })
		for i := 0; i < len(got) || i < len(gone); i++ {
			switch {
			case i >= len(gone) || (i < len(got) && got[i].k < gone[i].k):
				return 0, fmt.Errorf("%s returned %d paths, among them %q; a query for the same path reports %d leaves to remove, and not that one", what, len(got), unkey(got[i].k), len(gone))
			case i >= len(got) || got[i].k > gone[i].k:
				return 0, fmt.Errorf("%s returned %d paths and not %q, which a query for the same path reports (%d leaves to remove)", what, len(got), gone[i].path, len(gone))
			}
		}
	case "walkdel":
		var vals []int
		t.WalkDeleted(q, icond, func(v interface{}) {
			iv, _ := v.(int)
			vals = append(vals, iv)
		})
		sort.Ints(vals)
		wv := make([]int, len(gone))
		for i, l := range gone {
			wv[i] = l.val
		}
		sort.Ints(wv)
		for i := 0; i < len(vals) || i < len(wv); i++ {
			if i >= len(vals) || i >= len(wv) || vals[i] != wv[i] {
				return 0, fmt.Errorf("%s handed %d values to f, %d leaves match the path and the condition; first difference at position %d of the sorted values", what, len(vals), len(wv), i)
			}
		}
	}
	if stray != nil {
		return 0, fmt.Errorf("%s: the condition was consulted for the value %v, which no leaf holds", what, stray)
	}
	if kind != "del" && calls != len(matches) {
		return 0, fmt.Errorf("%s: the condition was consulted %d times, %d leaves match the path", what, calls, len(matches))
	}
	for _, l := range gone {
		m.remove(l)
	}
	// the removed leaves are gone, and every branch the call emptied is pruned
	seen := map[string]bool{}
	for _, l := range gone {
		if v := t.GetLeafValue(l.path); v != nil {
			return 0, fmt.Errorf("%s reported %q as deleted; GetLeafValue still finds %v there", what, l.path, v)
		}
		for j := len(l.path); j >= 1; j-- {
			p := l.path[:j]
			k := key(p)
			if seen[k] {
				break
			}
			seen[k] = true
			if ex := m.exists(p); ex != (t.Get(p) != nil) {
				return 0, fmt.Errorf("%s: afterwards Get(%q) non-nil=%v; in the model something is stored at or below that path=%v (an emptied branch is pruned)", what, p, !ex, ex)
			}
		}
	}
	left, err := collect(func(f ctree.VisitFunc) error { return t.Query(q, f) })
	if err != nil {
		return 0, fmt.Errorf("after %s: Query(%q) error %v", what, q, err)
	}
	if e := checkVisit(fmt.Sprintf("after %s: Query(%q)", what, q), left, m.matches(q)); e != nil {
		return 0, e
	}
	return len(gone), nil
}

// observe compares what the property lists with the model, over the whole tree and around every node
// of the scenario: O(leaves) per call.
func (r *wideRun) observe(after string) error {
	m, t := r.m, r.t
	all := m.matches(nil)
	for _, w := range []struct {
		name string
		f    func(ctree.VisitFunc) error
	}{{"Walk", t.Walk}, {"WalkSorted", t.WalkSorted}} {
		got, err := collect(w.f)
		if err != nil {
			return fmt.Errorf("%s: %s error %v", after, w.name, err)
		}
		if e := checkVisit(after+": "+w.name, got, all); e != nil {
			return e
		}
		if w.name == "WalkSorted" {
			sorted := append([]*wideLeaf{}, all...)
			slices.SortFunc(sorted, func(a, b *wideLeaf) int {
				if lessPath(a.path, b.path) {
					return -1
				}
				return 1
			})
			for i := range got {
				if got[i].k != sorted[i].k {
					return fmt.Errorf("%s: WalkSorted position %d of %d is %q, element-wise lexicographic order wants %q", after, i, len(got), unkey(got[i].k), sorted[i].path)
				}
			}
		}
	}
	for _, l := range all {
		if v := t.GetLeafValue(l.path); v != interface{}(l.val) {
			return fmt.Errorf("%s: GetLeafValue(%q)=%v, stored %d", after, l.path, v, l.val)
		}
	}
	if t.IsBranch() != (len(all) > 0) {
		return fmt.Errorf("%s: root IsBranch=%v, %d leaves stored", after, t.IsBranch(), len(all))
	}
	for i := range r.sc.Nodes {
		np := r.nodePath(i)
		n := t.Get(np)
		interior := m.below[key(np)] > 0
		if len(np) > 0 && (n != nil) != m.exists(np) {
			return fmt.Errorf("%s: Get(%q) non-nil=%v, model: something stored at or below=%v", after, np, n != nil, m.exists(np))
		}
		if n.IsBranch() != interior {
			return fmt.Errorf("%s: Get(%q).IsBranch()=%v, model interior=%v", after, np, n.IsBranch(), interior)
		}
		// the Children() snapshot of the node: exactly the names with something stored below them
		ch := n.Children()
		want := m.kids[key(np)]
		if len(ch) >= 100 {
			r.st.lab["children-snapshot-of-a-node-with->=100-children"] = true
		}
		var names []string
		for name := range ch {
			names = append(names, name)
		}
		sort.Strings(names)
		for _, name := range names {
			if !want[name] {
				return fmt.Errorf("%s: Children(%q) has %d entries, among them %q; the model has %d children there and not that one", after, np, len(ch), name, len(want))
			}
			if ch[name] == nil {
				return fmt.Errorf("%s: Children(%q)[%q] is nil", after, np, name)
			}
		}
		if len(ch) != len(want) {
			var missing []string
			for name := range want {
				if ch[name] == nil {
					missing = append(missing, name)
				}
			}
			sort.Strings(missing)
			return fmt.Errorf("%s: Children(%q) has %d entries, the model %d; first missing %q", after, np, len(ch), len(want), missing[0])
		}
		if !interior {
			continue
		}
		// queries around the node: the node, a glob ranging over its children (last and in the middle),
		// a glob above it, one child by name under a glob
		some := ""
		if len(names) > 0 {
			some = names[len(names)/2]
		}
		pats := [][]string{cat(np), cat(np, "*"), cat(np, "*", "state"), cat(np, "*", "*"), cat(np, "*", "cfg"), cat(np, some), cat(np, some, "*", "*")}
		if len(np) > 0 {
			pats = append(pats, cat(wideDeletePath(np, 5), "*", "state"), cat(wideDeletePath(np, 5), some), cat(wideDeletePath(np, 6), "state"))
		}
		if len(np) > 1 {
			pats = append(pats, cat([]string{"*"}, np[1:]...), append(cat([]string{"*"}, np[1:]...), "*", "cfg"))
		}
		if len(names) >= 600 {
			// very wide: a rotating third of the patterns per observation keeps the step at O(leaves)
			r.obs++
			var sub [][]string
			for j, q := range pats {
				if (j+r.obs)%3 == 0 {
					sub = append(sub, q)
				}
			}
			pats = sub
		}
		for _, q := range pats {
			got, err := collect(func(f ctree.VisitFunc) error { return t.Query(q, f) })
			if err != nil {
				return fmt.Errorf("%s: Query(%q) error %v", after, q, err)
			}
			if e := checkVisit(fmt.Sprintf("%s: Query(%q)", after, q), got, m.matches(q)); e != nil {
				return e
			}
		}
		if len(names) >= 100 {
			r.st.lab["walks-and-glob-queries-over-a-node-with->=100-children"] = true
		}
	}
	return nil
}

func isWideThreshold(c, peak int) bool {
	switch c {
	case 0, 1, 63, 64, 65, 127, 128, 129, peak/4 - 1, peak / 4, peak/4 + 1, peak / 2, peak / 8:
		return true
	}
	return false
}

func runWide(sc *wideScenario) (st *wideStats, err error) {
	st = &wideStats{lab: map[string]bool{}}
	defer func() {
		if r := recover(); r != nil {
			err = fmt.Errorf("panic: %v", r)
		}
	}()
	if len(sc.Nodes) == 0 {
		return st, nil
	}
	r := &wideRun{t: &ctree.Tree{}, m: newWideModel(), sc: sc, st: st, torn: map[int]int{}, refil: map[int]bool{}}
	m, t := r.m, r.t
	lab := st.lab
	for si, s := range sc.Steps {
		ni, nd := r.node(s.Node)
		np := r.nodePath(s.Node)
		npk := key(np)
		c0, pk := m.nkids(np), m.peak[npk]
		what := fmt.Sprintf("step %d", si)
		switch s.Kind {
		case "fill":
			added := 0
			for i := s.From; i < s.From+s.N; i++ {
				for ln, suf := range wideSuffixes(nd.Shape, i) {
					p := cat(cat(np, wideChildName(nd.Names, i)), suf...)
					v := i%wideIdx + wideIdx*(ln+2*(si%40+1))
					want := m.addOK(p)
					gerr := t.Add(p, v)
					if want != (gerr == nil) {
						return st, fmt.Errorf("step %d fill: Add(%q,%d): error=%v, model says success=%v (the node has %d children, has had %d)", si, p, v, gerr, want, m.nkids(np), m.peak[npk])
					}
					if want {
						m.add(p, v)
						added++
					} else {
						lab["failed-add"] = true
					}
				}
			}
			if pk >= 100 && c0 <= pk/4 && m.nkids(np)-c0 >= 50 {
				lab["refill-of-a-node-torn-down-to-a-quarter-of-its-peak-or-less"] = true
				r.refil[ni] = true
			}
			what = fmt.Sprintf("step %d (fill %q children %d..%d)", si, np, s.From, s.From+s.N-1)
		case "del", "delcond", "walkdel":
			q := wideDeletePath(np, s.Form)
			var cond func(int) bool
			if s.Kind != "del" {
				cond = wideCond(s, wideThreshold(s.Frac, pk, c0))
			}
			what = fmt.Sprintf("step %d %s(%q)", si, s.Kind, q)
			if s.Kind != "del" {
				what = fmt.Sprintf("step %d %s(%q, condition %d/threshold %d)", si, s.Kind, q, s.Cond, wideThreshold(s.Frac, pk, c0))
			}
			if _, e := r.doDelete(what, s.Kind, q, cond); e != nil {
				return st, fmt.Errorf("%v [the node %q had %d children before the call, has had %d]", e, np, c0, pk)
			}
			c1 := m.nkids(np)
			if c0 >= 100 && c1 < c0 {
				lab["one-delete-call-removed-children-of-a-node-with->=100:"+s.Kind] = true
				switch {
				case c1 == 0:
					lab["one-delete-call-removed-ALL-children-of-a-wide-node"] = true
				case c1 == 1:
					lab["one-delete-call-left-1-child-of-a-wide-node"] = true
				case c1*4 <= c0:
					lab["one-delete-call-removed-three-quarters-or-more-of-a-wide-node"] = true
				}
				if c1*2 < c0 {
					st.nontrivial = true
					r.torn[ni]++
					if r.torn[ni] >= 2 && r.refil[ni] {
						lab["second-teardown-of-the-same-node-after-a-refill"] = true
					}
				}
			}
			if pk >= 128 && c0 > pk/4 && c1 <= pk/4 {
				lab["one-delete-call-took-a-node-from-above-to-at-or-below-a-quarter-of-its-peak(>=128)"] = true
				if c1 == pk/4 {
					lab["one-delete-call-took-a-node-to-exactly-a-quarter-of-its-peak"] = true
				}
				if c1 > 0 {
					lab["one-delete-call-crossed-a-quarter-of-the-peak-and-left-children"] = true
				}
			}
			if pk >= 128 && c0 > pk/4+1 && c1 == pk/4+1 {
				lab["one-delete-call-took-a-node-to-a-quarter-of-its-peak-plus-one"] = true
			}
		case "lit":
			last := c0
			crossed := false
			for j := 0; j < s.N; j++ {
				i := s.From + j*s.Stride
				if i < 0 {
					break
				}
				p := cat(np, wideChildName(nd.Names, i))
				if s.Leafwise {
					p = cat(p, wideSuffixes(nd.Shape, i)[0]...)
				}
				w := fmt.Sprintf("step %d literal delete %d: Delete(%q)", si, j, p)
				if _, e := r.doDelete(w, "del", p, nil); e != nil {
					return st, fmt.Errorf("%v [the node %q has %d children, has had %d]", e, np, m.nkids(np), pk)
				}
				if c := m.nkids(np); c != last {
					if pk >= 128 && last > pk/4 && c <= pk/4 {
						crossed = true
					}
					last = c
					if isWideThreshold(c, pk) {
						if e := r.observe(fmt.Sprintf("after %s (the node %q has %d children, has had %d)", w, np, c, pk)); e != nil {
							return st, e
						}
					}
				}
			}
			if crossed {
				lab["literal-deletes-took-a-node-across-a-quarter-of-its-peak(>=128)"] = true
			}
			if c0 >= 100 && last == 0 {
				lab["literal-deletes-removed-the-last-child-of-a-wide-node"] = true
			}
			what = fmt.Sprintf("step %d (%d literal deletes under %q from child %d, stride %d)", si, s.N, np, s.From, s.Stride)
		case "addat":
			child := wideChildName(nd.Names, s.From)
			var p []string
			switch s.Form {
			case 0:
				p = cat(np)
			case 1:
				p = cat(np, child)
			case 2:
				p = cat(np, child, "state")
			case 3:
				p = cat(np, child, "state", "deeper")
			default:
				p = cat(np, child, "extra")
			}
			if len(p) == 0 {
				break
			}
			v := s.From%wideIdx + wideIdx*(2*(si%40+1))
			want := m.addOK(p)
			gerr := t.Add(p, v)
			if want != (gerr == nil) {
				return st, fmt.Errorf("step %d Add(%q,%d): error=%v, model says success=%v (the node %q has %d children, has had %d)", si, p, v, gerr, want, np, c0, pk)
			}
			if want {
				m.add(p, v)
				if s.Form == 0 && pk >= 100 {
					lab["add-at-the-position-of-an-emptied-wide-node"] = true
				}
			} else {
				lab["failed-add"] = true
			}
			what = fmt.Sprintf("step %d Add(%q)", si, p)
		case "side":
			p := [][]string{{"dev", "system", "hostname"}, {"side"}, {"n9", "x", "y"}, {"dev", "n9", "x"}}[((s.N%4)+4)%4]
			want := m.addOK(p)
			if gerr := t.Add(p, si); want != (gerr == nil) {
				return st, fmt.Errorf("step %d Add(%q): error=%v, model says success=%v", si, p, gerr, want)
			}
			if want {
				m.add(p, si)
			}
			what = fmt.Sprintf("step %d Add(%q)", si, p)
		default:
			return st, fmt.Errorf("unknown step %q", s.Kind)
		}
		if e := r.observe("after " + what); e != nil {
			return st, e
		}
	}
	// the distribution: the largest number of children any node has had, and where the wide nodes were
	top := 0
	for i := range sc.Nodes {
		np := r.nodePath(i)
		p := m.peak[key(np)]
		if p > top {
			top = p
		}
		if p >= 100 {
			lab[fmt.Sprintf("wide-node-at-depth-%d", len(np))] = true
		}
	}
	switch {
	case top >= 4096:
		lab["peak:4096+"] = true
	case top >= 1000:
		lab["peak:1000-4095"] = true
	case top >= 256:
		lab["peak:256-999"] = true
	case top >= 128:
		lab["peak:128-255"] = true
	case top >= 100:
		lab["peak:100-127"] = true
	default:
		lab["peak:<100"] = true
	}
	return st, nil
}

// the generator -----------------------------------------------------------------------------------

// ascending, so that a failing width shrinks towards the smallest width that still fails
var wideWidths = []int{3, 40, 100, 100, 127, 127, 128, 128, 129, 129, 130, 160, 200, 200, 255, 256, 256, 257, 257, 300, 511, 512, 513, 1000, 1024, 1025}

func genWidth(t *rapid.T) int {
	switch c := rapid.IntRange(0, 39).Draw(t, "width-class"); {
	case c == 39:
		return rapid.SampledFrom([]int{2048, 2049, 4096, 4097, 5000}).Draw(t, "width")
	case c >= 33:
		return rapid.IntRange(1, 300).Draw(t, "width")
	}
	return rapid.SampledFrom(wideWidths).Draw(t, "width")
}

func genWideScenario(t *rapid.T) *wideScenario {
	sc := &wideScenario{}
	nn := rapid.SampledFrom([]int{1, 1, 1, 2}).Draw(t, "nodes")
	widths := make([]int, nn)
	for i := 0; i < nn; i++ {
		sc.Nodes = append(sc.Nodes, wideNode{
			Pos:   rapid.SampledFrom([]int{0, 1, 1, 2, 2}).Draw(t, "pos"),
			Names: rapid.IntRange(0, 2).Draw(t, "names"),
			Shape: rapid.IntRange(0, 4).Draw(t, "shape"),
		})
		widths[i] = genWidth(t)
		sc.Steps = append(sc.Steps, wideStep{Kind: "fill", Node: i, N: widths[i]})
	}
	step := func(t *rapid.T) wideStep {
		s := wideStep{Kind: rapid.SampledFrom([]string{"fill", "fill", "fill", "del", "del", "del", "delcond", "delcond", "delcond", "walkdel", "walkdel", "lit", "lit", "addat", "addat", "side"}).Draw(t, "kind")}
		s.Node = rapid.IntRange(0, nn-1).Draw(t, "node")
		w := widths[s.Node]
		switch s.Kind {
		case "fill":
			s.From = rapid.SampledFrom([]int{0, 0, 0, w / 4, w}).Draw(t, "from")
			if rapid.IntRange(0, 2).Draw(t, "same-width") == 0 {
				s.N = genWidth(t)
			} else {
				s.N = w - s.From
				if s.N <= 0 {
					s.N = w
				}
			}
		case "del":
			s.Form = rapid.SampledFrom([]int{0, 0, 1, 1, 2, 3, 3, 4, 5, 6, 7, 8}).Draw(t, "form")
		case "delcond", "walkdel":
			s.Form = rapid.SampledFrom([]int{0, 0, 1, 1, 2, 3, 5, 6, 8}).Draw(t, "form")
			s.Cond = rapid.SampledFrom([]int{0, 1, 1, 1, 2, 3, 4, 5, 6, 7, 8, 1}).Draw(t, "cond")
			s.Frac = rapid.IntRange(0, 9).Draw(t, "frac")
			s.From = rapid.IntRange(0, w).Draw(t, "keep")
		case "lit":
			s.Stride = rapid.SampledFrom([]int{1, 1, -1, 3, -1}).Draw(t, "stride")
			s.N = rapid.SampledFrom([]int{1, 5, w / 4, w / 2, w - w/4, w - w/4 + 2, w, w + 3}).Draw(t, "n")
			if s.Stride < 0 {
				s.From = w - 1
			} else {
				s.From = rapid.SampledFrom([]int{0, 0, w / 4, w / 2}).Draw(t, "from")
			}
			s.Leafwise = rapid.Bool().Draw(t, "leafwise")
		case "addat":
			s.Form = rapid.SampledFrom([]int{0, 0, 0, 1, 2, 3, 4}).Draw(t, "form")
			s.From = rapid.IntRange(0, w).Draw(t, "child")
		case "side":
			s.N = rapid.IntRange(0, 3).Draw(t, "which")
		}
		return s
	}
	sc.Steps = append(sc.Steps, rapid.SliceOfN(rapid.Custom(step), 1, 9).Draw(t, "steps")...)
	return sc
}

// TestC09Wide: nodes with many children, built up and torn down across the capacity steps.
func TestC09Wide(t *testing.T) {
	if !vstat.Enabled("C09") {
		t.Skip()
	}
	rec := vstat.New("C09", "wide")
	rec.RunRapid(t, func(rt *rapid.T) {
		sc := genWideScenario(rt)
		st, err := runWide(sc)
		rec.Case(sc, st.nontrivial, st.labels()...)
		if err != nil {
			rt.Fatalf("%s", rec.Fail(sc, "model-mismatch", "%v", err))
		}
	})
}
