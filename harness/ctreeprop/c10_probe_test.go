package ctreeprop

// Deterministic probes of the stress part (they need no race detector).

import (
	"runtime"
	"sync/atomic"

	"github.com/openconfig/gnmi/ctree"
)

// classCondDelete: a conditional (or value-reporting) delete inspects the
// leaves one after the other holding the root lock plus the lock of the node it
// is looking at; Leaf.Update through a retained handle takes only the leaf's
// lock. Two updates issued one after the other — the first on a leaf the delete
// has already judged, the second on a leaf it has not reached yet — are
// therefore seen by one delete in the opposite order.
const classCondDelete = "conditional-delete-not-atomic-vs-handle-update"

// probeCondDelete forces that schedule and returns the recorded history (to be
// judged like any other). DeleteConditional(even) runs over three odd leaves;
// its condition callback is used purely as a scheduling device:
//
//	1st inspected leaf L1: another goroutine is asked to Update L1 to an even value (A1);
//	2nd inspected leaf:    once A1 has returned, the same goroutine Updates a leaf the
//	                       delete has not reached (L3) to an even value (A2), which is waited for.
//
// The callback never blocks on A1: it yields a bounded number of times and goes
// on without A2 if A1 has not returned (an implementation that keeps inspected
// leaves locked until the delete ends makes A1 wait, legitimately). The bound
// only limits sensitivity; the verdict comes from the history.
func probeCondDelete() *History {
	tr := &ctree.Tree{}
	var clock atomic.Int64
	now := func() int64 { return clock.Add(1) }
	h := &History{Workers: 2, Note: "probe: DeleteConditional(even) over three odd leaves with two sequential handle updates scheduled between its inspections"}
	paths := [][]string{{"a", "x"}, {"a", "y"}, {"a", "z"}}
	leafOf := map[int]*ctree.Leaf{}
	hid := map[int]int{}
	pathOf := map[int][]string{}
	for i, p := range paths {
		v := 2*i + 1
		o := HOp{G: 0, Kind: "add", Path: p, Val: v}
		perform(tr, &o, nil, now)
		g := HOp{G: 0, Kind: "getleaf", Path: p, H: i + 1}
		leafOf[v] = perform(tr, &g, nil, now)
		hid[v], pathOf[v] = i+1, p
		h.Ops = append(h.Ops, o, g)
		if leafOf[v] == nil {
			return h // cannot even take the handles: the judge will say why
		}
	}
	req := make(chan func(), 2)
	fin := make(chan struct{})
	var updates []HOp // written by the updater goroutine only, read after fin
	go func() {
		defer close(fin)
		for f := range req {
			f()
		}
	}()
	update := func(v int, done *atomic.Bool) func() {
		return func() {
			o := HOp{G: 1, Kind: "hupd", Path: pathOf[v], H: hid[v], Val: v + 101}
			perform(tr, &o, leafOf[v], now)
			updates = append(updates, o)
			done.Store(true)
		}
	}
	var a1, a2 atomic.Bool
	calls, first := 0, 0
	cond := func(val interface{}) bool {
		x := toInt(val)
		calls++
		switch calls {
		case 1:
			first = x
			if leafOf[x] != nil {
				req <- update(x, &a1)
			}
		case 2:
			for i := 0; i < 200000 && !a1.Load(); i++ {
				runtime.Gosched()
			}
			if a1.Load() {
				for _, c := range []int{1, 3, 5} {
					if c != first && c != x {
						req <- update(c, &a2)
					}
				}
				// The leaf A2 writes is not being inspected: its update cannot depend on this delete.
				for i := 0; i < 200000 && !a2.Load(); i++ {
					runtime.Gosched()
				}
			}
		}
		return x > 0 && x%2 == 0
	}
	d := HOp{G: 0, Kind: "delcond", Path: []string{"a"}}
	d.Call = now()
	res := tr.DeleteConditional(d.Path, cond)
	d.Ret = now()
	d.Paths = copyPaths(res)
	close(req)
	<-fin
	h.Ops = append(h.Ops, d)
	h.Ops = append(h.Ops, updates...)
	f := HOp{G: 2, Kind: "final"}
	perform(tr, &f, nil, now)
	h.Ops = append(h.Ops, f)
	return h
}
