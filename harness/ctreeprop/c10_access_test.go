package ctreeprop

// C10: the accessor dimension - every exported method of ctree, on the root and
// on sub-tree nodes, concurrently with structural writers.
//
// Exported API of /repo/ctree/tree.go and the operation kinds that invoke it in
// the free-running parts (stress, burst / burst-race, pair, pair-access) and in
// the callback-gate part:
//
//	(*Tree).Add                add
//	(*Tree).Get                getleaf (the node is kept whatever its kind), children / isbranch /
//	                           glv via "value" / walk via "string" on a path (Get, then the accessor),
//	                           every operation with Base > 0 (Get, then the method on the node)
//	(*Tree).GetLeafValue       glv                    (Base > 0: on a sub-tree node)
//	(*Tree).GetLeaf            getleaf                (Base > 0: on a sub-tree node)
//	(*Tree).Value              glv via "value"        (root: tr.Value(); else Get(path).Value()), nval (retained node)
//	(*Tree).Children           children               (root: tr.Children(); else Get(path).Children()), nkids (retained node)
//	(*Tree).IsBranch           isbranch, nisbr        (likewise)
//	(*Tree).String             walk via "string", nstr (likewise; the text is parsed back into leaves)
//	(*Tree).Query              query                  (Base > 0: on a sub-tree node)
//	(*Tree).Walk / WalkSorted  walk / walk+Sorted     (Path non-empty: on the sub-tree node Get(Path)), nwalk (retained node)
//	(*Tree).Delete             del                    (Dyn: the Reset idiom - one Delete per name Children() returned)
//	(*Tree).DeleteConditional  delcond
//	(*Tree).WalkDeleted        walkdel
//	(*Leaf).Value / Update     hval / hupd
//	DetachedLeaf               (no tree involved; C09)
//
// Writers (Add, Delete*) are only ever invoked on the root: no caller in /repo
// writes through a node obtained with Get, and what the package promises about
// deletes ("prevent all other concurrent access") holds for the tree they are
// called on. Read-only methods are invoked on the root, on the node a fresh
// Get(path) returns inside the same recorded interval, and on nodes retained from
// an earlier lookup (which a delete may have pruned meanwhile).
//
// Oracles for the accessors
//
//   - no panic, all goroutines join, no race report (as for every operation);
//   - lookups keep their place in the linearizability judges: Value() after Get is
//     what GetLeafValue does, a lookup through a sub-tree node is explained by the
//     same two steps (node found at some instant of the interval, or - the
//     sub-tree having been pruned meanwhile - absent at the instant of that delete);
//   - Children / IsBranch on the root and after a fresh Get take part in the
//     differential oracle (one atomic step, or lookup and read as two steps);
//   - visits (Query, Walk, WalkSorted, String) of a sub-tree node obey the interval
//     rule of the root visits with the pattern made absolute; String on the root
//     holds the root read lock like Walk and is also judged by "a delete is atomic
//     for readers"; String reports in sorted order;
//   - interval rules for Children / IsBranch / Value (accessRules below), sound
//     under every schedule on a tree whose only writers act on the root:
//
//     Let B be the node's path and [c, r] the interval from the invocation of the
//     lookup that produced the node (the operation itself on the root and for a
//     fresh Get; the GetLeaf that bound it for a retained node) to the return of
//     the accessor. A leaf p is STABLE over [c, r] if a successful Add(p) returned
//     before c and no delete that removed p overlaps the span from that Add's
//     invocation to r; p is POSSIBLE in [c, r] if a successful Add(p) was invoked
//     before r that no delete removing p, invoked after that Add returned,
//     followed and returned before c.
//
//     Children():  every name x returned has a possible leaf at or below B+x; every
//     x with a stable leaf at or below B+x is returned; a non-nil map requires a
//     possible leaf strictly below B; no child node is nil.
//     IsBranch():  true requires a possible leaf strictly below B; false requires
//     that no leaf strictly below B is stable.
//     Value() of a retained node: a non-nil result was written to path B by an
//     operation invoked before r; nil requires that the leaf B itself is not stable.
//
//     Why: a node object sits at B from the moment an Add creates it until a
//     delete removes its last leaf and unlinks it; an unlinked branch has an
//     empty child map and nobody adds into it (in-flight Adds hold the read locks
//     of all ancestors, so a delete - root write lock - never overlaps one inside
//     the sub-tree). If p at or below B is stable over [c, r], one node object sits
//     at B for all of [c, r], the lookup found it, and at the instant of the
//     accessor's critical section it holds p's first element. A name returned was
//     in the node's map at that instant; the node was then still linked (an
//     unlinked one is empty), so a leaf at or below B+x was in the tree at an
//     instant of [c, r].

import (
	"fmt"
	"runtime"
	"sort"
	"strconv"
	"strings"

	"github.com/openconfig/gnmi/ctree"
)

func isHeldKind(k string) bool {
	switch k {
	case "nkids", "nisbr", "nval", "nstr", "nwalk":
		return true
	}
	return false
}

// isAccessKind: the kinds judged by accessRules / widened visits only (no model step).
func isAccessKind(k string) bool { return k == "children" || k == "isbranch" || isHeldKind(k) }

// subNodeVisit: a query/walk that did not start at the root.
func subNodeVisit(o *HOp) bool {
	return o.Base > 0 || (o.Kind == "walk" && len(o.Path) > 0)
}

func catPath(a, b []string) []string {
	return append(append(make([]string, 0, len(a)+len(b)), a...), b...)
}

// performVisitVariant: Query / Walk / WalkSorted on a sub-tree node and String()
// on the root, a sub-tree node or a retained node (held != nil). The caller has
// not stamped yet.
func performVisitVariant(tr *ctree.Tree, o *HOp, held *ctree.Tree, kv *[]KV, now func() int64) {
	base := o.Path
	if o.Kind == "query" {
		base = o.Path[:o.Base]
	}
	visit := func(path []string, _ *ctree.Leaf, val interface{}) error {
		p := catPath(base, path)
		*kv = append(*kv, KV{p, obsInt(o, p, val)})
		for i := 0; i < o.Yield; i++ {
			runtime.Gosched()
		}
		return nil
	}
	o.Call = now()
	n := held
	if n == nil {
		n = tr
		if len(base) > 0 {
			n = tr.Get(base)
		}
	}
	switch {
	case o.Via == "string" || o.Kind == "nstr":
		s := n.String() // String is safe on a nil node
		o.Ret = now()
		if n != nil {
			if err := parseTreeString(s, base, o, kv); err != nil {
				*kv = append(*kv, KV{catPath(base, nil), -1})
				if o.Foreign == "" {
					o.Foreign = fmt.Sprintf("String() of the node at %q returned %q, which is not the rendering of any tree of int leaves: %v", base, excerpt(s, 200), err)
				}
			}
		}
		return
	case n == nil:
	case o.Kind == "query":
		n.Query(o.Path[o.Base:], visit)
	case o.Sorted:
		n.WalkSorted(visit)
	default:
		n.Walk(visit)
	}
	o.Ret = now()
}

// performAccess executes the accessor kinds; l carries the retained node of the held kinds.
func performAccess(tr *ctree.Tree, o *HOp, l *ctree.Leaf, now func() int64) {
	held := (*ctree.Tree)(l)
	node := func() *ctree.Tree {
		switch {
		case isHeldKind(o.Kind):
			return held
		case len(o.Path) == 0:
			return tr
		}
		return tr.Get(o.Path)
	}
	switch o.Kind {
	case "children", "nkids":
		o.Call = now()
		m := node().Children()
		o.Ret = now()
		o.Node = "map"
		if m == nil {
			o.Node = "nil"
		}
		o.Names = make([]string, 0, len(m))
		for name, c := range m {
			o.Names = append(o.Names, name)
			if c == nil && o.Foreign == "" {
				o.Foreign = fmt.Sprintf("Children() of the node at %q maps the name %q to a nil node", o.Path, name)
			}
		}
		sort.Strings(o.Names)
		// the child nodes are handed out to be used (not recorded; no panic, no race)
		for _, c := range m {
			if c != nil && !c.IsBranch() {
				c.Value()
			}
		}
	case "isbranch", "nisbr":
		o.Call = now()
		b := node().IsBranch()
		o.Ret = now()
		o.Node = "other"
		if b {
			o.Node = "branch"
		}
	case "nval":
		o.Call = now()
		v := held.Value()
		o.Ret = now()
		o.Got = obsInt(o, o.Path, v)
	case "nstr", "nwalk":
		kv := []KV{}
		if o.Kind == "nstr" {
			o.Sorted = true
		}
		performVisitVariant(tr, o, held, &kv, now)
		o.KV = kv
	}
}

// parseTreeString reads the text (*Tree).String() produced back into leaves:
//
//	node  = "{ " [ entry { ", " entry } ] " }" | value
//	entry = quoted-name ": " node
//	value = %#v of the stored value (an int here; "<nil>" for nil)
//
// A bare "<nil>" (an empty tree / a node holding nil) reports nothing, as Walk does.
func parseTreeString(s string, base []string, o *HOp, kv *[]KV) error {
	i := 0
	var node func(prefix []string, top bool) error
	node = func(prefix []string, top bool) error {
		if i < len(s) && s[i] == '{' {
			if !strings.HasPrefix(s[i:], "{ ") {
				return fmt.Errorf("offset %d: '{' not followed by a blank", i)
			}
			i += 2
			if strings.HasPrefix(s[i:], " }") { // "{  }": a branch without children
				i += 2
				return nil
			}
			for {
				q, err := strconv.QuotedPrefix(s[i:])
				if err != nil {
					return fmt.Errorf("offset %d: no quoted name", i)
				}
				name, err := strconv.Unquote(q)
				if err != nil {
					return fmt.Errorf("offset %d: bad quoted name", i)
				}
				i += len(q)
				if !strings.HasPrefix(s[i:], ": ") {
					return fmt.Errorf("offset %d: no ': ' after the name", i)
				}
				i += 2
				if err := node(catPath(prefix, []string{name}), false); err != nil {
					return err
				}
				switch {
				case strings.HasPrefix(s[i:], ", "):
					i += 2
				case strings.HasPrefix(s[i:], " }"):
					i += 2
					return nil
				default:
					return fmt.Errorf("offset %d: neither ', ' nor ' }' after an entry", i)
				}
			}
		}
		j := i
		for j < len(s) && s[j] != ',' && s[j] != ' ' && s[j] != '}' {
			j++
		}
		tok := s[i:j]
		i = j
		switch {
		case tok == "<nil>":
			if !top {
				*kv = append(*kv, KV{prefix, 0})
			}
		case tok == "":
			return fmt.Errorf("offset %d: empty value", i)
		default:
			v, err := strconv.Atoi(tok)
			if err != nil || v <= 0 {
				*kv = append(*kv, KV{prefix, -1})
				if o.Foreign == "" {
					o.Foreign = fmt.Sprintf("at path %q: String() renders the value %q", prefix, excerpt(tok, 60))
				}
				return nil
			}
			*kv = append(*kv, KV{prefix, v})
		}
		return nil
	}
	if err := node(catPath(base, nil), true); err != nil {
		return err
	}
	if i != len(s) {
		return fmt.Errorf("offset %d: trailing text", i)
	}
	return nil
}

// ---- interval rules -----------------------------------------------------------------------------

type ivl struct{ call, ret int64 }

// presence indexes who filed and who removed which leaf.
type presence struct {
	adds     map[string][]ivl
	removers map[string][]ivl
	writes   map[int][]struct {
		path string
		call int64
	}
	leaves [][]string // the distinct paths of successful Adds
	binds  map[int]*HOp
}

func newPresence(h *History) *presence {
	p := &presence{adds: map[string][]ivl{}, removers: map[string][]ivl{}, binds: map[int]*HOp{},
		writes: map[int][]struct {
			path string
			call int64
		}{}}
	wpaths := map[int][]string{}
	for i := range h.Ops {
		o := &h.Ops[i]
		switch {
		case o.Kind == "add" && o.Err == "", o.Kind == "hupd":
			k := key(o.Path)
			if o.Kind == "add" {
				if len(p.adds[k]) == 0 {
					p.leaves = append(p.leaves, o.Path)
				}
				p.adds[k] = append(p.adds[k], ivl{o.Call, o.Ret})
			}
			p.writes[o.Val] = append(p.writes[o.Val], struct {
				path string
				call int64
			}{k, o.Call})
			dup := false
			for _, q := range wpaths[o.Val] {
				dup = dup || q == k
			}
			if !dup {
				wpaths[o.Val] = append(wpaths[o.Val], k)
			}
		case o.Kind == "getleaf":
			p.binds[o.H] = o
		}
	}
	for i := range h.Ops {
		if o := &h.Ops[i]; isDelKind(o.Kind) {
			for _, k := range removedBy(h, o, wpaths) {
				p.removers[k] = append(p.removers[k], ivl{o.Call, o.Ret})
			}
		}
	}
	return p
}

// stable: the leaf k was in the tree for all of [c, r].
func (p *presence) stable(k string, c, r int64) bool {
	for _, a := range p.adds[k] {
		if a.ret >= c {
			continue
		}
		ok := true
		for _, d := range p.removers[k] {
			if !(d.ret < a.call || d.call > r) {
				ok = false
				break
			}
		}
		if ok {
			return true
		}
	}
	return false
}

// possible: the leaf k may have been in the tree at some instant of [c, r].
func (p *presence) possible(k string, c, r int64) bool {
	for _, a := range p.adds[k] {
		if a.call >= r {
			continue
		}
		killed := false
		for _, d := range p.removers[k] {
			if a.ret < d.call && d.ret < c {
				killed = true
				break
			}
		}
		if !killed {
			return true
		}
	}
	return false
}

// span returns the node path and the interval an accessor is judged over;
// ok=false when a retained node's lookup is not part of the history.
func (p *presence) span(o *HOp) (c, r int64, ok bool) {
	if !isHeldKind(o.Kind) {
		return o.Call, o.Ret, true
	}
	b := p.binds[o.H]
	if b == nil || b.Call > o.Call {
		return 0, 0, false
	}
	return b.Call, o.Ret, true
}

// accessRules judges Children / IsBranch / Value of nodes (see the file comment).
func accessRules(h *History) (string, string) {
	var p *presence
	for i := range h.Ops {
		o := &h.Ops[i]
		switch o.Kind {
		case "children", "isbranch", "nkids", "nisbr", "nval":
		default:
			continue
		}
		if p == nil {
			p = newPresence(h)
		}
		c, r, ok := p.span(o)
		if !ok {
			continue
		}
		B := o.Path
		where := fmt.Sprintf("over [%d,%d]", c, r)
		// leaves strictly below B
		possibleBelow, stableBelow := "", ""
		stableName := map[string]string{}
		possibleName := map[string]bool{}
		for _, lp := range p.leaves {
			if !isProperPrefix(B, lp) {
				continue
			}
			k := key(lp)
			name := lp[len(B)]
			if p.possible(k, c, r) {
				possibleBelow = k
				possibleName[name] = true
			}
			if p.stable(k, c, r) {
				stableBelow = k
				stableName[name] = k
			}
		}
		switch o.Kind {
		case "children", "nkids":
			for _, x := range o.Names {
				if !possibleName[x] {
					return "children-reported-absent-name", fmt.Sprintf("%s returns the name %q, but no leaf at or below %q can have been in the tree at any instant %s (no successful Add of such a path was invoked before the call returned that was not removed again before the node was looked up)", o, x, catPath(B, []string{x}), where)
				}
			}
			got := map[string]bool{}
			for _, x := range o.Names {
				got[x] = true
			}
			for x, k := range stableName {
				if !got[x] {
					return "children-missed-stable-name", fmt.Sprintf("%s does not return the name %q although the leaf %q was in the tree %s (its Add returned before, no delete that removed it overlaps)", o, x, unkey(k), where)
				}
			}
			if o.Node == "map" && possibleBelow == "" {
				return "children-of-a-node-that-was-no-branch", fmt.Sprintf("%s returns a map although no leaf below %q can have been in the tree at any instant %s", o, B, where)
			}
		case "isbranch", "nisbr":
			if o.Node == "branch" && possibleBelow == "" {
				return "isbranch-true-without-children", fmt.Sprintf("%s says branch although no leaf below %q can have been in the tree at any instant %s", o, B, where)
			}
			if o.Node != "branch" && stableBelow != "" {
				return "isbranch-false-on-stable-branch", fmt.Sprintf("%s says no branch although the leaf %q was in the tree %s", o, unkey(stableBelow), where)
			}
		case "nval":
			if o.Got > 0 {
				ok := false
				for _, w := range p.writes[o.Got] {
					ok = ok || (w.path == key(B) && w.call < r)
				}
				if !ok {
					return "value-never-written-there", fmt.Sprintf("%s: no operation invoked before it returned wrote %d to %q", o, o.Got, B)
				}
			}
			if o.Got == 0 && p.stable(key(B), c, r) {
				return "value-nil-on-stable-leaf", fmt.Sprintf("%s returns nil although the leaf %q was in the tree %s", o, B, where)
			}
		}
	}
	return "", ""
}

// widenHeld renders the visits of retained nodes (nstr, nwalk) as walks over the
// node's path whose interval begins with the lookup that bound the node: what the
// interval rule of the root visits then demands is sound for them (file comment).
// nil = the history has none.
func widenHeld(h *History) *History {
	var out *History
	var p *presence
	for i := range h.Ops {
		o := &h.Ops[i]
		if o.Kind != "nstr" && o.Kind != "nwalk" {
			continue
		}
		if out == nil {
			p = newPresence(h)
			c := *h
			c.Ops = nil
			for j := range h.Ops {
				if x := &h.Ops[j]; !isQueryKind(x.Kind) && x.Kind != "nstr" && x.Kind != "nwalk" {
					c.Ops = append(c.Ops, *x)
				}
			}
			out = &c
		}
		call, _, ok := p.span(o)
		if !ok {
			continue
		}
		w := *o
		w.Kind, w.Call = "walk", call
		out.Ops = append(out.Ops, w)
	}
	return out
}

func (o *HOp) accessString() string {
	at := fmt.Sprintf("Get(%q).", o.Path)
	if len(o.Path) == 0 {
		at = "root."
	}
	if isHeldKind(o.Kind) {
		at = fmt.Sprintf("n%d@%q.", o.H, o.Path)
	}
	switch o.Kind {
	case "children", "nkids":
		if o.Node == "nil" {
			return at + "Children()=nil"
		}
		return fmt.Sprintf("%sChildren()=%q", at, o.Names)
	case "isbranch", "nisbr":
		return fmt.Sprintf("%sIsBranch()=%v", at, o.Node == "branch")
	case "nval":
		return fmt.Sprintf("%sValue()=%s", at, vstr(o.Got))
	case "nstr":
		return fmt.Sprintf("%sString()=%s", at, kvstr(o.KV))
	case "nwalk":
		if o.Sorted {
			return fmt.Sprintf("%sWalkSorted()=%s", at, kvstr(o.KV))
		}
		return fmt.Sprintf("%sWalk()=%s", at, kvstr(o.KV))
	}
	return o.Kind
}

// accessLabels: which accessor shapes a history exercised and what they overlapped.
func accessLabels(h *History, into map[string]bool) {
	ops := h.Ops
	for i := range ops {
		a := &ops[i]
		var name string
		switch {
		case a.Kind == "children", a.Kind == "isbranch":
			name = a.Kind
		case isHeldKind(a.Kind):
			name = "retained-node:" + a.Kind
		case a.Kind == "glv" && a.Via == "value":
			name = "value"
		case a.Kind == "walk" && a.Via == "string":
			name = "string"
		case (a.Kind == "glv" || a.Kind == "getleaf") && a.Base > 0:
			name = "lookup-through-sub-node"
		case (a.Kind == "query" || a.Kind == "walk") && subNodeVisit(a):
			name = "visit-of-sub-node"
		case a.Kind == "del" && a.Dyn > 0:
			into["access:reset-idiom-delete"] = true
			continue
		default:
			continue
		}
		where := "sub-node"
		if len(a.Path) == 0 {
			where = "root"
		}
		if isHeldKind(a.Kind) || name == "lookup-through-sub-node" || name == "visit-of-sub-node" {
			where = ""
		}
		lab := "access:" + name
		if where != "" {
			lab += ":" + where
		}
		into[lab] = true
		if a.Kind == "children" && len(a.Path) == 0 {
			if a.Node == "nil" {
				into["access:children:root:nil"] = true
			} else {
				into["access:children:root:map"] = true
			}
		}
		for j := range ops {
			b := &ops[j]
			if b.G == a.G || b.Kind == "final" || b.G >= 90 || b.Ret < a.Call || a.Ret < b.Call {
				continue
			}
			switch {
			case isDelKind(b.Kind) && (len(b.Paths) > 0 || len(b.Vals) > 0):
				into[lab+":overlaps-removing-delete"] = true
				if b.Kind == "del" && (len(b.Path) == 0 || (len(b.Path) == 1 && b.Path[0] == "*")) {
					into[lab+":overlaps-delete-that-emptied-the-tree"] = true
				}
			case b.Kind == "add" && b.Err == "":
				into[lab+":overlaps-successful-add"] = true
				if h.Start == "empty" {
					into[lab+":overlaps-successful-add:tree-empty-at-start"] = true
				}
			}
		}
	}
	// root transitions inside the concurrent phase: a delete that left the tree empty, an Add into an empty tree
	var fin *HOp
	for i := range ops {
		if ops[i].Kind == "final" {
			fin = &ops[i]
		}
	}
	if fin != nil && len(fin.KV) == 0 {
		for i := range ops {
			if o := &ops[i]; o.G < 90 && isDelKind(o.Kind) && (len(o.Paths) > 0 || len(o.Vals) > 0) {
				into["root:tree-empty-at-the-end-after-removing-delete"] = true
				break
			}
		}
	}
}
