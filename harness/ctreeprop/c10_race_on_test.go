//go:build race

package ctreeprop

// raceEnabled: this test binary was built with the race detector.
const raceEnabled = true
