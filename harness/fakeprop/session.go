package fakeprop

import (
	"context"
	"errors"
	"fmt"
	"io"
	"strings"
	"sync"
	"testing"
	"testing/synctest"
	"time"

	"google.golang.org/grpc"
	"google.golang.org/protobuf/proto"

	gpb "github.com/openconfig/gnmi/proto/gnmi"
	fgnmi "github.com/openconfig/gnmi/testing/fake/gnmi"
)

// The "session" part generalises the LIFETIME and the PROTOCOL SURFACE of the
// synthetic target. The other parts build one generator (or one Client) per
// configuration, hand it one subscription request and read. Here ONE
// fake/gnmi.Client lives through a generated script:
//
//   - 1-3 calls of Client.Run, each on its own in-memory stream, each opened by
//     a SubscriptionList in STREAM, ONCE or POLL mode (or by something else:
//     Run must refuse it and send nothing);
//   - while a Run is in progress the subscriber reads some responses, sends
//     Poll messages (in every mode), further SubscriptionLists, requests
//     without a payload, closes its sending side; the owner of the Client calls
//     SetConfig with another generated configuration (more or fewer values,
//     later or earlier timestamps, sync injection on or off) - each at a
//     generated position of the emitted stream: before anything was read, after
//     k responses, after the sync marker, after the end;
//   - Run is called again after the previous one has returned.
//
// Every step is taken at a quiescent point of the bubble (synctest.Wait: the
// sender is blocked in the harness's Send or waits for a Poll or has returned,
// the receiver is blocked in the harness's Recv), so "after k responses" is
// exact and replayable; nothing sleeps.
//
// What is demanded (client.go documents the rest):
//
//   - "Run starts the client. The first message received must be a
//     SubscriptionList": anything else makes Run return an error, nothing is
//     sent.
//   - A generator is built when Run starts and, for POLL subscriptions, when a
//     Poll arrives ("For Poll queries the Run will block internally after sync
//     until a Poll request is made"); SetConfig "will not take effect until the
//     queue is drained". So the wire of one Run of a STREAM / ONCE subscription
//     is ONE generation of the configuration in force when Run was called, and
//     every later message is, as recv() puts it, an "invalid event" that is
//     logged and skipped: it must not change the emitted stream. The wire of a
//     POLL subscription is one generation per round, each of the configuration
//     in force when the round began.
//   - To every generation the clauses of C20 apply (Scenario.judge: order,
//     repeat counts, range / list membership, step bounds, the sync marker
//     behind the first emission of every value of THAT configuration, exactly
//     once), complete when the target had nothing more to send (Run returned
//     by itself / the target waits for a Poll), as a prefix otherwise.
//   - Every random source being seeded, a generation is response for response
//     what a fresh Client sends for an equal configuration on an undisturbed
//     subscription (same configuration, same seed: identical sequences); this
//     is the metamorphic form of "an ignored message changes nothing" and of
//     "an earlier generation leaves nothing behind in a later one".
//   - A Poll that reaches a POLL subscription in the middle of a round is not
//     covered by the documentation; the only demand is that SOME split of what
//     follows into "rest of the old generation (a prefix)" and "one complete new
//     generation" satisfies the above.
//   - A whole session run twice (fresh Client, equal configurations, seeded)
//     puts the same transcript on the wire.
//
// Not generated (nothing is promised): disable_eof (with POLL the target never
// answers a second Poll), a message that is fatal for a POLL subscription or
// the end of the subscriber's sending side while the target waits for a Poll
// (Run then never returns), nil messages, SetConfig(nil), Run on a Client
// that cancelled itself.

// Step operations. Every step first reads up to K responses ("after k
// responses" is a property of every step), then acts.
const (
	OpRead      = "read"      // nothing more
	OpDrain     = "drain"     // read until the target has nothing more to send for now (at most Tail responses of a generation that never ends)
	OpPoll      = "poll"      // the subscriber sends a Poll
	OpRound     = "round"     // drain, then Poll: the documented way to use a POLL subscription
	OpMsg       = "msg"       // the subscriber sends Msg, a message no mode expects after the first one
	OpSetConfig = "setconfig" // Client.SetConfig(Configs[Cfg])
	OpEOF       = "eof"       // the subscriber closes its sending side (Recv: io.EOF) and keeps reading (a POLL subscriber: up to N more responses, then it leaves)
)

// Modes.
const (
	ModeStream = "stream"
	ModeOnce   = "once"
	ModePoll   = "poll"
)

// Step is one action of the script.
type Step struct {
	K   int    `json:"k,omitempty"` // responses read before the step acts
	Op  string `json:"op"`
	N   int    `json:"n,omitempty"`
	Cfg int    `json:"cfg,omitempty"`
	Msg string `json:"msg,omitempty"` // sub-stream | sub-once | sub-poll | sub-nil | empty | poll-nil
}

// RunSpec is one call of Client.Run.
type RunSpec struct {
	Mode string `json:"mode"`
	// First: "" = the SubscriptionList of Mode. Otherwise what the stream yields
	// instead: "poll" | "empty" | "eof" | "error" - Run must refuse.
	First     string `json:"first,omitempty"`
	Target    string `json:"target,omitempty"` // subscription prefix target
	Paths     int    `json:"paths,omitempty"`  // subscription entries (the fake streams everything it is configured with)
	Dress     int    `json:"dress,omitempty"`  // see subscribeMsg
	PreConfig int    `json:"pre_config"`       // >= 0: SetConfig(Configs[PreConfig]) before Run is called
	Steps     []Step `json:"steps"`
	Tail      int    `json:"tail"` // responses read by a drain from a generation that never ends
	End       string `json:"end"`  // how the subscriber's side ends after the last step: "eof" | "error"
}

// Session is one generated case of the "session" part.
type Session struct {
	Configs []*Scenario `json:"configs"` // Configs[0] is handed to NewClient
	Runs    []RunSpec   `json:"runs"`
	Twice   bool        `json:"twice,omitempty"` // run the whole session a second time and compare the transcripts
	Agent   []AgentSub  `json:"agent,omitempty"`
}

// ---------------------------------------------------------------------------
// the subscriber's end of the stream
// ---------------------------------------------------------------------------

var errStreamGone = errors.New("c20: subscriber is gone")

// scriptStream is an in-memory gnmi.GNMI_SubscribeServer whose two directions
// are driven step by step: Recv hands out exactly the messages the script
// delivers, Send parks the response until the script takes it.
type scriptStream struct {
	grpc.ServerStream
	in   chan *gpb.SubscribeRequest
	take chan struct{}
	brk  chan struct{}

	mu         sync.Mutex
	inRecv     bool
	halfClosed bool
	broken     bool
	pending    *gpb.SubscribeResponse
	endErr     error
}

func newScriptStream(end string) *scriptStream {
	s := &scriptStream{in: make(chan *gpb.SubscribeRequest), take: make(chan struct{}), brk: make(chan struct{}), endErr: io.EOF}
	if end == "error" {
		s.endErr = errors.New("c20: subscription torn down")
	}
	return s
}

func (s *scriptStream) Context() context.Context { return context.Background() }

func (s *scriptStream) Recv() (*gpb.SubscribeRequest, error) {
	s.mu.Lock()
	s.inRecv = true
	s.mu.Unlock()
	defer func() {
		s.mu.Lock()
		s.inRecv = false
		s.mu.Unlock()
	}()
	select {
	case m, ok := <-s.in:
		if !ok {
			return nil, io.EOF
		}
		return m, nil
	case <-s.brk:
		return nil, s.endErr
	}
}

func (s *scriptStream) Send(r *gpb.SubscribeResponse) error {
	s.mu.Lock()
	if s.broken {
		s.mu.Unlock()
		return errStreamGone
	}
	s.pending = r
	s.mu.Unlock()
	select {
	case <-s.take:
		return nil
	case <-s.brk:
		s.mu.Lock()
		s.pending = nil
		s.mu.Unlock()
		return errStreamGone
	}
}

// breakNow ends the subscription from the subscriber's side: a parked and
// every later Send fails, Recv returns the end error.
func (s *scriptStream) breakNow() {
	s.mu.Lock()
	was := s.broken
	s.broken = true
	s.mu.Unlock()
	if !was {
		close(s.brk)
	}
}

// ---------------------------------------------------------------------------
// execution
// ---------------------------------------------------------------------------

// genRec is what one generator put on the wire.
type genRec struct {
	run      int
	cfg      int // configuration in force when the generator was built
	target   string
	sent     []*gpb.SubscribeResponse
	complete bool // the target had nothing more to send
	// split: a Poll reached a POLL subscription after `at` responses of this
	// generation; sent goes on to the next quiescent point; cfg2 was in force
	split bool
	at    int
	cfg2  int
	skip  bool // placeholder behind a split (its responses are part of the split record)
}

type sessExec struct {
	ss      *Session
	st      *stats
	cl      *fgnmi.Client
	inForce int
	closed  bool
	gens    []*genRec
	log     []string
	refs    map[string]refRun

	strayBeforeEnd bool // a message the mode ignores was delivered while the generation was still being sent
	effective      bool // a generation was built from a configuration set by SetConfig
	completeGens   int
}

type refRun struct {
	sent  []*gpb.SubscribeResponse
	ended bool
}

func (x *sessExec) logf(format string, a ...any) {
	if len(x.log) < 200 {
		x.log = append(x.log, fmt.Sprintf(format, a...))
	}
}

func (x *sessExec) trail() string {
	return "\n  session so far: " + strings.Join(x.log, "; ")
}

func anyUnbounded(sc *Scenario) bool {
	for i := range sc.Values {
		if sc.Values[i].Repeat == 0 {
			return true
		}
	}
	return false
}

// roundLen is the number of responses of one complete generation of a
// configuration without unbounded values: every value `repeat` times and the
// injected marker.
func roundLen(sc *Scenario) int {
	n := 0
	for i := range sc.Values {
		n += int(sc.Values[i].Repeat)
	}
	if !sc.DisableSync {
		n++
	}
	return n
}

func (s *scriptStream) state() (pending *gpb.SubscribeResponse, receptive bool) {
	synctest.Wait()
	s.mu.Lock()
	defer s.mu.Unlock()
	return s.pending, s.inRecv && !s.halfClosed && !s.broken
}

// next takes the parked response, if there is one, and lets the sender go on
// to the next quiescent point.
func (s *scriptStream) next() *gpb.SubscribeResponse {
	synctest.Wait()
	s.mu.Lock()
	r := s.pending
	s.pending = nil
	s.mu.Unlock()
	if r == nil {
		return nil
	}
	s.take <- struct{}{}
	synctest.Wait()
	return r
}

func (s *scriptStream) deliver(m *gpb.SubscribeRequest) {
	s.in <- m
	synctest.Wait()
}

func isDone(done chan struct{}) bool {
	select {
	case <-done:
		return true
	default:
		return false
	}
}

// dress: fields of the SubscriptionList the fake has no use for (it streams what it is configured
// with, whatever is asked): bit 0 updates_only, 1 allow_aggregation, 2 encoding PROTO, 3 qos,
// 4 use_models. None of them changes what is emitted.
func subscribeMsg(mode, target string, paths, dress int) *gpb.SubscribeRequest {
	sub := &gpb.SubscriptionList{}
	sub.UpdatesOnly = dress&1 != 0
	sub.AllowAggregation = dress&2 != 0
	if dress&4 != 0 {
		sub.Encoding = gpb.Encoding_PROTO
	}
	if dress&8 != 0 {
		sub.Qos = &gpb.QOSMarking{Marking: 7}
	}
	if dress&16 != 0 {
		sub.UseModels = []*gpb.ModelData{{Name: "m", Organization: "o", Version: "1"}}
	}
	switch mode {
	case ModeOnce:
		sub.Mode = gpb.SubscriptionList_ONCE
	case ModePoll:
		sub.Mode = gpb.SubscriptionList_POLL
	default:
		sub.Mode = gpb.SubscriptionList_STREAM
	}
	if target != "" {
		sub.Prefix = &gpb.Path{Target: target}
	}
	for i := 0; i < paths; i++ {
		sub.Subscription = append(sub.Subscription, &gpb.Subscription{Path: &gpb.Path{Element: []string{"c20", "v" + fmt.Sprint(i)}}})
	}
	return &gpb.SubscribeRequest{Request: &gpb.SubscribeRequest_Subscribe{Subscribe: sub}}
}

func pollMsg() *gpb.SubscribeRequest {
	return &gpb.SubscribeRequest{Request: &gpb.SubscribeRequest_Poll{Poll: &gpb.Poll{}}}
}

// strayMsg builds a message that no mode expects after the first one.
func strayMsg(kind string) *gpb.SubscribeRequest {
	switch kind {
	case "sub-stream":
		return subscribeMsg(ModeStream, "other", 1, 0)
	case "sub-once":
		return subscribeMsg(ModeOnce, "", 0, 0)
	case "sub-poll":
		return subscribeMsg(ModePoll, "other", 2, 1)
	case "sub-nil":
		return &gpb.SubscribeRequest{Request: &gpb.SubscribeRequest_Subscribe{}}
	case "poll-nil":
		return &gpb.SubscribeRequest{Request: &gpb.SubscribeRequest_Poll{}}
	}
	return &gpb.SubscribeRequest{}
}

func (x *sessExec) setConfig(i int, when string) {
	i = ((i % len(x.ss.Configs)) + len(x.ss.Configs)) % len(x.ss.Configs)
	x.cl.SetConfig(x.ss.Configs[i].buildConfig(false))
	if i != x.inForce {
		x.st.label("setconfig-" + when)
	} else {
		x.st.label("setconfig-same-configuration-again")
	}
	x.inForce = i
	x.logf("SetConfig(#%d)", i)
}

// newGen notes that the target builds a generator now.
func (x *sessExec) newGen(run int, target string) *genRec {
	g := &genRec{run: run, cfg: x.inForce, target: target}
	// evidence: what changed against the generation before it
	var prev *genRec
	for k := len(x.gens) - 1; k >= 0; k-- {
		if !x.gens[k].skip {
			prev = x.gens[k]
			break
		}
	}
	if prev != nil {
		pc := prev.cfg
		if prev.split {
			pc = prev.cfg2
		}
		if pc != g.cfg {
			x.effective = true
			a, b := x.ss.Configs[pc], x.ss.Configs[g.cfg]
			x.st.label("generation-from-a-configuration-set-by-setconfig")
			switch la, lb := a.latestInitial(), b.latestInitial(); {
			case lb > la:
				x.st.label("new-configuration-latest-timestamp-later")
			case lb < la:
				x.st.label("new-configuration-latest-timestamp-earlier")
			default:
				x.st.label("new-configuration-latest-timestamp-equal")
			}
			switch {
			case len(b.Values) > len(a.Values):
				x.st.label("new-configuration-more-values")
			case len(b.Values) < len(a.Values):
				x.st.label("new-configuration-fewer-values")
			}
			if a.DisableSync != b.DisableSync {
				x.st.label("new-configuration-sync-injection-toggled")
			}
			if !a.DisableSync && !b.DisableSync {
				x.st.label("new-configuration-sync-injected-in-both")
				if b.latestInitial() > a.latestInitial() {
					x.st.label("new-configuration-sync-injected-in-both-latest-timestamp-later")
				}
			}
		} else {
			x.st.label("generation-from-the-same-configuration-again")
		}
		if prev.run != run {
			x.st.label("generation-by-run-again")
		} else {
			x.st.label("generation-by-poll")
		}
	}
	return g
}

// position names where in the current generation the subscriber stands.
func position(cur *genRec, pending *gpb.SubscribeResponse) string {
	switch {
	case pending == nil:
		return "after-the-end"
	case len(cur.sent) == 0:
		return "before-anything-was-read"
	}
	for _, r := range cur.sent {
		if _, ok := r.GetResponse().(*gpb.SubscribeResponse_SyncResponse); ok {
			return "after-a-sync-response"
		}
	}
	return "mid-stream"
}

// readInto reads up to n responses of the current generation.
func (x *sessExec) readInto(cur *genRec, s *scriptStream, n int) int {
	k := 0
	for ; k < n; k++ {
		r := s.next()
		if r == nil {
			break
		}
		cur.sent = append(cur.sent, r)
	}
	if k > 0 {
		x.logf("read %d", k)
	}
	return k
}

// drainCap: how many responses a drain may read from the generation that is
// being sent (a generation without unbounded values ends by itself: a few more
// than it can have, the judge names the excess).
func (x *sessExec) drainCap(cur *genRec, tail int) int {
	c := cur.cfg
	if cur.split {
		c = cur.cfg2
	}
	sc := x.ss.Configs[c]
	if anyUnbounded(sc) {
		return tail
	}
	return roundLen(sc) + 4 - min(len(cur.sent), roundLen(sc))
}

func (x *sessExec) runOne(ri int) (err error) {
	r := &x.ss.Runs[ri]
	st := x.st
	if r.PreConfig >= 0 {
		x.setConfig(r.PreConfig, "between-two-runs")
	}
	s := newScriptStream(r.End)
	done := make(chan struct{})
	var runErr error
	go func() {
		defer close(done)
		defer func() {
			if p := recover(); p != nil {
				runErr = fmt.Errorf("panic: %v", p)
			}
		}()
		runErr = x.cl.Run(s)
	}()
	defer func() {
		// whatever happened: let go of both goroutines of the Client
		s.breakNow()
		synctest.Wait()
		if err == nil && !isDone(done) {
			err = fmt.Errorf("session: lifetime: run %d (%s): Client.Run has not returned although the subscriber is gone (every Send fails, Recv has failed)%s", ri, r.Mode, x.trail())
		}
	}()
	st.label("session-run-mode-" + r.Mode)
	x.logf("Run #%d mode %s", ri, r.Mode)

	// ---- the first message ---------------------------------------------------------
	if r.First != "" {
		switch r.First {
		case "poll":
			s.in <- pollMsg()
		case "empty":
			s.in <- strayMsg("empty")
		case "eof":
			s.mu.Lock()
			s.halfClosed = true
			s.mu.Unlock()
			close(s.in)
		default:
			s.endErr = errors.New("c20: subscription torn down before the first message")
			s.breakNow()
		}
		pending, _ := s.state()
		st.label("first-message-not-a-subscription-" + r.First)
		if !isDone(done) {
			return fmt.Errorf("session: lifetime: run %d: the stream began with %q instead of a SubscriptionList and Client.Run has not returned (\"The first message received must be a SubscriptionList\")%s", ri, r.First, x.trail())
		}
		if runErr == nil {
			return fmt.Errorf("session: lifetime: run %d: the stream began with %q instead of a SubscriptionList and Client.Run returned no error%s", ri, r.First, x.trail())
		}
		if pending != nil {
			return fmt.Errorf("session: lifetime: run %d: the stream began with %q instead of a SubscriptionList and the Client sent %v%s", ri, r.First, pending, x.trail())
		}
		if strings.HasPrefix(runErr.Error(), "panic: ") {
			return fmt.Errorf("session: %v%s", runErr, x.trail())
		}
		st.label("clause-session-run-refuses-a-stream-without-subscription")
		return nil
	}
	s.in <- subscribeMsg(r.Mode, r.Target, r.Paths, r.Dress)
	cur := x.newGen(ri, r.Target)
	poll := r.Mode == ModePoll

	// pollNow delivers a Poll to a POLL subscription.
	pollNow := func() {
		pending, receptive := s.state()
		switch {
		case !receptive || isDone(done):
			st.label("step-skipped-target-not-listening")
		case pending == nil:
			// the target waits for it: the round is complete
			cur.complete = true
			x.gens = append(x.gens, cur)
			x.logf("Poll (round complete after %d)", len(cur.sent))
			s.deliver(pollMsg())
			cur = x.newGen(ri, r.Target)
			st.label("poll-while-the-target-waits-for-it")
		case anyUnbounded(x.ss.Configs[x.inForce]):
			// the generation it starts would never end, and the target's receiver
			// stays blocked until it does
			st.label("step-skipped-early-poll-would-start-an-endless-round")
		default:
			cur.split, cur.at, cur.cfg2 = true, len(cur.sent), x.inForce
			x.logf("Poll (early, after %d of the round)", len(cur.sent))
			st.label("poll-in-the-middle-of-a-round-" + position(cur, pending))
			s.deliver(pollMsg())
			x.readInto(cur, s, 1+roundLen(x.ss.Configs[cur.cfg2])+4)
			p2, _ := s.state()
			cur.complete = p2 == nil && !isDone(done)
			x.gens = append(x.gens, cur)
			if cur.cfg != cur.cfg2 {
				x.effective = true
			}
			cur = &genRec{run: ri, cfg: cur.cfg2, target: r.Target, skip: true}
		}
	}

steps:
	for _, step := range r.Steps {
		if !cur.skip {
			x.readInto(cur, s, step.K)
		}
		pending, receptive := s.state()
		switch step.Op {
		case OpRead:
		case OpDrain:
			x.readInto(cur, s, x.drainCap(cur, r.Tail))
		case OpRound:
			x.readInto(cur, s, x.drainCap(cur, r.Tail))
			fallthrough
		case OpPoll:
			if poll {
				pollNow()
				break
			}
			pending, receptive = s.state()
			if !receptive {
				st.label("step-skipped-target-not-listening")
				break
			}
			pos := position(cur, pending)
			if isDone(done) {
				pos = "after-run-returned"
			} else if pending != nil {
				x.strayBeforeEnd = true
			}
			st.label("stray-poll-" + r.Mode + "-" + pos)
			st.label("stray-message-" + pos)
			if pending != nil && !isDone(done) {
				st.label("stray-poll-while-the-generation-is-being-sent")
			}
			x.logf("stray Poll (%s)", pos)
			s.deliver(pollMsg())
		case OpMsg:
			if !receptive {
				st.label("step-skipped-target-not-listening")
				break
			}
			if poll {
				// fatal for a POLL subscription ("received invalid Poll event": the
				// Client cancels itself). While the target waits for a Poll nobody
				// would ever wake the sender: not generated.
				if pending == nil || isDone(done) {
					st.label("step-skipped-fatal-message-while-target-idle")
					break
				}
				if step.Msg == "poll-nil" {
					// a Poll arm without a Poll message inside: whether a POLL
					// subscription takes it for a Poll is not documented
					st.label("step-skipped-poll-without-body-on-poll-subscription")
					break
				}
				st.label("fatal-message-for-poll-subscription-" + step.Msg)
				x.logf("fatal %s (%s)", step.Msg, position(cur, pending))
				s.deliver(strayMsg(step.Msg))
				x.closed = true
				x.readInto(cur, s, 2)
				break steps
			}
			pos := position(cur, pending)
			if isDone(done) {
				pos = "after-run-returned"
			} else if pending != nil {
				x.strayBeforeEnd = true
			}
			st.label("stray-" + step.Msg + "-" + r.Mode)
			st.label("stray-message-" + pos)
			x.logf("stray %s (%s)", step.Msg, pos)
			s.deliver(strayMsg(step.Msg))
		case OpSetConfig:
			when := "while-a-generation-is-being-sent"
			if pending == nil {
				when = "while-the-target-is-idle"
			}
			x.setConfig(step.Cfg, when)
		case OpEOF:
			if !receptive {
				st.label("step-skipped-target-not-listening")
				break
			}
			if poll {
				// the target's receiver leaves; a sender that reaches the end of the
				// round would wait for ever. Only in the middle of a round, and the
				// subscriber leaves before the round is over.
				sc := x.ss.Configs[cur.cfg]
				if pending == nil || cur.split || cur.skip {
					st.label("step-skipped-half-close-while-target-idle")
					break
				}
				s.mu.Lock()
				s.halfClosed = true
				s.mu.Unlock()
				close(s.in)
				synctest.Wait()
				st.label("subscriber-half-closed-poll-" + position(cur, pending))
				x.logf("subscriber closed its sending side")
				more := step.N
				if !anyUnbounded(sc) {
					more = min(more, roundLen(sc)-len(cur.sent)-1)
				}
				x.readInto(cur, s, more)
				break steps
			}
			pos := position(cur, pending)
			if pending != nil {
				x.strayBeforeEnd = true
			}
			s.mu.Lock()
			s.halfClosed = true
			s.mu.Unlock()
			close(s.in)
			synctest.Wait()
			st.label("subscriber-half-closed-" + r.Mode + "-" + pos)
			x.logf("subscriber closed its sending side (%s)", pos)
		}
	}

	// ---- the end of the run ------------------------------------------------------------
	pending, receptive := s.state()
	if !poll {
		if !isDone(done) {
			x.readInto(cur, s, x.drainCap(cur, r.Tail))
		}
		pending, _ = s.state()
		cur.complete = isDone(done)
		if !cur.complete && pending == nil {
			return fmt.Errorf("session: lifetime: run %d (%s): the target sends nothing more after %d responses and Client.Run has not returned%s", ri, r.Mode, len(cur.sent), x.trail())
		}
	} else if !isDone(done) && pending == nil && !cur.split {
		// the sender waits for a Poll: the round is complete; only a Poll lets
		// the sender notice that the subscriber is leaving
		if receptive {
			cur.complete = true
			x.gens = append(x.gens, cur)
			s.deliver(pollMsg())
			cur = x.newGen(ri, r.Target)
			st.label("poll-while-the-target-waits-for-it")
			x.logf("Poll (round complete, subscriber about to leave)")
		}
	}
	x.gens = append(x.gens, cur)
	s.breakNow()
	synctest.Wait()
	if !isDone(done) {
		return fmt.Errorf("session: lifetime: run %d (%s): Client.Run has not returned although the subscriber is gone (every Send fails, Recv has failed)%s", ri, r.Mode, x.trail())
	}
	if runErr != nil {
		if strings.HasPrefix(runErr.Error(), "panic: ") {
			return fmt.Errorf("session: %v%s", runErr, x.trail())
		}
		return fmt.Errorf("session: lifetime: run %d (%s): Client.Run failed on a stream that began with a SubscriptionList: %v%s", ri, r.Mode, runErr, x.trail())
	}
	if r.End == "error" {
		x.closed = true // the receiver saw an error: the Client cancelled itself
		st.label("subscription-ends-with-an-error")
	}
	x.logf("Run #%d returned", ri)
	return nil
}

// execute runs the script on a fresh Client. Inside a bubble.
func (x *sessExec) execute() error {
	x.cl = fgnmi.NewClient(x.ss.Configs[0].buildConfig(false))
	x.inForce = 0
	for ri := range x.ss.Runs {
		if x.closed {
			x.st.label("runs-dropped-client-cancelled-itself")
			break
		}
		if err := x.runOne(ri); err != nil {
			return err
		}
	}
	return nil
}

// ---------------------------------------------------------------------------
// oracles
// ---------------------------------------------------------------------------

// runClientTarget is Scenario.runClient with the subscription target given.
func (sc *Scenario) runClientTarget(target string, limit int) ([]*gpb.SubscribeResponse, bool, error) {
	c := *sc
	c.Target = target
	return c.runClient(limit)
}

// ref is what a fresh Client sends for configuration cfg on an undisturbed
// STREAM subscription: complete for a configuration without unbounded values,
// the first `need` responses otherwise.
func (x *sessExec) ref(cfg int, target string, need int) (refRun, error) {
	sc := x.ss.Configs[cfg]
	limit := roundLen(sc) + 3
	if anyUnbounded(sc) {
		limit = need
	}
	key := fmt.Sprintf("%d/%s", cfg, target)
	if r, ok := x.refs[key]; ok && (r.ended || len(r.sent) >= need) {
		return r, nil
	}
	sent, ended, err := sc.runClientTarget(target, limit)
	if err != nil {
		return refRun{}, err
	}
	r := refRun{sent: sent, ended: ended}
	if x.refs == nil {
		x.refs = map[string]refRun{}
	}
	x.refs[key] = r
	return r, nil
}

// judgePiece applies the clauses of C20 and, for a seeded configuration, the
// comparison with a fresh Client to one piece of the wire that is claimed to
// be (a prefix of) one generation of configuration cfg.
func (x *sessExec) judgePiece(cfg int, target string, sent []*gpb.SubscribeResponse, complete bool, st *stats) error {
	sc := x.ss.Configs[cfg]
	ems, err := fromWire(sent)
	if err != nil {
		return fmt.Errorf("wire: %v", err)
	}
	if complete && anyUnbounded(sc) {
		return fmt.Errorf("wire: repeat: the target has nothing more to send after %d responses although an unbounded value is configured", len(sent))
	}
	if err := sc.judge(ems, complete, true, st); err != nil {
		return err
	}
	if complete {
		st.label("clause-session-generation-judged-complete")
	} else {
		st.label("clause-session-generation-judged-as-prefix")
	}
	if !sc.seededDeterministically() {
		st.label("session-generation-clock-seeded-not-compared")
		return nil
	}
	if len(sent) == 0 {
		return nil
	}
	ref, err := x.ref(cfg, target, len(sent))
	if err != nil {
		return err
	}
	if len(sent) > len(ref.sent) {
		return fmt.Errorf("wire: reproducible: %d responses, a fresh Client on an equal configuration with the same seeds sends %d and ends%s", len(sent), len(ref.sent), sc.cfgNote())
	}
	for k := range sent {
		if !proto.Equal(sent[k], ref.sent[k]) {
			return fmt.Errorf("wire: reproducible: response %d is %v, from a fresh Client on an equal configuration with the same seeds and an undisturbed subscription %v", k, sent[k], ref.sent[k])
		}
	}
	if complete && len(sent) != len(ref.sent) {
		return fmt.Errorf("wire: reproducible: the generation ended after %d responses, a fresh Client on an equal configuration with the same seeds sends %d", len(sent), len(ref.sent))
	}
	st.label("clause-session-generation-equals-fresh-client")
	return nil
}

func (st *stats) absorb(o *stats) {
	for l := range o.labels {
		st.label(l)
	}
}

func (x *sessExec) judgeAll() error {
	st := x.st
	judged := 0
	for gi, g := range x.gens {
		if g.skip {
			continue
		}
		what := fmt.Sprintf("generation %d (run %d, %s subscription, configuration #%d, %d responses, complete=%v)", gi, g.run, x.ss.Runs[g.run].Mode, g.cfg, len(g.sent), g.complete)
		if !g.split {
			if len(g.sent) == 0 && !g.complete {
				st.label("session-generation-nothing-read")
				continue
			}
			if err := x.judgePiece(g.cfg, g.target, g.sent, g.complete, st); err != nil {
				return fmt.Errorf("session: %v\n  in %s%s", err, what, x.trail())
			}
			judged++
			if g.complete {
				x.completeGens++
			}
			continue
		}
		// a Poll in the middle of a round: some split must do
		var firstErr error
		ok := false
		for b := g.at; b <= len(g.sent); b++ {
			t := &stats{}
			e := x.judgePiece(g.cfg, g.target, g.sent[:b], false, t)
			if e == nil {
				e = x.judgePiece(g.cfg2, g.target, g.sent[b:], g.complete, t)
			}
			if e == nil {
				ok = true
				st.absorb(t)
				st.label("clause-session-early-poll-some-split-is-two-generations")
				if g.complete {
					x.completeGens++
				}
				break
			}
			if firstErr == nil || b == g.at+1 {
				firstErr = e
			}
		}
		if !ok {
			return fmt.Errorf("session: a Poll reached the POLL subscription after %d responses of the round; no split of the %d responses up to the next idle point into the rest of that generation (configuration #%d) and one new generation (configuration #%d) satisfies the clauses; for the split behind the response that was already on its way: %v\n  in %s%s", g.at, len(g.sent), g.cfg, g.cfg2, firstErr, what, x.trail())
		}
		judged++
	}
	if judged > 0 {
		st.judged = true
	}
	return nil
}

// sameTranscript compares the generations of two executions of one session.
func sameTranscript(a, b *sessExec) error {
	if len(a.gens) != len(b.gens) {
		return fmt.Errorf("%d generations versus %d", len(a.gens), len(b.gens))
	}
	for gi := range a.gens {
		ga, gb := a.gens[gi], b.gens[gi]
		if len(ga.sent) != len(gb.sent) || ga.complete != gb.complete {
			return fmt.Errorf("generation %d: %d responses (complete=%v) versus %d responses (complete=%v)", gi, len(ga.sent), ga.complete, len(gb.sent), gb.complete)
		}
		for k := range ga.sent {
			if !proto.Equal(ga.sent[k], gb.sent[k]) {
				return fmt.Errorf("generation %d, response %d: %v versus %v", gi, k, ga.sent[k], gb.sent[k])
			}
		}
	}
	return nil
}

// runSession executes and judges one session inside a bubble.
func runSession(ss *Session) (st *stats, x *sessExec, err error) {
	st = &stats{}
	x = &sessExec{ss: ss, st: st}
	defer func() {
		if r := recover(); r != nil {
			err = fmt.Errorf("session: panic: %v%s", r, x.trail())
		}
	}()
	kinds := map[string]bool{}
	allDet := true
	for _, sc := range ss.Configs {
		for i := range sc.Values {
			kinds[sc.Values[i].Kind] = true
			if sc.Values[i].Repeat > 1 {
				st.boundedMany = true
			}
		}
		if len(sc.Values) > st.nValues {
			st.nValues = len(sc.Values)
		}
		if !sc.seededDeterministically() {
			allDet = false
		}
	}
	st.nKinds = len(kinds)
	st.label(fmt.Sprintf("session-configurations-%d", len(ss.Configs)))
	st.label(fmt.Sprintf("session-runs-%d", len(ss.Runs)))
	if err := x.execute(); err != nil {
		return st, x, err
	}
	if err := x.judgeAll(); err != nil {
		return st, x, err
	}
	if x.strayBeforeEnd {
		st.label("clause-session-ignored-message-leaves-the-generation-as-it-is")
	}
	if x.completeGens >= 2 {
		st.label("session-two-or-more-complete-generations-on-one-client")
	}
	if x.effective {
		st.label("session-setconfig-took-effect-in-a-later-generation")
	}
	if ss.Twice && allDet {
		time.Sleep(time.Nanosecond)
		y := &sessExec{ss: ss, st: &stats{}}
		if err := y.execute(); err != nil {
			return st, x, fmt.Errorf("session: second execution of the same session: %v", err)
		}
		if err := sameTranscript(x, y); err != nil {
			return st, x, fmt.Errorf("session: reproducible: the same session (equal configurations, every random source seeded, same script) run twice on fresh Clients: %v%s", err, x.trail())
		}
		st.label("clause-session-twice-same-transcript")
	}
	return st, x, nil
}

// sessionNontrivial: something happened to a Client that was in the middle of
// its work or had done some already, and the outcome was judged.
func (x *sessExec) nontrivial() bool {
	return x.st.judged && x.st.nValues >= 2 && (x.strayBeforeEnd || x.completeGens >= 2 || x.effective)
}

// runSessionBubble: one bubble per session. A goroutine of the Client that is
// still blocked when the script is over shows as a panic of synctest.Test.
func runSessionBubble(t *testing.T, ss *Session) (st *stats, x *sessExec, err error) {
	st = &stats{}
	x = &sessExec{ss: ss, st: st}
	var inner error
	ran := false
	defer func() {
		if r := recover(); r != nil {
			err = fmt.Errorf("session: lifetime: goroutines of the Client remain blocked after every stream of the session was torn down (%v)%s", r, x.trail())
			if inner != nil {
				err = fmt.Errorf("%v\n  additionally goroutines of the Client remain blocked (%v)", inner, r)
			}
		}
	}()
	synctest.Test(t, func(*testing.T) {
		st, x, inner = runSession(ss)
		ran = true
	})
	if !ran && inner == nil {
		inner = fmt.Errorf("bubble did not run")
	}
	return st, x, inner
}
