package fakeprop

import (
	"math"
	"testing"

	"pgregory.net/rapid"
	"verif/harness/internal/vstat"
)

// The "numeric" part generalises WHERE on its numeric axis every numeric field
// of a configuration lies. The "random" and "shapes" parts keep all magnitudes
// within +-2^40 (doubles within +-1e12), the "edges" part moves the initial
// timestamps to the limits of int64. Here every other number does the same:
//
//   - int / uint / double range bounds at the limits of the type (MinInt64,
//     MaxInt64, 0, MaxUint64, 2^63 for uints, +-MaxFloat64, denormals, +Inf), at
//     +-2^31 / 2^32 / 2^53 / 2^62, give or take a few units; one-point ranges,
//     ranges of 2..9 points hugging a limit from either side, ranges between two
//     such anchors, ranges exactly as wide as the generator supports;
//   - value deltas (cumulative ranges): 0, +-1, equal, of opposite signs,
//     positive only, negative only, about the width of the range (w-1, w, w+1,
//     2w), 2^31 / 2^32 / 2^62, MaxInt64, MinInt64 (doubles: denormal steps, steps
//     of 1e300 and MaxFloat64, +Inf upwards);
//   - timestamp deltas 0, 1, 2^31, 2^32, 2^62, MaxInt64, spans up to the
//     supported limit, with the initial timestamp placed so that the last step
//     of the observed prefix just reaches MaxInt64, or anywhere below;
//   - repeat counts 0, 1, 2, 3-8, 255-257 (pulled to the end) and 65537 ..
//     MaxInt32 (a prefix is pulled);
//   - option lists with one element, option lists made of type limits;
//   - global and per-value seeds at the int64 limits and 2^31 / 2^32.
//
// The oracles are the trace predicates and differential runs of the other parts
// (run.go); the judge compares without forming sums or differences in int64
// (stepWithin, addSat), so that a wrapped intermediate result cannot excuse or
// accuse the generator.
//
// Domain (what the unchanged generator supports, checks_table.py assumptions):
//   - a span handed to rand.Int63n (maximum-minimum of a uniform int / uint
//     range, delta_max-delta_min of a cumulative one and of a timestamp) is at
//     most 2^63-2; 2^63-1 and more panic. The border itself is generated;
//   - a stepped timestamp stays representable over the pulled prefix
//     (timestamp + pulls*delta_max <= MaxInt64), as in the "edges" part; the
//     border (reaching MaxInt64 exactly) is generated;
//   - double bounds are not NaN; -Inf is a minimum only for cumulative ranges
//     with a finite delta span, +Inf a delta_max only above a finite minimum,
//     -Inf never a delta (the unchanged arithmetic yields Inf-Inf = NaN there);
//     a uniform double range never has minimum -Inf (same reason).
//   Everything else - any int64 / uint64 / finite float64 for bounds, initial
//   values and deltas - is inside the domain.

var numIntAnchors = []int64{
	math.MinInt64, math.MaxInt64, math.MinInt64, math.MaxInt64, 0,
	math.MinInt64 + 1, math.MaxInt64 - 1, -(1 << 62), 1 << 62, -(1 << 31), 1 << 31, 1<<31 - 1, -(1 << 32), 1 << 32, 1<<32 - 1,
	-1, 1, 1 << 53, 1_000_000,
}

var numUintAnchors = []uint64{
	0, math.MaxUint64, 1 << 63, 1<<63 - 1, 0, math.MaxUint64,
	1, math.MaxUint64 - 1, 1<<63 + 1, 1 << 62, 1 << 31, 1 << 32, 1<<32 - 1, 1 << 53, 1_000_000,
}

var numDblAnchors = []float64{
	-math.MaxFloat64, math.MaxFloat64, 0, -1e308, 1e308, -1e300, 1e300,
	-(1 << 63), 1 << 63, -(1 << 53), 1 << 53, 1<<53 + 2, -1, 1, 0.1, -1e-300, 1e-300,
	math.SmallestNonzeroFloat64, -math.SmallestNonzeroFloat64, 2.2250738585072014e-308, 4294967296, 1e12,
}

var numWidths = []uint64{
	1, 1, 2, 3, 8, 100, 255, 1<<31 - 1, 1 << 31, 1 << 32, 1 << 62, 1<<62 + 1,
	maxSpan - 1, maxSpan, maxSpan, maxSpan + 1, 1 << 63, math.MaxUint64,
}

func negDbl(f float64) Dbl {
	if f == 0 {
		return 0 // keep zero positive: the JSON form of a scenario drops the sign
	}
	return Dbl(f)
}

// numNearI is an int64 anchor, or an anchor give or take 1..3 (saturating).
func numNearI(t *rapid.T, label string) int64 {
	a := rapid.SampledFrom(numIntAnchors).Draw(t, label)
	if rapid.IntRange(0, 2).Draw(t, label+"-off?") == 0 {
		a = addSat(a, rapid.Int64Range(-3, 3).Draw(t, label+"-off"))
	}
	return a
}

func numNearU(t *rapid.T, label string) uint64 {
	a := rapid.SampledFrom(numUintAnchors).Draw(t, label)
	if rapid.IntRange(0, 2).Draw(t, label+"-off?") == 0 {
		o := rapid.Int64Range(-3, 3).Draw(t, label+"-off")
		switch {
		case o < 0 && a < uint64(-o):
			a = 0
		case o > 0 && a > math.MaxUint64-uint64(o):
			a = math.MaxUint64
		default:
			a += uint64(o) // (two's complement: adds a negative offset correctly)
		}
	}
	return a
}

// numIntBounds draws minimum <= maximum anywhere in int64.
func numIntBounds(t *rapid.T) (mn, mx int64) {
	switch rapid.SampledFrom([]int{0, 1, 1, 2, 2, 3, 3, 4}).Draw(t, "bounds-shape") {
	case 0: // one point
		a := numNearI(t, "point")
		return a, a
	case 1: // hugging an anchor from above: [a, a+w]
		a := numNearI(t, "low")
		w := rapid.SampledFrom(numWidths).Draw(t, "width")
		if w > spanI(a, math.MaxInt64) {
			return a, math.MaxInt64
		}
		return a, int64(uint64(a) + w)
	case 2: // hugging an anchor from below: [a-w, a]
		a := numNearI(t, "high")
		w := rapid.SampledFrom(numWidths).Draw(t, "width")
		if w > spanI(math.MinInt64, a) {
			return math.MinInt64, a
		}
		return int64(uint64(a) - w), a
	case 3: // between two anchors
		a, b := numNearI(t, "a"), numNearI(t, "b")
		if a > b {
			a, b = b, a
		}
		return a, b
	}
	a, b := rapid.Int64().Draw(t, "any-a"), rapid.Int64().Draw(t, "any-b")
	if a > b {
		a, b = b, a
	}
	return a, b
}

func numUintBounds(t *rapid.T) (mn, mx uint64) {
	switch rapid.SampledFrom([]int{0, 1, 1, 2, 2, 3, 3, 4}).Draw(t, "bounds-shape") {
	case 0:
		a := numNearU(t, "point")
		return a, a
	case 1:
		a := numNearU(t, "low")
		w := rapid.SampledFrom(numWidths).Draw(t, "width")
		if w > math.MaxUint64-a {
			return a, math.MaxUint64
		}
		return a, a + w
	case 2:
		a := numNearU(t, "high")
		w := rapid.SampledFrom(numWidths).Draw(t, "width")
		if w > a {
			return 0, a
		}
		return a - w, a
	case 3:
		a, b := numNearU(t, "a"), numNearU(t, "b")
		if a > b {
			a, b = b, a
		}
		return a, b
	}
	a, b := rapid.Uint64().Draw(t, "any-a"), rapid.Uint64().Draw(t, "any-b")
	if a > b {
		a, b = b, a
	}
	return a, b
}

// numDelta draws delta_min <= delta_max (not both zero) for a cumulative int /
// uint range of width w, span within the supported domain.
func numDelta(t *rapid.T, w uint64) (dmin, dmax int64) {
	mag := func(label string) int64 {
		var m uint64
		switch rapid.SampledFrom([]int{0, 0, 1, 1, 1, 2, 2, 3}).Draw(t, label+"-class") {
		case 0:
			m = rapid.SampledFrom([]uint64{0, 1, 1, 2, 3, 7}).Draw(t, label+"-small")
		case 1: // about the width of the range
			switch rapid.IntRange(0, 5).Draw(t, label+"-rel") {
			case 0:
				m = w
			case 1:
				m = w + 1
			case 2:
				if w > 0 {
					m = w - 1
				}
			case 3:
				m = 2 * w
				if w > math.MaxUint64/2 {
					m = math.MaxUint64
				}
			case 4:
				m = w / 2
			case 5:
				m = w + rapid.Uint64Range(2, 200).Draw(t, label+"-beyond")
				if m < w {
					m = math.MaxUint64
				}
			}
		case 2:
			m = rapid.SampledFrom([]uint64{1 << 31, 1 << 32, 1 << 62, 1<<62 + 1, 1<<63 - 2, 1<<63 - 1, 1 << 63}).Draw(t, label+"-huge")
		case 3:
			m = rapid.Uint64Range(0, 1<<63).Draw(t, label+"-any")
		}
		neg := rapid.Bool().Draw(t, label+"-negative")
		switch {
		case neg && m >= 1<<63:
			return math.MinInt64
		case neg:
			return -int64(m)
		case m > math.MaxInt64:
			return math.MaxInt64
		}
		return int64(m)
	}
	switch rapid.SampledFrom([]int{0, 0, 0, 1, 2}).Draw(t, "delta-shape") {
	case 1: // equal
		d := mag("d")
		dmin, dmax = d, d
	case 2: // a unit pair
		p := rapid.SampledFrom([][2]int64{{0, 1}, {-1, 0}, {-1, 1}, {1, 1}, {-1, -1}}).Draw(t, "unit")
		dmin, dmax = p[0], p[1]
	default:
		dmin, dmax = mag("dlo"), mag("dhi")
		if dmin > dmax {
			dmin, dmax = dmax, dmin
		}
	}
	// the domain: delta_max-delta_min+1 is handed to rand.Int63n
	if spanI(dmin, dmax) > maxSpan {
		if rapid.Bool().Draw(t, "trim-low") {
			dmin = int64(uint64(dmax) - maxSpan)
		} else {
			dmax = int64(uint64(dmin) + maxSpan)
		}
	}
	if dmin == 0 && dmax == 0 { // (that would be the uniform distribution)
		dmax = 1
	}
	return dmin, dmax
}

// numInitialI draws the initial value of a range: a bound, next to a bound, or
// anywhere inside.
func numInitialI(t *rapid.T, mn, mx int64) int64 {
	switch rapid.SampledFrom([]int{0, 1, 2, 3, 4, 4}).Draw(t, "initial-at") {
	case 0:
		return mn
	case 1:
		return mx
	case 2:
		if mn < mx {
			return mn + 1
		}
		return mn
	case 3:
		if mn < mx {
			return mx - 1
		}
		return mx
	}
	return rapid.Int64Range(mn, mx).Draw(t, "initial")
}

func numInitialU(t *rapid.T, mn, mx uint64) uint64 {
	switch rapid.SampledFrom([]int{0, 1, 2, 3, 4, 4}).Draw(t, "initial-at") {
	case 0:
		return mn
	case 1:
		return mx
	case 2:
		if mn < mx {
			return mn + 1
		}
		return mn
	case 3:
		if mn < mx {
			return mx - 1
		}
		return mx
	}
	return rapid.Uint64Range(mn, mx).Draw(t, "initial")
}

// numDouble fills in a double range.
func numDouble(t *rapid.T, v *Val) {
	cum := v.Dist == DDelta
	near := func(label string) float64 {
		a := rapid.SampledFrom(numDblAnchors).Draw(t, label)
		switch rapid.IntRange(0, 5).Draw(t, label+"-off") {
		case 0:
			a = math.Nextafter(a, math.Inf(1))
		case 1:
			a = math.Nextafter(a, math.Inf(-1))
		}
		if math.IsInf(a, 0) { // (stepped off MaxFloat64)
			a = math.Copysign(math.MaxFloat64, a)
		}
		return a
	}
	var mn, mx float64
	switch rapid.SampledFrom([]int{0, 1, 2, 2, 3, 3, 3, 4, 5}).Draw(t, "bounds-shape") {
	case 0:
		mn = near("point")
		mx = mn
	case 5: // most of the float64 axis: maximum-minimum is, or just is not, +Inf in float64
		hs := []float64{math.MaxFloat64, 1e308, 9e307, 8.9e307, 8e307}
		mn, mx = -rapid.SampledFrom(hs).Draw(t, "low-huge"), rapid.SampledFrom(hs).Draw(t, "high-huge")
	case 1: // two neighbouring floats
		mn = near("low")
		mx = math.Nextafter(mn, math.Inf(1))
		if math.IsInf(mx, 0) {
			mn, mx = math.Nextafter(mn, math.Inf(-1)), mn
		}
	case 2: // an anchor and a width
		mn = near("low")
		w := rapid.SampledFrom([]float64{1, 1e-300, 0.5, 8, 1e12, 1e300, math.MaxFloat64, math.SmallestNonzeroFloat64}).Draw(t, "fwidth")
		mx = mn + w
		if math.IsInf(mx, 0) {
			mx = math.MaxFloat64
		}
		if rapid.Bool().Draw(t, "mirror") {
			mn, mx = -mx, -mn
		}
	case 3:
		mn, mx = near("a"), near("b")
		if mn > mx {
			mn, mx = mx, mn
		}
	case 4: // an infinite bound (see the domain at the top)
		mn, mx = near("low"), math.Inf(1)
		if cum && rapid.Bool().Draw(t, "minus-inf") {
			mn, mx = math.Inf(-1), near("high")
			if rapid.Bool().Draw(t, "both-inf") {
				mx = math.Inf(1)
			}
		}
	}
	var iv float64
	switch rapid.SampledFrom([]int{0, 1, 2, 2}).Draw(t, "initial-at") {
	case 0:
		iv = mn
	case 1:
		iv = mx
	default:
		switch {
		case mn == mx:
			iv = mn
		case math.IsInf(mn, 0) && math.IsInf(mx, 0):
			iv = near("initial-any")
		case math.IsInf(mn, 0):
			iv = mx
		case math.IsInf(mx, 0):
			iv = mn
		default:
			f := rapid.Float64Range(0, 1).Draw(t, "initial-frac")
			iv = mn + (mx-mn)*f
			if math.IsInf(mx-mn, 0) || math.IsNaN(iv) {
				iv = mn/2 + mx/2 // (bounds of opposite sign and huge magnitude)
			}
		}
	}
	if !(iv >= mn) {
		iv = mn
	}
	if !(iv <= mx) {
		iv = mx
	}
	v.FMin, v.FMax, v.FV = negDbl(mn), negDbl(mx), negDbl(iv)
	if !cum {
		return
	}
	dmag := func(label string) float64 {
		w := mx - mn
		var m float64
		switch rapid.SampledFrom([]int{0, 0, 1, 1, 2, 2, 3}).Draw(t, label+"-class") {
		case 0:
			m = rapid.SampledFrom([]float64{0, 1, 0.5, 1e-300, math.SmallestNonzeroFloat64, 2.2250738585072014e-308}).Draw(t, label+"-small")
		case 1:
			m = w * rapid.SampledFrom([]float64{1, 0.5, 2, 1.0000000000000002, 0.9999999999999999}).Draw(t, label+"-rel")
		case 2:
			m = rapid.SampledFrom([]float64{1e300, 1e308, math.MaxFloat64, 1 << 63, 1 << 53}).Draw(t, label+"-huge")
		case 3:
			m = math.Abs(near(label + "-anchor"))
		}
		if math.IsInf(m, 0) || math.IsNaN(m) {
			m = math.MaxFloat64
		}
		if rapid.Bool().Draw(t, label+"-negative") {
			m = -m
		}
		return m
	}
	var dmin, dmax float64
	switch rapid.SampledFrom([]int{0, 0, 0, 1, 2}).Draw(t, "delta-shape") {
	case 1:
		d := dmag("d")
		dmin, dmax = d, d
	case 2:
		p := rapid.SampledFrom([][2]float64{{0, 1}, {-1, 0}, {-1, 1}, {1, 1}, {-1, -1}}).Draw(t, "unit")
		dmin, dmax = p[0], p[1]
	default:
		dmin, dmax = dmag("dlo"), dmag("dhi")
		if dmin > dmax {
			dmin, dmax = dmax, dmin
		}
	}
	// the domain
	if math.IsInf(mn, -1) && math.IsInf(dmax-dmin, 0) {
		dmin, dmax = dmin/4, dmax/4
	}
	if !math.IsInf(mn, -1) && rapid.IntRange(0, 11).Draw(t, "delta-max-inf") == 0 {
		dmax = math.Inf(1)
	}
	if dmin == 0 && dmax == 0 {
		dmax = 1
	}
	v.FDMin, v.FDMax = negDbl(dmin), negDbl(dmax)
}

// numRepeat draws a repeat count: 0, 1, 2, a handful, a few hundred (pulled to
// the end), or long (a prefix is pulled).
func numRepeat(t *rapid.T) int32 {
	switch rapid.SampledFrom([]int{0, 1, 2, 2, 3, 3, 3, 3, 3, 3, 4, 5, 5}).Draw(t, "repeat-shape") {
	case 0:
		return 0
	case 1:
		return 1
	case 2:
		return 2
	case 4:
		return rapid.SampledFrom([]int32{255, 256, 257, 200}).Draw(t, "repeat-hundreds")
	case 5:
		return rapid.SampledFrom([]int32{longRepeat + 1, 1 << 24, 1<<31 - 2, math.MaxInt32, math.MaxInt32}).Draw(t, "repeat-long")
	}
	return int32(rapid.IntRange(3, 8).Draw(t, "repeat"))
}

func numSeed(t *rapid.T, label string) int64 {
	if rapid.IntRange(0, 2).Draw(t, label+"-edge") != 0 {
		return genSeed(t, label)
	}
	return rapid.SampledFrom([]int64{math.MinInt64, math.MaxInt64, -1, 1, 1 << 31, 1<<31 - 1, -(1 << 31), 1 << 32, 1 << 62, math.MinInt64 + 1}).Draw(t, label+"-limit")
}

// numTSDelta draws timestamp deltas 0 <= delta_min <= delta_max with a span
// inside the supported domain.
func numTSDelta(t *rapid.T) (dmin, dmax int64) {
	hugeD := []int64{1<<31 - 1, 1 << 31, 1 << 32, 1<<32 + 1, 1 << 62, 1<<62 + 1, math.MaxInt64 - 1, math.MaxInt64}
	switch rapid.SampledFrom([]int{0, 1, 2, 3, 4, 5}).Draw(t, "ts-delta-shape") {
	case 0:
		return 0, 0
	case 1:
		d := rapid.SampledFrom(hugeD).Draw(t, "ts-d")
		return d, d
	case 2:
		d := rapid.SampledFrom(hugeD).Draw(t, "ts-d")
		return d - rapid.Int64Range(1, 3).Draw(t, "ts-d-jitter"), d
	case 3: // the widest span: [0, 2^63-2], [1, 2^63-1]
		lo := rapid.Int64Range(0, 1).Draw(t, "ts-d-lo")
		return lo, lo + int64(maxSpan)
	case 4:
		d := rapid.SampledFrom(hugeD).Draw(t, "ts-d")
		if spanI(0, d) > maxSpan {
			return 1, d
		}
		return 0, d
	}
	lo := rapid.Int64Range(0, 3).Draw(t, "ts-dmin")
	return lo, lo + rapid.Int64Range(0, 4).Draw(t, "ts-dspan")
}

// genNumVal draws one value whose numbers sit at edges.
func genNumVal(t *rapid.T, env genEnv) Val {
	type kd struct{ k, d string }
	combos := []kd{
		{KInt, DDelta}, {KInt, DDelta}, {KInt, DDelta}, {KUint, DDelta}, {KUint, DDelta}, {KDouble, DDelta}, {KDouble, DDelta},
		{KInt, DRange}, {KUint, DRange}, {KDouble, DRange},
		{KInt, DRand}, {KInt, DRot}, {KUint, DRand}, {KUint, DRot}, {KDouble, DRand}, {KDouble, DRot},
		{KInt, DConst}, {KUint, DConst}, {KDouble, DConst},
	}
	c := rapid.SampledFrom(combos).Draw(t, "num-kind")
	v := Val{Kind: c.k, Dist: c.d}
	isList := c.d == DRot || c.d == DRand
	nOpts := 0
	if isList {
		nOpts = rapid.SampledFrom([]int{1, 1, 1, 2, 3, 5}).Draw(t, "nopts")
	}
	initial := rapid.IntRange(0, 2).Draw(t, "list-initial")
	switch c.k {
	case KInt:
		switch {
		case c.d == DDelta:
			v.IMin, v.IMax = numIntBounds(t)
			v.IV = numInitialI(t, v.IMin, v.IMax)
			v.IDMin, v.IDMax = numDelta(t, spanI(v.IMin, v.IMax))
		case c.d == DRange:
			v.IMin, v.IMax = numIntBounds(t)
			if spanI(v.IMin, v.IMax) > maxSpan { // the domain
				if rapid.Bool().Draw(t, "trim-low") {
					v.IMin = int64(uint64(v.IMax) - maxSpan)
				} else {
					v.IMax = int64(uint64(v.IMin) + maxSpan)
				}
			}
			v.IV = numInitialI(t, v.IMin, v.IMax)
		case isList:
			for i := 0; i < nOpts; i++ {
				v.IOpts = append(v.IOpts, numNearI(t, "iopt"))
			}
			switch initial {
			case 1:
				v.IV = v.IOpts[0]
			case 2:
				v.IV = numNearI(t, "iv")
			}
		default:
			v.IV = numNearI(t, "iv-const")
		}
	case KUint:
		switch {
		case c.d == DDelta:
			v.UMin, v.UMax = numUintBounds(t)
			v.UV = numInitialU(t, v.UMin, v.UMax)
			v.IDMin, v.IDMax = numDelta(t, v.UMax-v.UMin)
		case c.d == DRange:
			v.UMin, v.UMax = numUintBounds(t)
			if v.UMax-v.UMin > maxSpan { // the domain
				if rapid.Bool().Draw(t, "trim-low") {
					v.UMin = v.UMax - maxSpan
				} else {
					v.UMax = v.UMin + maxSpan
				}
			}
			v.UV = numInitialU(t, v.UMin, v.UMax)
		case isList:
			for i := 0; i < nOpts; i++ {
				v.UOpts = append(v.UOpts, numNearU(t, "uopt"))
			}
			switch initial {
			case 1:
				v.UV = v.UOpts[0]
			case 2:
				v.UV = numNearU(t, "uv")
			}
		default:
			v.UV = numNearU(t, "uv-const")
		}
	case KDouble:
		switch {
		case c.d == DDelta || c.d == DRange:
			numDouble(t, &v)
		case isList:
			for i := 0; i < nOpts; i++ {
				v.FOpts = append(v.FOpts, negDbl(rapid.SampledFrom(numDblAnchors).Draw(t, "fopt")))
			}
			switch initial {
			case 1:
				v.FV = v.FOpts[0]
			case 2:
				v.FV = negDbl(rapid.SampledFrom(numDblAnchors).Draw(t, "fv"))
			}
		default:
			v.FV = rapid.SampledFrom([]Dbl{0, Dbl(math.MaxFloat64), Dbl(-math.MaxFloat64), Dbl(math.SmallestNonzeroFloat64), Dbl(math.Inf(1)), Dbl(math.Inf(-1)), Dbl(math.NaN())}).Draw(t, "fv-const")
		}
	}
	return v
}

// numBreak makes v violate one documented precondition AT an edge (bounds or
// deltas inverted, the initial value one unit outside): to be answered by an
// error or left unexamined, never by a panic.
func numBreak(t *rapid.T, v *Val) {
	how := rapid.SampledFrom([]string{"range-inverted", "value-below", "value-above", "delta-inverted", "ts-delta-inverted", "ts-delta-negative"}).Draw(t, "num-break")
	switch how {
	case "ts-delta-inverted":
		if v.TS != nil && v.TS.DMin < v.TS.DMax {
			v.TS.DMin, v.TS.DMax = v.TS.DMax, v.TS.DMin
		}
		return
	case "ts-delta-negative":
		if v.TS != nil {
			v.TS.DMin = rapid.SampledFrom([]int64{-1, math.MinInt64, -(1 << 62)}).Draw(t, "neg-ts-dmin")
		}
		return
	}
	if v.Dist != DRange && v.Dist != DDelta {
		return
	}
	switch v.Kind {
	case KInt:
		switch how {
		case "range-inverted":
			if v.IMin < v.IMax {
				v.IMin, v.IMax = v.IMax, v.IMin
			}
		case "value-below":
			if v.IMin > math.MinInt64 {
				v.IV = v.IMin - 1
			}
		case "value-above":
			if v.IMax < math.MaxInt64 {
				v.IV = v.IMax + 1
			}
		case "delta-inverted":
			if v.IDMin < v.IDMax {
				v.IDMin, v.IDMax = v.IDMax, v.IDMin
			}
		}
	case KUint:
		switch how {
		case "range-inverted":
			if v.UMin < v.UMax {
				v.UMin, v.UMax = v.UMax, v.UMin
			}
		case "value-below":
			if v.UMin > 0 {
				v.UV = v.UMin - 1
			}
		case "value-above":
			if v.UMax < math.MaxUint64 {
				v.UV = v.UMax + 1
			}
		case "delta-inverted":
			if v.IDMin < v.IDMax {
				v.IDMin, v.IDMax = v.IDMax, v.IDMin
			}
		}
	case KDouble:
		switch how {
		case "range-inverted":
			if v.FMin < v.FMax {
				v.FMin, v.FMax = v.FMax, v.FMin
			}
		case "value-below":
			if f := math.Nextafter(float64(v.FMin), math.Inf(-1)); !math.IsInf(f, 0) && !math.IsInf(float64(v.FMin), 0) {
				v.FV = negDbl(f)
			}
		case "value-above":
			if f := math.Nextafter(float64(v.FMax), math.Inf(1)); !math.IsInf(f, 0) && !math.IsInf(float64(v.FMax), 0) {
				v.FV = negDbl(f)
			}
		case "delta-inverted":
			if v.FDMin < v.FDMax {
				v.FDMin, v.FDMax = v.FDMax, v.FDMin
			}
		}
	}
}

func genNumeric(t *rapid.T) *Scenario {
	sc := &Scenario{Shape: "numeric"}
	sc.Seed = numSeed(t, "seed")
	sc.DisableSync = rapid.IntRange(0, 3).Draw(t, "disable-sync") == 0
	sc.Extra = rapid.IntRange(2, 24).Draw(t, "extra")
	sc.Target = rapid.SampledFrom([]string{"", "", "dev"}).Draw(t, "target")
	env := genEnv{} // (no explicit sync values: their numbers are not the subject here)
	env.base = rapid.SampledFrom([]int64{0, 0, 3, 1000, 1 << 40, 1 << 62}).Draw(t, "base")
	n := rapid.SampledFrom([]int{1, 2, 3, 3, 3, 4, 4, 5}).Draw(t, "n")
	if rapid.IntRange(0, 3).Draw(t, "split") == 0 && n >= 2 {
		sc.Split = rapid.IntRange(1, n-1).Draw(t, "split-at")
	}
	hostile := rapid.IntRange(0, 7).Draw(t, "hostile") == 0

	type tsPlan struct{ edge bool }
	vals := make([]Val, n)
	plans := make([]tsPlan, n)
	for i := 0; i < n; i++ {
		var v Val
		if rapid.IntRange(0, 5).Draw(t, "plain-value") == 0 {
			// a value as the "random" part draws it, next to the edge ones
			v = genValWith(t, env, func(*Val) {})
		} else {
			v = genNumVal(t, env)
		}
		v.Repeat = numRepeat(t)
		v.Seed = numSeed(t, "vseed")
		// timestamps: plain (a common base, small cadence: values interleave) or
		// with deltas at their edges
		ts := &TS{}
		if rapid.IntRange(0, 2).Draw(t, "ts-edge") == 0 {
			plans[i].edge = true
			ts.DMin, ts.DMax = numTSDelta(t)
		} else {
			ts.T = env.base + rapid.Int64Range(0, 6).Draw(t, "t-off")
			switch rapid.IntRange(0, 3).Draw(t, "cadence") {
			case 1:
				ts.DMin = rapid.Int64Range(1, 4).Draw(t, "period")
				ts.DMax = ts.DMin
			case 2, 3:
				ts.DMin = rapid.Int64Range(0, 3).Draw(t, "dmin")
				ts.DMax = ts.DMin + rapid.Int64Range(1, 4).Draw(t, "dspan")
			}
		}
		v.TS = ts
		if rapid.IntRange(0, 15).Draw(t, "ts-unset") == 0 {
			v.TS = nil
			plans[i].edge = false
		}
		vals[i] = v
	}

	// ---- the domain of the time axis (see the comment at the top) -------------------
	// pulls: an upper bound of the number of times one value is advanced by any
	// of the generators run() builds (it pulls sum(bounded repeats)+Extra times;
	// the Client a few more).
	pulls := int64(sc.Extra + 8 + 3*n)
	for i := range vals {
		v := &vals[i]
		if _, dmax := v.deltas(); v.openEnded() && dmax == 0 {
			v.Repeat = 3 // (an unbounded value that never advances starves the rest: not the subject here)
		}
		if v.Repeat > 1 && !v.openEnded() {
			pulls += int64(v.Repeat)
		}
	}
	for i := range vals {
		v := &vals[i]
		_, dmax := v.deltas()
		if v.Repeat == 1 || dmax == 0 {
			if plans[i].edge {
				v.TS.T = rapid.SampledFrom([]int64{0, 1, env.base, math.MaxInt64, math.MaxInt64 - 1, 1 << 62}).Draw(t, "t-still")
			}
			continue
		}
		adv := pulls
		if !v.openEnded() {
			adv = int64(v.Repeat) - 1
		}
		if dmax > math.MaxInt64/adv {
			// even from 0 the steps would leave int64: one step only
			v.Repeat, adv = 2, 1
		}
		limit := math.MaxInt64 - adv*dmax // the latest initial timestamp inside the domain
		if plans[i].edge {
			switch rapid.SampledFrom([]int{0, 0, 1, 2, 3, 4}).Draw(t, "t-edge") {
			case 0:
				v.TS.T = limit
			case 1:
				v.TS.T = limit - min(limit, rapid.Int64Range(1, 3).Draw(t, "t-below-limit"))
			case 2:
				v.TS.T = 0
			case 3:
				v.TS.T = min(limit, env.base+rapid.Int64Range(0, 6).Draw(t, "t-off-edge"))
			case 4:
				v.TS.T = rapid.Int64Range(0, limit).Draw(t, "t-any")
			}
		} else if v.TS.T > limit {
			v.TS.T = limit
		}
	}
	if hostile {
		numBreak(t, &vals[rapid.IntRange(0, n-1).Draw(t, "break-which")])
	}
	sc.Values = vals
	sc.Cfg = genCfgShape(t)
	return sc
}

// TestC20Numeric: every numeric field of the configuration at the edges of its
// type.
func TestC20Numeric(t *testing.T) {
	if !vstat.Enabled("C20") {
		t.Skip()
	}
	rec := vstat.New("C20", "numeric")
	rec.RunRapid(t, func(rt *rapid.T) {
		sc := genNumeric(rt)
		rec.Current(sc)
		st, err := runCase(t, sc)
		rec.Case(sc, st.nontrivial(), st.labelList()...)
		if err != nil {
			rt.Fatalf("%s", rec.Fail(sc, classOf(err), "%v", err))
		}
	})
}
