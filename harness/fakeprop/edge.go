package fakeprop

import (
	"fmt"
	"math"
)

// Evidence (labels only, no verdicts) about two classes of configurations:
//
//   - the fake.Config message carries more than target / seed / values /
//     disable_sync (a generator message that repeats or omits what the top
//     level says, fields that have nothing to do with the stream), or a value
//     is written in one of its degenerate spellings (empty timestamp block, a
//     range message with no field set, a payload message with no field set);
//   - initial timestamps at the edges of the int64 range, and pairs of initial
//     timestamps whose difference does not fit 31, 32 or 63 bits.

func (sc *Scenario) cfgLabels(st *stats) {
	if s := sc.Cfg; s != nil {
		if s.Gen != GenUnset {
			st.label("cfg-generator-" + s.Gen)
			if sc.Seed != 0 && (s.Gen == GenRandomEmpty || s.Gen == GenRandomMirror) {
				st.label("cfg-generator-message-without-seed-next-to-global-seed")
			}
		}
		if s.Port != 0 || s.Creds != "" || s.Cert != "" || s.ClientType != 0 || s.TunnelCrt != "" || s.NoTarget {
			st.label("cfg-unrelated-fields-set")
		}
		if s.Creds == "empty" || s.Cert == "empty" {
			st.label("cfg-empty-submessage-or-bytes")
		}
	}
	for i := range sc.Values {
		v := &sc.Values[i]
		if v.TS != nil && *v.TS == (TS{}) {
			st.label("value-timestamp-block-empty")
		}
		if (v.Dist == DRange || v.Dist == DDelta) && v.IMin == 0 && v.IMax == 0 && v.IDMin == 0 && v.IDMax == 0 &&
			v.UMin == 0 && v.UMax == 0 && v.FMin == 0 && v.FMax == 0 && v.FDMin == 0 && v.FDMax == 0 {
			st.label("value-range-message-empty")
		}
		if v.Dist == DConst && v.IV == 0 && v.UV == 0 && v.FV == 0 && v.SV == "" && len(v.LV) == 0 && !v.BV {
			switch v.Kind {
			case KInt, KUint, KDouble, KString, KBool, KStrList:
				st.label("value-payload-message-empty")
			}
		}
	}
}

// cfgNote names the dressing of the Config in a violation message.
func (sc *Scenario) cfgNote() string {
	if sc.Cfg == nil {
		return ""
	}
	return fmt.Sprintf(" [Config dressed with %+v]", *sc.Cfg)
}

// gapOver reports whether |a-b| >= 2^bits (bits in 1..63), without overflow.
func gapOver(a, b int64, bits uint) bool {
	if a < b {
		a, b = b, a
	}
	// a >= b; d = a-b as an unsigned number is exact
	d := uint64(a) - uint64(b)
	return d >= uint64(1)<<bits
}

const nearEdge = int64(1) << 33

func (sc *Scenario) edgeLabels(st *stats) {
	n := len(sc.Values)
	stepping63 := false
	for i := 0; i < n; i++ {
		ti := sc.Values[i].t0()
		switch {
		case ti < 0 && ti <= math.MinInt64+nearEdge:
			st.label("edge-initial-near-min-int64")
		case ti < 0:
			st.label("edge-initial-negative")
		case ti >= math.MaxInt64-nearEdge:
			st.label("edge-initial-near-max-int64")
		}
		if ti == math.MaxInt64 || ti == math.MinInt64 {
			st.label("edge-initial-is-an-int64-limit")
		}
		for j := i + 1; j < n; j++ {
			tj := sc.Values[j].t0()
			if ti == tj {
				continue
			}
			switch {
			case gapOver(ti, tj, 63):
				st.label("edge-gap-does-not-fit-int64")
				// listed[i] is queued when listed[j] is inserted
				if ti > tj {
					st.label("edge-gap-does-not-fit-int64-later-listed-first")
				} else {
					st.label("edge-gap-does-not-fit-int64-earlier-listed-first")
				}
				if n >= 3 {
					st.label("edge-gap-does-not-fit-int64-among-3+")
				}
			case gapOver(ti, tj, 32):
				st.label("edge-gap-2^32-or-more")
			case gapOver(ti, tj, 31):
				st.label("edge-gap-2^31-up-to-2^32")
			}
			if !gapOver(ti, tj, 63) && gapOver(ti, tj, 62) {
				st.label("edge-gap-2^62-up-to-2^63")
			}
		}
		if v := &sc.Values[i]; v.Repeat != 1 && v.TS != nil && v.TS.DMax >= 1<<31 {
			stepping63 = true
		}
	}
	if stepping63 {
		st.label("edge-step-2^31-or-more")
	}
}
