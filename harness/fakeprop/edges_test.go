package fakeprop

import (
	"math"
	"sort"
	"testing"

	"pgregory.net/rapid"
	"verif/harness/internal/vstat"
)

// The "edges" part generalises WHERE on the int64 axis the initial timestamps
// of a configuration lie, and how the configuration is spelled.
//
// The "random" and "shapes" parts keep every timestamp within [-2^40, 2^40].
// Here the initial timestamp of a value is an edge of the int64 range (the
// limits themselves, +-2^62, +-2^53, +-2^32, +-2^31, -1, 0, 1, a wall-clock
// nanosecond count), an edge give or take a few units, another value's
// timestamp plus or minus a distance that just fits or just does not fit 31,
// 32, 62 or 63 bits, or any int64 at all; configurations are small (1-12
// values, mostly 2-5: every pair gets compared when the generator orders them)
// and are listed in a drawn permutation, ascending or descending. The oracles
// are the trace predicates and differential runs of the other parts (run.go).
//
// Domain (what the unchanged generator defines; checks_table.py, assumptions):
//   - a value with a negative initial timestamp is emitted once (repeat 1): the
//     generator rejects a negative timestamp as soon as it has to step it;
//   - a value that is stepped (repeat != 1, delta_max > 0) starts far enough
//     below MaxInt64 for every step of the pulled prefix to stay representable
//     (timestamp + pulls*delta_max <= MaxInt64): the generator adds the step
//     in int64 without looking. Next to the upper limit a value is emitted
//     once or repeats on one timestamp (delta 0);
//   - timestamp deltas stay within [0, 2^40] as in the other parts (a delta
//     span of 2^63-1 makes rand.Int63n panic); 2^31- and 2^32-sized periods
//     are generated, so re-queued timestamps cross those distances too.

var edgeAnchors = []int64{
	math.MinInt64, math.MinInt64 + 1, -(1 << 62) - 1, -(1 << 62), -(1 << 53), -(1 << 32) - 1, -(1 << 32), -(1 << 31) - 1, -(1 << 31), -(1 << 31) + 1, -1,
	0, 1, 1<<31 - 1, 1 << 31, 1<<31 + 1, 1<<32 - 1, 1 << 32, 1<<32 + 1, 1 << 53, 1_700_000_000_000_000_000, 1 << 62, 1<<62 + 1,
	math.MaxInt64 - 1<<32, math.MaxInt64 - 1<<31, math.MaxInt64 - 1, math.MaxInt64,
}

var edgeGaps = []int64{
	1, 1<<31 - 1, 1 << 31, 1<<31 + 1, 1<<32 - 1, 1 << 32, 1<<32 + 1, 3 << 31, 1_000_000_000, 5_000_000_000,
	1<<62 - 1, 1 << 62, 1<<62 + 1, math.MaxInt64 - 1, math.MaxInt64,
}

// satAdd is a+b, saturating at the int64 limits.
func satAdd(a, b int64) int64 {
	c := a + b
	if b > 0 && c < a {
		return math.MaxInt64
	}
	if b < 0 && c > a {
		return math.MinInt64
	}
	return c
}

func genEdgeT(t *rapid.T, prev []int64) int64 {
	shape := rapid.SampledFrom([]int{0, 0, 0, 1, 1, 2, 2, 2, 3}).Draw(t, "t-shape")
	if shape == 2 && len(prev) == 0 {
		shape = 0
	}
	switch shape {
	case 0:
		return rapid.SampledFrom(edgeAnchors).Draw(t, "t-anchor")
	case 1:
		return satAdd(rapid.SampledFrom(edgeAnchors).Draw(t, "t-anchor"), rapid.Int64Range(-3, 3).Draw(t, "t-near"))
	case 2:
		from := prev[rapid.IntRange(0, len(prev)-1).Draw(t, "t-from")]
		gap := rapid.SampledFrom(edgeGaps).Draw(t, "t-gap")
		if rapid.Bool().Draw(t, "t-gap-down") {
			// -MaxInt64 is representable; two steps for the full 2^63
			if gap == math.MaxInt64 && rapid.Bool().Draw(t, "t-gap-2^63") {
				return satAdd(satAdd(from, -gap), -1)
			}
			return satAdd(from, -gap)
		}
		return satAdd(from, gap)
	}
	return rapid.Int64().Draw(t, "t-any")
}

func genEdgeCadence(t *rapid.T) (dmin, dmax int64) {
	switch rapid.SampledFrom([]int{0, 0, 1, 1, 2, 2, 3, 3, 4}).Draw(t, "delta-shape") {
	case 1:
		p := rapid.Int64Range(1, 4).Draw(t, "period")
		return p, p
	case 2:
		lo := rapid.Int64Range(0, 3).Draw(t, "dmin")
		return lo, lo + rapid.Int64Range(1, 4).Draw(t, "dspan")
	case 3:
		// 31/32-bit-sized periods and jitter
		p := rapid.SampledFrom([]int64{1<<31 - 1, 1 << 31, 1<<31 + 1, 1 << 32, 1<<32 + 1, 1_000_000_000, 5_000_000_000}).Draw(t, "period-32")
		if rapid.Bool().Draw(t, "period-32-jitter") {
			return p - rapid.Int64Range(1, min(p, 1<<31-1)).Draw(t, "jitter-32"), p
		}
		return p, p
	case 4:
		lo := rapid.Int64Range(0, big).Draw(t, "dmin-wide")
		return lo, rapid.Int64Range(lo, big).Draw(t, "dmax-wide")
	}
	return 0, 0
}

func clearPayload(v *Val) {
	keep := Val{Kind: v.Kind, Dist: v.Dist, Repeat: v.Repeat, Seed: v.Seed, TS: v.TS}
	*v = keep
}

// degenerate rewrites v into one of the spellings that say as little as the
// message format allows.
func degenerate(v *Val, how string) {
	switch how {
	case "ts-unset":
		v.TS = nil
	case "ts-empty":
		v.TS = &TS{}
	case "payload-empty":
		switch v.Kind {
		case KInt, KUint, KDouble, KString, KBool, KStrList:
		case KDelete, KSync:
			return
		default:
			v.Kind = KInt
		}
		v.Dist = DConst
		clearPayload(v)
	case "range-empty":
		switch v.Kind {
		case KInt, KUint, KDouble:
		case KSync:
			return
		default:
			v.Kind = KInt
		}
		v.Dist = DRange
		clearPayload(v)
	}
}

func genEdges(t *rapid.T) *Scenario {
	sc := &Scenario{}
	sc.Seed = genSeed(t, "seed")
	sc.DisableSync = rapid.IntRange(0, 3).Draw(t, "disable-sync") == 0
	sc.Extra = rapid.IntRange(2, 24).Draw(t, "extra")
	sc.Target = rapid.SampledFrom([]string{"", "", "dev"}).Draw(t, "target")
	env := genEnv{disableSync: sc.DisableSync}
	n := rapid.SampledFrom([]int{2, 3, 4, 2, 3, 4, 5, 5, 6, 8, 1, 12}).Draw(t, "n")
	splitAt := rapid.IntRange(0, 999).Draw(t, "split-permille")
	if rapid.IntRange(0, 3).Draw(t, "split") == 0 && n >= 2 {
		sc.Split = 1 + splitAt*(n-2)/999
	}
	sc.Agent = rapid.IntRange(0, 11).Draw(t, "agent") == 0
	if s := rapid.Int64Range(1, 1000).Draw(t, "agent-seed"); sc.Agent && sc.Seed == 0 {
		sc.Seed = s // outside the bubble nothing may depend on the clock
	}
	order := rapid.SampledFrom([]string{"perm", "perm", "perm", "asc", "desc", "drawn"}).Draw(t, "listing")
	sc.Shape = "edges-" + order
	idx := make([]int, 12)
	for i := range idx {
		idx[i] = i
	}
	perm := rapid.Permutation(idx).Draw(t, "perm")

	vals := make([]Val, n)
	var prev []int64
	for i := 0; i < n; i++ {
		v := genValWith(t, env, func(*Val) {})
		v.Seed = genSeed(t, "vseed")
		switch rapid.SampledFrom([]int{1, 1, 1, 2, 2, 0}).Draw(t, "repeat-shape") {
		case 0:
			v.Repeat = 0
		case 1:
			v.Repeat = 1
		default:
			v.Repeat = int32(rapid.IntRange(2, 6).Draw(t, "repeat"))
		}
		ts := &TS{T: genEdgeT(t, prev)}
		if rapid.IntRange(0, 2).Draw(t, "t-negative-allowed") != 0 && ts.T < 0 {
			// a negative timestamp confines the value to one emission: two
			// times out of three take its mirror image (MinInt64 <-> MaxInt64, -1 <-> 0)
			ts.T = ^ts.T
		}
		ts.DMin, ts.DMax = genEdgeCadence(t)
		v.TS = ts
		prev = append(prev, ts.T)
		if how := rapid.SampledFrom([]string{"", "", "", "", "", "", "", "", "ts-empty", "ts-unset", "payload-empty", "range-empty"}).Draw(t, "spelling"); how != "" {
			degenerate(&v, how)
		}
		vals[i] = v
	}

	// ---- the domain (see the comment at the top) ----------------------------------
	pulls := int64(sc.Extra + 8 + 3*n)
	for i := range vals {
		v := &vals[i]
		if v.t0() < 0 {
			v.Repeat = 1
		}
		if _, dmax := v.deltas(); v.Repeat == 0 && dmax == 0 {
			v.Repeat = 3 // (an unbounded value that never advances starves the rest: not the subject here)
		}
		if v.Repeat > 1 {
			pulls += int64(v.Repeat)
		}
	}
	for i := range vals {
		v := &vals[i]
		if _, dmax := v.deltas(); v.Repeat != 1 && dmax > 0 && v.TS.T > math.MaxInt64-pulls*dmax {
			v.TS.DMin, v.TS.DMax = 0, 0
			if v.Repeat == 0 {
				v.Repeat = 3
			}
		}
	}

	// ---- listing order ----------------------------------------------------------------
	switch order {
	case "asc":
		sort.SliceStable(vals, func(a, b int) bool { return vals[a].t0() < vals[b].t0() })
	case "desc":
		sort.SliceStable(vals, func(a, b int) bool { return vals[a].t0() > vals[b].t0() })
	case "perm":
		// the ranks of the first n entries: a permutation of 0..n-1
		out := make([]Val, n)
		for i := 0; i < n; i++ {
			r := 0
			for j := 0; j < n; j++ {
				if perm[j] < perm[i] {
					r++
				}
			}
			out[r] = vals[i]
		}
		vals = out
	}
	sc.Values = vals
	sc.Cfg = genCfgShape(t)
	return sc
}

// TestC20Edges: initial timestamps at the edges of the int64 range, every
// listing order, degenerate spellings of the configuration.
func TestC20Edges(t *testing.T) {
	if !vstat.Enabled("C20") {
		t.Skip()
	}
	rec := vstat.New("C20", "edges")
	rec.RunRapid(t, func(rt *rapid.T) {
		sc := genEdges(rt)
		rec.Current(sc)
		st, err := runCase(t, sc)
		rec.Case(sc, st.nontrivial(), append(st.labelList(), "layout-"+sc.Shape)...)
		if err != nil {
			rt.Fatalf("%s", rec.Fail(sc, classOf(err), "%v", err))
		}
	})
}
