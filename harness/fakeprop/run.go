package fakeprop

import (
	"context"
	"fmt"
	"io"
	"math"
	mbig "math/big"
	"sort"
	"sync"
	"testing/synctest"
	"time"

	"google.golang.org/grpc"
	"google.golang.org/protobuf/proto"

	gpb "github.com/openconfig/gnmi/proto/gnmi"
	fgnmi "github.com/openconfig/gnmi/testing/fake/gnmi"
	fpb "github.com/openconfig/gnmi/testing/fake/proto"
	"github.com/openconfig/gnmi/testing/fake/queue"
)

// em is one emission in a form common to both observation points (values
// returned by UpdateQueue.Next, responses sent by the fake agent's Client).
type em struct {
	idx   int   // index of the configured value (by path); -1: a sync response on the wire
	ts    int64 // timestamp (meaningless for idx -1)
	val   any   // int64 | uint64 | float64 | string | bool | []string | nil
	mark  bool  // wire only: sync response carrying true
	noVal bool  // delete / sync: no value to judge
}

// stats is what happened in one case (for labels and the non-trivial rule).
type stats struct {
	labels map[string]bool
	judged bool
	// ingredients of the non-trivial rule
	nValues, nKinds      int
	overlap, boundedMany bool
	// what the in-memory Client sent (judged cases only), for the comparison
	// with a real Agent serving an equal configuration
	wire      []*gpb.SubscribeResponse
	wireLimit int
	det       bool
}

func (s *stats) label(l string) {
	if s.labels == nil {
		s.labels = map[string]bool{}
	}
	s.labels[l] = true
}

func (s *stats) labelList() []string {
	out := make([]string, 0, len(s.labels))
	for l := range s.labels {
		out = append(out, l)
	}
	sort.Strings(out)
	return out
}

// nontrivial is the rule of DESIGN.md for C20: at least 3 values of at least 2
// kinds with overlapping timestamps and at least one bounded repeat > 1 (and
// the configuration was accepted, so the oracles were applied).
func (s *stats) nontrivial() bool {
	return s.judged && s.nValues >= 3 && s.nKinds >= 2 && s.overlap && s.boundedMany
}

// memStream is the in-memory gnmi.GNMI_SubscribeServer: Recv yields one
// subscription request and then blocks until the context ends; Send records
// up to limit responses and then reports the stream as closed.
type memStream struct {
	grpc.ServerStream
	ctx   context.Context
	first *gpb.SubscribeRequest

	mu    sync.Mutex
	recvs int
	limit int
	cut   bool
	sent  []*gpb.SubscribeResponse
}

func (s *memStream) Context() context.Context { return s.ctx }

func (s *memStream) Recv() (*gpb.SubscribeRequest, error) {
	s.mu.Lock()
	n := s.recvs
	s.recvs++
	s.mu.Unlock()
	if n == 0 {
		return s.first, nil
	}
	<-s.ctx.Done()
	return nil, io.EOF
}

func (s *memStream) Send(r *gpb.SubscribeResponse) error {
	s.mu.Lock()
	defer s.mu.Unlock()
	if len(s.sent) >= s.limit {
		s.cut = true
		return io.EOF
	}
	s.sent = append(s.sent, r)
	return nil
}

// pulled is the outcome of draining a queue.
type pulled struct {
	seq       []*fpb.Value
	exhausted bool  // Next reported "no more updates"
	err       error // Next returned an error (configuration rejected)
}

// pull calls Next budget times. After the first "exhausted" answer every
// further answer must be "exhausted" too ("... and then none").
func pull(q *queue.UpdateQueue, budget int) (p pulled, violation error) {
	for k := 0; k < budget; k++ {
		x, err := q.Next()
		if err != nil {
			p.err = err
			return p, nil
		}
		if x == nil {
			p.exhausted = true
			continue
		}
		v, ok := x.(*fpb.Value)
		if !ok || v == nil {
			return p, fmt.Errorf("pull %d: Next returned %T, documented to be *fake.Value", k, x)
		}
		if p.exhausted {
			return p, fmt.Errorf("pull %d: Next returned %v after it had reported the queue exhausted", k, v)
		}
		p.seq = append(p.seq, v)
		// "Latest returns the maximum timestamp in the queue": every emission
		// was queued, so Latest can never be behind it.
		if l := q.Latest(); v.Timestamp != nil && v.Timestamp.Timestamp > l {
			return p, fmt.Errorf("sync: pull %d: Latest() = %d after Next returned %v with timestamp %d", k, l, v.GetPath(), v.Timestamp.Timestamp)
		}
	}
	return p, nil
}

// newQueue builds a generator from cfg: queue.New on the first split values,
// UpdateQueue.Add for the others (split = len(cfg): New alone). After every
// step Latest() must not be behind any initial timestamp handed over so far:
// the fake client injects the sync marker at Latest(), and the marker has to
// follow the first emission of every configured value.
func (sc *Scenario) newQueue(cfg []*fpb.Value, split int) (*queue.UpdateQueue, error) {
	if split < 0 || split > len(cfg) {
		split = len(cfg)
	}
	q := queue.New(false, sc.Seed, cfg[:split])
	check := func(upto int, after string) error {
		l := q.Latest()
		for i := 0; i < upto; i++ {
			if t := sc.Values[i].t0(); t > l {
				return fmt.Errorf("sync: Latest() = %d after %s, although value %d (%s/%s) is configured with initial timestamp %d: a sync marker injected at Latest() precedes its first emission", l, after, i, sc.Values[i].Kind, sc.Values[i].Dist, t)
			}
		}
		return nil
	}
	if err := check(split, fmt.Sprintf("New with %d values", split)); err != nil {
		return nil, err
	}
	for i := split; i < len(cfg); i++ {
		q.Add(cfg[i])
	}
	if split < len(cfg) {
		if err := check(len(cfg), fmt.Sprintf("New with %d values and Add of the other %d", split, len(cfg)-split)); err != nil {
			return nil, err
		}
	}
	return q, nil
}

func fromQueue(seq []*fpb.Value) ([]em, error) {
	out := make([]em, len(seq))
	for k, v := range seq {
		i := indexOf(v.GetPath())
		if i < 0 {
			return nil, fmt.Errorf("emission %d has path %q which no configured value has", k, v.GetPath())
		}
		if v.Timestamp == nil {
			return nil, fmt.Errorf("emission %d (%v) carries no timestamp", k, v)
		}
		e := em{idx: i, ts: v.Timestamp.Timestamp, val: queue.ValueOf(v)}
		switch v.GetValue().(type) {
		case *fpb.Value_Delete, *fpb.Value_Sync:
			e.noVal = true
		}
		out[k] = e
	}
	return out, nil
}

func fromWire(sent []*gpb.SubscribeResponse) ([]em, error) {
	out := make([]em, 0, len(sent))
	for k, r := range sent {
		switch x := r.GetResponse().(type) {
		case *gpb.SubscribeResponse_SyncResponse:
			out = append(out, em{idx: -1, mark: x.SyncResponse, noVal: true})
		case *gpb.SubscribeResponse_Update:
			n := x.Update
			switch {
			case len(n.GetUpdate()) == 1 && len(n.GetDelete()) == 0:
				u := n.Update[0]
				i := indexOf(u.GetPath().GetElement())
				if i < 0 {
					return nil, fmt.Errorf("response %d has path %v which no configured value has", k, u.GetPath())
				}
				e := em{idx: i, ts: n.Timestamp}
				switch tv := u.GetVal().GetValue().(type) {
				case *gpb.TypedValue_IntVal:
					e.val = tv.IntVal
				case *gpb.TypedValue_UintVal:
					e.val = tv.UintVal
				case *gpb.TypedValue_DoubleVal:
					e.val = tv.DoubleVal
				case *gpb.TypedValue_StringVal:
					e.val = tv.StringVal
				case *gpb.TypedValue_BoolVal:
					e.val = tv.BoolVal
				case *gpb.TypedValue_LeaflistVal:
					l := []string{}
					for _, el := range tv.LeaflistVal.GetElement() {
						l = append(l, el.GetStringVal())
					}
					e.val = l
				default:
					return nil, fmt.Errorf("response %d carries value %v of a type the fake never builds", k, u.GetVal())
				}
				out = append(out, e)
			case len(n.GetUpdate()) == 0 && len(n.GetDelete()) == 1:
				i := indexOf(n.Delete[0].GetElement())
				if i < 0 {
					return nil, fmt.Errorf("response %d deletes path %v which no configured value has", k, n.Delete[0])
				}
				out = append(out, em{idx: i, ts: n.Timestamp, noVal: true})
			default:
				return nil, fmt.Errorf("response %d is neither one update nor one delete: %v", k, r)
			}
		default:
			return nil, fmt.Errorf("response %d is neither an update nor a sync response: %v", k, r)
		}
	}
	return out, nil
}

// inList reports membership of x in the option list of v.
func (v *Val) inList(x any) bool {
	switch v.Kind {
	case KInt:
		for _, o := range v.IOpts {
			if x == any(o) {
				return true
			}
		}
	case KUint:
		for _, o := range v.UOpts {
			if x == any(o) {
				return true
			}
		}
	case KDouble:
		f, ok := x.(float64)
		for _, o := range v.FOpts {
			if ok && f == float64(o) {
				return true
			}
		}
	case KString:
		for _, o := range v.SOpts {
			if x == any(o) {
				return true
			}
		}
	case KBool:
		for _, o := range v.BOpts {
			if x == any(o) {
				return true
			}
		}
	case KStrList:
		// fake.proto: options is "the set of strings which can be used".
		l, ok := x.([]string)
		if !ok {
			return false
		}
		for _, s := range l {
			found := false
			for _, o := range v.SOpts {
				if s == o {
					found = true
					break
				}
			}
			if !found {
				return false
			}
		}
		return true
	}
	return false
}

// inRange reports min <= x <= max for the range of v; the second result tells
// whether x sits on a boundary (saturation exercised).
func (v *Val) inRange(x any) (ok, edge bool) {
	switch v.Kind {
	case KInt:
		i, is := x.(int64)
		return is && i >= v.IMin && i <= v.IMax, is && (i == v.IMin || i == v.IMax)
	case KUint:
		u, is := x.(uint64)
		return is && u >= v.UMin && u <= v.UMax, is && (u == v.UMin || u == v.UMax)
	case KDouble:
		f, is := x.(float64)
		return is && f >= float64(v.FMin) && f <= float64(v.FMax), is && (f == float64(v.FMin) || f == float64(v.FMax))
	}
	return false, false
}

// judge applies the clauses of C20 that speak about one emitted sequence.
//
//	exhausted: the source said there is nothing more (queue returned nil / the
//	           client ended the stream itself); otherwise ems is a prefix.
//	wire:      ems was observed on the subscribe stream (sync responses have no
//	           path, explicit sync values cannot be attributed there).
func (sc *Scenario) judge(ems []em, exhausted, wire bool, st *stats) error {
	where := "queue"
	if wire {
		where = "wire"
	}
	n := len(sc.Values)
	cnt := make([]int, n)
	last := make([]int64, n)
	anyUnbounded := false
	for i := range sc.Values {
		if sc.Values[i].Repeat == 0 {
			anyUnbounded = true
		}
	}

	// --- order -------------------------------------------------------------
	havePrev := false
	var prevTS int64
	var prevK int
	for k, e := range ems {
		if e.idx < 0 {
			continue
		}
		if e.idx >= n {
			return fmt.Errorf("%s: emission %d belongs to value %d, only %d are configured", where, k, e.idx, n)
		}
		if havePrev {
			if e.ts < prevTS {
				return fmt.Errorf("%s: order: emission %d (value %d) has timestamp %d after emission %d with timestamp %d", where, k, e.idx, e.ts, prevK, prevTS)
			}
			st.label("clause-order-checked")
		}
		havePrev, prevTS, prevK = true, e.ts, k
	}

	// --- per value: count, step, range / list ---------------------------------
	// explicit: the configuration contains sync values of its own; on the wire
	// their sync responses cannot be told from the injected marker one by one,
	// the sync clauses for such a stream are in judgeXSync (xsync.go).
	explicit := len(sc.xsyncs()) > 0
	syncSeen := 0
	markAt := -1
	for k, e := range ems {
		if e.idx < 0 {
			syncSeen++
			if e.mark && markAt < 0 {
				markAt = k
			}
			if wire && !sc.DisableSync && !explicit {
				// every sync response is the injected marker
				if syncSeen > 1 {
					return fmt.Errorf("%s: sync: a second sync response at position %d", where, k)
				}
				if !e.mark {
					return fmt.Errorf("%s: sync: sync response at position %d carries false", where, k)
				}
				for i := range sc.Values {
					if cnt[i] == 0 {
						return fmt.Errorf("%s: sync: marker at position %d precedes the first emission of value %d (%s/%s, initial timestamp %d)", where, k, i, sc.Values[i].Kind, sc.Values[i].Dist, sc.Values[i].t0())
					}
				}
				st.label("clause-sync-after-all-first")
				if n > 1 {
					st.label("clause-sync-after-all-first-multi")
				}
			}
			continue
		}
		v := &sc.Values[e.idx]
		cnt[e.idx]++
		c := cnt[e.idx]
		if v.Repeat >= 1 && c > int(v.Repeat) {
			return fmt.Errorf("%s: repeat: value %d (%s/%s repeat %d) emitted a %d-th time at position %d", where, e.idx, v.Kind, v.Dist, v.Repeat, c, k)
		}
		if c > 1 {
			dmin, dmax := v.deltas()
			// (decided without forming e.ts - last in int64: a difference that does
			// not fit must not wrap into the allowed interval)
			if !stepWithin(last[e.idx], e.ts, dmin, dmax) {
				return fmt.Errorf("%s: step: value %d went from timestamp %d to %d (step %s), configured delta [%d,%d]", where, e.idx, last[e.idx], e.ts, bigDiff(e.ts, last[e.idx]), dmin, dmax)
			}
			switch {
			case dmin < dmax:
				st.label("clause-step-random")
			case dmin > 0:
				st.label("clause-step-periodic")
			default:
				st.label("clause-step-zero")
			}
		}
		last[e.idx] = e.ts
		if e.noVal {
			continue
		}
		switch v.Dist {
		case DRange, DDelta:
			// every emission, the first one included: fake.proto requires the
			// initial value to lie inside the range
			ok, edge := v.inRange(e.val)
			if !ok {
				return fmt.Errorf("%s: range: value %d (%s/%s) emitted %v at position %d, outside its range %s", where, e.idx, v.Kind, v.Dist, e.val, k, v.rangeString())
			}
			if c > 1 {
				st.label("clause-range-" + v.Kind + "-" + v.Dist)
				if edge && v.Dist == DDelta {
					st.label("range-saturated")
				}
			}
		case DRot, DRand:
			// The first emission is the configured initial `value`, which for
			// lists "is only used to hold the value as it mutates": it is not
			// a generated value and need not be an option.
			if c == 1 {
				if !v.inList(e.val) {
					st.label("list-initial-not-an-option")
				}
				break
			}
			if !v.inList(e.val) {
				return fmt.Errorf("%s: list: value %d (%s/%s) emitted %v at position %d, not among its options %s", where, e.idx, v.Kind, v.Dist, e.val, k, v.optString())
			}
			st.label("clause-list-" + v.Kind + "-" + v.Dist)
		}
	}

	// --- repeat counts -----------------------------------------------------------
	if exhausted {
		if anyUnbounded {
			for i := range sc.Values {
				if sc.Values[i].Repeat == 0 {
					return fmt.Errorf("%s: repeat: source reported exhaustion after %d emissions although value %d is unbounded (emitted %d times)", where, len(ems), i, cnt[i])
				}
			}
		}
		for i := range sc.Values {
			v := &sc.Values[i]
			if wire && v.Kind == KSync {
				continue
			}
			if cnt[i] != int(v.Repeat) {
				return fmt.Errorf("%s: repeat: value %d (%s/%s) emitted %d times before exhaustion, configured repeat %d", where, i, v.Kind, v.Dist, cnt[i], v.Repeat)
			}
			if v.Repeat > 1 {
				st.label("clause-repeat-exact-many")
			} else {
				st.label("clause-repeat-exact-one")
			}
		}
		st.label("clause-exhausted-then-none")
	} else {
		// ems is a prefix. Sound consequence of order + counts: a value that
		// still has emissions to come cannot be due strictly before the
		// timestamp the stream has already reached.
		if havePrev {
			for i := range sc.Values {
				v := &sc.Values[i]
				if wire && v.Kind == KSync {
					continue
				}
				if v.Repeat >= 1 && cnt[i] >= int(v.Repeat) {
					continue
				}
				_, dmax := v.deltas()
				due := v.t0()
				if cnt[i] > 0 {
					due = addSat(last[i], dmax)
				}
				if due < prevTS {
					return fmt.Errorf("%s: repeat/order: value %d (%s/%s repeat %d) was emitted %d times, its next emission is due by timestamp %d, but the stream already reached %d", where, i, v.Kind, v.Dist, v.Repeat, cnt[i], due, prevTS)
				}
			}
			st.label("clause-prefix-nothing-skipped")
		}
		if anyUnbounded {
			st.label("clause-unbounded-keeps-emitting")
		}
		for i := range sc.Values {
			if v := &sc.Values[i]; v.Repeat > longRepeat && cnt[i] > 1 {
				st.label("clause-long-repeat-keeps-emitting")
			}
		}
	}

	// --- sync marker, summary ------------------------------------------------------
	if wire {
		if sc.DisableSync {
			want, unbounded := 0, false
			for i := range sc.Values {
				if sc.Values[i].Kind == KSync {
					want += int(sc.Values[i].Repeat)
					unbounded = unbounded || sc.Values[i].Repeat == 0
				}
			}
			if !unbounded && syncSeen > want {
				return fmt.Errorf("%s: sync: %d sync responses with disable_sync set and explicit sync values worth %d", where, syncSeen, want)
			}
			if exhausted && syncSeen != want {
				return fmt.Errorf("%s: sync: %d sync responses in a complete stream with disable_sync set, explicit sync values are worth %d", where, syncSeen, want)
			}
			st.label("clause-sync-disabled-none-injected")
		} else if !explicit {
			if exhausted && syncSeen != 1 {
				return fmt.Errorf("%s: sync: complete stream of %d responses carries %d sync markers, want exactly 1", where, len(ems), syncSeen)
			}
			if syncSeen == 0 {
				st.label("sync-not-reached-in-prefix")
			}
			if exhausted {
				st.label("clause-sync-exactly-once")
			}
		}
		if explicit {
			if xerr := sc.judgeXSync(ems, exhausted, where, st); xerr != nil {
				return xerr
			}
		}
	}
	return nil
}

// longRepeat: a bounded repeat count above it is never pulled to its end. Such
// a value is treated like an unbounded one when the number of pulls is chosen
// (a prefix is observed); the clauses are the same - it may not be emitted more
// often than its count, and a source that reports exhaustion before the count
// is reached violates "exactly as many times as its repeat count".
const longRepeat = 1 << 16

// openEnded: the value still has emissions to come when the pulled prefix ends.
func (v *Val) openEnded() bool { return v.Repeat == 0 || v.Repeat > longRepeat }

// addInt64 returns a+b and whether the sum is representable.
func addInt64(a, b int64) (int64, bool) {
	c := a + b
	if (b > 0 && c < a) || (b < 0 && c > a) {
		return 0, false
	}
	return c, true
}

// addSat is a+b, saturating at the int64 limits.
func addSat(a, b int64) int64 {
	c, ok := addInt64(a, b)
	switch {
	case ok:
		return c
	case b > 0:
		return math.MaxInt64
	}
	return math.MinInt64
}

// stepWithin reports prev+dmin <= ts <= prev+dmax over the integers (a bound
// that lies outside int64 is satisfied or violated by every int64 timestamp).
func stepWithin(prev, ts, dmin, dmax int64) bool {
	if lo, ok := addInt64(prev, dmin); ok {
		if ts < lo {
			return false
		}
	} else if dmin > 0 {
		return false // the lower bound lies above MaxInt64
	}
	if hi, ok := addInt64(prev, dmax); ok {
		if ts > hi {
			return false
		}
	} else if dmax < 0 {
		return false // the upper bound lies below MinInt64
	}
	return true
}

// bigDiff is a-b over the integers, for messages.
func bigDiff(a, b int64) string {
	return new(mbig.Int).Sub(mbig.NewInt(a), mbig.NewInt(b)).String()
}

func (v *Val) rangeString() string {
	switch v.Kind {
	case KInt:
		return fmt.Sprintf("[%d,%d] delta [%d,%d]", v.IMin, v.IMax, v.IDMin, v.IDMax)
	case KUint:
		return fmt.Sprintf("[%d,%d] delta [%d,%d]", v.UMin, v.UMax, v.IDMin, v.IDMax)
	case KDouble:
		return fmt.Sprintf("[%v,%v] delta [%v,%v]", float64(v.FMin), float64(v.FMax), float64(v.FDMin), float64(v.FDMax))
	}
	return "?"
}

func (v *Val) optString() string {
	switch v.Kind {
	case KInt:
		return fmt.Sprint(v.IOpts)
	case KUint:
		return fmt.Sprint(v.UOpts)
	case KDouble:
		return fmt.Sprint(dbls(v.FOpts))
	case KString, KStrList:
		return fmt.Sprintf("%q", v.SOpts)
	case KBool:
		return fmt.Sprint(v.BOpts)
	}
	return "?"
}

// overlapOf evaluates "overlapping timestamps" on what was emitted: two
// different values whose emission intervals [first,last] intersect; collide
// reports two different values emitted at one and the same timestamp.
func overlapOf(ems []em, n int) (overlap, collide, interleaved bool) {
	lo, hi, seen := make([]int64, n), make([]int64, n), make([]bool, n)
	for _, e := range ems {
		if e.idx < 0 || e.idx >= n {
			continue
		}
		if !seen[e.idx] {
			seen[e.idx], lo[e.idx], hi[e.idx] = true, e.ts, e.ts
		}
		if e.ts > hi[e.idx] {
			hi[e.idx] = e.ts
		}
	}
	for a := 0; a < n; a++ {
		for b := a + 1; b < n; b++ {
			if seen[a] && seen[b] && lo[a] <= hi[b] && lo[b] <= hi[a] {
				overlap = true
			}
		}
	}
	for k := 1; k < len(ems); k++ {
		if ems[k].idx >= 0 && ems[k-1].idx >= 0 && ems[k].idx != ems[k-1].idx && ems[k].ts == ems[k-1].ts {
			collide = true
		}
	}
	// a ... b ... a
	// (an earlier emission of the same value that is not the directly preceding
	// one; linear: large configurations emit thousands of updates)
	before := make([]bool, n)
	for k := 0; k < len(ems) && !interleaved; k++ {
		i := ems[k].idx
		if i < 0 || i >= n {
			continue
		}
		if k >= 2 && before[i] && ems[k-1].idx != i {
			interleaved = true
		}
		before[i] = true
	}
	return
}

func normalised(v *fpb.Value) *fpb.Value {
	c := proto.Clone(v).(*fpb.Value)
	if c.Timestamp == nil {
		// the generator fills in an empty block for an unset one; a generator
		// built afterwards behaves the same for both
		c.Timestamp = &fpb.Timestamp{}
	}
	return c
}

func sameSeq(a, b pulled) error {
	if len(a.seq) != len(b.seq) || a.exhausted != b.exhausted {
		return fmt.Errorf("%d emissions (exhausted=%v) versus %d emissions (exhausted=%v)", len(a.seq), a.exhausted, len(b.seq), b.exhausted)
	}
	for k := range a.seq {
		if !proto.Equal(a.seq[k], b.seq[k]) {
			return fmt.Errorf("emission %d differs: %v versus %v", k, a.seq[k], b.seq[k])
		}
	}
	return nil
}

// run executes one scenario. It must be called inside a synctest bubble: the
// generator seeds itself from time.Now() when no seed is configured, and only
// the bubble's virtual clock makes such a case replayable.
func run(sc *Scenario) (st *stats, err error) {
	st = &stats{}
	defer func() {
		if r := recover(); r != nil {
			err = fmt.Errorf("panic: %v", r)
		}
	}()
	n := len(sc.Values)
	if n == 0 {
		return st, nil
	}

	// ---- classification of the input -----------------------------------------
	docOK, rejectable := true, false
	sumBounded, anyUnbounded := 0, false
	kinds := map[string]bool{}
	for i := range sc.Values {
		v := &sc.Values[i]
		st.label("kind-" + v.Kind + "-" + v.Dist)
		kinds[v.Kind] = true
		if v.docInvalid() != "" {
			docOK = false
		}
		if v.codeRejectable() != "" {
			rejectable = true
		}
		switch {
		case v.Repeat >= 1 && !v.openEnded():
			sumBounded += int(v.Repeat)
			if v.Repeat > 1 {
				st.boundedMany = true
			}
		default:
			// unbounded, or a repeat count too long to be pulled to its end: the
			// pulls below observe a prefix
			anyUnbounded = true
		}
		if v.TS == nil {
			st.label("timestamp-unset")
		}
		if v.Seed != 0 {
			st.label("seed-per-value")
		} else {
			st.label("seed-shared")
		}
	}
	if sc.Target != "" {
		st.label("subscription-names-target")
	}
	if sc.Seed != 0 {
		st.label("seed-global-set")
	} else {
		st.label("seed-global-zero")
	}
	st.nValues, st.nKinds = n, len(kinds)
	budget := sumBounded + sc.Extra
	if budget >= longRepeat {
		return st, fmt.Errorf("harness: %d pulls planned, a value with a repeat count just above %d could end within them", budget, longRepeat)
	}
	if !docOK || rejectable {
		st.label("input-hostile")
	}

	// ---- generator A ------------------------------------------------------------
	pristine := sc.buildValues()
	cfgA := sc.buildValues()
	qA, verr := sc.newQueue(cfgA, n)
	if verr != nil {
		return st, fmt.Errorf("queue: %v", verr)
	}
	a, verr := pull(qA, budget)
	if verr != nil {
		return st, fmt.Errorf("queue: %v", verr)
	}
	if a.err != nil {
		// Rejected. That is clean iff some value really violates a precondition.
		if !rejectable {
			return st, fmt.Errorf("queue: Next failed with %q after %d emissions although every value satisfies every documented and every checked precondition", a.err, len(a.seq))
		}
		st.label("rejected-cleanly")
		// the agent must survive the same configuration
		if _, _, werr := sc.runClient(budget + 2); werr != nil {
			return st, werr
		}
		return st, nil
	}
	if !docOK {
		// accepted although a documented precondition is violated (a value with
		// repeat 1 is never examined): nothing is promised about the stream.
		st.label("invalid-but-accepted-unjudged")
		if _, _, werr := sc.runClient(budget + 2); werr != nil {
			return st, werr
		}
		return st, nil
	}
	st.judged = true
	if rejectable {
		st.label("rejectable-value-never-advanced")
	}
	emsA, cerr := fromQueue(a.seq)
	if cerr != nil {
		return st, fmt.Errorf("queue: %v", cerr)
	}
	if !anyUnbounded && !a.exhausted {
		// budget > sum of repeats, so some value is over its count; judge names it
		st.label("bounded-not-exhausted")
	}
	if anyUnbounded && len(a.seq) != budget {
		return st, fmt.Errorf("queue: repeat: %d pulls yielded %d emissions although a value that is unbounded (or has a repeat count above %d) is configured", budget, len(a.seq), longRepeat)
	}
	if jerr := sc.judge(emsA, a.exhausted, false, st); jerr != nil {
		return st, jerr
	}
	sc.shapeLabels(emsA, st)
	sc.edgeLabels(st)
	sc.numericLabels(emsA, st)
	ov, col, inter := overlapOf(emsA, n)
	st.overlap = ov
	if ov {
		st.label("timestamps-overlap")
	}
	if col {
		st.label("equal-timestamp-different-values")
	}
	if inter {
		st.label("interleaved")
	}
	if anyUnbounded {
		st.label("some-unbounded")
	} else {
		st.label("all-bounded")
	}

	// ---- caller's configuration unchanged (structure) ------------------------------
	for i := range cfgA {
		if !proto.Equal(normalised(cfgA[i]), normalised(pristine[i])) {
			return st, fmt.Errorf("config: value %d of the caller's configuration was changed by the generator: now %v, was %v", i, cfgA[i], pristine[i])
		}
	}
	st.label("clause-config-structurally-unchanged")

	// ---- same configuration, same seed ------------------------------------------------
	// Let the (virtual) clock move so that a generator that seeds itself from
	// the clock gets a different seed each time.
	time.Sleep(time.Nanosecond)
	cfgB := sc.buildValues()
	for i := range cfgB {
		if !proto.Equal(cfgB[i], pristine[i]) {
			return st, fmt.Errorf("harness: rebuilt configuration differs at value %d", i)
		}
	}
	b, verr := pull(queue.New(false, sc.Seed, cfgB), budget)
	if verr != nil {
		return st, fmt.Errorf("queue (second generator): %v", verr)
	}
	if b.err != nil && rejectable && !sc.seededDeterministically() {
		// a clock-seeded configuration with a value that is rejected once it is advanced: whether a run gets that
		// far within the budget depends on the deltas it draws - this run did, the first did not
		st.label("rejectable-value-advanced-in-a-later-clock-seeded-run")
		return st, nil
	}
	if b.err != nil {
		return st, fmt.Errorf("reproducible: second generator from an equal configuration failed with %q, the first did not", b.err)
	}
	det := sc.seededDeterministically()
	if det {
		if derr := sameSeq(a, b); derr != nil {
			return st, fmt.Errorf("reproducible: two generators from equal configurations (global seed %d, every value seeded) disagree: %v", sc.Seed, derr)
		}
		if sc.Seed != 0 {
			st.label("clause-reproducible-global-seed")
		} else {
			st.label("clause-reproducible-per-value-seeds-only")
		}
	} else {
		st.label("clock-seeded-not-compared")
		if sameSeq(a, b) != nil {
			st.label("clock-seeded-runs-differ")
		}
	}

	// ---- caller's configuration unchanged (behaviour) -------------------------------
	time.Sleep(time.Nanosecond)
	c, verr := pull(queue.New(false, sc.Seed, cfgA), budget)
	if verr != nil {
		return st, fmt.Errorf("queue (generator on the reused configuration): %v", verr)
	}
	if c.err != nil && rejectable && !sc.seededDeterministically() {
		st.label("rejectable-value-advanced-in-a-later-clock-seeded-run")
		return st, nil
	}
	if c.err != nil {
		return st, fmt.Errorf("config: a second generator built from the caller's configuration object failed with %q, the first did not", c.err)
	}
	if det {
		if derr := sameSeq(a, c); derr != nil {
			return st, fmt.Errorf("config: a second generator built from the same configuration object emits a different sequence: %v", derr)
		}
		st.label("clause-config-reuse-same-stream")
	}

	// ---- New on a part of the configuration, Add for the rest ----------------------------
	if sc.Split >= 1 && sc.Split < n {
		time.Sleep(time.Nanosecond)
		qD, verr := sc.newQueue(sc.buildValues(), sc.Split)
		if verr != nil {
			return st, fmt.Errorf("queue: %v (New %d values + Add %d)", verr, sc.Split, n-sc.Split)
		}
		d, verr := pull(qD, budget)
		if verr != nil {
			return st, fmt.Errorf("queue: %v (New %d values + Add %d)", verr, sc.Split, n-sc.Split)
		}
		if d.err != nil {
			return st, fmt.Errorf("queue (New %d values + Add %d): Next failed with %q, it did not when New was given the whole configuration", sc.Split, n-sc.Split, d.err)
		}
		emsD, cerr := fromQueue(d.seq)
		if cerr != nil {
			return st, fmt.Errorf("queue: %v (New %d values + Add %d)", cerr, sc.Split, n-sc.Split)
		}
		if anyUnbounded && len(d.seq) != budget {
			return st, fmt.Errorf("queue: repeat: (New %d values + Add %d) %d pulls yielded %d emissions although an unbounded value is configured", sc.Split, n-sc.Split, budget, len(d.seq))
		}
		if jerr := sc.judge(emsD, d.exhausted, false, st); jerr != nil {
			return st, fmt.Errorf("%v (generator built by New from the first %d values and Add for the other %d)", jerr, sc.Split, n-sc.Split)
		}
		st.label("clause-all-on-new-plus-add")
	}

	// ---- the agent's client on an in-memory stream -------------------------------------
	// The client calls Next once more than the stream accepts responses; keep
	// that at or below the number of pulls made above, so that whatever the
	// generator does is seen at the queue first, with its error text.
	limit := budget + 3
	if anyUnbounded {
		limit = budget - 1
	}
	sent, ended, werr := sc.runClient(limit)
	if werr != nil {
		return st, werr
	}
	emsW, cerr := fromWire(sent)
	if cerr != nil {
		return st, fmt.Errorf("wire: %v", cerr)
	}
	if anyUnbounded && ended {
		return st, fmt.Errorf("wire: repeat: the client ended the stream after %d responses although an unbounded value is configured", len(sent))
	}
	if jerr := sc.judge(emsW, ended, true, st); jerr != nil {
		return st, jerr
	}
	st.wire, st.wireLimit, st.det = sent, limit, det
	sc.cfgLabels(st)
	sc.xsyncLabels(st)
	if det {
		// ---- same configuration, same seed, observed at the target ---------------------
		// The Client's generator and the generator built above by queue.New are
		// built from the same values and the same non-zero seed(s): apart from
		// the sync responses (the marker, explicit sync values) the Client must
		// send what Next returned, emission for emission.
		if derr := sameStream(emsW, emsA, sc); derr != nil {
			return st, fmt.Errorf("wire: reproducible: the Client's stream is not what queue.New(false, %d, values) emits for the same values and seeds: %v%s", sc.Seed, derr, sc.cfgNote())
		}
		st.label("clause-reproducible-client-equals-queue")
		if len(sc.xsyncs()) > 0 {
			// ... and with the sync responses left in: the explicit sync values at
			// the positions the generator gives them, plus the one injected marker
			if derr := sameStreamWithSyncs(emsW, emsA, sc, ended, a.exhausted, st); derr != nil {
				return st, fmt.Errorf("wire: sync: reproducible: %v (%s)%s", derr, sc.xsyncString(sc.xsyncs(), sc.latestInitial()), sc.cfgNote())
			}
		}
	}
	if det && sc.Cfg != nil && sc.Cfg.Gen != GenUnset {
		// A second Client on a deep-equal Config, a moment later on the
		// (virtual) clock. (Only where the Config carries a generator message:
		// for a plain Config the comparison above says as much, and a Client run
		// is the expensive part of a case.)
		time.Sleep(time.Nanosecond)
		sent2, ended2, werr := sc.runClient(limit)
		if werr != nil {
			return st, werr
		}
		if len(sent2) != len(sent) || ended2 != ended {
			return st, fmt.Errorf("wire: reproducible: two Clients on deep-equal configurations (global seed %d, every value seeded) sent %d responses (ended=%v) and %d responses (ended=%v)%s", sc.Seed, len(sent), ended, len(sent2), ended2, sc.cfgNote())
		}
		for k := range sent {
			if !proto.Equal(sent[k], sent2[k]) {
				return st, fmt.Errorf("wire: reproducible: two Clients on deep-equal configurations (global seed %d, every value seeded) disagree at response %d: %v versus %v%s", sc.Seed, k, sent[k], sent2[k], sc.cfgNote())
			}
		}
		st.label("clause-reproducible-client-twice")
	}
	return st, nil
}

// sameVal compares two emitted values (NaN equals NaN; an empty string list
// equals an absent one, the wire does not tell them apart).
func sameVal(a, b any) bool {
	switch x := a.(type) {
	case float64:
		y, ok := b.(float64)
		return ok && (x == y && math.Signbit(x) == math.Signbit(y) || x != x && y != y)
	case []string:
		y, ok := b.([]string)
		if !ok || len(x) != len(y) {
			return false
		}
		for i := range x {
			if x[i] != y[i] {
				return false
			}
		}
		return true
	}
	return a == b
}

// sameStream compares what a Client sent (wire) with what a generator built
// by queue.New returned (q), both reduced to (value, timestamp, payload);
// sync responses cannot be attributed on the wire and are left out on both
// sides. The shorter of the two is a prefix of the other's length.
func sameStream(wire, q []em, sc *Scenario) error {
	var w, g []em
	for _, e := range wire {
		if e.idx >= 0 {
			w = append(w, e)
		}
	}
	for _, e := range q {
		if e.idx >= 0 && e.idx < len(sc.Values) && sc.Values[e.idx].Kind != KSync {
			g = append(g, e)
		}
	}
	n := len(w)
	if len(g) < n {
		n = len(g)
	}
	for k := 0; k < n; k++ {
		a, b := w[k], g[k]
		if a.idx != b.idx || a.ts != b.ts || a.noVal != b.noVal || (!a.noVal && !sameVal(a.val, b.val)) {
			return fmt.Errorf("update %d is value %d at timestamp %d carrying %v on the wire, value %d at timestamp %d carrying %v from the queue", k, a.idx, a.ts, a.val, b.idx, b.ts, b.val)
		}
	}
	return nil
}

// runClient runs the fake agent's per-subscription Client over an in-memory
// stream that accepts limit responses. ended: Run returned without the stream
// having refused a response (the schedule completed).
func (sc *Scenario) runClient(limit int) (sent []*gpb.SubscribeResponse, ended bool, err error) {
	cfg := sc.buildConfig(false)
	ctx, cancel := context.WithCancel(context.Background())
	defer cancel()
	sub := &gpb.SubscriptionList{}
	if sc.Target != "" {
		sub.Prefix = &gpb.Path{Target: sc.Target}
	}
	s := &memStream{ctx: ctx, limit: limit, first: &gpb.SubscribeRequest{Request: &gpb.SubscribeRequest_Subscribe{Subscribe: sub}}}
	cl := fgnmi.NewClient(cfg)
	rerr := cl.Run(s)
	// release the client's receive goroutine and wait until it is gone
	cancel()
	synctest.Wait()
	if rerr != nil {
		return nil, false, fmt.Errorf("wire: Client.Run failed: %v", rerr)
	}
	s.mu.Lock()
	defer s.mu.Unlock()
	return s.sent, !s.cut, nil
}
