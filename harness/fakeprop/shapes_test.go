package fakeprop

import (
	"testing"

	"pgregory.net/rapid"
	"verif/harness/internal/vstat"
)

// The "shapes" part generalises SIZE and SHAPE of the configuration. The
// "random" part draws 1-8 values whose timestamps sit within a few units of
// one base; here a configuration has 1-300 values (most cases stay small; sizes
// are sampled around 16, 32, 64, 128 and 256, where implementations like to
// change strategy), laid out on the time axis in one of several ways (all on
// one timestamp, a few shared timestamps, staggered and listed ascending /
// descending / shuffled / in shuffled blocks, dense and sparse random), with a
// pool of cadences of very different lengths (zero, short periods, periods and
// jitter comparable to the whole initial spread, wide), repeat counts up to
// 40, option lists up to 24 entries. Besides queue.New/Next/Latest and the
// in-memory Client of the "random" part, a case may ask for a generator built
// by New + Add and for the stream a real Agent serves over gRPC. The oracles
// are the same trace predicates (run.go: judge).

func genSize(t *rapid.T) int {
	switch rapid.SampledFrom([]int{0, 0, 0, 0, 0, 0, 0, 1, 1, 1, 2, 2, 3}).Draw(t, "size-class") {
	case 0:
		return rapid.IntRange(1, 8).Draw(t, "n-small")
	case 1:
		if rapid.Bool().Draw(t, "n-near") {
			return rapid.SampledFrom([]int{15, 16, 17, 18, 19, 20, 24, 31, 32, 33, 34}).Draw(t, "n-medium-near")
		}
		return rapid.IntRange(9, 40).Draw(t, "n-medium")
	case 2:
		if rapid.Bool().Draw(t, "n-near") {
			return rapid.SampledFrom([]int{48, 62, 63, 64, 65, 66, 80, 96, 100}).Draw(t, "n-large-near")
		}
		return rapid.IntRange(41, 100).Draw(t, "n-large")
	}
	if rapid.Bool().Draw(t, "n-near") {
		return rapid.SampledFrom([]int{127, 128, 129, 130, 200, 255, 256, 257, 300}).Draw(t, "n-huge-near")
	}
	return rapid.IntRange(101, 300).Draw(t, "n-huge")
}

// genLayout draws the initial timestamps of n values (in configuration order)
// and returns the spread (largest minus smallest).
func genLayout(t *rapid.T, n int, base int64) (ts []int64, name string, spread int64) {
	ts = make([]int64, n)
	stride := rapid.SampledFrom([]int64{1, 1, 2, 5, 10, 37, 1000}).Draw(t, "stride")
	name = rapid.SampledFrom([]string{"shuffled", "desc", "asc", "blocks", "dense", "sparse", "few", "same"}).Draw(t, "layout")
	idx := make([]int, n)
	for i := range idx {
		idx[i] = i
	}
	switch name {
	case "same":
	case "few":
		k := rapid.Int64Range(2, 4).Draw(t, "few-k")
		for i := range ts {
			ts[i] = rapid.Int64Range(0, k-1).Draw(t, "few-slot") * stride
		}
	case "asc":
		for i := range ts {
			ts[i] = int64(i) * stride
		}
	case "desc":
		for i := range ts {
			ts[i] = int64(n-1-i) * stride
		}
	case "shuffled":
		perm := rapid.Permutation(idx).Draw(t, "perm")
		for i := range ts {
			ts[i] = int64(perm[i]) * stride
		}
	case "blocks":
		g := rapid.IntRange(2, 8).Draw(t, "block")
		nb := (n + g - 1) / g
		perm := rapid.Permutation(idx[:nb]).Draw(t, "block-perm")
		for i := range ts {
			ts[i] = int64(perm[i/g]) * stride
		}
	case "dense":
		for i := range ts {
			ts[i] = rapid.Int64Range(0, int64(n)).Draw(t, "dense-t")
		}
	case "sparse":
		for i := range ts {
			ts[i] = rapid.Int64Range(0, int64(n)*stride*4).Draw(t, "sparse-t")
		}
	}
	for i := range ts {
		if ts[i] > spread {
			spread = ts[i]
		}
		ts[i] += base
	}
	return ts, name, spread
}

type cadence struct{ dmin, dmax int64 }

func genCadence(t *rapid.T, spread int64) cadence {
	switch rapid.SampledFrom([]int{0, 1, 1, 2, 2, 2, 3, 3, 4, 4, 5}).Draw(t, "cadence-shape") {
	case 0:
		return cadence{}
	case 1:
		p := rapid.Int64Range(1, 4).Draw(t, "period")
		return cadence{p, p}
	case 2: // a period comparable to the initial spread: re-queued in the middle of the others
		p := rapid.Int64Range(1, 2*spread+2).Draw(t, "period-rel")
		return cadence{p, p}
	case 3:
		lo := rapid.Int64Range(0, 3).Draw(t, "dmin")
		return cadence{lo, lo + rapid.Int64Range(1, 4).Draw(t, "dspan")}
	case 4:
		lo := rapid.Int64Range(0, spread+1).Draw(t, "dmin-rel")
		return cadence{lo, lo + rapid.Int64Range(1, spread+1).Draw(t, "dspan-rel")}
	}
	lo := rapid.Int64Range(0, big).Draw(t, "dmin-wide")
	return cadence{lo, rapid.Int64Range(lo, big).Draw(t, "dmax-wide")}
}

func genShapedRepeat(t *rapid.T, n int) int32 {
	if n <= 8 {
		switch rapid.SampledFrom([]int{0, 1, 1, 2, 2, 2, 2, 3}).Draw(t, "repeat-shape") {
		case 0:
			return 0
		case 1:
			return 1
		case 2:
			return int32(rapid.IntRange(2, 6).Draw(t, "repeat"))
		}
		return int32(rapid.IntRange(7, 40).Draw(t, "repeat-long"))
	}
	switch rapid.SampledFrom([]int{1, 1, 1, 1, 2, 2, 2, 0, 3}).Draw(t, "repeat-shape") {
	case 0:
		return 0
	case 1:
		return 1
	case 2:
		return int32(rapid.IntRange(2, 4).Draw(t, "repeat"))
	}
	return int32(rapid.IntRange(5, 12).Draw(t, "repeat-long"))
}

func genShaped(t *rapid.T) *Scenario {
	sc := &Scenario{}
	sc.Seed = genSeed(t, "seed")
	sc.DisableSync = rapid.IntRange(0, 3).Draw(t, "disable-sync") == 0
	sc.Target = rapid.SampledFrom([]string{"", "", "dev"}).Draw(t, "target")
	env := genEnv{disableSync: sc.DisableSync, longLists: true}
	env.hostile = rapid.IntRange(0, 15).Draw(t, "hostile") == 0
	env.base = rapid.SampledFrom([]int64{0, 0, 3, 1000, big / 2}).Draw(t, "base")
	n := genSize(t)
	if n <= 8 {
		sc.Extra = rapid.IntRange(2, 24).Draw(t, "extra")
	} else {
		hi := 4 * n
		if hi > 600 {
			hi = 600
		}
		sc.Extra = rapid.IntRange(2, hi).Draw(t, "extra-scaled")
	}
	ts, layout, spread := genLayout(t, n, env.base)
	sc.Shape = layout
	pool := rapid.SliceOfN(rapid.Custom(func(t *rapid.T) cadence { return genCadence(t, spread) }), 1, 6).Draw(t, "cadences")
	negOnce := rapid.IntRange(0, 19).Draw(t, "allow-negative-once") == 0

	// payloads: drawn per value for up to 24 values, from up to 8 templates beyond
	var templates []Val
	if n > 24 {
		templates = rapid.SliceOfN(rapid.Custom(func(t *rapid.T) Val { return genValWith(t, env, func(*Val) {}) }), 1, 8).Draw(t, "templates")
	}
	sc.Values = make([]Val, n)
	for i := 0; i < n; i++ {
		var v Val
		if templates != nil {
			v = templates[rapid.IntRange(0, len(templates)-1).Draw(t, "template")]
		} else {
			v = genValWith(t, env, func(*Val) {})
		}
		if v.Repeat >= 0 { // (a hostile payload may carry a negative repeat: keep it)
			v.Repeat = genShapedRepeat(t, n)
		}
		v.Seed = genSeed(t, "vseed")
		switch {
		case v.TS != nil:
			// a hostile payload brought its own broken timestamp block
			c := *v.TS
			if c.T == 0 {
				c.T = ts[i]
			}
			v.TS = &c
		case rapid.IntRange(0, 15).Draw(t, "ts-unset") == 0:
		default:
			c := pool[rapid.IntRange(0, len(pool)-1).Draw(t, "cadence")]
			v.TS = &TS{T: ts[i], DMin: c.dmin, DMax: c.dmax}
			if negOnce && v.Repeat == 1 && rapid.IntRange(0, 7).Draw(t, "t-neg") == 0 {
				// a value emitted once is never advanced; its timestamp may be anything
				v.TS.T = -rapid.Int64Range(1, big).Draw(t, "t-negative")
			}
		}
		sc.Values[i] = v
	}
	if n >= 2 && rapid.IntRange(0, 2).Draw(t, "split") == 0 {
		switch rapid.IntRange(0, 3).Draw(t, "split-how") {
		case 0:
			sc.Split = 1
		case 1:
			sc.Split = n - 1
		default:
			sc.Split = rapid.IntRange(1, n-1).Draw(t, "split-at")
		}
	}
	if rapid.IntRange(0, 7).Draw(t, "agent") == 0 {
		sc.Agent = true
		if sc.Seed == 0 {
			sc.Seed = rapid.Int64Range(1, 1000).Draw(t, "agent-seed")
		}
	}
	return sc
}

// TestC20Shapes: configurations of generalised size and shape.
func TestC20Shapes(t *testing.T) {
	if !vstat.Enabled("C20") {
		t.Skip()
	}
	rec := vstat.New("C20", "shapes")
	rec.RunRapid(t, func(rt *rapid.T) {
		sc := genShaped(rt)
		rec.Current(sc)
		st, err := runCase(t, sc)
		rec.Case(sc, st.nontrivial(), append(st.labelList(), "layout-"+sc.Shape)...)
		if err != nil {
			rt.Fatalf("%s", rec.Fail(sc, classOf(err), "%v", err))
		}
	})
}
