package fakeprop

import (
	"testing"

	"pgregory.net/rapid"
	"verif/harness/internal/vstat"
)

// The "shapes" part generalises SIZE and SHAPE of the configuration. The
// "random" part draws 1-8 values whose timestamps sit within a few units of
// one base; here a configuration has 1-300 values (most cases stay small; sizes
// are sampled around 16, 32, 64, 128 and 256, where implementations like to
// change strategy), laid out on the time axis in one of several ways (all on
// one timestamp, a few shared timestamps, staggered and listed ascending /
// descending / shuffled / in shuffled blocks, dense and sparse random), with a
// pool of cadences of very different lengths (zero, short periods, periods and
// jitter comparable to the whole initial spread, wide), repeat counts up to
// 40, option lists up to 24 entries. Besides queue.New/Next/Latest and the
// in-memory Client of the "random" part, a case may ask for a generator built
// by New + Add and for the stream a real Agent serves over gRPC. The oracles
// are the same trace predicates (run.go: judge).

// genSize: three draws whatever the outcome, so that a smaller size does not
// re-interpret the draws that follow (shrinking).
func genSize(t *rapid.T) int {
	class := rapid.SampledFrom([]int{0, 0, 0, 0, 0, 0, 0, 1, 1, 1, 2, 2, 3}).Draw(t, "size-class")
	near := rapid.Bool().Draw(t, "size-near")
	switch class {
	case 0:
		return rapid.IntRange(1, 8).Draw(t, "n")
	case 1:
		if near {
			return rapid.SampledFrom([]int{15, 16, 17, 18, 19, 20, 24, 31, 32, 33, 34}).Draw(t, "n")
		}
		return rapid.IntRange(9, 40).Draw(t, "n")
	case 2:
		if near {
			return rapid.SampledFrom([]int{48, 62, 63, 64, 65, 66, 80, 96, 100}).Draw(t, "n")
		}
		return rapid.IntRange(41, 100).Draw(t, "n")
	}
	if near {
		return rapid.SampledFrom([]int{127, 128, 129, 130, 200, 255, 256, 257, 300}).Draw(t, "n")
	}
	return rapid.IntRange(101, 300).Draw(t, "n")
}

const maxValues = 300

// layout places the initial timestamps of the values on the time axis. Whatever
// has to be drawn for the configuration as a whole is drawn by genLayout, with
// a number of draws that does not depend on the number of values; at() makes
// the per-value draws.
type layout struct {
	name   string
	n      int
	base   int64
	stride int64
	perm   []int // shuffled, blocks: a permutation of 0..maxValues-1
	block  int   // blocks: values per block
	few    int64 // few: number of shared timestamps
	spread int64 // upper bound of (largest - smallest) initial timestamp
}

func genLayout(t *rapid.T, n int, base int64) *layout {
	l := &layout{n: n, base: base}
	l.stride = rapid.SampledFrom([]int64{1, 1, 2, 5, 10, 37, 1000}).Draw(t, "stride")
	l.name = rapid.SampledFrom([]string{"shuffled", "desc", "asc", "blocks", "dense", "sparse", "few", "same"}).Draw(t, "layout")
	l.spread = int64(n-1) * l.stride
	switch l.name {
	case "same":
		l.spread = 0
	case "few":
		l.few = rapid.Int64Range(2, 4).Draw(t, "few-k")
		l.spread = (l.few - 1) * l.stride
	case "shuffled", "blocks":
		if l.name == "blocks" {
			l.block = rapid.IntRange(2, 8).Draw(t, "block")
		} else {
			l.block = 1
		}
		idx := make([]int, maxValues)
		for i := range idx {
			idx[i] = i
		}
		p := rapid.Permutation(idx).Draw(t, "perm")
		// keep the first ceil(n/block) entries and replace them by their ranks:
		// a permutation of 0..nb-1
		nb := (n + l.block - 1) / l.block
		l.perm = make([]int, nb)
		for i := 0; i < nb; i++ {
			for j := 0; j < nb; j++ {
				if p[j] < p[i] {
					l.perm[i]++
				}
			}
		}
	case "sparse":
		l.spread = int64(n) * l.stride * 4
	}
	return l
}

func (l *layout) at(t *rapid.T, i int) int64 {
	var off int64
	switch l.name {
	case "few":
		off = rapid.Int64Range(0, l.few-1).Draw(t, "few-slot") * l.stride
	case "asc":
		off = int64(i) * l.stride
	case "desc":
		off = int64(l.n-1-i) * l.stride
	case "shuffled", "blocks":
		off = int64(l.perm[i/l.block]) * l.stride
	case "dense":
		off = rapid.Int64Range(0, int64(l.n-1)).Draw(t, "dense-slot") * l.stride
	case "sparse":
		off = rapid.Int64Range(0, l.spread).Draw(t, "sparse-t")
	}
	return l.base + off
}

type cadence struct{ dmin, dmax int64 }

// genCadence draws the timestamp step bounds shared by some of the values.
// Steps comparable to the distance between neighbouring initial timestamps
// (stride) or to their whole spread put a re-queued value in the middle of the
// pending ones; jitter spreads values that start on one timestamp.
func genCadence(t *rapid.T, stride, spread int64) cadence {
	switch rapid.SampledFrom([]int{6, 7, 2, 4, 1, 3, 7, 6, 0, 5}).Draw(t, "cadence-shape") {
	case 0:
		return cadence{}
	case 1:
		p := rapid.Int64Range(1, 4).Draw(t, "period")
		return cadence{p, p}
	case 2:
		p := rapid.Int64Range(1, 2*spread+2).Draw(t, "period-spread")
		return cadence{p, p}
	case 3:
		lo := rapid.Int64Range(0, 3).Draw(t, "dmin")
		return cadence{lo, lo + rapid.Int64Range(1, 4).Draw(t, "dspan")}
	case 4:
		lo := rapid.Int64Range(0, spread+1).Draw(t, "dmin-spread")
		return cadence{lo, lo + rapid.Int64Range(1, spread+1).Draw(t, "dspan-spread")}
	case 5:
		lo := rapid.Int64Range(0, big).Draw(t, "dmin-wide")
		return cadence{lo, rapid.Int64Range(lo, big).Draw(t, "dmax-wide")}
	case 6:
		p := rapid.Int64Range(1, 40*stride).Draw(t, "period-stride")
		return cadence{p, p}
	}
	lo := rapid.Int64Range(0, 10*stride).Draw(t, "dmin-stride")
	return cadence{lo, lo + rapid.Int64Range(1, 40*stride).Draw(t, "dspan-stride")}
}

func genShapedRepeat(t *rapid.T, n int) int32 {
	if n <= 8 {
		switch rapid.SampledFrom([]int{0, 1, 1, 2, 2, 2, 2, 3}).Draw(t, "repeat-shape") {
		case 0:
			return 0
		case 1:
			return 1
		case 2:
			return int32(rapid.IntRange(2, 6).Draw(t, "repeat"))
		}
		return int32(rapid.IntRange(7, 40).Draw(t, "repeat-long"))
	}
	switch rapid.SampledFrom([]int{1, 1, 1, 1, 2, 2, 2, 0, 3}).Draw(t, "repeat-shape") {
	case 0:
		return 0
	case 1:
		return 1
	case 2:
		return int32(rapid.IntRange(2, 4).Draw(t, "repeat"))
	}
	return int32(rapid.IntRange(5, 12).Draw(t, "repeat-long"))
}

func genShaped(t *rapid.T) *Scenario {
	sc := &Scenario{}
	sc.Seed = genSeed(t, "seed")
	sc.DisableSync = rapid.IntRange(0, 3).Draw(t, "disable-sync") == 0
	sc.Target = rapid.SampledFrom([]string{"", "", "dev"}).Draw(t, "target")
	env := genEnv{disableSync: sc.DisableSync, longLists: true}
	env.hostile = rapid.IntRange(0, 15).Draw(t, "hostile") == 0
	env.base = rapid.SampledFrom([]int64{0, 0, 3, 1000, big / 2}).Draw(t, "base")
	n := genSize(t)
	// length of the prefix pulled beyond the bounded repeats: up to 24, for
	// larger configurations plus a multiple of the number of values
	sc.Extra = rapid.IntRange(2, 24).Draw(t, "extra")
	if k := rapid.SampledFrom([]int{1, 0, 3, 6}).Draw(t, "extra-per-value"); n > 8 {
		more := k * n
		if more > 600 {
			more = 600
		}
		sc.Extra += more
	}
	splitHow := rapid.SampledFrom([]int{0, 0, 0, 0, 3, 1, 2}).Draw(t, "split-how")
	splitAt := rapid.IntRange(0, 999).Draw(t, "split-permille")
	if n >= 2 {
		switch splitHow {
		case 1:
			sc.Split = 1
		case 2:
			sc.Split = n - 1
		case 3:
			sc.Split = 1 + splitAt*(n-2)/999
		}
	}
	sc.Agent = rapid.IntRange(0, 7).Draw(t, "agent") == 0
	if s := rapid.Int64Range(1, 1000).Draw(t, "agent-seed"); sc.Agent && sc.Seed == 0 {
		sc.Seed = s // outside the bubble nothing may depend on the clock
	}
	lay := genLayout(t, n, env.base)
	sc.Shape = lay.name
	pool := rapid.SliceOfN(rapid.Custom(func(t *rapid.T) cadence { return genCadence(t, lay.stride, lay.spread) }), 1, 6).Draw(t, "cadences")
	negOnce := rapid.IntRange(0, 19).Draw(t, "allow-negative-once") == 0
	// An unbounded value that never advances its timestamp starves everything
	// behind it (inherent in timestamp order). With hundreds of values one of
	// them nearly always would: allowed in one configuration out of ten only.
	starver := rapid.IntRange(0, 9).Draw(t, "allow-starver") == 0

	// payloads: drawn per value for up to 24 values, from up to 8 templates beyond
	var templates []Val
	if n > 24 {
		templates = rapid.SliceOfN(rapid.Custom(func(t *rapid.T) Val { return genValWith(t, env, func(*Val) {}) }), 1, 8).Draw(t, "templates")
	}
	// the values come last: one value less is a shorter sequence of draws
	sc.Values = make([]Val, n)
	for i := 0; i < n; i++ {
		var v Val
		if templates != nil {
			v = templates[rapid.IntRange(0, len(templates)-1).Draw(t, "template")]
		} else {
			v = genValWith(t, env, func(*Val) {})
		}
		if v.Repeat >= 0 { // (a hostile payload may carry a negative repeat: keep it)
			v.Repeat = genShapedRepeat(t, n)
		}
		v.Seed = genSeed(t, "vseed")
		at := lay.at(t, i)
		switch {
		case v.TS != nil:
			// a hostile payload brought its own broken timestamp block
			c := *v.TS
			if c.T == 0 {
				c.T = at
			}
			v.TS = &c
		case rapid.IntRange(0, 15).Draw(t, "ts-unset") == 0:
		default:
			c := pool[rapid.IntRange(0, len(pool)-1).Draw(t, "cadence")]
			v.TS = &TS{T: at, DMin: c.dmin, DMax: c.dmax}
			if negOnce && v.Repeat == 1 && rapid.IntRange(0, 7).Draw(t, "t-neg") == 0 {
				// a value emitted once is never advanced; its timestamp may be anything
				v.TS.T = -rapid.Int64Range(1, big).Draw(t, "t-negative")
			}
		}
		if v.Repeat == 0 && !starver {
			if _, dmax := v.deltas(); dmax == 0 {
				v.Repeat = 3
			}
		}
		sc.Values[i] = v
	}
	sc.Cfg = genCfgShape(t) // (drawn last, see genScenario)
	return sc
}

// TestC20Shapes: configurations of generalised size and shape.
func TestC20Shapes(t *testing.T) {
	if !vstat.Enabled("C20") {
		t.Skip()
	}
	rec := vstat.New("C20", "shapes")
	rec.RunRapid(t, func(rt *rapid.T) {
		sc := genShaped(rt)
		rec.Current(sc)
		st, err := runCase(t, sc)
		rec.Case(sc, st.nontrivial(), append(st.labelList(), "layout-"+sc.Shape)...)
		if err != nil {
			rt.Fatalf("%s", rec.Fail(sc, classOf(err), "%v", err))
		}
	})
}
