package fakeprop

import (
	"encoding/json"
	"flag"
	"fmt"
	"math"
	"os"
	"strings"
	"testing"
	"testing/synctest"

	"pgregory.net/rapid"
	"verif/harness/internal/vstat"
)

func TestMain(m *testing.M) {
	flag.Parse()
	// The fake agent logs through glog (one ERROR line per finished stream).
	// Keep that out of stderr and out of /tmp unless the driver chose a place.
	tmp := ""
	if f := flag.Lookup("log_dir"); f != nil && f.Value.String() == "" {
		if d, err := os.MkdirTemp("", "fakeprop-glog-"); err == nil {
			tmp = d
			flag.Set("log_dir", d)
			flag.Set("stderrthreshold", "FATAL")
		}
	}
	code := m.Run()
	if tmp != "" {
		os.RemoveAll(tmp)
	}
	os.Exit(code)
}

// runBubble executes one scenario inside a synctest bubble (virtual clock: a
// generator that seeds itself from time.Now() becomes replayable; the client's
// receive goroutine is known to be gone when the bubble ends).
func runBubble(t *testing.T, sc *Scenario) (st *stats, err error) {
	st = &stats{}
	err = fmt.Errorf("bubble did not run")
	synctest.Test(t, func(*testing.T) {
		st, err = run(sc)
	})
	return st, err
}

// runCase is everything one scenario asks for: the bubble and, if the scenario
// says so, the observation through a real Agent (outside the bubble: sockets).
func runCase(t *testing.T, sc *Scenario) (*stats, error) {
	st, err := runBubble(t, sc)
	if err != nil || !sc.Agent {
		return st, err
	}
	if sc.Seed == 0 {
		// outside the bubble a clock-seeded generator is not replayable
		st.label("agent-not-asked-global-seed-zero")
		return st, nil
	}
	return st, sc.judgeAgent(st)
}

// ---------------------------------------------------------------------------
// generators
// ---------------------------------------------------------------------------

const big = int64(1) << 40

type genEnv struct {
	hostile     bool
	disableSync bool
	base        int64
	longLists   bool // option lists of up to 24 entries (the "shapes" part)
}

func genSeed(t *rapid.T, label string) int64 {
	if rapid.IntRange(0, 2).Draw(t, label+"-set") == 0 {
		return 0
	}
	s := rapid.Int64Range(-1000, 1000).Draw(t, label)
	if s == 0 {
		s = 1
	}
	return s
}

func genTS(t *rapid.T, repeat int32, env genEnv) *TS {
	if rapid.IntRange(0, 11).Draw(t, "ts-unset") == 0 {
		return nil
	}
	ts := &TS{}
	if rapid.IntRange(0, 4).Draw(t, "ts-wide") == 0 {
		ts.T = rapid.Int64Range(0, big).Draw(t, "t")
	} else {
		ts.T = env.base + rapid.Int64Range(0, 6).Draw(t, "t-off")
	}
	if repeat == 1 && rapid.IntRange(0, 9).Draw(t, "t-neg") == 0 {
		// a value emitted once is never advanced; its timestamp may be anything
		ts.T = -rapid.Int64Range(1, big).Draw(t, "t-negative")
	}
	switch rapid.SampledFrom([]int{0, 0, 1, 1, 1, 2, 2, 2, 2, 3, 4}).Draw(t, "delta-shape") {
	case 0:
	case 1:
		ts.DMin = rapid.Int64Range(1, 4).Draw(t, "period")
		ts.DMax = ts.DMin
	case 2:
		ts.DMin = rapid.Int64Range(0, 3).Draw(t, "dmin")
		ts.DMax = ts.DMin + rapid.Int64Range(1, 4).Draw(t, "dspan")
	case 3:
		ts.DMin = rapid.Int64Range(0, big).Draw(t, "dmin-wide")
		ts.DMax = rapid.Int64Range(ts.DMin, big).Draw(t, "dmax-wide")
	case 4:
		ts.DMax = rapid.Int64Range(1, big).Draw(t, "dmax-wide")
	}
	return ts
}

func genRepeat(t *rapid.T) int32 {
	switch rapid.SampledFrom([]int{0, 1, 1, 2, 2, 2, 2}).Draw(t, "repeat-shape") {
	case 0:
		return 0
	case 1:
		return 1
	}
	return int32(rapid.IntRange(2, 6).Draw(t, "repeat"))
}

// genIntRange draws minimum <= value <= maximum and, for cumulative ranges,
// delta_min <= delta_max (not both zero), all within +-2^40.
func genIntRange(t *rapid.T, lo int64, delta bool) (v, min, max, dmin, dmax int64) {
	var width int64
	switch rapid.IntRange(0, 3).Draw(t, "range-shape") {
	case 0:
		width = 0
	case 1, 2:
		width = rapid.Int64Range(1, 8).Draw(t, "width")
	case 3:
		width = rapid.Int64Range(9, big).Draw(t, "width-wide")
	}
	hi := big - width
	if rapid.IntRange(0, 2).Draw(t, "min-wide") == 0 {
		min = rapid.Int64Range(lo, hi).Draw(t, "min")
	} else {
		l := int64(-6)
		if lo > l {
			l = lo
		}
		min = rapid.Int64Range(l, 6).Draw(t, "min-small")
	}
	max = min + width
	v = rapid.Int64Range(min, max).Draw(t, "initial")
	if delta {
		w := int64(6)
		if rapid.IntRange(0, 3).Draw(t, "delta-wide") == 0 {
			w = big
		}
		dmin = rapid.Int64Range(-w, w).Draw(t, "vdmin")
		dmax = rapid.Int64Range(dmin, w).Draw(t, "vdmax")
		if dmin == 0 && dmax == 0 {
			dmax = 1
		}
	}
	return
}

func fin(f float64) Dbl {
	if f == 0 || math.IsNaN(f) || math.IsInf(f, 0) {
		return 0
	}
	return Dbl(f)
}

var strPool = []string{"", "a", "b", "up", "DOWN", "é", "a b"}

func genVal(t *rapid.T, env genEnv) Val {
	return genValWith(t, env, func(v *Val) {
		v.Repeat = genRepeat(t)
		v.Seed = genSeed(t, "vseed")
		v.TS = genTS(t, v.Repeat, env)
	})
}

// genValWith draws kind, distribution and payload of one value; schedule
// (repeat, seed, timestamp block) is left to the caller.
func genValWith(t *rapid.T, env genEnv, schedule func(*Val)) Val {
	type kd struct{ k, d string }
	// (rapid favours the first few entries: the ones with most behaviour go first)
	combos := []kd{
		{KInt, DDelta}, {KDouble, DDelta}, {KUint, DDelta}, {KStrList, DRand},
		{KInt, DRange}, {KUint, DRange}, {KDouble, DRange},
		{KInt, DRand}, {KUint, DRand}, {KDouble, DRand}, {KString, DRand}, {KBool, DRand},
		{KInt, DRot}, {KUint, DRot}, {KDouble, DRot}, {KString, DRot}, {KBool, DRot}, {KStrList, DRot},
		{KDelete, DConst},
		{KInt, DConst}, {KUint, DConst}, {KDouble, DConst}, {KString, DConst}, {KBool, DConst}, {KStrList, DConst},
	}
	if env.disableSync {
		combos = append(combos, kd{KSync, DConst})
	}
	c := rapid.SampledFrom(combos).Draw(t, "kind")
	v := Val{Kind: c.k, Dist: c.d}
	schedule(&v)
	isList := c.d == DRot || c.d == DRand
	isRange := c.d == DRange || c.d == DDelta
	nOpts := 0
	if isList {
		nOpts = rapid.IntRange(1, 5).Draw(t, "nopts")
		if env.longLists && rapid.IntRange(0, 3).Draw(t, "nopts-long") == 0 {
			nOpts = rapid.IntRange(6, 24).Draw(t, "nopts-many")
		}
	}
	// initial `value` of a list: default, one of the options, or anything
	initial := rapid.IntRange(0, 2).Draw(t, "list-initial")
	switch c.k {
	case KInt:
		switch {
		case isRange:
			v.IV, v.IMin, v.IMax, v.IDMin, v.IDMax = genIntRange(t, -big, c.d == DDelta)
		case isList:
			for i := 0; i < nOpts; i++ {
				v.IOpts = append(v.IOpts, rapid.Int64Range(-9, 9).Draw(t, "iopt"))
			}
			switch initial {
			case 1:
				v.IV = v.IOpts[0]
			case 2:
				v.IV = rapid.Int64Range(-big, big).Draw(t, "iv")
			}
		default:
			v.IV = rapid.Int64().Draw(t, "iv-const")
		}
	case KUint:
		switch {
		case isRange:
			iv, mn, mx, dmin, dmax := genIntRange(t, 0, c.d == DDelta)
			v.UV, v.UMin, v.UMax, v.IDMin, v.IDMax = uint64(iv), uint64(mn), uint64(mx), dmin, dmax
		case isList:
			for i := 0; i < nOpts; i++ {
				v.UOpts = append(v.UOpts, rapid.Uint64Range(0, 18).Draw(t, "uopt"))
			}
			switch initial {
			case 1:
				v.UV = v.UOpts[0]
			case 2:
				v.UV = rapid.Uint64().Draw(t, "uv")
			}
		default:
			v.UV = rapid.Uint64().Draw(t, "uv-const")
		}
	case KDouble:
		switch {
		case isRange:
			scale := rapid.SampledFrom([]float64{8, 8, 1e3, 1e12}).Draw(t, "fscale")
			mn := rapid.Float64Range(-scale, scale).Draw(t, "fmin")
			width := 0.0
			if rapid.IntRange(0, 3).Draw(t, "fwidth0") != 0 {
				width = rapid.Float64Range(0, scale).Draw(t, "fwidth")
			}
			mx := mn + width
			iv := rapid.Float64Range(mn, mx).Draw(t, "finitial")
			v.FMin, v.FMax, v.FV = fin(mn), fin(mx), fin(iv)
			if !(v.FV >= v.FMin && v.FV <= v.FMax) { // a zero was normalised
				v.FV = v.FMin
			}
			if c.d == DDelta {
				w := rapid.SampledFrom([]float64{0.5, 4, scale * 2}).Draw(t, "fdw")
				dmin := rapid.Float64Range(-w, w).Draw(t, "fdmin")
				dmax := rapid.Float64Range(dmin, w).Draw(t, "fdmax")
				v.FDMin, v.FDMax = fin(dmin), fin(dmax)
				if v.FDMin == 0 && v.FDMax == 0 {
					v.FDMax = 1
				}
			}
		case isList:
			for i := 0; i < nOpts; i++ {
				v.FOpts = append(v.FOpts, fin(rapid.Float64Range(-4, 4).Draw(t, "fopt")))
			}
			switch initial {
			case 1:
				v.FV = v.FOpts[0]
			case 2:
				v.FV = fin(rapid.Float64Range(-1e12, 1e12).Draw(t, "fv"))
			}
		default:
			v.FV = rapid.SampledFrom([]Dbl{0, 1.5, -2.25, 1e300, Dbl(math.Inf(1)), Dbl(math.Inf(-1)), Dbl(math.NaN())}).Draw(t, "fv-const")
		}
	case KString:
		if isList {
			for i := 0; i < nOpts; i++ {
				v.SOpts = append(v.SOpts, rapid.SampledFrom(strPool).Draw(t, "sopt"))
			}
			switch initial {
			case 1:
				v.SV = v.SOpts[0]
			case 2:
				v.SV = "initial"
			}
		} else {
			v.SV = rapid.SampledFrom(strPool).Draw(t, "sv")
		}
	case KStrList:
		if isList {
			for i := 0; i < nOpts; i++ {
				v.SOpts = append(v.SOpts, rapid.SampledFrom(strPool).Draw(t, "sopt"))
			}
			switch initial {
			case 1:
				v.LV = []string{v.SOpts[0]}
			case 2:
				v.LV = []string{"initial", "list"}
			}
		} else {
			v.LV = rapid.SliceOfN(rapid.SampledFrom(strPool), 0, 3).Draw(t, "lv")
			if len(v.LV) == 0 {
				v.LV = nil
			}
		}
	case KBool:
		if isList {
			for i := 0; i < nOpts; i++ {
				v.BOpts = append(v.BOpts, rapid.Bool().Draw(t, "bopt"))
			}
			v.BV = initial == 1 && v.BOpts[0]
		} else {
			v.BV = rapid.Bool().Draw(t, "bv")
		}
	case KSync:
		v.UV = rapid.Uint64Range(0, 2).Draw(t, "sync-value")
	}
	if env.hostile && rapid.IntRange(0, 1).Draw(t, "break") == 0 {
		breakVal(t, &v)
	}
	return v
}

// breakVal makes v violate one precondition (documented in fake.proto or
// checked by the generator), to see that the violation is answered by an error
// and nothing worse. Values are kept within the magnitudes of the valid cases.
func breakVal(t *rapid.T, v *Val) {
	isList := v.Dist == DRot || v.Dist == DRand
	isRange := v.Dist == DRange || v.Dist == DDelta
	var opts []string
	opts = append(opts, "ts-negative", "ts-delta-negative", "ts-delta-inverted", "no-kind", "repeat-negative")
	if isList {
		opts = append(opts, "no-options", "no-options")
	}
	if isRange {
		opts = append(opts, "range-inverted", "value-below", "value-above", "delta-inverted")
	}
	how := rapid.SampledFrom(opts).Draw(t, "break-how")
	if v.TS == nil && (how == "ts-negative" || how == "ts-delta-negative" || how == "ts-delta-inverted") {
		v.TS = &TS{}
	}
	switch how {
	case "ts-negative":
		v.TS.T = -rapid.Int64Range(1, big).Draw(t, "neg-t")
	case "ts-delta-negative":
		v.TS.DMin = -rapid.Int64Range(1, big).Draw(t, "neg-dmin")
		if v.TS.DMax < v.TS.DMin {
			v.TS.DMax = v.TS.DMin
		}
	case "ts-delta-inverted":
		v.TS.DMin = v.TS.DMax + rapid.Int64Range(1, 5).Draw(t, "inv")
	case "no-kind":
		v.Kind, v.Dist = KNone, DConst
	case "repeat-negative":
		v.Repeat = -int32(rapid.IntRange(1, 3).Draw(t, "neg-repeat"))
	case "no-options":
		v.IOpts, v.UOpts, v.FOpts, v.SOpts, v.BOpts = nil, nil, nil, nil, nil
	case "range-inverted":
		switch v.Kind {
		case KInt:
			v.IMin = v.IMax + 1
		case KUint:
			v.UMin = v.UMax + 1
		case KDouble:
			v.FMin = v.FMax + 1
		}
	case "value-below":
		switch v.Kind {
		case KInt:
			v.IV = v.IMin - 1
		case KUint:
			if v.UMin == 0 {
				v.UMin, v.UMax = 1, v.UMax+1
			}
			v.UV = v.UMin - 1
		case KDouble:
			v.FV = v.FMin - 1
		}
	case "value-above":
		switch v.Kind {
		case KInt:
			v.IV = v.IMax + 1
		case KUint:
			v.UV = v.UMax + 1
		case KDouble:
			v.FV = v.FMax + 1
		}
	case "delta-inverted":
		switch v.Kind {
		case KInt, KUint:
			v.IDMin = v.IDMax + 1
			if v.IDMin == 0 { // keep "deltas set"
				v.IDMin, v.IDMax = 2, 1
			}
		case KDouble:
			v.FDMin = v.FDMax + 1
			if v.FDMin == 0 {
				v.FDMin, v.FDMax = 2, 1
			}
		}
	}
}

func genScenario(t *rapid.T) *Scenario {
	sc := &Scenario{}
	sc.Seed = genSeed(t, "seed")
	sc.DisableSync = rapid.IntRange(0, 3).Draw(t, "disable-sync") == 0
	sc.Extra = rapid.IntRange(2, 24).Draw(t, "extra")
	sc.Target = rapid.SampledFrom([]string{"", "", "dev"}).Draw(t, "target")
	env := genEnv{disableSync: sc.DisableSync}
	env.hostile = rapid.IntRange(0, 7).Draw(t, "hostile") == 0
	env.base = rapid.SampledFrom([]int64{0, 0, 3, 1000, big - 64}).Draw(t, "base")
	sc.Values = rapid.SliceOfN(rapid.Custom(func(t *rapid.T) Val { return genVal(t, env) }), 1, 8).Draw(t, "values")
	// (drawn last: everything above is, draw for draw, what it was before the
	// Config message got its own dimension)
	sc.Cfg = genCfgShape(t)
	return sc
}

// genCfgShape dresses the Config message (two cases out of three): a
// generator message that says nothing the top level does not say, and fields
// that have nothing to do with the stream. Always the same number of draws.
func genCfgShape(t *rapid.T) *CfgShape {
	dressed := rapid.IntRange(0, 2).Draw(t, "cfg-dressed") != 0
	s := &CfgShape{}
	s.Gen = rapid.SampledFrom([]string{GenRandomEmpty, GenUnset, GenRandomMirror, GenRandomSeed, GenRandomFull, GenUnset}).Draw(t, "cfg-generator")
	s.Port = rapid.SampledFrom([]int32{0, 0, -1, 8080, 65535, 1 << 20, math.MinInt32}).Draw(t, "cfg-port")
	s.Creds = rapid.SampledFrom([]string{"", "", "empty", "set"}).Draw(t, "cfg-credentials")
	s.Cert = rapid.SampledFrom([]string{"", "", "empty", "set"}).Draw(t, "cfg-cert")
	s.ClientType = rapid.SampledFrom([]int32{0, 0, 1, 2, 3}).Draw(t, "cfg-client-type")
	s.TunnelCrt = rapid.SampledFrom([]string{"", "", "/no/such/file.crt"}).Draw(t, "cfg-tunnel-crt")
	s.NoTarget = rapid.IntRange(0, 5).Draw(t, "cfg-no-target") == 0
	if !dressed {
		return nil
	}
	return s
}

// ---------------------------------------------------------------------------
// parts
// ---------------------------------------------------------------------------

// TestC20Random: generated fake-target configurations.
func TestC20Random(t *testing.T) {
	if !vstat.Enabled("C20") {
		t.Skip()
	}
	rec := vstat.New("C20", "random")
	rec.RunRapid(t, func(rt *rapid.T) {
		sc := genScenario(rt)
		rec.Current(sc)
		st, err := runCase(t, sc)
		rec.Case(sc, st.nontrivial(), st.labelList()...)
		if err != nil {
			rt.Fatalf("%s", rec.Fail(sc, classOf(err), "%v", err))
		}
	})
}

// classOf names the violated clause (the word before the first colon after
// the observation point).
func classOf(err error) string {
	s := strings.TrimPrefix(err.Error(), "agent: ")
	for _, c := range []string{"order", "repeat/order", "repeat", "step", "range", "list", "sync", "reproducible", "config", "panic"} {
		for _, p := range []string{"queue: " + c + ":", "wire: " + c + ":", c + ":"} {
			if len(s) >= len(p) && s[:len(p)] == p {
				if c == "repeat/order" {
					return "repeat"
				}
				return c
			}
		}
	}
	if strings.Contains(s, "Next failed with") {
		return "unexpected-rejection"
	}
	return "other"
}

// TestReplay re-runs a saved scenario without the generators.
func TestReplay(t *testing.T) {
	rf, ok, err := vstat.LoadReplay()
	if !ok {
		t.Skip()
	}
	if err != nil {
		t.Fatal(err)
	}
	rec := vstat.New(rf.Property, "replay")
	defer rec.Flush(true)
	msg := ""
	if rf.Property != "C20" {
		msg = "replay file is for property " + rf.Property + ", this engine decides C20"
	} else if rf.Part == "session" {
		var ss Session
		if err := json.Unmarshal(rf.Scenario, &ss); err != nil {
			msg = "bad session: " + err.Error()
		} else if len(ss.Configs) == 0 {
			msg = "bad session: no configuration"
		} else if _, _, rerr := runSessionCase(t, &ss); rerr != nil {
			msg = rerr.Error()
		}
	} else {
		var sc Scenario
		if err := json.Unmarshal(rf.Scenario, &sc); err != nil {
			msg = "bad scenario: " + err.Error()
		} else if _, rerr := runCase(t, &sc); rerr != nil {
			msg = rerr.Error()
		}
	}
	if msg != "" {
		rec.AddViolation(json.RawMessage(rf.Scenario), rf.Kind, rf.Class, "%s", msg)
		fmt.Println("REPLAY-FAIL:", msg)
		t.Fail()
		return
	}
	rec.Case(json.RawMessage(rf.Scenario), false, "replayed")
	fmt.Println("REPLAY-OK")
}
