package fakeprop

import (
	"errors"
	"strings"
	"testing"

	"pgregory.net/rapid"
	"verif/harness/internal/vstat"
)

// genSessionConfig draws one configuration of a session: 1-6 values of every
// kind, scheduled as in the "random" part, around one of six bases (so that
// the configurations of one session differ in where their latest initial
// timestamp lies), three out of four without unbounded values (so that a
// generation ends and the next one can be observed).
func genSessionConfig(t *rapid.T) *Scenario {
	sc := &Scenario{}
	sc.Seed = genSeed(t, "seed")
	if s := rapid.Int64Range(1, 1000).Draw(t, "seed-instead"); sc.Seed == 0 && rapid.IntRange(0, 1).Draw(t, "seed-anyway") == 0 {
		sc.Seed = s
	}
	sc.DisableSync = rapid.IntRange(0, 4).Draw(t, "disable-sync") == 0
	bounded := rapid.IntRange(0, 3).Draw(t, "all-bounded") != 0
	env := genEnv{disableSync: sc.DisableSync}
	env.base = rapid.SampledFrom([]int64{0, 3, 10, 20, 1000, big - 64}).Draw(t, "base")
	sc.Values = rapid.SliceOfN(rapid.Custom(func(t *rapid.T) Val {
		v := genVal(t, env)
		r := int32(rapid.IntRange(1, 4).Draw(t, "repeat-bounded"))
		if bounded && v.Repeat == 0 {
			v.Repeat = r
		}
		return v
	}), 1, 6).Draw(t, "values")
	return sc
}

var strayKinds = []string{"sub-stream", "sub-poll", "empty", "sub-once", "sub-nil", "poll-nil"}

func genStep(t *rapid.T) Step {
	op := rapid.SampledFrom([]string{OpPoll, OpRound, OpSetConfig, OpMsg, OpRead, OpDrain, OpEOF, OpRound, OpSetConfig, OpPoll}).Draw(t, "op")
	k := rapid.SampledFrom([]int{2, 0, 1, 3, 5, 0, 4, 8}).Draw(t, "k")
	n := rapid.IntRange(0, 6).Draw(t, "n")
	cfg := rapid.IntRange(0, 3).Draw(t, "cfg")
	msg := rapid.SampledFrom(strayKinds).Draw(t, "msg")
	s := Step{Op: op, K: k}
	switch op {
	case OpRound, OpDrain:
		s.K = 0
	case OpSetConfig:
		s.Cfg = cfg
	case OpEOF:
		s.N = n
	case OpMsg:
		s.Msg = msg
	}
	return s
}

func genSession(t *rapid.T) *Session {
	ss := &Session{}
	nCfg := rapid.SampledFrom([]int{2, 2, 3, 1, 4}).Draw(t, "n-configs")
	for i := 0; i < nCfg; i++ {
		ss.Configs = append(ss.Configs, genSessionConfig(t))
	}
	nRuns := rapid.SampledFrom([]int{1, 1, 2, 2, 3}).Draw(t, "n-runs")
	for i := 0; i < nRuns; i++ {
		r := RunSpec{PreConfig: -1}
		r.Mode = rapid.SampledFrom([]string{ModePoll, ModeStream, ModePoll, ModeOnce, ModeStream, ModePoll}).Draw(t, "mode")
		r.First = rapid.SampledFrom([]string{"", "", "", "", "", "", "", "", "", "", "", "", "", "", "", "", "", "", "", "", "", "", "", "", "poll", "empty", "eof", "error"}).Draw(t, "first")
		r.Target = rapid.SampledFrom([]string{"", "", "dev"}).Draw(t, "target")
		r.Paths = rapid.IntRange(0, 2).Draw(t, "paths")
		r.Dress = rapid.SampledFrom([]int{0, 0, 1, 1, 3, 4, 9, 16, 31}).Draw(t, "dress")
		if pc := rapid.IntRange(0, nCfg-1).Draw(t, "pre-config"); rapid.IntRange(0, 1).Draw(t, "pre-config-set") == 0 && i > 0 {
			r.PreConfig = pc
		}
		r.Steps = rapid.SliceOfN(rapid.Custom(genStep), 0, 10).Draw(t, "steps")
		r.Tail = rapid.IntRange(2, 16).Draw(t, "tail")
		r.End = rapid.SampledFrom([]string{"eof", "eof", "eof", "eof", "eof", "eof", "error"}).Draw(t, "end")
		ss.Runs = append(ss.Runs, r)
	}
	ss.Twice = rapid.IntRange(0, 3).Draw(t, "twice") == 0
	// one session in ten is followed by subscriptions to a real Agent serving
	// the first configuration (always the same number of draws)
	agent := rapid.IntRange(0, 9).Draw(t, "agent") == 0
	agentSeed := rapid.Int64Range(1, 1000).Draw(t, "agent-seed")
	nSubs := rapid.SampledFrom([]int{2, 1, 3}).Draw(t, "agent-subscriptions")
	var subs []AgentSub
	for i := 0; i < 3; i++ {
		sub := AgentSub{}
		sub.Mode = rapid.SampledFrom([]string{ModeStream, ModePoll, ModeOnce}).Draw(t, "agent-mode")
		sub.Target = rapid.SampledFrom([]string{"", "dev"}).Draw(t, "agent-target")
		sub.Dress = rapid.SampledFrom([]int{0, 0, 1, 1, 3, 4, 9, 16, 31}).Draw(t, "agent-dress")
		sub.Msgs = rapid.SliceOfN(rapid.SampledFrom([]string{"poll", "poll", "sub-stream", "sub-poll", "empty", "sub-once"}), 0, 3).Draw(t, "agent-msgs")
		sub.After = rapid.SampledFrom([]int{0, 0, 1, 2, 5}).Draw(t, "agent-after")
		sub.Rounds = rapid.IntRange(0, 2).Draw(t, "agent-rounds")
		sub.Limit = rapid.IntRange(8, 120).Draw(t, "agent-limit")
		if i < nSubs {
			subs = append(subs, sub)
		}
	}
	if agent {
		ss.Agent = subs
		if ss.Configs[0].Seed == 0 {
			ss.Configs[0].Seed = agentSeed // outside the bubble nothing may depend on the clock
		}
	}
	return ss
}

// runSessionCase: the bubble and, if the session says so, the subscriptions to
// a real Agent (outside the bubble: sockets).
func runSessionCase(t *testing.T, ss *Session) (*stats, *sessExec, error) {
	st, x, err := runSessionBubble(t, ss)
	if err != nil || len(ss.Agent) == 0 {
		return st, x, err
	}
	return st, x, ss.runAgentSession(t, st)
}

func classOfSession(err error) string {
	s := err.Error()
	s = strings.TrimPrefix(s, "session: ")
	s = strings.TrimPrefix(s, "agent-session: ")
	if i := strings.Index(s, "): "); strings.HasPrefix(s, "subscription ") && i >= 0 {
		s = s[i+3:]
	}
	for _, p := range []string{"round ", "stream: "} {
		if strings.HasPrefix(s, p) {
			if i := strings.Index(s, ": "); i >= 0 {
				s = s[i+2:]
			}
		}
	}
	switch {
	case strings.HasPrefix(s, "lifetime:"):
		return "lifetime"
	case strings.HasPrefix(s, "a Poll reached the POLL subscription"):
		return "early-poll"
	}
	return classOf(errors.New(s))
}

// TestC20Session: one Client (and one Agent) through a generated script of
// subscriber messages and lifecycle calls.
func TestC20Session(t *testing.T) {
	if !vstat.Enabled("C20") {
		t.Skip()
	}
	rec := vstat.New("C20", "session")
	rec.RunRapid(t, func(rt *rapid.T) {
		ss := genSession(rt)
		rec.Current(ss)
		st, x, err := runSessionCase(t, ss)
		rec.Case(ss, x.nontrivial(), st.labelList()...)
		if err != nil {
			rt.Fatalf("%s", rec.Fail(ss, classOfSession(err), "%v", err))
		}
	})
}
