package fakeprop

import (
	"math"
	"testing"
)

// dueCount against a brute-force count on small numbers, and at the int64 limits.
func TestDueCountUnit(t *testing.T) {
	for t0 := int64(-3); t0 <= 3; t0++ {
		for d := int64(0); d <= 3; d++ {
			for r := int32(0); r <= 4; r++ {
				for T := int64(-5); T <= 12; T++ {
					for _, strict := range []bool{true, false} {
						const limit = 9
						want := 0
						for i := int64(0); i < 50 && (r == 0 || i < int64(r)); i++ {
							if x := t0 + i*d; x < T || (!strict && x == T) {
								want++
							}
						}
						if want > limit {
							want = limit
						}
						if got := dueCount(t0, d, r, T, strict, limit); got != want {
							t.Fatalf("dueCount(%d,%d,%d,%d,%v) = %d, want %d", t0, d, r, T, strict, got, want)
						}
					}
				}
			}
		}
	}
	for _, c := range []struct {
		t0, d int64
		r     int32
		T     int64
		s     bool
		want  int
	}{
		{math.MinInt64, 1, 1, math.MaxInt64, false, 1},
		{math.MinInt64, 1, 1, math.MaxInt64, true, 1},
		{math.MinInt64, 1, 0, math.MaxInt64, false, 7},
		{math.MinInt64, 1, 0, math.MaxInt64, true, 7},
		{math.MinInt64, math.MaxInt64, 0, math.MaxInt64, false, 3},
		{math.MinInt64, math.MaxInt64, 0, math.MaxInt64, true, 3},
		{math.MinInt64, math.MaxInt64, 0, math.MaxInt64 - 1, false, 3},
		{math.MinInt64, math.MaxInt64, 0, math.MaxInt64 - 1, true, 2},
		{math.MaxInt64, 0, 3, math.MaxInt64, false, 3},
		{math.MaxInt64, 0, 3, math.MaxInt64, true, 0},
		{math.MaxInt64, 5, 3, math.MinInt64, false, 0},
	} {
		if got := dueCount(c.t0, c.d, c.r, c.T, c.s, 7); got != c.want {
			t.Fatalf("dueCount(%d,%d,%d,%d,%v) = %d, want %d", c.t0, c.d, c.r, c.T, c.s, got, c.want)
		}
	}
}
