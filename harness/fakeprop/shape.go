package fakeprop

import "sort"

// Evidence about the size and shape of a case (labels only, no verdicts): how
// many values, how many distinct initial timestamps, and whether some
// insertion into the generator's timestamp-ordered list happened far from both
// of its ends — at construction (values listed out of timestamp order) or
// when an emitted value was queued again (many values on different cadences).

func sizeLabel(n int) string {
	switch {
	case n <= 8:
		return "size-001-008"
	case n <= 16:
		return "size-009-016"
	case n <= 32:
		return "size-017-032"
	case n <= 63:
		return "size-033-063"
	case n <= 128:
		return "size-064-128"
	}
	return "size-129-300"
}

// deepAt is the number of distinct pending timestamps that must lie behind an
// insertion (with at least one in front of it) for the insertion to count as
// "deep".
const deepAt = 16

// distinctBeside counts the distinct members of sorted (ascending, distinct)
// strictly below and strictly above t.
func distinctBeside(sorted []int64, t int64) (below, above int, present bool) {
	p := sort.Search(len(sorted), func(i int) bool { return sorted[i] >= t })
	below = p
	if p < len(sorted) && sorted[p] == t {
		return below, len(sorted) - p - 1, true
	}
	return below, len(sorted) - p, false
}

func (sc *Scenario) shapeLabels(ems []em, st *stats) {
	n := len(sc.Values)
	st.label(sizeLabel(n))
	if n > 8 {
		st.label("size-over-8")
	}
	// construction: values are inserted in configuration order
	var sorted []int64
	shared := false
	for i := range sc.Values {
		t := sc.Values[i].t0()
		below, above, present := distinctBeside(sorted, t)
		if present {
			shared = true
			continue
		}
		if above >= deepAt && below >= 1 {
			st.label("deep-insert-at-construction")
		}
		if above >= 1 {
			st.label("listed-out-of-timestamp-order")
		}
		sorted = append(sorted, 0)
		copy(sorted[below+1:], sorted[below:])
		sorted[below] = t
	}
	switch d := len(sorted); {
	case d >= 64:
		st.label("distinct-initial-timestamps-64+")
	case d >= 17:
		st.label("distinct-initial-timestamps-17-63")
	case d >= 9:
		st.label("distinct-initial-timestamps-09-16")
	}
	if shared && n >= 9 {
		st.label("initial-timestamp-shared-size-over-8")
	}
	if n <= deepAt+1 {
		return
	}
	// re-queueing: what is known from the trace. per[i] = timestamps of the
	// emissions of value i in order; at emission k the pending timestamp of a
	// value is its next entry (unknown beyond the trace: a lower bound of the
	// real depth).
	per := make([][]int64, n)
	for _, e := range ems {
		if e.idx >= 0 && e.idx < n {
			per[e.idx] = append(per[e.idx], e.ts)
		}
	}
	cnt := make([]int, n)
	examined := 0
	buf := make([]int64, 0, n)
	for _, e := range ems {
		if e.idx < 0 || e.idx >= n {
			continue
		}
		cnt[e.idx]++
		if cnt[e.idx] >= len(per[e.idx]) {
			continue // not queued again within the trace
		}
		if examined++; examined > 300 {
			return
		}
		next := per[e.idx][cnt[e.idx]]
		buf = buf[:0]
		for j := 0; j < n; j++ {
			if j != e.idx && cnt[j] < len(per[j]) {
				buf = append(buf, per[j][cnt[j]])
			}
		}
		sort.Slice(buf, func(a, b int) bool { return buf[a] < buf[b] })
		d := buf[:0]
		for _, x := range buf {
			if len(d) == 0 || d[len(d)-1] != x {
				d = append(d, x)
			}
		}
		below, above, _ := distinctBeside(d, next)
		if above >= deepAt && below >= 1 {
			st.label("deep-insert-at-requeue")
			return
		}
	}
}
