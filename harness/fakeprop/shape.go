package fakeprop

import "sort"

// Evidence about the size and shape of a case (labels only, no verdicts): how
// many values, how many distinct initial timestamps, and whether some
// insertion into the generator's timestamp-ordered list happened far from both
// of its ends — at construction (values listed out of timestamp order) or
// when an emitted value was queued again (many values on different cadences).

func sizeLabel(n int) string {
	switch {
	case n <= 8:
		return "size-001-008"
	case n <= 16:
		return "size-009-016"
	case n <= 32:
		return "size-017-032"
	case n <= 63:
		return "size-033-063"
	case n <= 128:
		return "size-064-128"
	}
	return "size-129-300"
}

// deepAt is the number of distinct pending timestamps that must lie behind an
// insertion (with at least one in front of it) for the insertion to count as
// "deep".
const deepAt = 16

// distinctBeside counts the distinct members of sorted (ascending, distinct)
// strictly below and strictly above t.
func distinctBeside(sorted []int64, t int64) (below, above int, present bool) {
	p := sort.Search(len(sorted), func(i int) bool { return sorted[i] >= t })
	below = p
	if p < len(sorted) && sorted[p] == t {
		return below, len(sorted) - p - 1, true
	}
	return below, len(sorted) - p, false
}

func (sc *Scenario) shapeLabels(ems []em, st *stats) {
	n := len(sc.Values)
	st.label(sizeLabel(n))
	if n > 8 {
		st.label("size-over-8")
	}
	// construction: values are inserted in configuration order
	var sorted []int64
	shared := false
	for i := range sc.Values {
		t := sc.Values[i].t0()
		below, above, present := distinctBeside(sorted, t)
		if present {
			shared = true
			continue
		}
		if above >= deepAt && below >= 1 {
			st.label("deep-insert-at-construction")
		}
		if above >= 1 {
			st.label("listed-out-of-timestamp-order")
		}
		sorted = append(sorted, 0)
		copy(sorted[below+1:], sorted[below:])
		sorted[below] = t
	}
	switch d := len(sorted); {
	case d >= 64:
		st.label("distinct-initial-timestamps-64+")
	case d >= 17:
		st.label("distinct-initial-timestamps-17-63")
	case d >= 9:
		st.label("distinct-initial-timestamps-09-16")
	}
	if shared && n >= 9 {
		st.label("initial-timestamp-shared-size-over-8")
	}
	if n <= deepAt+1 {
		return
	}
	// re-queueing: what is known from the trace. per[i] = timestamps of the
	// emissions of value i in order; at emission k the pending timestamp of a
	// value is its next entry (unknown beyond the trace: a lower bound of the
	// real depth).
	per := make([][]int64, n)
	for _, e := range ems {
		if e.idx >= 0 && e.idx < n {
			per[e.idx] = append(per[e.idx], e.ts)
		}
	}
	// pending: the distinct timestamps known to be queued, with multiplicities
	var ds []int64
	var cs []int
	add := func(t int64) {
		p := sort.Search(len(ds), func(i int) bool { return ds[i] >= t })
		if p < len(ds) && ds[p] == t {
			cs[p]++
			return
		}
		ds = append(ds, 0)
		copy(ds[p+1:], ds[p:])
		ds[p] = t
		cs = append(cs, 0)
		copy(cs[p+1:], cs[p:])
		cs[p] = 1
	}
	remove := func(t int64) {
		p := sort.Search(len(ds), func(i int) bool { return ds[i] >= t })
		if p >= len(ds) || ds[p] != t {
			return
		}
		if cs[p]--; cs[p] == 0 {
			ds = append(ds[:p], ds[p+1:]...)
			cs = append(cs[:p], cs[p+1:]...)
		}
	}
	for j := 0; j < n; j++ {
		if len(per[j]) > 0 {
			add(per[j][0])
		}
	}
	cnt := make([]int, n)
	for _, e := range ems {
		if e.idx < 0 || e.idx >= n {
			continue
		}
		remove(e.ts)
		cnt[e.idx]++
		if cnt[e.idx] >= len(per[e.idx]) {
			continue // not queued again within the trace
		}
		next := per[e.idx][cnt[e.idx]]
		below, above, _ := distinctBeside(ds, next)
		if above >= deepAt && below >= 1 {
			st.label("deep-insert-at-requeue")
			return
		}
		add(next)
	}
}
