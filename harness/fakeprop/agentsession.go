package fakeprop

import (
	"context"
	"fmt"
	"io"
	"net"
	"testing"
	"testing/synctest"
	"time"

	"google.golang.org/grpc"
	"google.golang.org/grpc/codes"
	"google.golang.org/grpc/credentials/insecure"
	"google.golang.org/grpc/status"
	"google.golang.org/protobuf/proto"

	gpb "github.com/openconfig/gnmi/proto/gnmi"
	fgnmi "github.com/openconfig/gnmi/testing/fake/gnmi"
)

// The same protocol surface through a real fake Agent (fake/gnmi.New: gRPC on
// a loopback port, outside any bubble): ONE Agent is subscribed to 1-3 times
// in a row, in STREAM, ONCE or POLL mode. Behind the SubscriptionList (or
// after a few responses) a STREAM / ONCE subscriber sends messages the mode
// does not expect (Poll, another SubscriptionList, a request without payload);
// a POLL subscriber reads a round, polls, reads the next.
//
// Where a message meets the stream is up to the transport, so the oracles are
// the ones that do not depend on it: the Agent hands every subscription a new
// Client for the configuration it was created with, hence every subscription -
// whatever the subscriber sends behind the SubscriptionList of a STREAM / ONCE
// subscription - and every round of a POLL subscription is one generation of
// that configuration: the clauses of C20 hold for it and (only seeded
// configurations are served this way) it is response for response what the
// in-memory Client sends for an equal configuration.

// AgentSub is one subscription to the Agent.
type AgentSub struct {
	Mode   string   `json:"mode"`
	Target string   `json:"target,omitempty"`
	Dress  int      `json:"dress,omitempty"` // see subscribeMsg
	Msgs   []string `json:"msgs,omitempty"`  // STREAM / ONCE: "poll" | sub-stream | sub-once | sub-poll | empty
	After  int      `json:"after"`           // ... sent after this many responses were read (0: right behind the SubscriptionList)
	Rounds int      `json:"rounds"`          // POLL: polled rounds behind the initial one
	Limit  int      `json:"limit"`           // responses read from a stream that never ends
}

// agentSessionPatience bounds one subscription. It never decides a verdict:
// when it runs out the case is labelled inconclusive.
const agentSessionPatience = 30 * time.Second

// refOutside computes, in a bubble of its own, what the in-memory Client sends
// for sc on an undisturbed subscription.
func refOutside(t *testing.T, sc *Scenario, target string, limit int) (sent []*gpb.SubscribeResponse, ended bool, err error) {
	err = fmt.Errorf("bubble did not run")
	synctest.Test(t, func(*testing.T) {
		sent, ended, err = sc.runClientTarget(target, limit)
	})
	return
}

func (ss *Session) runAgentSession(t *testing.T, st *stats) error {
	if len(ss.Agent) == 0 {
		return nil
	}
	sc := ss.Configs[0]
	if !sc.seededDeterministically() || sc.Seed == 0 {
		st.label("agent-session-not-asked-configuration-not-seeded")
		return nil
	}
	a, aerr := fgnmi.New(sc.buildConfig(true), nil)
	if aerr != nil {
		st.label("agent-session-inconclusive-environment")
		return nil
	}
	// Agent.Close takes the lock of every Client it created. On the unchanged tree a Poll that reaches the fake while
	// its sender is inside nextInQueue can wedge that Client for good (reset holds c.mu and wants c.qMu, nextInQueue
	// holds c.qMu and wants c.mu: seen once in 160000 thorough cases on a loaded machine; how the fake survives polls
	// is not part of C20's statement). The teardown therefore never waits for ever: a Close that does not come back
	// is left behind and the case is labelled inconclusive.
	defer func() {
		done := make(chan struct{})
		go func() { a.Close(); close(done) }()
		select {
		case <-done:
		case <-time.After(agentSessionPatience):
			st.label("agent-session-inconclusive-agent-close-did-not-return")
		}
	}()
	_, port, perr := net.SplitHostPort(a.Address())
	if perr != nil {
		st.label("agent-session-inconclusive-environment")
		return nil
	}
	conn, cerr := grpc.NewClient("passthrough:///"+net.JoinHostPort("127.0.0.1", port),
		grpc.WithTransportCredentials(insecure.NewCredentials()),
		grpc.WithNoProxy(),
		grpc.WithDefaultCallOptions(grpc.MaxCallRecvMsgSize(64<<20)))
	if cerr != nil {
		st.label("agent-session-inconclusive-environment")
		return nil
	}
	defer conn.Close()

	bounded := !anyUnbounded(sc)
	R := roundLen(sc)
	for si := range ss.Agent {
		sub := &ss.Agent[si]
		limit := R + 3
		if !bounded {
			limit = sub.After + sub.Limit
		}
		ref, refEnded, rerr := refOutside(t, sc, sub.Target, limit)
		if rerr != nil {
			return fmt.Errorf("agent-session: %v", rerr)
		}
		inconclusive, err := ss.oneAgentSub(conn, sc, si, sub, bounded, R, limit, ref, refEnded, st)
		if err != nil {
			return fmt.Errorf("agent-session: subscription %d of %d to one Agent (%s): %v", si, len(ss.Agent), sub.Mode, err)
		}
		if inconclusive != "" {
			st.label("agent-session-inconclusive-" + inconclusive)
			return nil
		}
	}
	st.label("agent-session-observed")
	st.label(fmt.Sprintf("agent-session-subscriptions-%d", len(ss.Agent)))
	return nil
}

func (ss *Session) oneAgentSub(conn *grpc.ClientConn, sc *Scenario, si int, sub *AgentSub, bounded bool, R, limit int, ref []*gpb.SubscribeResponse, refEnded bool, st *stats) (inconclusive string, err error) {
	ctx, cancel := context.WithTimeout(context.Background(), agentSessionPatience)
	defer cancel()
	stream, serr := gpb.NewGNMIClient(conn).Subscribe(ctx)
	if serr != nil {
		return "environment", nil
	}
	if e := stream.Send(subscribeMsg(sub.Mode, sub.Target, 0, sub.Dress)); e != nil {
		return "environment", nil
	}
	// read reads up to n responses; ended: the Agent closed the stream
	read := func(n int) (got []*gpb.SubscribeResponse, ended bool, inc string, err error) {
		for len(got) < n {
			r, rerr := stream.Recv()
			if rerr == io.EOF {
				return got, true, "", nil
			}
			if rerr != nil {
				switch status.Code(rerr) {
				case codes.FailedPrecondition, codes.Aborted, codes.InvalidArgument:
					return got, false, "", fmt.Errorf("the Agent ended the subscription with %v", rerr)
				case codes.DeadlineExceeded:
					return got, false, "patience", nil
				}
				return got, false, "transport", nil
			}
			got = append(got, r)
		}
		return got, false, "", nil
	}
	compare := func(what string, got []*gpb.SubscribeResponse, ended bool) error {
		ems, cerr := fromWire(got)
		if cerr != nil {
			return fmt.Errorf("%s: %v", what, cerr)
		}
		if ended && !bounded {
			return fmt.Errorf("%s: repeat: the Agent ended the stream after %d responses although an unbounded value is configured", what, len(got))
		}
		if jerr := sc.judge(ems, ended, true, st); jerr != nil {
			return fmt.Errorf("%s: %v", what, jerr)
		}
		if len(got) > len(ref) {
			return fmt.Errorf("%s: reproducible: %d responses, a Client on an equal configuration with the same seeds sends %d (ended=%v)", what, len(got), len(ref), refEnded)
		}
		for k := range got {
			if !proto.Equal(got[k], ref[k]) {
				return fmt.Errorf("%s: reproducible: response %d is %v, of a Client on an equal configuration with the same seeds and an undisturbed subscription %v", what, k, got[k], ref[k])
			}
		}
		if ended && refEnded && len(got) != len(ref) {
			return fmt.Errorf("%s: reproducible: the Agent ended the stream after %d responses, a Client on an equal configuration with the same seeds sends %d", what, len(got), len(ref))
		}
		return nil
	}

	if sub.Mode == ModePoll && bounded {
		for round := 0; round <= sub.Rounds; round++ {
			got, ended, inc, rerr := read(R)
			if rerr != nil {
				return "", fmt.Errorf("round %d: %v", round, rerr)
			}
			if inc != "" {
				return inc, nil
			}
			if ended {
				return "", fmt.Errorf("round %d: lifetime: the Agent closed a POLL subscription after %d responses of the round", round, len(got))
			}
			if cerr := compare(fmt.Sprintf("round %d", round), got, false); cerr != nil {
				return "", cerr
			}
			st.label("agent-session-poll-round-equals-client")
			if round > 0 {
				st.label("agent-session-polled-round-equals-client")
			}
			if round < sub.Rounds {
				if e := stream.Send(pollMsg()); e != nil {
					return "transport", nil
				}
			}
		}
		if si > 0 {
			st.label("agent-session-later-subscription-equals-client")
		}
		return "", nil
	}

	var got []*gpb.SubscribeResponse
	ended := false
	if sub.After > 0 && sub.Mode != ModePoll {
		g, e, inc, rerr := read(min(sub.After, limit))
		if rerr != nil {
			return "", rerr
		}
		if inc != "" {
			return inc, nil
		}
		got, ended = g, e
	}
	if sub.Mode != ModePoll && !ended {
		for _, m := range sub.Msgs {
			req := strayMsg(m)
			if m == "poll" {
				req = pollMsg()
			}
			if e := stream.Send(req); e != nil {
				// the Agent has ended the RPC already (a short stream): what it
				// sent is still to be read
				st.label("agent-session-stray-message-after-the-rpc-ended")
				break
			}
			st.label("agent-session-stray-" + m + "-" + sub.Mode)
		}
	}
	if !ended {
		g, e, inc, rerr := read(limit - len(got))
		if rerr != nil {
			return "", rerr
		}
		if inc != "" {
			return inc, nil
		}
		got, ended = append(got, g...), e
	}
	if cerr := compare("stream", got, ended); cerr != nil {
		return "", cerr
	}
	st.label("agent-session-subscription-equals-client")
	if si > 0 {
		st.label("agent-session-later-subscription-equals-client")
	}
	return "", nil
}
