// Package fakeprop decides property C20 ("Synthetic target emits an ordered,
// bounded, reproducible update stream") on generated fake-target
// configurations. See DESIGN.md, section "C20 — synthetic target stream".
package fakeprop

import (
	"fmt"
	"math"
	"strconv"

	fpb "github.com/openconfig/gnmi/testing/fake/proto"
)

// Dbl is a float64 that survives JSON also when it is NaN or infinite
// (constant double values may be; range bounds never are).
type Dbl float64

// MarshalJSON writes finite numbers as JSON numbers (shortest exact form) and
// the others as strings.
func (d Dbl) MarshalJSON() ([]byte, error) {
	f := float64(d)
	if math.IsNaN(f) || math.IsInf(f, 0) {
		return []byte(strconv.Quote(strconv.FormatFloat(f, 'g', -1, 64))), nil
	}
	return []byte(strconv.FormatFloat(f, 'g', -1, 64)), nil
}

// UnmarshalJSON is the inverse of MarshalJSON.
func (d *Dbl) UnmarshalJSON(b []byte) error {
	s := string(b)
	if len(s) > 0 && s[0] == '"' {
		u, err := strconv.Unquote(s)
		if err != nil {
			return err
		}
		s = u
	}
	f, err := strconv.ParseFloat(s, 64)
	if err != nil {
		return err
	}
	*d = Dbl(f)
	return nil
}

// TS is the timestamp block of one value.
type TS struct {
	T    int64 `json:"t"`
	DMin int64 `json:"dmin"`
	DMax int64 `json:"dmax"`
}

// Kinds (the oneof arm of fake.Value) and distributions.
const (
	KInt     = "int"
	KUint    = "uint"
	KDouble  = "double"
	KString  = "string"
	KBool    = "bool"
	KStrList = "strlist"
	KDelete  = "delete"
	KSync    = "sync" // explicit sync value; parts random/shapes/edges generate it only together with disable_sync (how callers use it), part syncs next to an enabled injection
	KNone    = "none" // no oneof arm set: always invalid, only in hostile scenarios

	DConst = "const" // no distribution: constant update
	DRange = "range" // range, delta_min = delta_max = 0: uniform in [min,max]
	DDelta = "delta" // range with deltas: cumulative, saturating
	DRot   = "rot"   // list, cycled in order
	DRand  = "rand"  // list, random selection
)

// Val is the plain-data form of one fake.Value. Its path is derived from its
// position in the scenario ("v<i>"), so every configured value has a distinct
// path and every emission can be attributed.
type Val struct {
	Kind   string `json:"kind"`
	Dist   string `json:"dist"`
	Repeat int32  `json:"repeat"`
	Seed   int64  `json:"seed"`
	TS     *TS    `json:"ts"` // nil: timestamp block unset in the config

	// int (all), uint (deltas only)
	IV    int64   `json:"iv,omitempty"`
	IMin  int64   `json:"imin,omitempty"`
	IMax  int64   `json:"imax,omitempty"`
	IDMin int64   `json:"idmin,omitempty"`
	IDMax int64   `json:"idmax,omitempty"`
	IOpts []int64 `json:"iopts,omitempty"`
	// uint (also the value of an explicit sync)
	UV    uint64   `json:"uv,omitempty"`
	UMin  uint64   `json:"umin,omitempty"`
	UMax  uint64   `json:"umax,omitempty"`
	UOpts []uint64 `json:"uopts,omitempty"`
	// double
	FV    Dbl   `json:"fv,omitempty"`
	FMin  Dbl   `json:"fmin,omitempty"`
	FMax  Dbl   `json:"fmax,omitempty"`
	FDMin Dbl   `json:"fdmin,omitempty"`
	FDMax Dbl   `json:"fdmax,omitempty"`
	FOpts []Dbl `json:"fopts,omitempty"`
	// string, string-list
	SV    string   `json:"sv,omitempty"`
	LV    []string `json:"lv,omitempty"`
	SOpts []string `json:"sopts,omitempty"`
	// bool
	BV    bool   `json:"bv,omitempty"`
	BOpts []bool `json:"bopts,omitempty"`
}

// Scenario is one generated case.
type Scenario struct {
	Seed        int64 `json:"seed"` // Config.seed; 0 = generator seeds itself from the clock
	DisableSync bool  `json:"disable_sync"`
	// Extra is the length of the prefix pulled beyond the bounded repeats when
	// at least one value is unbounded, and the number of additional pulls that
	// must all report "exhausted" when every value is bounded.
	Extra int `json:"extra"`
	// Target, if set, is put in the subscription prefix (the fake then stamps it
	// on every update).
	Target string `json:"target,omitempty"`
	Values []Val  `json:"values"`

	// Shape names the layout the "shapes" part generated the configuration
	// from (informational; the values above are the whole configuration).
	Shape string `json:"shape,omitempty"`
	// Split, if in 1..len(Values)-1, asks for one more generator: built by
	// queue.New from the first Split values, the others handed to
	// UpdateQueue.Add before the first Next. It is judged by the same trace
	// predicates.
	Split int `json:"split,omitempty"`
	// Agent asks for the configuration to be served by a real fake Agent
	// (fake/gnmi.New, gRPC on loopback, outside the bubble) as well.
	Agent bool `json:"agent,omitempty"`
	// Cfg, if set, dresses the fake.Config message the Client and the Agent are
	// given in fields and sub-messages that say nothing new about the stream.
	Cfg *CfgShape `json:"cfg,omitempty"`
}

// Alternatives of Config.generator a scenario may carry next to the top-level
// seed and values. fake.proto declares `random {seed, values}` as the
// replacement of the deprecated top-level fields; every alternative below
// names the SAME seed (or none) and the SAME values (or none) as the top level,
// so whichever of the two places a target reads, the configuration describes
// one stream. (Values that live only in the message, a seed in the message
// that differs from the top-level one, and the `fixed` / `custom` generators
// are different configurations and are not generated.)
const (
	GenUnset        = ""              // oneof not set
	GenRandomEmpty  = "random-empty"  // random {}
	GenRandomSeed   = "random-seed"   // random { seed: <Config.seed> }
	GenRandomMirror = "random-mirror" // random { values: <copy of Config.values> }
	GenRandomFull   = "random-full"   // random { seed: <Config.seed> values: <copy of Config.values> }
)

// CfgShape is the part of a fake.Config beyond target / seed / values /
// disable_sync: the generator oneof (see above) and fields that do not take
// part in generating the stream (fake.proto: listening port, per-RPC
// credentials, TLS certificate, client type, tunnel certificate file).
type CfgShape struct {
	Gen        string `json:"gen,omitempty"`
	Port       int32  `json:"port,omitempty"`  // the Agent observation listens on port 0 whenever this is positive
	Creds      string `json:"creds,omitempty"` // "" unset | "empty" = credentials {} | "set"
	Cert       string `json:"cert,omitempty"`  // "" unset | "empty" = zero-length bytes | "set"
	ClientType int32  `json:"client_type,omitempty"`
	TunnelCrt  string `json:"tunnel_crt,omitempty"`
	NoTarget   bool   `json:"no_target,omitempty"` // Config.target left empty
}

// buildConfig builds a fresh fake.Config for the scenario (nothing shared with
// the scenario or with an earlier result).
func (sc *Scenario) buildConfig(forAgent bool) *fpb.Config {
	cfg := &fpb.Config{Target: "c20", Seed: sc.Seed, Values: sc.buildValues(), DisableSync: sc.DisableSync}
	s := sc.Cfg
	if s == nil {
		return cfg
	}
	switch s.Gen {
	case GenRandomEmpty:
		cfg.Generator = &fpb.Config_Random{Random: &fpb.RandomGenerator{}}
	case GenRandomSeed:
		cfg.Generator = &fpb.Config_Random{Random: &fpb.RandomGenerator{Seed: sc.Seed}}
	case GenRandomMirror:
		cfg.Generator = &fpb.Config_Random{Random: &fpb.RandomGenerator{Values: sc.buildValues()}}
	case GenRandomFull:
		cfg.Generator = &fpb.Config_Random{Random: &fpb.RandomGenerator{Seed: sc.Seed, Values: sc.buildValues()}}
	}
	cfg.Port = s.Port
	if forAgent && cfg.Port > 0 {
		cfg.Port = 0 // a real listener: let the kernel choose
	}
	switch s.Creds {
	case "empty":
		cfg.Credentials = &fpb.Credentials{}
	case "set":
		cfg.Credentials = &fpb.Credentials{Username: "c20", Password: "secret"}
	}
	switch s.Cert {
	case "empty":
		cfg.Cert = []byte{}
	case "set":
		cfg.Cert = []byte("-----BEGIN CERTIFICATE-----\nnot a certificate\n-----END CERTIFICATE-----\n")
	}
	cfg.ClientType = fpb.Config_ClientType(s.ClientType)
	cfg.TunnelCrt = s.TunnelCrt
	if s.NoTarget {
		cfg.Target = ""
	}
	return cfg
}

func pathOf(i int) []string { return []string{"c20", "v" + strconv.Itoa(i)} }

// indexOf inverts pathOf; -1 if p is not a path of this engine.
func indexOf(p []string) int {
	if len(p) != 2 || p[0] != "c20" || len(p[1]) < 2 || p[1][0] != 'v' {
		return -1
	}
	n, err := strconv.Atoi(p[1][1:])
	if err != nil || n < 0 {
		return -1
	}
	return n
}

func dbls(in []Dbl) []float64 {
	out := make([]float64, len(in))
	for i, d := range in {
		out[i] = float64(d)
	}
	return out
}

// build returns a fresh fake.Value for v at position i. No sharing with the
// scenario: every slice is copied.
func (v *Val) build(i int) *fpb.Value {
	out := &fpb.Value{Path: pathOf(i), Repeat: v.Repeat, Seed: v.Seed}
	if v.TS != nil {
		out.Timestamp = &fpb.Timestamp{Timestamp: v.TS.T, DeltaMin: v.TS.DMin, DeltaMax: v.TS.DMax}
	}
	switch v.Kind {
	case KInt:
		iv := &fpb.IntValue{Value: v.IV}
		switch v.Dist {
		case DRange, DDelta:
			iv.Distribution = &fpb.IntValue_Range{Range: &fpb.IntRange{Minimum: v.IMin, Maximum: v.IMax, DeltaMin: v.IDMin, DeltaMax: v.IDMax}}
		case DRot, DRand:
			iv.Distribution = &fpb.IntValue_List{List: &fpb.IntList{Options: append([]int64(nil), v.IOpts...), Random: v.Dist == DRand}}
		}
		out.Value = &fpb.Value_IntValue{IntValue: iv}
	case KUint:
		uv := &fpb.UintValue{Value: v.UV}
		switch v.Dist {
		case DRange, DDelta:
			uv.Distribution = &fpb.UintValue_Range{Range: &fpb.UintRange{Minimum: v.UMin, Maximum: v.UMax, DeltaMin: v.IDMin, DeltaMax: v.IDMax}}
		case DRot, DRand:
			uv.Distribution = &fpb.UintValue_List{List: &fpb.UintList{Options: append([]uint64(nil), v.UOpts...), Random: v.Dist == DRand}}
		}
		out.Value = &fpb.Value_UintValue{UintValue: uv}
	case KDouble:
		dv := &fpb.DoubleValue{Value: float64(v.FV)}
		switch v.Dist {
		case DRange, DDelta:
			dv.Distribution = &fpb.DoubleValue_Range{Range: &fpb.DoubleRange{Minimum: float64(v.FMin), Maximum: float64(v.FMax), DeltaMin: float64(v.FDMin), DeltaMax: float64(v.FDMax)}}
		case DRot, DRand:
			dv.Distribution = &fpb.DoubleValue_List{List: &fpb.DoubleList{Options: dbls(v.FOpts), Random: v.Dist == DRand}}
		}
		out.Value = &fpb.Value_DoubleValue{DoubleValue: dv}
	case KString:
		sv := &fpb.StringValue{Value: v.SV}
		switch v.Dist {
		case DRot, DRand:
			sv.Distribution = &fpb.StringValue_List{List: &fpb.StringList{Options: append([]string(nil), v.SOpts...), Random: v.Dist == DRand}}
		}
		out.Value = &fpb.Value_StringValue{StringValue: sv}
	case KStrList:
		lv := &fpb.StringListValue{Value: append([]string(nil), v.LV...)}
		switch v.Dist {
		case DRot, DRand:
			lv.Distribution = &fpb.StringListValue_List{List: &fpb.StringList{Options: append([]string(nil), v.SOpts...), Random: v.Dist == DRand}}
		}
		out.Value = &fpb.Value_StringListValue{StringListValue: lv}
	case KBool:
		bv := &fpb.BoolValue{Value: v.BV}
		switch v.Dist {
		case DRot, DRand:
			bv.Distribution = &fpb.BoolValue_List{List: &fpb.BoolList{Options: append([]bool(nil), v.BOpts...), Random: v.Dist == DRand}}
		}
		out.Value = &fpb.Value_BoolValue{BoolValue: bv}
	case KDelete:
		out.Value = &fpb.Value_Delete{Delete: &fpb.DeleteValue{}}
	case KSync:
		out.Value = &fpb.Value_Sync{Sync: v.UV}
	}
	return out
}

// buildValues builds the whole value list of the scenario.
func (sc *Scenario) buildValues() []*fpb.Value {
	out := make([]*fpb.Value, len(sc.Values))
	for i := range sc.Values {
		out[i] = sc.Values[i].build(i)
	}
	return out
}

// deltas returns the timestamp step bounds of v (an unset block steps by 0).
func (v *Val) deltas() (int64, int64) {
	if v.TS == nil {
		return 0, 0
	}
	return v.TS.DMin, v.TS.DMax
}

func (v *Val) t0() int64 {
	if v.TS == nil {
		return 0
	}
	return v.TS.T
}

// docInvalid reports why v violates a precondition that fake.proto documents
// ("" if none): a range is minimum..maximum with the initial value inside it,
// "a value between delta_min and delta_max", a list is "the set of values
// which can be used" (so it has members), exactly one kind is chosen, repeat
// is a count.
func (v *Val) docInvalid() string {
	if v.Repeat < 0 {
		return "negative repeat"
	}
	if v.TS != nil && v.TS.DMin > v.TS.DMax {
		return "timestamp delta_min > delta_max"
	}
	isList := v.Dist == DRot || v.Dist == DRand
	isRange := v.Dist == DRange || v.Dist == DDelta
	switch v.Kind {
	case KNone:
		return "no value kind"
	case KInt:
		if isRange {
			if v.IMin > v.IMax {
				return "int minimum > maximum"
			}
			if v.IV < v.IMin || v.IV > v.IMax {
				return "int value outside range"
			}
			if v.IDMin > v.IDMax {
				return "int delta_min > delta_max"
			}
		}
		if isList && len(v.IOpts) == 0 {
			return "empty int options"
		}
	case KUint:
		if isRange {
			if v.UMin > v.UMax {
				return "uint minimum > maximum"
			}
			if v.UV < v.UMin || v.UV > v.UMax {
				return "uint value outside range"
			}
			if v.IDMin > v.IDMax {
				return "uint delta_min > delta_max"
			}
		}
		if isList && len(v.UOpts) == 0 {
			return "empty uint options"
		}
	case KDouble:
		if isRange {
			if !(v.FMin <= v.FMax) {
				return "double minimum > maximum"
			}
			if !(v.FV >= v.FMin && v.FV <= v.FMax) {
				return "double value outside range"
			}
			if !(v.FDMin <= v.FDMax) {
				return "double delta_min > delta_max"
			}
		}
		if isList && len(v.FOpts) == 0 {
			return "empty double options"
		}
	case KString, KStrList:
		if isList && len(v.SOpts) == 0 {
			return "empty string options"
		}
	case KBool:
		if isList && len(v.BOpts) == 0 {
			return "empty bool options"
		}
	}
	return ""
}

// codeRejectable reports whether the generator is entitled to answer this value
// with an error: it violates a documented precondition, or one of the two
// additional ones the generator checks and reports (negative timestamp,
// negative timestamp delta). A value with repeat 1 is never advanced, so it is
// never examined.
func (v *Val) codeRejectable() string {
	if v.Repeat == 1 {
		return ""
	}
	if d := v.docInvalid(); d != "" && d != "negative repeat" {
		return d
	}
	if v.t0() < 0 {
		return "negative timestamp"
	}
	if v.TS != nil && v.TS.DMin < 0 {
		return "negative timestamp delta"
	}
	return ""
}

// seededDeterministically reports whether every value's random source has a
// configured non-zero seed: the value's own, or else the global one.
func (sc *Scenario) seededDeterministically() bool {
	for i := range sc.Values {
		if sc.Values[i].Seed == 0 && sc.Seed == 0 {
			return false
		}
	}
	return true
}

func (sc *Scenario) String() string { return fmt.Sprintf("%+v", *sc) }
