package fakeprop

import (
	"context"
	"fmt"
	"io"
	"net"
	"time"

	"google.golang.org/grpc"
	"google.golang.org/grpc/codes"
	"google.golang.org/grpc/credentials/insecure"
	"google.golang.org/grpc/status"
	"google.golang.org/protobuf/proto"

	gpb "github.com/openconfig/gnmi/proto/gnmi"
	fgnmi "github.com/openconfig/gnmi/testing/fake/gnmi"
)

// agentPatience bounds how long one Agent observation may take. It never
// decides a verdict: when it runs out the case is labelled inconclusive.
const agentPatience = 2 * time.Minute

// runAgent serves the configuration with a real fake Agent (fake/gnmi.New: a
// gRPC server on a loopback port) and subscribes to it as a gNMI client would.
// It reads until the Agent ends the stream (ended) or limit responses have
// arrived. skip != "" : the environment, not the Agent, got in the way; there
// is nothing to judge.
//
// Runs outside any bubble (real sockets), so the global seed is never zero in
// a scenario that asks for it: nothing depends on the clock.
func (sc *Scenario) runAgent(limit int) (got []*gpb.SubscribeResponse, ended bool, skip string, err error) {
	cfg := sc.buildConfig(true)
	a, aerr := fgnmi.New(cfg, nil)
	if aerr != nil {
		return nil, false, "listen: " + aerr.Error(), nil
	}
	defer a.Close()
	_, port, perr := net.SplitHostPort(a.Address())
	if perr != nil {
		return nil, false, "address: " + perr.Error(), nil
	}
	conn, cerr := grpc.NewClient("passthrough:///"+net.JoinHostPort("127.0.0.1", port),
		grpc.WithTransportCredentials(insecure.NewCredentials()),
		grpc.WithNoProxy(),
		grpc.WithDefaultCallOptions(grpc.MaxCallRecvMsgSize(64<<20)))
	if cerr != nil {
		return nil, false, "dial: " + cerr.Error(), nil
	}
	defer conn.Close()
	ctx, cancel := context.WithTimeout(context.Background(), agentPatience)
	defer cancel()
	stream, serr := gpb.NewGNMIClient(conn).Subscribe(ctx)
	if serr != nil {
		return nil, false, "subscribe: " + serr.Error(), nil
	}
	sub := &gpb.SubscriptionList{}
	if sc.Target != "" {
		sub.Prefix = &gpb.Path{Target: sc.Target}
	}
	if e := stream.Send(&gpb.SubscribeRequest{Request: &gpb.SubscribeRequest_Subscribe{Subscribe: sub}}); e != nil {
		return nil, false, "send: " + e.Error(), nil
	}
	for len(got) < limit {
		r, rerr := stream.Recv()
		if rerr == io.EOF {
			return got, true, "", nil
		}
		if rerr != nil {
			switch status.Code(rerr) {
			case codes.FailedPrecondition, codes.Aborted, codes.InvalidArgument:
				// the codes the fake itself answers with
				return got, false, "", fmt.Errorf("agent: the Agent ended the subscription with %v after %d responses", rerr, len(got))
			}
			return got, false, "transport: " + rerr.Error(), nil
		}
		got = append(got, r)
	}
	return got, false, "", nil
}

// judgeAgent applies the trace predicates to what a subscriber of the real
// Agent received and, when every random source has a configured seed, demands
// that it is the sequence the in-memory Client produced from an equal
// configuration ("same configuration, same seed: identical sequences").
func (sc *Scenario) judgeAgent(st *stats) error {
	if !st.judged || st.wireLimit <= 0 {
		st.label("agent-not-asked-unjudged-configuration")
		return nil
	}
	got, ended, skip, err := sc.runAgent(st.wireLimit)
	if err != nil {
		return err
	}
	if skip != "" {
		st.label("agent-inconclusive-environment")
		return nil
	}
	anyUnbounded := false
	for i := range sc.Values {
		if sc.Values[i].Repeat == 0 {
			anyUnbounded = true
		}
	}
	ems, cerr := fromWire(got)
	if cerr != nil {
		return fmt.Errorf("agent: %v", cerr)
	}
	if anyUnbounded && ended {
		return fmt.Errorf("agent: repeat: the Agent ended the stream after %d responses although an unbounded value is configured", len(got))
	}
	if jerr := sc.judge(ems, ended, true, st); jerr != nil {
		return fmt.Errorf("agent: %v", jerr)
	}
	st.label("agent-observed")
	if len(sc.Values) > 8 {
		st.label("agent-observed-size-over-8")
	}
	if st.det {
		if len(got) != len(st.wire) {
			return fmt.Errorf("agent: reproducible: the Agent sent %d responses (ended=%v), a Client on an equal configuration with the same seeds %d%s", len(got), ended, len(st.wire), sc.cfgNote())
		}
		for k := range got {
			if !proto.Equal(got[k], st.wire[k]) {
				return fmt.Errorf("agent: reproducible: response %d of the Agent is %v, of a Client on an equal configuration with the same seeds %v%s", k, got[k], st.wire[k], sc.cfgNote())
			}
		}
		st.label("clause-reproducible-agent-equals-client")
	}
	return nil
}
