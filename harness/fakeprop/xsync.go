package fakeprop

import (
	"fmt"
	"math"
)

// Explicit sync values (fake.Value of kind sync) observed on the wire.
//
// A sync value is a configured value of the generator like any other: it is
// queued at its timestamp, emitted `repeat` times on its cadence, and the
// Client turns every emission into a sync response (true iff the configured
// number is > 0). When the injection of the sync marker is enabled
// (disable_sync false) the Client queues ONE more sync value (true, repeat 1)
// at UpdateQueue.Latest(), i.e. at L = max(0, every configured initial
// timestamp, those of the sync values included), behind everything that is
// queued at L at that moment. So, whatever the listing order of the values:
//
//	A. (count)     a complete stream carries 1 + worth sync responses, a prefix
//	               at most that many (worth = sum of the repeats of the sync
//	               values; no bound when one of them is unbounded);
//	B. (placement) "the sync marker after the first emission of every
//	               configured value": once the marker is due — the stream is
//	               complete, or it has reached a timestamp > L, or it already
//	               carries all 1 + worth sync responses — some sync response
//	               carrying true lies (before the first emission with a
//	               timestamp > L and) behind the first emission of every
//	               non-sync value and behind at least as many sync responses as
//	               there are sync values (each of them has been emitted once);
//	C. (schedule)  sync responses carry no timestamp, but the stream is ordered:
//	               in front of an update with timestamp T lie all sync emissions
//	               that are certainly due before T and none that cannot be due
//	               by T. Emission i of a sync value (t0, delta_min, delta_max)
//	               is due within [t0 + i*delta_min, t0 + i*delta_max]; the
//	               marker at L. This is the sound prefix form of "the explicit
//	               ones appear at their scheduled positions", and it needs no
//	               seed. (With disable_sync: the same without the marker.)
//
// The differential form for seeded configurations is sameStreamWithSyncs.

// xsyncs lists the indices of the explicit sync values.
func (sc *Scenario) xsyncs() []int {
	var xs []int
	for i := range sc.Values {
		if sc.Values[i].Kind == KSync {
			xs = append(xs, i)
		}
	}
	return xs
}

// latestInitial is what UpdateQueue.Latest() is documented to be after New:
// the maximum timestamp in the queue (a fresh queue reports 0).
func (sc *Scenario) latestInitial() int64 {
	l := int64(0)
	for i := range sc.Values {
		if t := sc.Values[i].t0(); t > l {
			l = t
		}
	}
	return l
}

// dueCount is the number of i in [0, repeat) (repeat 0: all i >= 0) with
// t0 + i*d < T (strict) or <= T (!strict), capped at limit. Exact for all
// int64 arguments (d >= 0).
func dueCount(t0, d int64, repeat int32, T int64, strict bool, limit int) int {
	if T < t0 || (strict && T == t0) {
		return 0
	}
	capr := limit
	if repeat >= 1 && int(repeat) < capr {
		capr = int(repeat)
	}
	if d <= 0 {
		return capr
	}
	span := uint64(T) - uint64(t0) // T >= t0: exact as an unsigned number
	ud := uint64(d)
	// strict:  i*d <  span  <=>  i <  ceil(span/d)    : ceil(span/d) values of i
	// !strict: i*d <= span  <=>  i <= floor(span/d)   : floor(span/d)+1 values
	// (compared with the cap before the +1: span/d may be 2^64-1)
	c := span / ud
	if c >= uint64(capr) {
		return capr
	}
	if !strict || span%ud != 0 {
		c++
	}
	return int(c)
}

// judgeXSync applies A, B and C to a stream observed on the wire of a
// configuration that contains explicit sync values.
func (sc *Scenario) judgeXSync(ems []em, exhausted bool, where string, st *stats) error {
	xs := sc.xsyncs()
	if len(xs) == 0 {
		return nil
	}
	n := len(sc.Values)
	inject := !sc.DisableSync
	L := sc.latestInitial()
	worth, unboundedX := 0, false
	for _, x := range xs {
		worth += int(sc.Values[x].Repeat)
		unboundedX = unboundedX || sc.Values[x].Repeat == 0
	}
	nonSync := n - len(xs)
	limit := len(ems) + 2

	seen := make([]bool, n)
	firsts := 0     // non-sync values emitted at least once so far
	syncBefore := 0 // sync responses so far
	dueAt := -1     // position of the first update with a timestamp > L
	// the last sync response carrying true in front of dueAt: if any sync
	// response qualifies as the marker of clause B, this one does
	candAt, candFirsts, candSyncs := -1, 0, 0
	for k, e := range ems {
		if e.idx < 0 {
			if e.mark && dueAt < 0 {
				candAt, candFirsts, candSyncs = k, firsts, syncBefore
			}
			syncBefore++
			continue
		}
		if e.idx >= n {
			continue // reported by judge
		}
		// ---- C ----
		lb, ub := 0, 0
		for _, x := range xs {
			v := &sc.Values[x]
			dmin, dmax := v.deltas()
			lb += dueCount(v.t0(), dmax, v.Repeat, e.ts, true, limit)
			ub += dueCount(v.t0(), dmin, v.Repeat, e.ts, false, limit)
		}
		if inject {
			if e.ts > L {
				lb++
			}
			if e.ts >= L {
				ub++
			}
		}
		if syncBefore < lb {
			return fmt.Errorf("%s: sync: %d sync responses precede the update of value %d with timestamp %d at position %d, although %d are due strictly before that timestamp (%s)", where, syncBefore, e.idx, e.ts, k, lb, sc.xsyncString(xs, L))
		}
		if syncBefore > ub {
			return fmt.Errorf("%s: sync: %d sync responses precede the update of value %d with timestamp %d at position %d, although only %d can be due by that timestamp (%s)", where, syncBefore, e.idx, e.ts, k, ub, sc.xsyncString(xs, L))
		}
		st.label("clause-xsync-schedule-bounds")
		if lb == ub && lb > 0 {
			st.label("clause-xsync-schedule-bounds-tight")
		}
		if e.ts > L && dueAt < 0 {
			dueAt = k
		}
		if !seen[e.idx] {
			seen[e.idx] = true
			firsts++
		}
	}
	if !inject {
		return nil
	}

	// ---- A ----
	if !unboundedX && syncBefore > 1+worth {
		return fmt.Errorf("%s: sync: %d sync responses, the injected marker and explicit sync values worth %d make %d (%s)", where, syncBefore, worth, 1+worth, sc.xsyncString(xs, L))
	}
	if exhausted && syncBefore != 1+worth {
		return fmt.Errorf("%s: sync: complete stream of %d responses carries %d sync responses, want %d: the injected marker in addition to explicit sync values worth %d (%s)", where, len(ems), syncBefore, 1+worth, worth, sc.xsyncString(xs, L))
	}
	if exhausted {
		st.label("clause-xsync-count-exact")
	}

	// ---- B ----
	due := exhausted || dueAt >= 0 || (!unboundedX && syncBefore == 1+worth)
	if !due {
		st.label("xsync-marker-not-due-in-prefix")
		return nil
	}
	why := "the stream is complete"
	switch {
	case dueAt >= 0:
		why = fmt.Sprintf("position %d has timestamp %d, later than every initial timestamp (latest %d)", dueAt, ems[dueAt].ts, L)
	case !exhausted:
		why = fmt.Sprintf("all %d sync responses have been sent", 1+worth)
	}
	if candAt < 0 {
		return fmt.Errorf("%s: sync: no sync response carrying true in front of the point where the marker is due (%s) (%s)", where, why, sc.xsyncString(xs, L))
	}
	if candFirsts < nonSync {
		miss := -1
		cnt := make([]bool, n)
		for k := 0; k < candAt; k++ {
			if i := ems[k].idx; i >= 0 && i < n {
				cnt[i] = true
			}
		}
		for i := range sc.Values {
			if sc.Values[i].Kind != KSync && !cnt[i] {
				miss = i
				break
			}
		}
		return fmt.Errorf("%s: sync: no sync marker after the first emission of every configured value: the last sync response carrying true that is not late (%s) is response %d, and value %d (%s/%s, initial timestamp %d) has not been emitted by then (%s)", where, why, candAt, miss, sc.Values[miss].Kind, sc.Values[miss].Dist, sc.Values[miss].t0(), sc.xsyncString(xs, L))
	}
	if candSyncs < len(xs) {
		return fmt.Errorf("%s: sync: no sync marker after the first emission of every configured value: the last sync response carrying true that is not late (%s) is response %d with %d sync responses in front of it, fewer than the %d configured sync values (%s)", where, why, candAt, candSyncs, len(xs), sc.xsyncString(xs, L))
	}
	st.label("clause-xsync-marker-after-all-first")
	if dueAt >= 0 && !exhausted {
		st.label("clause-xsync-marker-due-in-prefix")
	}
	return nil
}

// xsyncString describes the sync part of the configuration in a message.
func (sc *Scenario) xsyncString(xs []int, L int64) string {
	s := fmt.Sprintf("disable_sync %v, latest initial timestamp %d, %d values, sync values:", sc.DisableSync, L, len(sc.Values))
	for _, x := range xs {
		v := &sc.Values[x]
		dmin, dmax := v.deltas()
		ts := "timestamp unset"
		if v.TS != nil {
			ts = fmt.Sprintf("timestamp %d delta [%d,%d]", v.TS.T, dmin, dmax)
		}
		s += fmt.Sprintf(" #%d{%s repeat %d sync %d}", x, ts, v.Repeat, v.UV)
	}
	return s
}

// sameStreamWithSyncs: every random source being seeded, the Client's stream
// is what queue.New(false, seed, values) emits for the same values — explicit
// sync values included, each as a sync response (true iff its number is > 0)
// at the position the generator gave it — plus, when the injection is enabled
// and the marker has been reached, exactly ONE more sync response carrying
// true. (Where the marker lies is judged by judgeXSync.)
func sameStreamWithSyncs(wire, q []em, sc *Scenario, ended, qExhausted bool, st *stats) error {
	g := make([]em, 0, len(q))
	for _, e := range q {
		if e.idx >= 0 && e.idx < len(sc.Values) && sc.Values[e.idx].Kind == KSync {
			u, _ := e.val.(uint64)
			g = append(g, em{idx: -1, mark: u > 0, noVal: true})
			continue
		}
		g = append(g, e)
	}
	same := func(a, b em) bool {
		if a.idx < 0 || b.idx < 0 {
			return a.idx < 0 && b.idx < 0 && a.mark == b.mark
		}
		return a.idx == b.idx && a.ts == b.ts && a.noVal == b.noVal && (a.noVal || sameVal(a.val, b.val))
	}
	show := func(e em) string {
		if e.idx < 0 {
			return fmt.Sprintf("sync response %v", e.mark)
		}
		return fmt.Sprintf("value %d at timestamp %d carrying %v", e.idx, e.ts, e.val)
	}
	// first position at which wire and g differ
	m := 0
	for m < len(wire) && m < len(g) && same(wire[m], g[m]) {
		m++
	}
	if sc.DisableSync {
		if m < len(wire) && m < len(g) {
			return fmt.Errorf("response %d is %s on the wire, %s from the queue (disable_sync set: nothing is injected)", m, show(wire[m]), show(g[m]))
		}
		if ended && qExhausted && len(wire) != len(g) {
			return fmt.Errorf("complete stream of %d responses, the queue emitted %d (disable_sync set: nothing is injected)", len(wire), len(g))
		}
		st.label("clause-xsync-client-equals-queue-syncs-included")
		return nil
	}
	if m == len(wire) {
		// the wire is a prefix of the queue's sequence: the marker has not been
		// reached (a complete stream lacks it: clause A reports that)
		st.label("xsync-differential-marker-not-reached")
		return nil
	}
	// wire[j] is the injected marker for some j <= m carrying true; the rest
	// must line up
	mis := -1
	for j := m; j >= 0; j-- {
		if wire[j].idx >= 0 || !wire[j].mark {
			continue
		}
		ok := true
		for k := j + 1; k < len(wire) && k-1 < len(g); k++ {
			if !same(wire[k], g[k-1]) {
				ok = false
				if mis < 0 {
					mis = k
				}
				break
			}
		}
		if ok {
			if ended && qExhausted && len(wire)-1 != len(g) {
				return fmt.Errorf("complete stream of %d responses, the queue emitted %d and one marker is injected", len(wire), len(g))
			}
			st.label("clause-xsync-client-equals-queue-plus-one-marker")
			return nil
		}
	}
	if m < len(g) {
		return fmt.Errorf("the wire is not the queue's sequence plus one injected sync response carrying true: response %d is %s on the wire, %s from the queue, and taking no single sync response carrying true at or in front of it for the marker lines the rest up", m, show(wire[m]), show(g[m]))
	}
	return fmt.Errorf("the wire is not the queue's sequence plus one injected sync response carrying true: response %d is %s on the wire, the queue's %d emissions end there", m, show(wire[m]), len(g))
}

// xsyncLabels: evidence that the classes of interest are generated (explicit
// sync values next to an enabled injection; where they are listed; when they
// are due).
func (sc *Scenario) xsyncLabels(st *stats) {
	xs := sc.xsyncs()
	if len(xs) == 0 {
		return
	}
	n := len(sc.Values)
	mode := "xsync-inject-"
	if sc.DisableSync {
		mode = "xsync-disabled-"
	}
	st.label(mode + "any")
	if len(xs) > 1 {
		st.label(mode + "several-sync-values")
	}
	if len(xs) == n {
		st.label(mode + "only-sync-values")
	}
	maxOther, haveOther := int64(math.MinInt64), false
	minOther := int64(math.MaxInt64)
	for i := range sc.Values {
		if sc.Values[i].Kind != KSync {
			haveOther = true
			if t := sc.Values[i].t0(); t > maxOther {
				maxOther = t
			}
			if t := sc.Values[i].t0(); t < minOther {
				minOther = t
			}
		}
	}
	for _, x := range xs {
		v := &sc.Values[x]
		pos := "middle"
		switch {
		case x == n-1 && x == 0:
			pos = "alone"
		case x == n-1:
			pos = "last"
		case x == 0:
			pos = "first"
		}
		st.label(mode + "listed-" + pos)
		if v.TS == nil {
			st.label(mode + "timestamp-unset")
		}
		switch {
		case v.Repeat == 0:
			st.label(mode + "unbounded-heartbeat")
		case v.Repeat > 1:
			st.label(mode + "repeating")
		}
		if v.UV == 0 {
			st.label(mode + "carries-false")
		}
		if !haveOther {
			continue
		}
		t := v.t0()
		when := ""
		switch {
		case t > maxOther:
			when = "due-after-every-other-value-moves-latest"
		case t == maxOther:
			when = "due-with-the-latest-value"
		case t < minOther:
			when = "due-before-every-other-value"
		default:
			when = "due-among-the-other-values"
		}
		st.label(mode + when)
		if t < maxOther {
			st.label(mode + "listed-" + pos + "-due-before-another-first-emission")
		}
	}
}
