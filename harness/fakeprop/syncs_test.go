package fakeprop

import (
	"testing"

	"pgregory.net/rapid"
	"verif/harness/internal/vstat"
)

// The "syncs" part generalises WHERE explicit sync values occur. The other
// parts configure a sync value only together with disable_sync (the way the
// callers in the repository do). Here a configuration carries 1-3 values of
// kind sync NEXT TO an enabled injection (seven cases out of eight; the
// eighth sets disable_sync, for the differential clause), listed first, last,
// anywhere in between or alone, with any repeat (once, 2-6 times, an unbounded
// heartbeat), with or without a timestamp block, carrying 0, 1 or 2, and due
// before, among, together with or after the other values (0-8 values of every
// kind, scheduled as in the "random" part): listing order and schedule order
// are drawn independently of each other. The stream is observed at the queue,
// through the Client and (one case in eight) through a real Agent; the sync
// clauses for such a stream are in xsync.go.

func genSyncValue(t *rapid.T, others []Val, base int64, starver bool) Val {
	v := Val{Kind: KSync, Dist: DConst}
	v.UV = rapid.SampledFrom([]uint64{1, 1, 1, 2, 0}).Draw(t, "sync-number")
	switch rapid.SampledFrom([]int{1, 1, 1, 2, 2, 0}).Draw(t, "sync-repeat-shape") {
	case 0:
		v.Repeat = 0
	case 1:
		v.Repeat = 1
	default:
		v.Repeat = int32(rapid.IntRange(2, 6).Draw(t, "sync-repeat"))
	}
	v.Seed = genSeed(t, "sync-vseed")

	lo, hi := base, base
	for i := range others {
		t0 := others[i].t0()
		if i == 0 || t0 < lo {
			lo = t0
		}
		if i == 0 || t0 > hi {
			hi = t0
		}
	}
	// always the same draws, whatever `when` turns out to be
	when := rapid.SampledFrom([]string{"before", "among", "at-latest", "after", "unset", "at-one", "near-base", "wide", "before-far", "after-far"}).Draw(t, "sync-when")
	near := rapid.Int64Range(1, 5).Draw(t, "sync-near")
	far := rapid.Int64Range(6, big).Draw(t, "sync-far")
	permille := rapid.Int64Range(0, 1000).Draw(t, "sync-among-permille")
	pick := rapid.IntRange(0, 7).Draw(t, "sync-at-which")
	wide := rapid.Int64Range(0, big).Draw(t, "sync-wide")
	ts := &TS{}
	switch when {
	case "before":
		ts.T = lo - near
	case "before-far":
		ts.T = lo - far
	case "among":
		ts.T = lo + (hi-lo)*permille/1000 // |hi-lo| <= 2^41
	case "at-latest":
		ts.T = hi
	case "after":
		ts.T = hi + near
	case "after-far":
		ts.T = hi + far
	case "at-one":
		if len(others) > 0 {
			ts.T = others[pick%len(others)].t0()
		} else {
			ts.T = base
		}
	case "near-base":
		ts.T = base + near
	case "wide":
		ts.T = wide
	}
	switch rapid.SampledFrom([]int{0, 0, 1, 1, 2, 2, 3, 4}).Draw(t, "sync-delta-shape") {
	case 1:
		ts.DMin = rapid.Int64Range(1, 4).Draw(t, "sync-period")
		ts.DMax = ts.DMin
	case 2:
		ts.DMin = rapid.Int64Range(0, 3).Draw(t, "sync-dmin")
		ts.DMax = ts.DMin + rapid.Int64Range(1, 4).Draw(t, "sync-dspan")
	case 3:
		// comparable to the spread of the other values
		ts.DMin = rapid.Int64Range(1, min(hi-lo+2, big)).Draw(t, "sync-period-spread")
		ts.DMax = ts.DMin
	case 4:
		ts.DMin = rapid.Int64Range(0, big).Draw(t, "sync-dmin-wide")
		ts.DMax = rapid.Int64Range(ts.DMin, big).Draw(t, "sync-dmax-wide")
	}
	// the domain: a negative timestamp only on a value emitted once (the
	// generator rejects it as soon as it has to step it)
	if ts.T < 0 && v.Repeat != 1 {
		ts.T = 0
	}
	if when == "unset" {
		v.TS = nil // due at 0, never stepped
	} else {
		v.TS = ts
	}
	// an unbounded sync that never advances starves everything behind it
	// (inherent in timestamp order): one configuration in ten may have one
	if _, dmax := v.deltas(); v.Repeat == 0 && dmax == 0 && !starver {
		v.Repeat = int32(rapid.IntRange(1, 3).Draw(t, "sync-repeat-instead"))
	}
	return v
}

func genSyncs(t *rapid.T) *Scenario {
	sc := &Scenario{}
	sc.Seed = genSeed(t, "seed")
	sc.DisableSync = rapid.IntRange(0, 7).Draw(t, "disable-sync") == 0
	sc.Extra = rapid.IntRange(2, 24).Draw(t, "extra")
	sc.Target = rapid.SampledFrom([]string{"", "", "dev"}).Draw(t, "target")
	// (sync values are placed below: genValWith draws none)
	env := genEnv{}
	env.base = rapid.SampledFrom([]int64{0, 0, 3, 1000, big - 64}).Draw(t, "base")
	nOther := rapid.SampledFrom([]int{3, 2, 4, 3, 1, 5, 6, 0, 8}).Draw(t, "n-other")
	nSync := rapid.SampledFrom([]int{1, 1, 1, 2, 2, 3}).Draw(t, "n-sync")
	splitAt := rapid.IntRange(0, 999).Draw(t, "split-permille")
	wantSplit := rapid.IntRange(0, 3).Draw(t, "split") == 0
	sc.Agent = rapid.IntRange(0, 7).Draw(t, "agent") == 0
	if s := rapid.Int64Range(1, 1000).Draw(t, "agent-seed"); sc.Agent && sc.Seed == 0 {
		sc.Seed = s // outside the bubble nothing may depend on the clock
	}
	starver := rapid.IntRange(0, 9).Draw(t, "allow-starver") == 0

	others := make([]Val, nOther)
	for i := range others {
		others[i] = genVal(t, env)
		if _, dmax := others[i].deltas(); others[i].Repeat == 0 && dmax == 0 && !starver {
			others[i].Repeat = 3
		}
	}
	vals := others
	for s := 0; s < nSync; s++ {
		v := genSyncValue(t, others, env.base, starver)
		where := rapid.SampledFrom([]string{"last", "last", "first", "middle", "middle"}).Draw(t, "sync-listed")
		at := rapid.IntRange(0, 999).Draw(t, "sync-listed-permille")
		p := len(vals)
		switch where {
		case "first":
			p = 0
		case "middle":
			p = at * (len(vals) + 1) / 1000
		}
		out := make([]Val, 0, len(vals)+1)
		out = append(out, vals[:p]...)
		out = append(out, v)
		out = append(out, vals[p:]...)
		vals = out
	}
	sc.Values = vals
	if n := len(vals); wantSplit && n >= 2 {
		sc.Split = 1 + splitAt*(n-2)/999
	}
	sc.Shape = "syncs"
	sc.Cfg = genCfgShape(t)
	return sc
}

// TestC20Syncs: explicit sync values next to an enabled injection, in every
// listing position and at every point of the schedule.
func TestC20Syncs(t *testing.T) {
	if !vstat.Enabled("C20") {
		t.Skip()
	}
	rec := vstat.New("C20", "syncs")
	rec.RunRapid(t, func(rt *rapid.T) {
		sc := genSyncs(rt)
		rec.Current(sc)
		st, err := runCase(t, sc)
		rec.Case(sc, st.nontrivial(), st.labelList()...)
		if err != nil {
			rt.Fatalf("%s", rec.Fail(sc, classOf(err), "%v", err))
		}
	})
}
