package fakeprop

import (
	"math"
	mbig "math/big"
)

// Evidence (labels only, no verdicts) about WHERE on its numeric axis every
// numeric field of a configuration lies: range bounds of int / uint / double
// values at the limits of their types, one-point ranges, ranges as wide as the
// generator's random source accepts, value deltas that are 0 / +-1 / equal /
// of opposite sign / about the width of the range / about 2^63, timestamp
// deltas at their limits, repeat counts 0 / 1 / 2 / long, one-element option
// lists, option lists and seeds at the limits of int64 / uint64 / float64.
//
// All arithmetic here is done in uint64 differences of ordered operands or in
// math/big: a label must not depend on a wrapped intermediate result.

// maxSpan is the widest minimum..maximum (uniform ranges) or
// delta_min..delta_max (cumulative ranges, timestamps) span the unchanged
// generator supports: it draws rand.Int63n(span+1), which panics unless
// 0 < span+1 <= MaxInt64 in int64 arithmetic. A span of 2^63-1 or more is
// outside the domain (DESIGN.md 10.2 (iv)); 2^63-2 is its border and is
// generated.
const maxSpan = uint64(1)<<63 - 2

// spanI is hi-lo for lo <= hi, exact.
func spanI(lo, hi int64) uint64 { return uint64(hi) - uint64(lo) }

func absU(x int64) uint64 {
	if x < 0 {
		return -uint64(x)
	}
	return uint64(x)
}

const hug = 8 // "at a limit": within 8 units of it

func nearI(x, a int64) bool {
	if x < a {
		x, a = a, x
	}
	return spanI(a, x) <= hug
}

func nearU(x, a uint64) bool {
	if x < a {
		x, a = a, x
	}
	return x-a <= hug
}

// deltaLabels names the shape of a value-delta pair relative to the width w of
// the range it walks in.
func deltaLabels(prefix string, dmin, dmax int64, w *mbig.Int, st *stats) {
	switch {
	case dmin == dmax:
		st.label(prefix + "-delta-equal")
	case dmin < 0 && dmax > 0:
		st.label(prefix + "-delta-opposite-signs")
	}
	switch {
	case dmin == 0 || dmax == 0:
		st.label(prefix + "-delta-zero-bound")
	case dmin > 0:
		st.label(prefix + "-delta-positive-only")
	case dmax < 0:
		st.label(prefix + "-delta-negative-only")
	}
	if (dmin == 1 || dmin == -1 || dmin == 0) && (dmax == 1 || dmax == -1 || dmax == 0) {
		st.label(prefix + "-delta-unit")
	}
	if spanI(dmin, dmax) == maxSpan {
		st.label(prefix + "-delta-span-at-int63n-limit")
	}
	for _, d := range []int64{dmin, dmax} {
		m := new(mbig.Int).SetUint64(absU(d))
		switch {
		case absU(d) >= 1<<62:
			st.label(prefix + "-delta-2^62-or-more")
		case absU(d) >= 1<<31:
			st.label(prefix + "-delta-2^31-or-more")
		}
		if d == math.MinInt64 || d == math.MaxInt64 {
			st.label(prefix + "-delta-is-an-int64-limit")
		}
		if d == 0 {
			continue
		}
		diff := new(mbig.Int).Sub(m, w)
		switch {
		case diff.IsInt64() && diff.Int64() >= -1 && diff.Int64() <= 1:
			st.label(prefix + "-delta-about-the-width")
		case diff.Sign() > 0:
			st.label(prefix + "-delta-over-the-width")
		}
	}
}

func (sc *Scenario) numericLabels(ems []em, st *stats) {
	for i := range sc.Values {
		v := &sc.Values[i]
		stepped := v.Repeat != 1
		isRange := v.Dist == DRange || v.Dist == DDelta
		isList := v.Dist == DRot || v.Dist == DRand

		// ---- repeat counts ---------------------------------------------------------
		switch {
		case v.Repeat == 0:
			st.label("num-repeat-0")
		case v.Repeat == 1:
			st.label("num-repeat-1")
		case v.Repeat == 2:
			st.label("num-repeat-2")
		case v.Repeat > longRepeat:
			st.label("num-repeat-long")
			if v.Repeat >= math.MaxInt32-1 {
				st.label("num-repeat-max-int32")
			}
		case v.Repeat >= 200:
			st.label("num-repeat-200+")
		}

		// ---- seeds --------------------------------------------------------------------
		if absU(v.Seed) >= 1<<31 {
			st.label("num-seed-value-2^31-or-more")
		}

		// ---- timestamp deltas ------------------------------------------------------------
		if v.TS != nil && stepped {
			dmin, dmax := v.TS.DMin, v.TS.DMax
			switch {
			case dmax >= 1<<62:
				st.label("num-ts-delta-2^62-or-more")
			case dmax >= 1<<31:
				st.label("num-ts-delta-2^31-or-more")
			}
			if dmax == math.MaxInt64 {
				st.label("num-ts-delta-max-int64")
			}
			if dmin <= dmax && dmin >= 0 && spanI(dmin, dmax) == maxSpan {
				st.label("num-ts-delta-span-at-int63n-limit")
			}
			if dmin == dmax && dmin > 0 {
				st.label("num-ts-delta-equal")
			}
		}

		// ---- one-element and edge option lists ------------------------------------------------
		if isList {
			nopt, edge := 0, false
			switch v.Kind {
			case KInt:
				nopt = len(v.IOpts)
				for _, o := range v.IOpts {
					edge = edge || absU(o) >= 1<<62
				}
			case KUint:
				nopt = len(v.UOpts)
				for _, o := range v.UOpts {
					edge = edge || o >= 1<<62
				}
			case KDouble:
				nopt = len(v.FOpts)
				for _, o := range v.FOpts {
					f := math.Abs(float64(o))
					edge = edge || f >= 1e300 || (f > 0 && f < 2.3e-308)
				}
			case KString, KStrList:
				nopt = len(v.SOpts)
			case KBool:
				nopt = len(v.BOpts)
			}
			if nopt == 1 && stepped {
				st.label("num-list-one-option")
				st.label("num-list-one-option-" + v.Dist)
			}
			if edge && stepped {
				st.label("num-list-options-at-type-limits")
			}
		}
		if !isRange || !stepped {
			continue
		}

		// ---- ranges --------------------------------------------------------------------------------
		switch v.Kind {
		case KInt:
			if v.IMin > v.IMax {
				continue
			}
			w := spanI(v.IMin, v.IMax)
			p := "num-int-" + v.Dist
			switch {
			case w == 0:
				st.label(p + "-one-point")
			case w == maxSpan:
				st.label(p + "-width-at-int63n-limit")
			case w > maxSpan:
				st.label(p + "-width-over-2^63")
			case w >= 1<<62:
				st.label(p + "-width-2^62-or-more")
			case w >= 1<<31:
				st.label(p + "-width-2^31-or-more")
			}
			if nearI(v.IMin, math.MinInt64) {
				st.label(p + "-at-min-int64")
			}
			if nearI(v.IMax, math.MaxInt64) {
				st.label(p + "-at-max-int64")
			}
			if nearI(v.IMin, 0) || nearI(v.IMax, 0) {
				st.label(p + "-at-zero")
			}
			for _, a := range []int64{1 << 31, -(1 << 31), 1 << 32, -(1 << 32), 1 << 62, -(1 << 62)} {
				if nearI(v.IMin, a) || nearI(v.IMax, a) {
					st.label(p + "-at-2^31-2^32-2^62")
				}
			}
			if v.Dist == DDelta {
				deltaLabels("num-int", v.IDMin, v.IDMax, new(mbig.Int).SetUint64(w), st)
				// the class the arithmetic cares about: some value of the range plus
				// some step of the delta interval is not an int64
				if _, ok := addInt64(v.IMax, v.IDMax); !ok {
					st.label("num-int-value-plus-delta-leaves-int64")
					st.label("num-int-value-plus-delta-above-max-int64")
				}
				if _, ok := addInt64(v.IMin, v.IDMin); !ok {
					st.label("num-int-value-plus-delta-leaves-int64")
					st.label("num-int-value-plus-delta-below-min-int64")
				}
				// ... or a bound minus a step is not (the other way to write the clamp)
				if _, ok := addInt64(v.IMax, -v.IDMax); !ok || v.IDMax == math.MinInt64 {
					st.label("num-int-bound-minus-delta-leaves-int64")
				}
				if _, ok := addInt64(v.IMin, -v.IDMin); !ok || v.IDMin == math.MinInt64 {
					st.label("num-int-bound-minus-delta-leaves-int64")
				}
			}
		case KUint:
			if v.UMin > v.UMax {
				continue
			}
			w := v.UMax - v.UMin
			p := "num-uint-" + v.Dist
			switch {
			case w == 0:
				st.label(p + "-one-point")
			case w == maxSpan:
				st.label(p + "-width-at-int63n-limit")
			case w > maxSpan:
				st.label(p + "-width-over-2^63")
			case w >= 1<<62:
				st.label(p + "-width-2^62-or-more")
			case w >= 1<<31:
				st.label(p + "-width-2^31-or-more")
			}
			if nearU(v.UMin, 0) {
				st.label(p + "-at-zero")
			}
			if nearU(v.UMax, math.MaxUint64) {
				st.label(p + "-at-max-uint64")
			}
			switch {
			case v.UMin >= 1<<63:
				st.label(p + "-above-2^63")
			case v.UMax >= 1<<63:
				st.label(p + "-across-2^63")
			case nearU(v.UMax, 1<<63-1):
				st.label(p + "-up-to-max-int64")
			}
			if v.Dist == DDelta {
				deltaLabels("num-uint", v.IDMin, v.IDMax, new(mbig.Int).SetUint64(w), st)
			}
		case KDouble:
			mn, mx := float64(v.FMin), float64(v.FMax)
			if !(mn <= mx) {
				continue
			}
			p := "num-double-" + v.Dist
			switch {
			case mn == mx:
				st.label(p + "-one-point")
			case math.Nextafter(mn, math.Inf(1)) == mx:
				st.label(p + "-adjacent-bounds")
			case math.IsInf(mx-mn, 0) && !math.IsInf(mx, 0) && !math.IsInf(mn, 0):
				st.label(p + "-width-overflows-float64")
			}
			if math.IsInf(mn, 0) || math.IsInf(mx, 0) {
				st.label(p + "-infinite-bound")
			}
			if mn <= -1e300 || mx >= 1e300 {
				st.label(p + "-at-max-float64")
			}
			if den := func(f float64) bool { return f != 0 && math.Abs(f) < 2.3e-308 }; den(mn) || den(mx) {
				st.label(p + "-denormal-bound")
			}
			if math.Abs(mn) >= 1<<53 || math.Abs(mx) >= 1<<53 {
				st.label(p + "-beyond-2^53")
			}
			if v.Dist == DDelta {
				dmin, dmax := float64(v.FDMin), float64(v.FDMax)
				switch {
				case dmin == dmax:
					st.label("num-double-delta-equal")
				case dmin < 0 && dmax > 0:
					st.label("num-double-delta-opposite-signs")
				}
				switch {
				case dmin == 0 || dmax == 0:
					st.label("num-double-delta-zero-bound")
				case dmin > 0:
					st.label("num-double-delta-positive-only")
				case dmax < 0:
					st.label("num-double-delta-negative-only")
				}
				if math.Abs(dmin) >= 1e300 || math.Abs(dmax) >= 1e300 {
					st.label("num-double-delta-at-max-float64")
				}
				if math.IsInf(dmax-dmin, 0) {
					st.label("num-double-delta-span-overflows-float64")
				}
				if w := mx - mn; w > 0 && (math.Abs(dmin) >= w || math.Abs(dmax) >= w) {
					st.label("num-double-delta-width-or-more")
				}
				if den := func(f float64) bool { return f != 0 && math.Abs(f) < 2.3e-308 }; den(dmin) || den(dmax) {
					st.label("num-double-delta-denormal")
				}
			}
		}
	}
	if absU(sc.Seed) >= 1<<31 {
		st.label("num-seed-global-2^31-or-more")
	}
	// what was emitted
	for _, e := range ems {
		switch x := e.val.(type) {
		case int64:
			if x == math.MinInt64 || x == math.MaxInt64 {
				st.label("num-emitted-an-int64-limit")
			}
		case uint64:
			if x == math.MaxUint64 {
				st.label("num-emitted-max-uint64")
			}
		case float64:
			if math.IsInf(x, 0) || math.Abs(x) == math.MaxFloat64 {
				st.label("num-emitted-a-float64-limit")
			}
		}
		if e.ts == math.MaxInt64 {
			st.label("num-emitted-timestamp-max-int64")
		}
	}
}
