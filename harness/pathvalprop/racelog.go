package pathvalprop

import (
	"os"
	"path/filepath"
	"regexp"
	"runtime/debug"
	"sort"
	"strings"
)

// Race detector reports (the concurrent part may be built with -race and run
// with GORACE="log_path=<prefix> halt_on_error=0"): every finished report is
// read back from the log after a case and classified by the top-most
// github.com/openconfig/gnmi/ function of each of its two access stacks - the
// same convention as the C10 / C15 race parts.

const gnmiPkgPrefix = "github.com/openconfig/gnmi/"

// raceReport is one parsed "WARNING: DATA RACE" report.
type raceReport struct {
	class string    // "race:<frame>|<frame>", sorted
	funcs [2]string // top-most gnmi function of each access stack ("?" if none)
	where [2]string // its file:line
	text  string
}

var (
	raceAccessHdr = regexp.MustCompile(`^(?:Previous )?(?:[Aa]tomic )?(?:[Rr]ead|[Ww]rite) at 0x[0-9a-f]+ by (?:main goroutine|goroutine \d+).*:$`)
	raceLogPath   = regexp.MustCompile(`(?:^|\s)log_path=(\S+)`)
)

func raceClass(a, b string) string {
	if b < a {
		a, b = b, a
	}
	return "race:" + a + "|" + b
}

// parseRaceReports splits detector output into finished reports; rest is the
// unterminated tail (a report still being written).
func parseRaceReports(text string) (reports []raceReport, rest string) {
	const delim = "=================="
	var cur []string
	in := false
	pos, openPos := 0, 0
	for _, ln := range strings.SplitAfter(text, "\n") {
		if !strings.HasSuffix(ln, "\n") {
			if !in {
				openPos = pos
			}
			return reports, text[openPos:]
		}
		lineStart := pos
		pos += len(ln)
		if strings.TrimRight(ln, "\r\n") == delim {
			if in {
				if rep, ok := classifyRaceReport(cur); ok {
					reports = append(reports, rep)
				}
				cur, in = nil, false
			} else {
				in, cur, openPos = true, nil, lineStart
			}
			continue
		}
		if in {
			cur = append(cur, ln)
		}
	}
	if in {
		return reports, text[openPos:]
	}
	return reports, ""
}

func classifyRaceReport(lines []string) (raceReport, bool) {
	rep := raceReport{text: strings.Join(lines, "")}
	if !strings.Contains(rep.text, "WARNING: DATA RACE") {
		return rep, false
	}
	rep.funcs = [2]string{"?", "?"}
	idx := -1
	inStack := false
	for i := 0; i < len(lines); i++ {
		ln := strings.TrimRight(lines[i], "\r\n")
		if raceAccessHdr.MatchString(ln) {
			idx++
			if idx > 1 {
				break
			}
			inStack = true
			continue
		}
		if ln == "" {
			inStack = false
			continue
		}
		if !inStack || idx < 0 || rep.funcs[idx] != "?" {
			continue
		}
		if strings.HasPrefix(ln, "  ") && !strings.HasPrefix(ln, "   ") {
			fn := strings.TrimSpace(ln)
			if k := strings.LastIndex(fn, "("); k > 0 && strings.HasSuffix(fn, ")") {
				fn = fn[:k] // drop the argument list "()"
			}
			if strings.HasPrefix(fn, gnmiPkgPrefix) {
				rep.funcs[idx] = strings.TrimPrefix(fn, gnmiPkgPrefix)
				if i+1 < len(lines) {
					if w := strings.Fields(strings.TrimSpace(lines[i+1])); len(w) > 0 {
						rep.where[idx] = w[0]
					}
				}
			}
		}
	}
	rep.class = raceClass(rep.funcs[0], rep.funcs[1])
	return rep, true
}

// raceLog follows the race detector's log files.
type raceLog struct {
	prefix string
	offset map[string]int64
	carry  map[string]string
}

// raceLogFromEnv returns nil when GORACE does not name a log_path.
func raceLogFromEnv() *raceLog {
	m := raceLogPath.FindStringSubmatch(os.Getenv("GORACE"))
	if m == nil {
		return nil
	}
	return &raceLog{prefix: m[1], offset: map[string]int64{}, carry: map[string]string{}}
}

// poll returns the reports completed since the previous call.
func (l *raceLog) poll() []raceReport {
	files, _ := filepath.Glob(l.prefix + ".*")
	sort.Strings(files)
	var out []raceReport
	for _, f := range files {
		fi, err := os.Stat(f)
		if err != nil || fi.Size() <= l.offset[f] {
			continue
		}
		fh, err := os.Open(f)
		if err != nil {
			continue
		}
		buf := make([]byte, fi.Size()-l.offset[f])
		n, _ := fh.ReadAt(buf, l.offset[f])
		fh.Close()
		l.offset[f] += int64(n)
		reps, rest := parseRaceReports(l.carry[f] + string(buf[:n]))
		l.carry[f] = rest
		out = append(out, reps...)
	}
	return out
}

// raceBuild reports whether this binary was built with -race.
func raceBuild() bool {
	bi, ok := debug.ReadBuildInfo()
	if !ok {
		return false
	}
	for _, s := range bi.Settings {
		if s.Key == "-race" && s.Value == "true" {
			return true
		}
	}
	return false
}
