package pathvalprop

import (
	"encoding/json"
	"testing"

	"pgregory.net/rapid"
	"verif/harness/internal/vstat"
)

// ----------------------------------------------------------- generators ----

var (
	histRefillHows = []string{"reset-merge", "reset-unmarshal", "assign-fields", "reset-merge", "reset-unmarshal"}
	histCopyHows   = []string{"reset-merge", "reset-unmarshal"}
	histValueHows  = []string{"in-place", "in-place", "in-place", "move", "reset-merge", "reset-unmarshal"}
	histPathCalls  = []string{"complete", "complete", "complete", "complete", "index", "index-lead"}
	histPathMuts   = []string{"p:key-rewrite", "p:key-rewrite", "p:key-rewrite", "p:key-add", "p:key-del", "p:key-rename", "p:elem-rename", "p:elem-append", "p:elem-append",
		"p:elem-truncate", "p:elem-slice", "p:elem-slice-copy", "p:elem-object", "p:element-set", "p:element-rewrite", "p:origin", "p:origin", "p:target",
		"p:refill", "p:refill", "p:refill", "p:copy-from", "p:swap", "p:clear"}
	histValueCalls = []string{"equal", "equal", "equal", "toscalar", "toscalar", "toscalar"}
	histValueMuts  = []string{"v:fill-scalar", "v:fill-scalar", "v:fill-scalar", "v:fill-scalar", "v:fill-scalar", "v:fill-tv", "v:fill-tv", "v:fill-tv", "v:copy-from", "v:copy-from", "v:swap", "v:clear"}
	histQueryMuts  = []string{"q:elem-set", "q:elem-set", "q:elem-set", "q:elem-append", "q:elem-truncate", "q:path-append", "q:path-truncate", "q:target", "q:replace"}
)

// genHistPath: the ordinary small paths; origins less often than there (a
// history of origin conflicts says little).
func genHistPath(t *rapid.T) PathSpec {
	return genPathSpec(t, pathOpts{origin: rapid.SampledFrom([]int{0, 0, 1}).Draw(t, "origin"), elements: -1})
}

func genSliceScalar(t *rapid.T) ScalarSpec {
	switch kind := rapid.SampledFrom([]string{"bytes", "strings", "list", "list", "any"}).Draw(t, "gokind"); kind {
	case "bytes":
		return ScalarSpec{Kind: kind, B: rapid.SliceOfN(rapid.Byte(), 0, 6).Draw(t, "bytes")}
	case "strings":
		return ScalarSpec{Kind: kind, Strs: rapid.SliceOfN(rapid.Map(genStr(), func(s string) []byte { return []byte(s) }), 0, 4).Draw(t, "strs")}
	case "list":
		return ScalarSpec{Kind: kind, List: rapid.SliceOfN(rapid.Custom(func(t *rapid.T) ScalarSpec { return genScalarSpec(t, 1) }), 0, 4).Draw(t, "list")}
	}
	return genScalarSpec(t, 0)
}

// mutateScalarSpec returns a Go value of the same kind that differs a little
// (so that a fill in place rewrites one payload / one leaf-list position).
func mutateScalarSpec(t *rapid.T, s ScalarSpec, depth int) ScalarSpec {
	m := s
	switch s.Kind {
	case "int", "int8", "int16", "int32", "int64":
		m.I = s.I + rapid.SampledFrom([]int64{1, -1, 2, 256}).Draw(t, "delta")
		switch s.Kind {
		case "int8":
			m.I = int64(int8(m.I))
		case "int16":
			m.I = int64(int16(m.I))
		case "int32":
			m.I = int64(int32(m.I))
		}
	case "uint", "uint8", "uint16", "uint32", "uint64":
		m.U = s.U + uint64(rapid.SampledFrom([]int{1, 2, 255}).Draw(t, "delta"))
		switch s.Kind {
		case "uint8":
			m.U = uint64(uint8(m.U))
		case "uint16":
			m.U = uint64(uint16(m.U))
		case "uint32":
			m.U = uint64(uint32(m.U))
		}
	case "float32":
		m.Bits = uint64(uint32(s.Bits) ^ 1<<uint(rapid.IntRange(0, 31).Draw(t, "bit")))
	case "float64":
		m.Bits = s.Bits ^ 1<<uint(rapid.IntRange(0, 63).Draw(t, "bit"))
	case "bool":
		m.Bool = !s.Bool
	case "string":
		m.B = append(append([]byte{}, s.B...), rapid.SampledFrom([]string{"a", "/", "é", " "}).Draw(t, "suffix")...)
	case "bytes":
		m.B, _ = mutBytes(t, s.B)
	case "strings":
		m.Strs = append([][]byte{}, s.Strs...)
		switch op := rapid.SampledFrom([]string{"append", "drop", "rewrite"}).Draw(t, "strsop"); {
		case op == "drop" && len(m.Strs) > 0:
			m.Strs = m.Strs[:len(m.Strs)-1]
		case op == "rewrite" && len(m.Strs) > 0:
			m.Strs[rapid.IntRange(0, len(m.Strs)-1).Draw(t, "at")] = []byte(genStr().Draw(t, "str"))
		default:
			m.Strs = append(m.Strs, []byte(genStr().Draw(t, "str")))
		}
	case "list":
		m.List = append([]ScalarSpec{}, s.List...)
		switch op := rapid.SampledFrom([]string{"append", "drop", "element", "element"}).Draw(t, "listop"); {
		case op == "drop" && len(m.List) > 0:
			m.List = m.List[:len(m.List)-1]
		case op == "element" && len(m.List) > 0 && depth < 2:
			at := rapid.IntRange(0, len(m.List)-1).Draw(t, "at")
			m.List[at] = mutateScalarSpec(t, m.List[at], depth+1)
		default:
			m.List = append(m.List, genScalarSpec(t, 2))
		}
	default:
		return genScalarSpec(t, 0)
	}
	return m
}

func genHistScenario(t *rapid.T) *HistScenario {
	sc := &HistScenario{}
	profile := rapid.SampledFrom([]string{"paths", "paths", "paths", "values", "values", "mixed", "mixed", "queries"}).Draw(t, "profile")
	nP, nV, nQ, nS := 0, 0, 0, 0
	switch profile {
	case "paths":
		nP = rapid.IntRange(1, 3).Draw(t, "npaths")
	case "values":
		nV = rapid.IntRange(1, 3).Draw(t, "nvalues")
		nS = rapid.IntRange(0, 2).Draw(t, "ngo")
	case "queries":
		nQ = rapid.IntRange(1, 2).Draw(t, "nqueries")
		nP = rapid.IntRange(0, 1).Draw(t, "npaths")
	default:
		nP = rapid.IntRange(1, 3).Draw(t, "npaths")
		nV = rapid.IntRange(1, 2).Draw(t, "nvalues")
		nQ = rapid.IntRange(0, 1).Draw(t, "nqueries")
		nS = rapid.IntRange(0, 1).Draw(t, "ngo")
	}
	builds := []int{buildForward, buildForward, buildReverse, buildRotated, buildClone, buildWire}
	for i := 0; i < nP; i++ {
		cp := ConcPath{Build: rapid.SampledFrom(builds).Draw(t, "build")}
		switch k := rapid.IntRange(0, 11).Draw(t, "initial"); {
		case i > 0 && k == 0:
			cp = ConcPath{Spec: PathSpec{Nil: true}}
		case i > 0 && k <= 3: // another object with the content of an earlier one
			cp.Spec = sc.Paths[rapid.IntRange(0, i-1).Draw(t, "like")].Spec
			if cp.Spec.Nil {
				cp.Build = buildForward
			}
		default:
			cp.Spec = genHistPath(t)
		}
		sc.Paths = append(sc.Paths, cp)
	}
	// what the generator believes the value objects hold (only used to draw
	// small changes; run does not depend on it)
	curTV := make([]*TV, nV)
	curScalar := make([]*ScalarSpec, nV)
	var usedScalars []ScalarSpec
	for i := 0; i < nV; i++ {
		v := genTV(t, 0)
		sc.Values = append(sc.Values, v)
		curTV[i] = &v
	}
	for i := 0; i < nQ; i++ {
		sc.Queries = append(sc.Queries, *genQueryScenario(t))
	}
	curGo := make([]ScalarSpec, nS)
	for i := 0; i < nS; i++ {
		curGo[i] = genSliceScalar(t)
		sc.Scalars = append(sc.Scalars, curGo[i])
	}
	var domains []string
	for i := 0; i < 3 && nP > 0; i++ {
		domains = append(domains, "p")
	}
	for i := 0; i < 2 && nV > 0; i++ {
		domains = append(domains, "v")
	}
	if nQ > 0 {
		domains = append(domains, "q")
		if profile == "queries" {
			domains = append(domains, "q", "q", "q")
		}
	}
	if nS > 0 {
		domains = append(domains, "s", "s")
	}
	obj := func(t *rapid.T, n int, label string) int {
		return rapid.SampledFrom([]int{0, 0, 0, 1, 1, 2}).Draw(t, label) % n
	}
	// the second object of a step: another one than a most of the time
	other := func(t *rapid.T, a, n int, label string) int {
		if n > 1 && rapid.IntRange(0, 3).Draw(t, label+"-other") > 0 {
			return (a + 1 + rapid.IntRange(0, n-2).Draw(t, label)) % n
		}
		return a
	}
	genStep := func(t *rapid.T) HistStep {
		call := rapid.Bool().Draw(t, "call")
		switch rapid.SampledFrom(domains).Draw(t, "domain") {
		case "p":
			if call {
				a := obj(t, nP, "a")
				return HistStep{Op: rapid.SampledFrom(histPathCalls).Draw(t, "op"), A: a, B: other(t, a, nP, "b")}
			}
			s := HistStep{Op: rapid.SampledFrom(histPathMuts).Draw(t, "op"), A: obj(t, nP, "a")}
			switch s.Op {
			case "p:key-rewrite":
				s.E, s.K, s.S = rapid.IntRange(0, 5).Draw(t, "e"), rapid.IntRange(0, 3).Draw(t, "k"), genStr().Draw(t, "v")
			case "p:key-add":
				s.E, s.S, s.S2 = rapid.IntRange(0, 5).Draw(t, "e"), genStr().Draw(t, "k"), genStr().Draw(t, "v")
			case "p:key-del":
				s.E, s.K = rapid.IntRange(0, 5).Draw(t, "e"), rapid.IntRange(0, 3).Draw(t, "k")
			case "p:key-rename":
				s.E, s.K, s.S = rapid.IntRange(0, 5).Draw(t, "e"), rapid.IntRange(0, 3).Draw(t, "k"), genStr().Draw(t, "name")
			case "p:elem-rename":
				s.E, s.S = rapid.IntRange(0, 5).Draw(t, "e"), genStr().Draw(t, "name")
			case "p:elem-append":
				s.Elems = rapid.SliceOfN(rapid.Custom(genElem), 1, 2).Draw(t, "elems")
			case "p:elem-truncate":
				s.K = rapid.IntRange(0, 5).Draw(t, "k")
			case "p:elem-slice":
				s.Elems = rapid.SliceOfN(rapid.Custom(genElem), 0, 4).Draw(t, "elems")
			case "p:elem-object":
				s.E = rapid.IntRange(0, 5).Draw(t, "e")
				s.Elems = rapid.SliceOfN(rapid.Custom(genElem), 1, 1).Draw(t, "elems")
			case "p:element-set":
				s.Strs = rapid.SliceOfN(genStr(), 0, 4).Draw(t, "element")
			case "p:element-rewrite":
				s.K, s.S = rapid.IntRange(0, 5).Draw(t, "k"), genStr().Draw(t, "name")
			case "p:origin":
				s.S = rapid.OneOf(rapid.Just(""), genNonEmptyStr()).Draw(t, "origin")
			case "p:target":
				s.S = genStr().Draw(t, "target")
			case "p:refill":
				ps := genHistPath(t)
				s.Path, s.Build, s.How = &ps, rapid.SampledFrom(builds).Draw(t, "build"), rapid.SampledFrom(histRefillHows).Draw(t, "how")
			case "p:copy-from", "p:swap":
				s.B, s.How = other(t, s.A, nP, "b"), rapid.SampledFrom(histCopyHows).Draw(t, "how")
			}
			return s
		case "v":
			if call {
				a := obj(t, nV, "a")
				return HistStep{Op: rapid.SampledFrom(histValueCalls).Draw(t, "op"), A: a, B: other(t, a, nV, "b")}
			}
			s := HistStep{Op: rapid.SampledFrom(histValueMuts).Draw(t, "op"), A: obj(t, nV, "a")}
			a := s.A
			switch s.Op {
			case "v:fill-scalar":
				var spec ScalarSpec
				switch src := rapid.IntRange(0, 7).Draw(t, "from"); {
				case src <= 3 && curScalar[a] != nil:
					spec = mutateScalarSpec(t, *curScalar[a], 0)
				case src <= 5 && len(usedScalars) > 0: // back to a content some object had before
					spec = usedScalars[rapid.IntRange(0, len(usedScalars)-1).Draw(t, "earlier")]
				default:
					spec = genScalarSpec(t, 0)
				}
				s.Scalar, s.How = &spec, rapid.SampledFrom(histValueHows).Draw(t, "how")
				if _, ok, lenient := spec.expect(); ok && !lenient {
					curScalar[a], curTV[a] = &spec, nil
					usedScalars = append(usedScalars, spec)
				}
			case "v:fill-tv":
				var v TV
				if curTV[a] != nil && rapid.IntRange(0, 3).Draw(t, "small") > 0 {
					v, _ = mutateTV(t, *curTV[a], 0)
				} else {
					v = genTV(t, 0)
				}
				s.TV, s.How = &v, rapid.SampledFrom(histValueHows).Draw(t, "how")
				curTV[a], curScalar[a] = &v, nil
			case "v:copy-from":
				s.B, s.How = other(t, a, nV, "b"), rapid.SampledFrom([]string{"in-place", "reset-merge", "reset-unmarshal"}).Draw(t, "how")
				if s.B != a {
					curTV[a], curScalar[a] = curTV[s.B], curScalar[s.B]
				}
			case "v:swap":
				s.B, s.How = other(t, a, nV, "b"), rapid.SampledFrom([]string{"in-place", "reset-merge", "reset-unmarshal"}).Draw(t, "how")
				curTV[a], curTV[s.B] = curTV[s.B], curTV[a]
				curScalar[a], curScalar[s.B] = curScalar[s.B], curScalar[a]
			case "v:clear":
				curTV[a], curScalar[a] = &TV{}, nil
			}
			return s
		case "q":
			if call || rapid.IntRange(0, 2).Draw(t, "querycall") == 0 {
				return HistStep{Op: "query", A: obj(t, nQ, "a")}
			}
			s := HistStep{Op: rapid.SampledFrom(histQueryMuts).Draw(t, "op"), A: obj(t, nQ, "a")}
			switch s.Op {
			case "q:elem-set":
				s.E, s.K, s.S = rapid.IntRange(0, 2).Draw(t, "e"), rapid.IntRange(0, 4).Draw(t, "k"), genPlainElement().Draw(t, "elem")
			case "q:elem-append":
				s.E, s.S = rapid.IntRange(0, 2).Draw(t, "e"), genPlainElement().Draw(t, "elem")
			case "q:elem-truncate":
				s.E, s.K = rapid.IntRange(0, 2).Draw(t, "e"), rapid.IntRange(0, 4).Draw(t, "k")
			case "q:path-append":
				s.Strs = rapid.SliceOfN(genPlainElement(), 0, 4).Draw(t, "path")
			case "q:path-truncate":
				s.K = rapid.IntRange(0, 2).Draw(t, "k")
			case "q:target":
				s.S = genStr().Draw(t, "target")
			case "q:replace":
				s.Query = genQueryScenario(t)
			}
			return s
		}
		// Go values
		a := obj(t, nS, "a")
		if call {
			return HistStep{Op: "scalar", A: a}
		}
		var spec ScalarSpec
		if rapid.IntRange(0, 3).Draw(t, "small") > 0 {
			spec = mutateScalarSpec(t, curGo[a], 0)
		} else {
			spec = genSliceScalar(t)
		}
		curGo[a] = spec
		return HistStep{Op: "s:set", A: a, Scalar: &spec}
	}
	sc.Steps = rapid.SliceOfN(rapid.Custom(genStep), 3, 24).Draw(t, "steps")
	return sc
}

// ----------------------------------------------------------------- test ----

// TestC19History: histories over message objects (see hist.go).
func TestC19History(t *testing.T) {
	if !vstat.Enabled(propertyID) {
		t.Skip()
	}
	rec := vstat.New(propertyID, "history")
	// The open class of the query oracle is excluded here exactly as in
	// TestC19Query (which also probes it and prints the KNOWN-FINDING line):
	// a history in which a query call is made while the last element of one of
	// the object's paths ends with '/'.
	_, open := vstat.OpenClasses(propertyID)[classQueryEdgeSlash]
	known := knownClass{name: classQueryEdgeSlash, active: open}
	rec.RunRapid(t, func(rt *rapid.T) {
		sc := genHistScenario(rt)
		known.skip(rec, rt, sc.edgeSlash())
		st, err := runHist(sc)
		rec.Case(sc, st.nontrivial, st.labels()...)
		if err != nil {
			class, stable := "harness", err.Error()
			if he, ok := err.(*histErr); ok {
				class, stable = he.class, he.stable
			}
			rt.Logf("%s", rec.Fail(sc, class, "%v", err))
			rt.Fatalf("%s", stable)
		}
	})
}

func replayHist(rf *vstat.ReplayFile) string {
	var sc HistScenario
	if len(rf.Scenario) == 0 || string(rf.Scenario) == "null" {
		return "no scenario in replay file"
	}
	if err := json.Unmarshal(rf.Scenario, &sc); err != nil {
		return "bad scenario: " + err.Error()
	}
	if _, err := runHist(&sc); err != nil {
		return err.Error()
	}
	return ""
}
