// Package pathvalprop decides property C19: path indexing (path.ToStrings,
// path.CompletePath), the client-query -> wire -> server-index round trip and
// the scalar conversions / equality of package value, by generated inputs
// against an independent re-implementation (refIndex) and round trips.
//
// Everything a case needs is plain JSON-serialisable data (the *Spec types
// below); the protos handed to the code under test are built from it inside
// the pure run functions.
package pathvalprop

import (
	"fmt"
	"strings"

	gpb "github.com/openconfig/gnmi/proto/gnmi"
	"google.golang.org/protobuf/proto"
)

// KV is one list key of a path element.
type KV struct {
	K string `json:"k"`
	V string `json:"v"`
}

// ElemSpec is one gnmi.PathElem: Keys are listed in *insertion* order and have
// distinct names.
type ElemSpec struct {
	Name string `json:"name"`
	Keys []KV   `json:"keys,omitempty"`
}

// PathSpec is the plain-data form of a gnmi.Path.
type PathSpec struct {
	Nil     bool       `json:"nil,omitempty"` // a nil *gnmi.Path
	Target  string     `json:"target,omitempty"`
	Origin  string     `json:"origin,omitempty"`
	Elems   []ElemSpec `json:"elems,omitempty"`   // Path.elem
	Element []string   `json:"element,omitempty"` // deprecated Path.element
}

// build variants: every variant denotes the same gNMI path.
const (
	buildForward = iota // keys inserted in the listed order
	buildReverse        // keys inserted in reverse order
	buildRotated        // keys inserted starting from the middle
	buildClone          // proto.Clone of the forward build
	buildWire           // marshal + unmarshal of the forward build
	numBuilds
)

var buildNames = [...]string{"forward", "reverse", "rotated", "clone", "wire"}

// Build returns the gnmi.Path denoted by ps.
func (ps PathSpec) Build(variant int) (*gpb.Path, error) {
	if ps.Nil {
		return nil, nil
	}
	switch variant {
	case buildClone:
		p, _ := ps.Build(buildForward)
		return proto.Clone(p).(*gpb.Path), nil
	case buildWire:
		p, _ := ps.Build(buildForward)
		b, err := proto.Marshal(p)
		if err != nil {
			return nil, fmt.Errorf("harness: marshal path: %v", err)
		}
		q := &gpb.Path{}
		if err := proto.Unmarshal(b, q); err != nil {
			return nil, fmt.Errorf("harness: unmarshal path: %v", err)
		}
		return q, nil
	}
	p := &gpb.Path{Target: ps.Target, Origin: ps.Origin}
	if len(ps.Element) > 0 {
		p.Element = append([]string{}, ps.Element...)
	}
	for _, e := range ps.Elems {
		pe := &gpb.PathElem{Name: e.Name}
		n := len(e.Keys)
		if n > 0 {
			pe.Key = make(map[string]string, n)
		}
		for i := 0; i < n; i++ {
			j := i
			switch variant {
			case buildReverse:
				j = n - 1 - i
			case buildRotated:
				j = (i + n/2) % n
			}
			pe.Key[e.Keys[j].K] = e.Keys[j].V
		}
		p.Elem = append(p.Elem, pe)
	}
	return p, nil
}

// less is the order of key names: plain byte-wise string order (for valid
// UTF-8 this is code point order, the only "alphabetical" order that does not
// depend on a locale).
func less(a, b string) bool { return strings.Compare(a, b) < 0 }

// refIndexSpec is the oracle: the index path of ps written from the
// documentation of path.ToStrings, computed from the plain data only (no Go
// map is ever iterated): target then origin first when lead is set and they
// are non-empty; then, if there is at least one elem, every elem name in
// order, each followed by its key *values* ordered by key *name*; the
// deprecated element list is used only when there is no elem.
func refIndexSpec(ps PathSpec, lead bool) []string {
	out := []string{}
	if ps.Nil {
		return out
	}
	if lead {
		if ps.Target != "" {
			out = append(out, ps.Target)
		}
		if ps.Origin != "" {
			out = append(out, ps.Origin)
		}
	}
	if len(ps.Elems) == 0 {
		return append(out, ps.Element...)
	}
	for _, e := range ps.Elems {
		out = append(out, e.Name)
		// insertion sort of a copy by key name
		ks := append([]KV{}, e.Keys...)
		for i := 1; i < len(ks); i++ {
			for j := i; j > 0 && less(ks[j].K, ks[j-1].K); j-- {
				ks[j], ks[j-1] = ks[j-1], ks[j]
			}
		}
		for _, kv := range ks {
			out = append(out, kv.V)
		}
	}
	return out
}

// RefIndex is refIndexSpec for a gnmi.Path proto: the trusted helper other
// engines use once C19 passes. TestC19Index checks on every case that it
// agrees with refIndexSpec.
func RefIndex(p *gpb.Path, lead bool) []string {
	return refIndexSpec(SpecOf(p), lead)
}

// SpecOf converts a proto path to its plain-data form (keys in descending name order).
func SpecOf(p *gpb.Path) PathSpec {
	if p == nil {
		return PathSpec{Nil: true}
	}
	ps := PathSpec{Target: p.GetTarget(), Origin: p.GetOrigin()}
	ps.Element = append(ps.Element, p.GetElement()...)
	for _, e := range p.GetElem() {
		es := ElemSpec{Name: e.GetName()}
		for k, v := range e.GetKey() {
			es.Keys = append(es.Keys, KV{k, v})
		}
		// canonical order so that the spec itself is deterministic: descending
		// by name, deliberately the reverse of the index order, so that a path
		// rebuilt from the spec inserts its keys against the order ToStrings
		// has to produce
		for i := 1; i < len(es.Keys); i++ {
			for j := i; j > 0 && less(es.Keys[j-1].K, es.Keys[j].K); j-- {
				es.Keys[j], es.Keys[j-1] = es.Keys[j-1], es.Keys[j]
			}
		}
		ps.Elems = append(ps.Elems, es)
	}
	return ps
}

func sameStrings(a, b []string) bool {
	if len(a) != len(b) {
		return false
	}
	for i := range a {
		if a[i] != b[i] {
			return false
		}
	}
	return true
}

// labelSet collects labels without duplicates, in first-seen order.
type labelSet struct {
	l    []string
	seen map[string]bool
}

func (s *labelSet) add(cond bool, name string) {
	if !cond {
		return
	}
	if s.seen == nil {
		s.seen = map[string]bool{}
	}
	if !s.seen[name] {
		s.seen[name] = true
		s.l = append(s.l, name)
	}
}
