package pathvalprop

import (
	"encoding/json"
	"flag"
	"fmt"
	"os"
	"strings"
	"testing"

	"pgregory.net/rapid"
	"verif/harness/internal/vstat"
)

func TestMain(m *testing.M) {
	flag.Parse()
	code := m.Run()
	flushFuzz() // native fuzz workers record their own evidence (fuzz_test.go)
	os.Exit(code)
}

// knownClass implements the open-finding policy (DESIGN.md section 5) for one
// class predicate compiled into this engine: if known_findings.json lists an
// open finding of property C19 with this class, the recorded input (or the
// built-in minimal input of the class) is probed once, a KNOWN-FINDING line is
// recorded while it still fails, and the generated search skips exactly the
// scenarios satisfying the predicate, counting them. Nothing is excluded when
// the class is not listed as open.
type knownClass struct {
	name   string
	active bool
}

// openClass consults the known-findings file. probe runs the recorded input
// if the record carries one (input != nil) or else the built-in minimal input
// of the class, and returns the failure (nil = passes).
func openClass(rec *vstat.Recorder, name string, probe func(input json.RawMessage) error) knownClass {
	f, ok := vstat.OpenClasses(propertyID)[name]
	if !ok {
		return knownClass{name: name}
	}
	if err := probe(f.Input); err != nil {
		what := f.What
		if what == "" {
			what = err.Error()
		}
		line := fmt.Sprintf("%s%s [%s, class %s]", knownFindingLineBase, what, f.ID, name)
		rec.KnownFinding(line)
		fmt.Println(line)
		rec.Note("open finding %s (class %s) still reproduces: %v", f.ID, name, err)
	} else {
		rec.Note("open finding %s (class %s) is listed but its probe passes now; the class is still excluded from the search until the record is closed", f.ID, name)
	}
	return knownClass{name: name, active: true}
}

// skip reports (and counts) that a generated scenario belongs to the class.
func (k knownClass) skip(rec *vstat.Recorder, rt *rapid.T, inClass bool) {
	if k.active && inClass {
		rec.Excluded(k.name)
		rt.SkipNow()
	}
}

func TestC19Index(t *testing.T) {
	if !vstat.Enabled(propertyID) {
		t.Skip()
	}
	rec := vstat.New(propertyID, "index")
	rec.RunRapid(t, func(rt *rapid.T) {
		sc := genIndexScenario(rt)
		st, err := runIndex(sc)
		rec.Case(sc, st.nontrivial, st.labels()...)
		if err != nil {
			rt.Logf("%s", rec.Fail(sc, "index-mismatch", "%v", err))
			rt.Fatalf("%s", stableMsg(err))
		}
	})
}

func TestC19Complete(t *testing.T) {
	if !vstat.Enabled(propertyID) {
		t.Skip()
	}
	rec := vstat.New(propertyID, "complete")
	rec.RunRapid(t, func(rt *rapid.T) {
		sc := genCompleteScenario(rt)
		st, err := runComplete(sc)
		rec.Case(sc, st.nontrivial, st.labels()...)
		if err != nil {
			rt.Logf("%s", rec.Fail(sc, "complete-path-mismatch", "%v", err))
			rt.Fatalf("%s", stableMsg(err))
		}
	})
}

// minimal inputs of the two classes this engine knows.
var (
	probeQueryEdgeSlash = QueryScenario{Queries: [][]string{{"/"}}}
	probeEqualNilDouble = EqualScenario{A: TV{Arm: "double"}, B: TV{Nil: true}, How: "nil-b"}
)

func TestC19Query(t *testing.T) {
	if !vstat.Enabled(propertyID) {
		t.Skip()
	}
	rec := vstat.New(propertyID, "query")
	known := openClass(rec, classQueryEdgeSlash, func(input json.RawMessage) error {
		sc := probeQueryEdgeSlash
		var recorded QueryScenario
		if len(input) > 0 && json.Unmarshal(input, &recorded) == nil && recorded.edgeSlash() {
			sc = recorded
		}
		_, err := runQuery(&sc)
		return err
	})
	rec.RunRapid(t, func(rt *rapid.T) {
		sc := genQueryScenario(rt)
		known.skip(rec, rt, sc.edgeSlash())
		st, err := runQuery(sc)
		rec.Case(sc, st.nontrivial, st.labels()...)
		if err != nil {
			rt.Fatalf("%s", rec.Fail(sc, "query-round-trip", "%v", err))
		}
	})
}

func TestC19Scalar(t *testing.T) {
	if !vstat.Enabled(propertyID) {
		t.Skip()
	}
	rec := vstat.New(propertyID, "scalar")
	rec.RunRapid(t, func(rt *rapid.T) {
		sc := genScalarScenario(rt)
		st, err := runScalar(sc)
		rec.Case(sc, st.nontrivial, st.labels()...)
		if err != nil {
			rt.Fatalf("%s", rec.Fail(sc, "scalar-round-trip", "%v", err))
		}
	})
}

func TestC19Equal(t *testing.T) {
	if !vstat.Enabled(propertyID) {
		t.Skip()
	}
	rec := vstat.New(propertyID, "equal")
	known := openClass(rec, classEqualNilDouble, func(input json.RawMessage) error {
		sc := probeEqualNilDouble
		var recorded EqualScenario
		if len(input) > 0 && json.Unmarshal(input, &recorded) == nil && recorded.nilDouble() {
			sc = recorded
		}
		_, err := runEqual(&sc)
		return err
	})
	rec.RunRapid(t, func(rt *rapid.T) {
		sc := genEqualScenario(rt)
		known.skip(rec, rt, sc.nilDouble())
		st, err := runEqual(sc)
		rec.Case(sc, st.nontrivial, st.labels()...)
		if err != nil {
			rt.Fatalf("%s", rec.Fail(sc, "value-equal", "%v", err))
		}
	})
}

// TestReplay re-runs a saved scenario without the generators (and without
// any known-class exclusion: a replay always executes its input).
func TestReplay(t *testing.T) {
	rf, ok, err := vstat.LoadReplay()
	if !ok {
		t.Skip()
	}
	if err != nil {
		t.Fatal(err)
	}
	rec := vstat.New(rf.Property, "replay")
	defer rec.Flush(true)
	if msg := replayOne(rf); msg != "" {
		rec.AddViolation(json.RawMessage(rf.Scenario), rf.Kind, rf.Class, "%s", msg)
		fmt.Println("REPLAY-FAIL:", msg)
		t.Fail()
		return
	}
	rec.Case(json.RawMessage(rf.Scenario), false, "replayed")
	fmt.Println("REPLAY-OK")
}

func replayOne(rf *vstat.ReplayFile) string {
	if rf.Property != propertyID {
		return "replay file is for property " + rf.Property + ", this engine decides " + propertyID
	}
	strict := func(v any) error {
		if len(rf.Scenario) == 0 || string(rf.Scenario) == "null" {
			return fmt.Errorf("no scenario in replay file")
		}
		return json.Unmarshal(rf.Scenario, v)
	}
	var err error
	part := rf.Part
	if i := strings.Index(part, ".w"); i > 0 && strings.HasPrefix(part, "fuzz-") {
		part = part[:i] // fuzz workers record as fuzz-<x>.w<pid>
	}
	switch part {
	case "index":
		var sc IndexScenario
		if err = strict(&sc); err == nil {
			_, err = runIndex(&sc)
		}
	case "complete":
		var sc CompleteScenario
		if err = strict(&sc); err == nil {
			_, err = runComplete(&sc)
		}
	case "fuzz-path":
		var sc CompleteScenario
		if err = strict(&sc); err == nil {
			_, err = runFuzzPath(&sc)
		}
	case "query":
		var sc QueryScenario
		if err = strict(&sc); err == nil {
			_, err = runQuery(&sc)
		}
	case "scalar":
		var sc ScalarScenario
		if err = strict(&sc); err == nil {
			_, err = runScalar(&sc)
		}
	case "equal":
		var sc EqualScenario
		if err = strict(&sc); err == nil {
			_, err = runEqual(&sc)
		}
	case "fuzz-value":
		var sc FuzzValueScenario
		if err = strict(&sc); err == nil {
			err = runFuzzValue(&sc)
		}
	case "concurrent", "concurrent-race":
		return replayConc(rf)
	case "large":
		return replayLarge(rf)
	case "history":
		return replayHist(rf)
	default:
		return "unknown part " + rf.Part
	}
	if err != nil {
		return err.Error()
	}
	return ""
}
