package pathvalprop

import (
	"encoding/json"
	"flag"
	"fmt"
	"testing"

	"pgregory.net/rapid"
	"verif/harness/internal/vstat"
)

var (
	concRounds = flag.Int("c19.rounds", 300, "concurrent part: how often every goroutine repeats its list of calls in one case")
	concBoost  = flag.Int("c19.boost", 8, "concurrent part: factor applied to the rounds once a case has failed (shrinking) and in replays, so that one attempt is a likely reproduction")
)

var concReplayAttempts = flag.Int("c19.replay-attempts", 25, "concurrent part: how many times a replay runs the recorded workload before it reports that nothing failed")

const concReplayNote = "concurrent part: the workload (inputs, goroutines, calls) is the scenario; the schedule is the real scheduler's and cannot be recorded, so a replay re-runs the workload with more rounds and a silent replay does not prove the defect is gone"

// ----------------------------------------------------------- generators ----

// genKeyName: key names for elements with many keys (distinct names needed).
func genKeyName() *rapid.Generator[string] {
	return rapid.OneOf(
		genStr(),
		rapid.Map(rapid.IntRange(0, 40), func(i int) string { return fmt.Sprintf("k%02d", i) }),
		rapid.StringOfN(rapid.RuneFrom([]rune("abk/[]=\\�")), 1, 3, -1),
	)
}

// genKeyedElem draws an element with nKeys distinct keys.
func genKeyedElem(t *rapid.T, nKeys int) ElemSpec {
	e := ElemSpec{Name: genStr().Draw(t, "name")}
	if nKeys > 0 {
		e.Keys = rapid.SliceOfNDistinct(rapid.Custom(func(t *rapid.T) KV {
			return KV{K: genKeyName().Draw(t, "k"), V: genStr().Draw(t, "v")}
		}), nKeys, nKeys, func(kv KV) string { return kv.K }).Draw(t, "keys")
	}
	return e
}

// genConcPath: paths for the concurrent part - multi-key elements (2-8 keys)
// dominate, now and then many elements.
func genConcPath(t *rapid.T) ConcPath {
	cp := ConcPath{Build: rapid.SampledFrom([]int{buildForward, buildForward, buildReverse, buildRotated, buildClone, buildWire}).Draw(t, "build")}
	switch rapid.IntRange(0, 19).Draw(t, "shape") {
	case 0:
		cp.Spec = PathSpec{Nil: true}
		cp.Build = buildForward
		return cp
	case 1, 2:
		// whatever the sequential parts generate
		cp.Spec = genPathSpec(t, pathOpts{origin: -1, elements: -1})
		return cp
	}
	ps := PathSpec{}
	if rapid.Bool().Draw(t, "hasTarget") {
		ps.Target = genNonEmptyStr().Draw(t, "target")
	}
	if rapid.IntRange(0, 3).Draw(t, "hasOrigin") == 0 {
		ps.Origin = genNonEmptyStr().Draw(t, "origin")
	}
	nElems := rapid.SampledFrom([]int{1, 2, 3, 3, 4, 5, 6, 8, 12, 24, 40}).Draw(t, "nelems")
	for i := 0; i < nElems; i++ {
		nKeys := rapid.SampledFrom([]int{2, 2, 3, 4, 0, 1, 5, 6, 8, 2, 3}).Draw(t, "nkeys")
		ps.Elems = append(ps.Elems, genKeyedElem(t, nKeys))
	}
	cp.Spec = ps
	return cp
}

func genConcScenario(t *rapid.T) *ConcScenario {
	sc := &ConcScenario{Rounds: *concRounds}
	workers := rapid.SampledFrom([]int{2, 3, 4, 4, 6, 8, 8, 12, 16}).Draw(t, "goroutines")
	nPaths := rapid.IntRange(1, workers+2).Draw(t, "npaths")
	for i := 0; i < nPaths; i++ {
		sc.Paths = append(sc.Paths, genConcPath(t))
	}
	// the other pools are small: the point of the part is calls in flight together
	nQ := rapid.IntRange(0, 2).Draw(t, "nqueries")
	for i := 0; i < nQ; i++ {
		sc.Queries = append(sc.Queries, *genQueryScenario(t))
	}
	nS := rapid.IntRange(0, 3).Draw(t, "nscalars")
	for i := 0; i < nS; i++ {
		sc.Scalars = append(sc.Scalars, genScalarSpec(t, 0))
	}
	nV := rapid.IntRange(0, 3).Draw(t, "nvalues")
	for i := 0; i < nV; i++ {
		sc.Values = append(sc.Values, genTV(t, 0))
	}
	ops := []string{"index", "index", "index-lead", "complete", "index", "complete"}
	if nQ > 0 {
		ops = append(ops, "query")
	}
	if nS > 0 {
		ops = append(ops, "scalar")
	}
	if nV > 0 {
		ops = append(ops, "toscalar", "equal")
	}
	// sharing: 0 = every goroutine draws from the whole pool, 1 = goroutine w
	// prefers "its" path (w mod pool), 2 = all goroutines use one path object
	sharing := rapid.IntRange(0, 2).Draw(t, "sharing")
	hot := rapid.IntRange(0, nPaths-1).Draw(t, "hot")
	pick := func(w int, label string) int {
		switch {
		case sharing == 2:
			return hot
		case sharing == 1 && rapid.IntRange(0, 3).Draw(t, label+"-own") > 0:
			return w % nPaths
		}
		return rapid.IntRange(0, nPaths-1).Draw(t, label)
	}
	for w := 0; w < workers; w++ {
		nJobs := rapid.IntRange(1, 4).Draw(t, "njobs")
		var jobs []ConcJob
		for j := 0; j < nJobs; j++ {
			job := ConcJob{Op: rapid.SampledFrom(ops).Draw(t, "op")}
			switch job.Op {
			case "index", "index-lead":
				job.A = pick(w, "a")
			case "complete":
				job.A, job.B = pick(w, "a"), pick(w, "b")
			case "query":
				job.A = rapid.IntRange(0, nQ-1).Draw(t, "a")
			case "scalar":
				job.A = rapid.IntRange(0, nS-1).Draw(t, "a")
			case "toscalar":
				job.A = rapid.IntRange(0, nV-1).Draw(t, "a")
			case "equal":
				job.A, job.B = rapid.IntRange(0, nV-1).Draw(t, "a"), rapid.IntRange(0, nV-1).Draw(t, "b")
			}
			jobs = append(jobs, job)
		}
		sc.Jobs = append(sc.Jobs, jobs)
	}
	return sc
}

// ----------------------------------------------------------------- test ----

// TestC19Concurrent is the free-running part of C19 (see conc.go). Built with
// -race and run with a GORACE log_path it additionally reads the detector's
// reports after every case: a data race with a gnmi function on one of its
// two stacks is a violation (the harness only reads the shared inputs and
// every goroutine writes its own results only, so the writer is the code
// under test).
func TestC19Concurrent(t *testing.T) {
	if !vstat.Enabled(propertyID) {
		t.Skip()
	}
	part := "concurrent"
	if raceBuild() {
		part = "concurrent-race"
	}
	rec := vstat.New(propertyID, part)
	rec.Note("%s", concReplayNote)
	rl := raceLogFromEnv()
	switch {
	case !raceBuild():
		rl = nil
	case rl == nil:
		rec.Note("-race build but GORACE names no log_path: race reports cannot be read back (they go to stderr); only the differential oracle decides")
	default:
		rec.Note("-race build: data race reports are read back after every case and attributed to it")
		rl.poll() // anything reported before the first case is not ours to attribute
	}
	failedBefore := false
	rec.RunRapid(t, func(rt *rapid.T) {
		sc := genConcScenario(rt)
		boost := 1
		if failedBefore {
			boost = *concBoost // shrinking: make one attempt a likely reproduction
		}
		rec.Current(sc)
		st, err := runConc(sc, boost)
		labels := st.labels()
		switch {
		case st.calls >= 100000:
			labels = append(labels, "calls-in-case:100k+")
		case st.calls >= 10000:
			labels = append(labels, "calls-in-case:10k-100k")
		case st.calls >= 1000:
			labels = append(labels, "calls-in-case:1k-10k")
		default:
			labels = append(labels, "calls-in-case:<1k")
		}
		var races []raceReport
		if rl != nil {
			for _, rep := range rl.poll() {
				if rep.funcs[0] == "?" && rep.funcs[1] == "?" {
					rec.NoteOnce("a race report without any gnmi frame on either stack was not counted:\n%s", rep.text)
					continue
				}
				races = append(races, rep)
			}
			if len(races) > 0 {
				labels = append(labels, "race-report")
			}
		}
		rec.Case(sc, st.nontrivial, labels...)
		if err != nil {
			failedBefore = true
			class, stable := "harness", err.Error()
			if ce, ok := err.(*concErr); ok {
				class, stable = ce.class, ce.stable
			}
			rt.Logf("%s", rec.Fail(sc, class, "%v", err))
			rt.Fatalf("%s", stable)
		}
		if len(races) > 0 {
			failedBefore = true
			rep := races[0]
			rt.Logf("%s", rec.Fail(sc, rep.class, "data race inside the conversion functions (pure functions on read-only arguments share no writable state): %s (%s) and %s (%s), reported while this case ran:\n%s",
				rep.funcs[0], rep.where[0], rep.funcs[1], rep.where[1], rep.text))
			// the detector reports a pair of stacks once per process: the shrinker cannot see it again
			rt.Fatalf("data race %s", rep.class)
		}
	})
}

func replayConc(rf *vstat.ReplayFile) string {
	var sc ConcScenario
	if err := json.Unmarshal(rf.Scenario, &sc); err != nil {
		return "bad scenario: " + err.Error()
	}
	// the schedule is not part of the scenario: give the scheduler a fixed
	// number of attempts (a count, not a duration) and stop at the first failure
	for attempt := 0; attempt < *concReplayAttempts; attempt++ {
		if _, err := runConc(&sc, 2**concBoost); err != nil {
			return err.Error()
		}
	}
	return ""
}
