package pathvalprop

import (
	"math"
	"strings"

	"pgregory.net/rapid"
)

// ------------------------------------------------------------- strings -----

var (
	smallNames   = []string{"a", "b", "c", "d"}
	specialNames = []string{"", "/", "*", "[", "]", "a/b", "/a", "a/", "//", "x[k=v]", "=", " ", "\\", "a b", "...", "日本", "é", "𝛼", "\u0000", "A", "aa", "ab", "b/", "*/*",
		"\uFFFD", "a\uFFFDb", "\uFFFD/", "[=]", "\\/", "k=v]", "]["}
)

// genStr: any valid UTF-8 string, with the empty string, '/', '*', '[' and a
// small colliding alphabet all frequent.
func genStr() *rapid.Generator[string] {
	return rapid.OneOf(
		rapid.SampledFrom(smallNames),
		rapid.SampledFrom(smallNames),
		rapid.SampledFrom(specialNames),
		rapid.StringOfN(rapid.RuneFrom([]rune("ab/*[]=\\ é日\uFFFD")), 0, 4, -1),
		rapid.Map(rapid.StringN(0, 6, -1), func(s string) string { return strings.ToValidUTF8(s, "�") }),
	)
}

func genNonEmptyStr() *rapid.Generator[string] {
	return genStr().Filter(func(s string) bool { return s != "" })
}

// --------------------------------------------------------------- paths -----

func genElem(t *rapid.T) ElemSpec {
	e := ElemSpec{Name: genStr().Draw(t, "name")}
	maxKeys := rapid.SampledFrom([]int{0, 0, 0, 1, 1, 2, 3, 4, 4}).Draw(t, "maxkeys")
	if maxKeys > 0 {
		minKeys := 1
		if maxKeys >= 2 {
			minKeys = 2
		}
		e.Keys = rapid.SliceOfNDistinct(rapid.Custom(func(t *rapid.T) KV {
			return KV{K: genStr().Draw(t, "k"), V: genStr().Draw(t, "v")}
		}), minKeys, maxKeys, func(kv KV) string { return kv.K }).Draw(t, "keys")
	}
	return e
}

// pathOpts pins the properties that TestC19Complete wants to control.
type pathOpts struct {
	origin   int // -1 free, 0 empty, 1 non-empty
	elements int // -1 free, 0 none (neither elem nor element), 1 some
	allowNil bool
}

func genPathSpec(t *rapid.T, o pathOpts) PathSpec {
	if o.allowNil && rapid.IntRange(0, 29).Draw(t, "nilpath") == 0 {
		return PathSpec{Nil: true}
	}
	var ps PathSpec
	if rapid.IntRange(0, 9).Draw(t, "hasTarget") < 6 {
		ps.Target = genNonEmptyStr().Draw(t, "target")
	}
	hasOrigin := o.origin == 1
	if o.origin < 0 {
		hasOrigin = rapid.Bool().Draw(t, "hasOrigin")
	}
	if hasOrigin {
		ps.Origin = genNonEmptyStr().Draw(t, "origin")
	}
	// form: 0 elem only, 1 element only, 2 both (element must be ignored), 3 neither
	var form int
	switch o.elements {
	case 0:
		form = 3
	case 1:
		form = rapid.SampledFrom([]int{0, 0, 0, 0, 1, 1, 2}).Draw(t, "form")
	default:
		form = rapid.SampledFrom([]int{0, 0, 0, 0, 0, 1, 1, 2, 2, 3}).Draw(t, "form")
	}
	if form == 0 || form == 2 {
		ps.Elems = rapid.SliceOfN(rapid.Custom(genElem), 1, 6).Draw(t, "elems")
	}
	if form == 1 || form == 2 {
		ps.Element = rapid.SliceOfN(genStr(), 1, 6).Draw(t, "element")
	}
	return ps
}

func genIndexScenario(t *rapid.T) *IndexScenario {
	return &IndexScenario{Path: genPathSpec(t, pathOpts{origin: -1, elements: -1, allowNil: true})}
}

func genCompleteScenario(t *rapid.T) *CompleteScenario {
	// all four origin combinations x prefix with/without elements, evenly
	combo := rapid.IntRange(0, 7).Draw(t, "combo")
	pre := genPathSpec(t, pathOpts{origin: combo & 1, elements: (combo >> 2) & 1, allowNil: combo&1 == 0 && combo&4 == 0})
	p := genPathSpec(t, pathOpts{origin: (combo >> 1) & 1, elements: -1, allowNil: combo&2 == 0})
	return &CompleteScenario{Prefix: pre, Path: p}
}

// --------------------------------------------------------------- query -----

var plainSamples = []string{"a", "b", "c", "interfaces", "a/b", "a//b", "a/b/c", "/", "//", "/a", "a/", "/a/", "*", "eth0/1", "Ethernet1/2/3", "k=v", "a:b", "@x", "日本/語", "é", "a.b", "-", "a*", "openconfig:interfaces",
	"\uFFFD", "a\uFFFDb", "/\uFFFD", "=", "a=b=c", "=/=", "\uFFFD=\uFFFD"}

func genPlainElement() *rapid.Generator[string] {
	return rapid.OneOf(
		rapid.SampledFrom(plainSamples),
		rapid.StringOfN(rapid.RuneFrom([]rune("ab/*=:@-._é日\uFFFD")), 1, 6, -1),
		rapid.StringOfN(rapid.RuneFrom([]rune("ab/")), 1, 5, -1),
		rapid.Map(rapid.StringN(1, 6, -1), func(s string) string { return strings.ToValidUTF8(s, "�") }).Filter(plainElement),
	)
}

func genQueryScenario(t *rapid.T) *QueryScenario {
	sc := &QueryScenario{}
	if rapid.Bool().Draw(t, "hasTarget") {
		sc.Target = genStr().Draw(t, "target")
	}
	sc.Queries = rapid.SliceOfN(rapid.SliceOfN(genPlainElement(), 0, 5), 1, 3).Draw(t, "queries")
	for i, q := range sc.Queries {
		if q == nil {
			sc.Queries[i] = []string{}
		}
	}
	return sc
}

// -------------------------------------------------------------- scalar -----

var (
	intExtremes  = []int64{0, 1, -1, math.MaxInt8, math.MinInt8, math.MaxInt16, math.MinInt16, math.MaxInt32, math.MinInt32, math.MaxInt32 + 1, math.MinInt32 - 1, math.MaxInt64, math.MinInt64, 1 << 53, 1<<53 + 1}
	uintExtremes = []uint64{0, 1, math.MaxUint8, math.MaxUint16, math.MaxUint32, math.MaxUint32 + 1, math.MaxInt64, math.MaxInt64 + 1, math.MaxUint64, 1<<53 + 1}
	f64Specials  = []uint64{
		math.Float64bits(0), math.Float64bits(math.Copysign(0, -1)), math.Float64bits(math.Inf(1)), math.Float64bits(math.Inf(-1)),
		math.Float64bits(math.NaN()), 0x7ff0000000000001 /* signalling NaN */, 0xfff8000000000001, /* negative NaN with payload */
		math.Float64bits(1), math.Float64bits(-1), math.Float64bits(0.1), math.Float64bits(math.MaxFloat64), math.Float64bits(math.SmallestNonzeroFloat64),
		math.Float64bits(math.MaxFloat32), math.Float64bits(1e39), math.Float64bits(1.0000000000000002), math.Float64bits(16777217),
	}
	f32Specials = []uint32{
		math.Float32bits(0), math.Float32bits(float32(math.Copysign(0, -1))), math.Float32bits(float32(math.Inf(1))), math.Float32bits(float32(math.Inf(-1))),
		0x7fc00000 /* NaN */, 0x7f800001 /* signalling NaN */, 0xffc00001,
		math.Float32bits(1), math.Float32bits(-1), math.Float32bits(0.1), math.Float32bits(math.MaxFloat32), math.Float32bits(math.SmallestNonzeroFloat32), math.Float32bits(16777216),
	}
	invalidUTF8 = [][]byte{{0xff}, {'a', 0xc0}, {0xed, 0xa0, 0x80}, {0xf8, 0x88, 0x80, 0x80, 0x80}, {'o', 'k', 0x80}, {0xc3},
		{0xef, 0xbf}, {0xef, 0xbf, 0xbd, 0xbd}, {0xbd, 0xbf, 0xef}}
	// the replacement character itself is valid UTF-8 (EF BF BD) and must round-trip like any other rune
	replacementStrs = [][]byte{{0xef, 0xbf, 0xbd}, {'a', 0xef, 0xbf, 0xbd, 'b'}, {0xef, 0xbf, 0xbd, 0xef, 0xbf, 0xbd}, {0xef, 0xbf, 0xbc}, {0xef, 0xbf, 0xbe}, []byte("caf\uFFFD (sanitised)")}
)

func genInt64() *rapid.Generator[int64] {
	return rapid.OneOf(rapid.SampledFrom(intExtremes), rapid.Int64(), rapid.Int64Range(-300, 300), rapid.Map(rapid.Uint64(), func(u uint64) int64 { return int64(u) }))
}

func genUint64() *rapid.Generator[uint64] {
	return rapid.OneOf(rapid.SampledFrom(uintExtremes), rapid.Uint64(), rapid.Uint64Range(0, 300), rapid.Map(rapid.Int64(), func(i int64) uint64 { return uint64(i) }))
}

func genF64Bits() *rapid.Generator[uint64] {
	return rapid.OneOf(rapid.SampledFrom(f64Specials), rapid.Map(rapid.Float64(), math.Float64bits), rapid.Uint64(),
		rapid.Map(rapid.Float32(), func(f float32) uint64 { return math.Float64bits(float64(f)) }))
}

func genF32Bits() *rapid.Generator[uint64] {
	return rapid.OneOf(rapid.Map(rapid.SampledFrom(f32Specials), func(u uint32) uint64 { return uint64(u) }),
		rapid.Map(rapid.Float32(), func(f float32) uint64 { return uint64(math.Float32bits(f)) }),
		rapid.Map(rapid.Uint32(), func(u uint32) uint64 { return uint64(u) }))
}

// genMaybeInvalid: bytes of a string that is valid UTF-8 most of the time.
func genMaybeInvalid() *rapid.Generator[[]byte] {
	return rapid.OneOf(
		rapid.Map(genStr(), func(s string) []byte { return []byte(s) }),
		rapid.Map(genStr(), func(s string) []byte { return []byte(s) }),
		rapid.Map(genStr(), func(s string) []byte { return []byte(s) }),
		rapid.SampledFrom(invalidUTF8),
		rapid.SliceOfN(rapid.Byte(), 0, 6),
		rapid.SampledFrom(replacementStrs),
	)
}

// (rapid favours the first entries of a SampledFrom slice; the order below is deliberate)
var scalarKinds = []string{"list", "float32", "int32", "uint32", "int", "float64", "uint", "strings", "int16", "uint16", "int8", "uint8", "int64", "uint64",
	"string", "bytes", "bool", "unsupported", "list", "float32", "float64", "strings", "string", "list"}

func genScalarSpec(t *rapid.T, depth int) ScalarSpec {
	kind := rapid.SampledFrom(scalarKinds).Draw(t, "kind")
	if kind == "unsupported" {
		kind = rapid.SampledFrom(unsupportedKinds).Draw(t, "unsupported")
	}
	if kind == "list" && depth >= 2 {
		kind = "int32"
	}
	s := ScalarSpec{Kind: kind}
	switch kind {
	case "string":
		s.B = genMaybeInvalid().Draw(t, "s")
	case "int", "int8", "int16", "int32", "int64":
		s.I = genInt64().Draw(t, "i")
		// keep the spec canonical: the stored number is the one the Go type holds
		switch kind {
		case "int8":
			s.I = int64(int8(s.I))
		case "int16":
			s.I = int64(int16(s.I))
		case "int32":
			s.I = int64(int32(s.I))
		}
	case "uint", "uint8", "uint16", "uint32", "uint64":
		s.U = genUint64().Draw(t, "u")
		switch kind {
		case "uint8":
			s.U = uint64(uint8(s.U))
		case "uint16":
			s.U = uint64(uint16(s.U))
		case "uint32":
			s.U = uint64(uint32(s.U))
		}
	case "float32":
		s.Bits = genF32Bits().Draw(t, "f32")
	case "float64":
		s.Bits = genF64Bits().Draw(t, "f64")
	case "bool":
		s.Bool = rapid.Bool().Draw(t, "bool")
	case "bytes":
		s.B = rapid.SliceOfN(rapid.Byte(), 0, 8).Draw(t, "bytes")
	case "strings":
		s.Strs = rapid.SliceOfN(genMaybeInvalid(), 0, 4).Draw(t, "strs")
	case "list":
		s.List = rapid.SliceOfN(rapid.Custom(func(t *rapid.T) ScalarSpec { return genScalarSpec(t, depth+1) }), 0, 4).Draw(t, "list")
	default: // unsupported kinds carry a number so that distinct cases differ
		s.I = rapid.Int64Range(0, 3).Draw(t, "n")
	}
	return s
}

func genScalarScenario(t *rapid.T) *ScalarScenario {
	return &ScalarScenario{V: genScalarSpec(t, 0)}
}

// --------------------------------------------------------------- equal -----

func genBytes() *rapid.Generator[[]byte] {
	return rapid.OneOf(
		rapid.SampledFrom([][]byte{{}, []byte("a"), []byte(`{"a":1}`), []byte("1"), {0}, {0xff}}),
		rapid.SliceOfN(rapid.Byte(), 0, 6),
	)
}

// (rapid favours the first entries of a SampledFrom slice; the order below is deliberate)
var tvArmWeights = []string{"leaflist", "decimal", "double", "float", "int", "uint", "string", "bytes", "bool", "any", "json", "json_ietf", "ascii", "proto_bytes", "",
	"leaflist", "decimal", "double", "float", "int", "uint", "string", "bytes", "leaflist", "decimal", "double", "leaflist"}

func genTV(t *rapid.T, depth int) TV {
	arm := rapid.SampledFrom(tvArmWeights).Draw(t, "arm")
	if arm == "leaflist" && depth >= 2 {
		arm = "int"
	}
	v := TV{Arm: arm}
	switch arm {
	case "string", "ascii":
		v.S = genStr().Draw(t, "s")
	case "int":
		v.I = genInt64().Draw(t, "i")
	case "uint":
		v.U = genUint64().Draw(t, "u")
	case "bool":
		v.Bool = rapid.Bool().Draw(t, "b")
	case "bytes", "json", "json_ietf", "proto_bytes":
		v.B = genBytes().Draw(t, "bytes")
	case "float":
		v.Bits = genF32Bits().Draw(t, "f32")
	case "double":
		v.Bits = genF64Bits().Draw(t, "f64")
	case "decimal":
		v.I = rapid.OneOf(rapid.Int64Range(-1000, 1000), genInt64()).Draw(t, "digits")
		v.U = uint64(rapid.OneOf(rapid.Uint32Range(0, 6), rapid.Uint32()).Draw(t, "precision"))
	case "leaflist":
		v.Elems = rapid.SliceOfN(rapid.Custom(func(t *rapid.T) TV { return genTV(t, depth+1) }), 0, 4).Draw(t, "elems")
	case "any":
		v.S = rapid.SampledFrom([]string{"", "type.googleapis.com/gnmi.Path", "x"}).Draw(t, "url")
		v.B = genBytes().Draw(t, "bytes")
	}
	return v
}

func cloneTV(v TV) TV {
	c := v
	c.B = append([]byte(nil), v.B...)
	if v.B == nil {
		c.B = nil
	}
	c.Elems = nil
	for _, e := range v.Elems {
		c.Elems = append(c.Elems, cloneTV(e))
	}
	return c
}

func mutBytes(t *rapid.T, b []byte) ([]byte, string) {
	switch op := rapid.SampledFrom([]string{"flip-bit", "append-byte", "drop-byte"}).Draw(t, "bytesop"); {
	case op == "flip-bit" && len(b) > 0:
		i := rapid.IntRange(0, len(b)-1).Draw(t, "at")
		out := append([]byte{}, b...)
		out[i] ^= 1 << uint(rapid.IntRange(0, 7).Draw(t, "bit"))
		return out, "flip-bit"
	case op == "drop-byte" && len(b) > 0:
		return append([]byte{}, b[:len(b)-1]...), "drop-byte"
	default:
		return append(append([]byte{}, b...), rapid.Byte().Draw(t, "byte")), "append-byte"
	}
}

func mutString(t *rapid.T, s string) (string, string) {
	switch op := rapid.SampledFrom([]string{"append", "drop", "case"}).Draw(t, "strop"); {
	case op == "drop" && s != "":
		r := []rune(s)
		return string(r[:len(r)-1]), "drop-rune"
	case op == "case" && strings.ToUpper(s) != s:
		return strings.ToUpper(s), "upper-case"
	default:
		return s + rapid.SampledFrom([]string{"a", " ", "/", "\u0000", "é"}).Draw(t, "suffix"), "append-rune"
	}
}

// armSiblings: arms that can carry the same payload; switching between them
// changes nothing but the arm.
var armSiblings = map[string][]string{
	"int": {"uint"}, "uint": {"int"}, "float": {"double"}, "double": {"float"},
	"string": {"ascii"}, "ascii": {"string"},
	"bytes": {"json", "json_ietf", "proto_bytes"}, "json": {"json_ietf", "bytes"}, "json_ietf": {"json", "proto_bytes"}, "proto_bytes": {"bytes", "json"},
}

// mutateTV returns a copy of v that differs from it in exactly one field
// (one payload field, the arm, or one leaf-list position) and says how.
func mutateTV(t *rapid.T, v TV, depth int) (TV, string) {
	m := cloneTV(v)
	if sib, ok := armSiblings[v.Arm]; ok && rapid.IntRange(0, 5).Draw(t, "switcharm") == 0 {
		m.Arm = rapid.SampledFrom(sib).Draw(t, "sibling")
		switch {
		case v.Arm == "int":
			m.U, m.I = uint64(v.I), 0
		case v.Arm == "uint":
			m.I, m.U = int64(v.U), 0
		case v.Arm == "float":
			m.Bits = math.Float64bits(float64(math.Float32frombits(uint32(v.Bits))))
		case v.Arm == "double":
			m.Bits = uint64(math.Float32bits(float32(math.Float64frombits(v.Bits))))
		}
		return m, "arm-only:" + v.Arm + "->" + m.Arm
	}
	switch v.Arm {
	case "":
		m.Arm = rapid.SampledFrom([]string{"int", "string", "bool", "double", "leaflist", "bytes"}).Draw(t, "setarm")
		return m, "unset->zero-" + m.Arm
	case "string", "ascii":
		var how string
		m.S, how = mutString(t, v.S)
		return m, v.Arm + ":" + how
	case "int":
		switch rapid.SampledFrom([]string{"plus-one", "negate", "flip-bit"}).Draw(t, "intop") {
		case "negate":
			if v.I != 0 && v.I != math.MinInt64 {
				m.I = -v.I
				return m, "int:negate"
			}
		case "flip-bit":
			m.I = v.I ^ (1 << uint(rapid.IntRange(0, 63).Draw(t, "bit")))
			return m, "int:flip-bit"
		}
		m.I = v.I + 1 // wraps at MaxInt64, still different
		return m, "int:plus-one"
	case "uint":
		if rapid.Bool().Draw(t, "uintop") {
			m.U = v.U ^ (1 << uint(rapid.IntRange(0, 63).Draw(t, "bit")))
			return m, "uint:flip-bit"
		}
		m.U = v.U + 1
		return m, "uint:plus-one"
	case "bool":
		m.Bool = !v.Bool
		return m, "bool:not"
	case "bytes", "json", "json_ietf", "proto_bytes":
		var how string
		m.B, how = mutBytes(t, v.B)
		return m, v.Arm + ":" + how
	case "float":
		switch rapid.SampledFrom([]string{"sign", "ulp", "flip-bit"}).Draw(t, "fop") {
		case "sign":
			m.Bits = v.Bits ^ 0x80000000
			return m, "float:flip-sign"
		case "ulp":
			m.Bits = uint64(uint32(v.Bits) + 1)
			return m, "float:next-bit-pattern"
		}
		m.Bits = v.Bits ^ (1 << uint(rapid.IntRange(0, 31).Draw(t, "bit")))
		return m, "float:flip-bit"
	case "double":
		switch rapid.SampledFrom([]string{"sign", "ulp", "flip-bit"}).Draw(t, "fop") {
		case "sign":
			m.Bits = v.Bits ^ (1 << 63)
			return m, "double:flip-sign"
		case "ulp":
			m.Bits = v.Bits + 1
			return m, "double:next-bit-pattern"
		}
		m.Bits = v.Bits ^ (1 << uint(rapid.IntRange(0, 63).Draw(t, "bit")))
		return m, "double:flip-bit"
	case "decimal":
		switch rapid.SampledFrom([]string{"digits", "precision", "precision", "rescale"}).Draw(t, "decop") {
		case "digits":
			m.I = v.I + 1
			return m, "decimal:digits-plus-one"
		case "rescale":
			// same number, other representation (two fields): 1.5 as 15/1 and 150/2
			if v.I > -1e17 && v.I < 1e17 && v.U < math.MaxUint32 {
				m.I, m.U = v.I*10, v.U+1
				if m.I != v.I {
					return m, "decimal:rescale-same-number"
				}
			}
		}
		m.U = uint64(uint32(v.U) + 1)
		if m.U == v.U {
			m.U = 0
		}
		return m, "decimal:precision-plus-one"
	case "any":
		if rapid.Bool().Draw(t, "anyop") {
			m.S = v.S + "x"
			return m, "any:type-url"
		}
		var how string
		m.B, how = mutBytes(t, v.B)
		return m, "any:value-" + how
	case "leaflist":
		ops := []string{"append", "append"}
		if len(v.Elems) > 0 {
			ops = append(ops, "drop-last", "drop-last", "drop-first", "element", "element", "element")
		}
		if len(v.Elems) > 1 {
			ops = append(ops, "swap")
		}
		switch rapid.SampledFrom(ops).Draw(t, "listop") {
		case "append":
			var e TV
			if len(v.Elems) > 0 && rapid.Bool().Draw(t, "dup") {
				e = cloneTV(v.Elems[len(v.Elems)-1])
			} else {
				e = genTV(t, depth+1)
			}
			m.Elems = append(m.Elems, e)
			return m, "leaflist:append-element"
		case "drop-last":
			m.Elems = m.Elems[:len(m.Elems)-1]
			return m, "leaflist:drop-last-element"
		case "drop-first":
			m.Elems = m.Elems[1:]
			return m, "leaflist:drop-first-element"
		case "swap":
			i := rapid.IntRange(0, len(v.Elems)-2).Draw(t, "swapat")
			m.Elems[i], m.Elems[i+1] = m.Elems[i+1], m.Elems[i]
			return m, "leaflist:swap-adjacent"
		default:
			i := rapid.IntRange(0, len(v.Elems)-1).Draw(t, "elemat")
			var how string
			m.Elems[i], how = mutateTV(t, v.Elems[i], depth+1)
			return m, "leaflist:element:" + how
		}
	}
	return m, "none"
}

func genEqualScenario(t *rapid.T) *EqualScenario {
	how := rapid.SampledFrom([]string{"mutate", "clone", "nil-b", "nil-a", "independent", "mutate", "mutate", "clone", "mutate", "mutate", "clone", "mutate", "independent", "nil-or-unset"}).Draw(t, "how")
	sc := &EqualScenario{How: how}
	switch how {
	case "clone":
		sc.A = genTV(t, 0)
		sc.B = cloneTV(sc.A)
	case "mutate":
		sc.A = genTV(t, 0)
		var what string
		sc.B, what = mutateTV(t, sc.A, 0)
		// keep the histogram readable: arm and operation, not the nesting chain
		if i := strings.Index(what, ":element:"); i >= 0 {
			what = "leaflist:element-mutated"
		}
		sc.How = "mutate:" + what
	case "independent":
		sc.A = genTV(t, 0)
		sc.B = genTV(t, 0)
	case "nil-b":
		sc.A = genTV(t, 0)
		sc.B = TV{Nil: true}
	case "nil-a":
		sc.A = TV{Nil: true}
		sc.B = genTV(t, 0)
	case "nil-or-unset":
		sc.A = TV{Nil: rapid.Bool().Draw(t, "anil")}
		sc.B = TV{Nil: rapid.Bool().Draw(t, "bnil")}
	}
	return sc
}
