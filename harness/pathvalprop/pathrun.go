package pathvalprop

import (
	"fmt"
	"strings"
	"unicode"
	"unicode/utf8"

	"github.com/openconfig/gnmi/client"
	gclient "github.com/openconfig/gnmi/client/gnmi"
	"github.com/openconfig/gnmi/path"
	gpb "github.com/openconfig/gnmi/proto/gnmi"
	"google.golang.org/protobuf/proto"
)

// indexReps is how often every conversion is repeated on one input: Go
// randomises map iteration, so an implementation that depends on it is only
// caught by repetition.
const indexReps = 64

// scaleReps keeps the work per case bounded for the large shapes: an index of
// up to 48 strings (everything the small generators produce) is converted
// reps times as before; beyond that the repetitions shrink in proportion,
// never below 3 (a large path iterates many maps per call anyway).
func scaleReps(reps, indexLen int) int {
	if indexLen <= 48 {
		return reps
	}
	r := reps * 48 / indexLen
	if r < 3 {
		r = 3
	}
	if r > reps {
		r = reps
	}
	return r
}

// orderErr is a mismatch whose observed value may depend on the run (map
// iteration order): full goes to the evidence, stable is what rapid sees, so
// that it recognises the failure again and can shrink it.
type orderErr struct{ stable, full string }

func (e *orderErr) Error() string { return e.full }

// stableMsg returns the run-independent text of an oracle failure.
func stableMsg(err error) string {
	if oe, ok := err.(*orderErr); ok {
		return oe.stable
	}
	return err.Error()
}

// ---------------------------------------------------------------- index ----

// IndexScenario is one case of TestC19Index.
type IndexScenario struct {
	Path PathSpec `json:"path"`
}

type pathStats struct {
	labelSet
	nontrivial bool
}

func (s *pathStats) labels() []string { return s.l }

// describePath adds the labels of the interesting classes ps belongs to and
// reports the non-trivial rule (an elem with >=2 keys whose name order
// differs from the insertion order, in a path whose elem list is used).
func describePath(ps PathSpec, st *labelSet, pfx string) (outOfOrder bool) {
	if ps.Nil {
		st.add(true, pfx+"nil-path")
		return false
	}
	st.add(len(ps.Elems) == 0 && len(ps.Element) == 0, pfx+"no-elements")
	st.add(len(ps.Elems) > 0 && len(ps.Element) == 0, pfx+"elem-form")
	st.add(len(ps.Elems) == 0 && len(ps.Element) > 0, pfx+"element-form")
	st.add(len(ps.Elems) > 0 && len(ps.Element) > 0, pfx+"both-forms-element-ignored")
	st.add(ps.Target != "", pfx+"target-set")
	st.add(ps.Origin != "", pfx+"origin-set")
	str := func(s string) {
		st.add(s == "", pfx+"empty-string")
		st.add(strings.Contains(s, "/"), pfx+"slash-in-string")
		st.add(strings.Contains(s, "*"), pfx+"star-in-string")
		st.add(strings.ContainsAny(s, "[]"), pfx+"bracket-in-string")
		st.add(strings.IndexFunc(s, func(r rune) bool { return r >= utf8.RuneSelf }) >= 0, pfx+"non-ascii-string")
	}
	for _, e := range ps.Element {
		str(e)
	}
	for _, e := range ps.Elems {
		str(e.Name)
		st.add(len(e.Keys) == 1, pfx+"single-key-elem")
		st.add(len(e.Keys) >= 2, pfx+"multi-key-elem")
		for _, kv := range e.Keys {
			str(kv.K)
			str(kv.V)
		}
		if len(e.Keys) >= 2 {
			sorted := true
			distinct := true
			for i := 1; i < len(e.Keys); i++ {
				if !less(e.Keys[i-1].K, e.Keys[i].K) {
					sorted = false
				}
			}
			for i := range e.Keys {
				for j := 0; j < i; j++ {
					if e.Keys[i].V == e.Keys[j].V {
						distinct = false
					}
				}
			}
			if !sorted {
				outOfOrder = true
				st.add(true, pfx+"multi-key-name-order-differs-from-insertion")
				st.add(distinct, pfx+"multi-key-out-of-order-distinct-values")
			}
		}
	}
	return outOfOrder
}

func runIndex(sc *IndexScenario) (st pathStats, err error) {
	defer func() {
		if r := recover(); r != nil {
			err = fmt.Errorf("panic: %v", r)
		}
	}()
	ps := sc.Path
	st.nontrivial = describePath(ps, &st.labelSet, "")
	want := [2][]string{refIndexSpec(ps, false), refIndexSpec(ps, true)}
	// The property's clause on target/origin, checked on the oracle itself so
	// that a wrong reference cannot hide it.
	nLead := 0
	if !ps.Nil && ps.Target != "" {
		nLead++
	}
	if !ps.Nil && ps.Origin != "" {
		nLead++
	}
	if len(want[1]) != len(want[0])+nLead || !sameStrings(want[1][nLead:], want[0]) {
		return st, fmt.Errorf("harness: reference index inconsistent: %q vs %q", want[1], want[0])
	}
	st.add(nLead > 0, "lead-changes-index")
	for v := 0; v < numBuilds; v++ {
		p, berr := ps.Build(v)
		if berr != nil {
			return st, berr
		}
		reps := indexReps
		if v >= buildClone {
			reps = 4
		}
		reps = scaleReps(reps, len(want[1]))
		for _, lead := range []bool{false, true} {
			w := want[0]
			if lead {
				w = want[1]
			}
			for r := 0; r < reps; r++ {
				got := path.ToStrings(p, lead)
				if !sameStrings(got, w) {
					return st, &orderErr{
						stable: fmt.Sprintf("ToStrings(%s build, prefix=%v) differs from the reference index %q", buildNames[v], lead, w),
						full:   fmt.Sprintf("ToStrings(%s build, prefix=%v) = %q on repetition %d, reference index is %q", buildNames[v], lead, got, r, w)}
				}
				// the returned index belongs to the caller: overwrite it (spare capacity included) before converting again
				for g, i := got[:cap(got)], 0; i < len(g); i++ {
					g[i] = "scribbled"
				}
			}
		}
		if v == buildForward {
			// the exported helper used by other engines must agree with the oracle
			for _, lead := range []bool{false, true} {
				w := want[0]
				if lead {
					w = want[1]
				}
				if got := RefIndex(p, lead); !sameStrings(got, w) {
					return st, fmt.Errorf("harness: RefIndex(proto)=%q differs from refIndexSpec=%q", got, w)
				}
			}
			// evidence that the runtime really varies the iteration order
			for _, e := range p.GetElem() {
				if len(e.GetKey()) < 2 {
					continue
				}
				first := map[string]bool{}
				for r := 0; r < indexReps; r++ {
					for k := range e.GetKey() {
						first[k] = true
						break
					}
				}
				st.add(len(first) > 1, "map-iteration-order-varied-within-case")
				break
			}
		}
	}
	return st, nil
}

// rawIndexAgrees checks a decoded message (fuzzing) against the reference
// index of its plain-data form.
func rawIndexAgrees(p *gpb.Path, ps PathSpec) (err error) {
	defer func() {
		if r := recover(); r != nil {
			err = fmt.Errorf("panic: %v", r)
		}
	}()
	for _, lead := range []bool{false, true} {
		want := refIndexSpec(ps, lead)
		for r := 0; r < 8; r++ {
			if got := path.ToStrings(p, lead); !sameStrings(got, want) {
				return fmt.Errorf("ToStrings(decoded message, prefix=%v) = %q, reference index is %q", lead, got, want)
			}
		}
	}
	return nil
}

// ------------------------------------------------------------- complete ----

// CompleteScenario is one case of TestC19Complete.
type CompleteScenario struct {
	Prefix PathSpec `json:"prefix"`
	Path   PathSpec `json:"path"`
}

func runComplete(sc *CompleteScenario) (st pathStats, err error) {
	defer func() {
		if r := recover(); r != nil {
			err = fmt.Errorf("panic: %v", r)
		}
	}()
	a := describePath(sc.Prefix, &st.labelSet, "prefix:")
	b := describePath(sc.Path, &st.labelSet, "path:")
	st.nontrivial = a || b
	oPre, oPath := "", ""
	if !sc.Prefix.Nil {
		oPre = sc.Prefix.Origin
	}
	if !sc.Path.Nil {
		oPath = sc.Path.Origin
	}
	preIdx := refIndexSpec(sc.Prefix, false)
	pathIdx := refIndexSpec(sc.Path, false)
	// expected outcome, from the documentation of CompletePath and the
	// mixed-schema rules it cites
	var want []string
	wantErr := ""
	switch {
	case oPre != "" && oPath != "":
		wantErr = "origin set in both prefix and path"
	case oPre == "" && oPath != "" && len(preIdx) > 0:
		wantErr = "prefix has path elements although the origin is set in the path"
	default:
		want = []string{}
		if oPre != "" {
			want = append(want, oPre)
		} else if oPath != "" {
			want = append(want, oPath)
		}
		want = append(want, preIdx...)
		want = append(want, pathIdx...)
	}
	combo := fmt.Sprintf("origin[prefix=%v,path=%v]+prefix-elements=%v", oPre != "", oPath != "", len(preIdx) > 0)
	st.add(true, combo)
	st.add(oPre != "" && oPath != "", "conflict-both-origins")
	st.add(oPre == "" && oPath != "" && len(preIdx) > 0, "conflict-prefix-elements-with-path-origin")
	st.add(wantErr == "", "joined")
	st.add(wantErr == "" && (sc.Prefix.Target != "" || sc.Path.Target != ""), "joined-target-must-not-appear")

	for v := 0; v < numBuilds; v++ {
		pre, berr := sc.Prefix.Build(v)
		if berr != nil {
			return st, berr
		}
		p, berr := sc.Path.Build(v)
		if berr != nil {
			return st, berr
		}
		reps := indexReps / 2
		if v >= buildClone {
			reps = 2
		}
		reps = scaleReps(reps, len(preIdx)+len(pathIdx))
		for r := 0; r < reps; r++ {
			got, gerr := path.CompletePath(pre, p)
			switch {
			case wantErr != "" && gerr == nil:
				return st, fmt.Errorf("CompletePath(%s builds) returned %q without error, but %s", buildNames[v], got, wantErr)
			case wantErr == "" && gerr != nil:
				return st, fmt.Errorf("CompletePath(%s builds) returned error %q, but there is no origin conflict; expected %q", buildNames[v], gerr, want)
			case wantErr == "" && !sameStrings(got, want):
				return st, &orderErr{
					stable: fmt.Sprintf("CompletePath(%s builds) differs from the expected prefix index followed by path index %q", buildNames[v], want),
					full:   fmt.Sprintf("CompletePath(%s builds) = %q on repetition %d, expected prefix index followed by path index %q", buildNames[v], got, r, want)}
			}
		}
	}
	return st, nil
}

// ---------------------------------------------------------------- query ----

// QueryScenario is one case of TestC19Query: a client query of plain elements.
type QueryScenario struct {
	Target  string     `json:"target,omitempty"`
	Queries [][]string `json:"queries"`
}

// plainElement is the property's notion of a plain query element: non-empty,
// valid UTF-8, no whitespace, none of [ ] \ ('/' allowed anywhere).
func plainElement(e string) bool {
	if e == "" || !utf8.ValidString(e) {
		return false
	}
	for _, r := range e {
		if unicode.IsSpace(r) || r == '[' || r == ']' || r == '\\' {
			return false
		}
	}
	return true
}

// classes of open findings (predicates on the scenario) ----------------------

const (
	classQueryEdgeSlash  = "query-elem-edge-slash"
	classEqualNilDouble  = "equal-nil-double"
	propertyID           = "C19"
	knownFindingLineBase = "KNOWN-FINDING: property=C19 "
)

// edgeSlash is the class predicate of the open finding D15 (class
// "query-elem-edge-slash"): the *last* element of some query path ends with
// '/'. This is exactly the failing set: pathToString escapes the slash, but
// ygot's util.PathStringToElements drops the last part whenever the joined
// string ends in '/', escaped or not. Elements that begin with '/' and
// non-final elements that end with '/' survive the round trip (checked
// exhaustively over all paths of <=3 elements over a 12-element alphabet of
// slash shapes: 942 of 1884 fail, all and only those satisfying this
// predicate) and therefore stay inside the search.
func (sc *QueryScenario) edgeSlash() bool {
	for _, q := range sc.Queries {
		if n := len(q); n > 0 && strings.HasSuffix(q[n-1], "/") {
			return true
		}
	}
	return false
}

type queryStats struct {
	labelSet
	nontrivial bool
}

func (s *queryStats) labels() []string { return s.l }

func runQuery(sc *QueryScenario) (st queryStats, err error) {
	defer func() {
		if r := recover(); r != nil {
			err = fmt.Errorf("panic: %v", r)
		}
	}()
	q := client.Query{Target: sc.Target, Type: client.Once}
	st.add(len(sc.Queries) > 1, "multi-path-query")
	for _, qp := range sc.Queries {
		st.add(len(qp) == 0, "empty-query-path")
		for i, e := range qp {
			if !plainElement(e) {
				return st, fmt.Errorf("harness: generated element %q is not plain", e)
			}
			if strings.Contains(e, "/") {
				st.nontrivial = true
				st.add(true, "element-contains-slash")
				in := strings.Trim(e, "/")
				st.add(strings.Contains(in, "/"), "interior-slash")
				st.add(strings.Contains(e, "//"), "doubled-slash")
				st.add(strings.HasPrefix(e, "/"), "leading-slash")
				st.add(strings.HasSuffix(e, "/"), "trailing-slash")
				st.add(strings.HasSuffix(e, "/") && i == len(qp)-1, "trailing-slash-on-last-element")
			}
			st.add(strings.Contains(e, "*"), "star-element")
			st.add(strings.ContainsAny(e, "=:@"), "key-syntax-chars")
			st.add(strings.IndexFunc(e, func(r rune) bool { return r >= utf8.RuneSelf }) >= 0, "non-ascii-element")
		}
		q.Queries = append(q.Queries, client.Path(append([]string{}, qp...)))
	}
	st.add(sc.edgeSlash(), "class:"+classQueryEdgeSlash)
	sr, serr := gclient.ToSubscribeRequest(q)
	if serr != nil {
		return st, fmt.Errorf("ToSubscribeRequest rejected a query of plain elements %q: %v", sc.Queries, serr)
	}
	wire, merr := proto.Marshal(sr)
	if merr != nil {
		return st, fmt.Errorf("SubscribeRequest built from query %q cannot be marshalled: %v", sc.Queries, merr)
	}
	var back gpb.SubscribeRequest
	if uerr := proto.Unmarshal(wire, &back); uerr != nil {
		return st, fmt.Errorf("SubscribeRequest built from query %q cannot be unmarshalled: %v", sc.Queries, uerr)
	}
	sl := back.GetSubscribe()
	if len(sl.GetSubscription()) != len(sc.Queries) {
		return st, fmt.Errorf("query with %d paths reached the wire with %d subscriptions", len(sc.Queries), len(sl.GetSubscription()))
	}
	for i, sub := range sl.GetSubscription() {
		// what the server does with it (subscribe.go: path.CompletePath(prefix, sub path))
		got, cerr := path.CompletePath(sl.GetPrefix(), sub.GetPath())
		if cerr != nil {
			return st, fmt.Errorf("server side CompletePath failed for query path %q: %v", sc.Queries[i], cerr)
		}
		if !sameStrings(got, sc.Queries[i]) {
			return st, fmt.Errorf("client query path %q is indexed by the server as %q", sc.Queries[i], got)
		}
	}
	return st, nil
}
