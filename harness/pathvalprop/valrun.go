package pathvalprop

import (
	"bytes"
	"fmt"
	"math"
	"unicode/utf8"

	gpb "github.com/openconfig/gnmi/proto/gnmi"
	"github.com/openconfig/gnmi/value"
	"google.golang.org/protobuf/proto"
	"google.golang.org/protobuf/types/known/anypb"
)

// --------------------------------------------------------------- scalar ----

// ScalarSpec is the plain-data form of a Go value handed to value.FromScalar.
// Strings are kept as bytes (invalid UTF-8 must survive JSON) and floats as
// their bit patterns (NaN payloads and -0 must survive JSON).
type ScalarSpec struct {
	// Kind: string int int8 int16 int32 int64 uint uint8 uint16 uint32 uint64
	// float32 float64 bool bytes strings list, or one of the unsupported kinds
	// nil struct map ptr complex ints floats named-int chan func typed-nil-list.
	Kind string       `json:"kind"`
	I    int64        `json:"i,omitempty"`
	U    uint64       `json:"u,omitempty"`
	Bits uint64       `json:"bits,omitempty"` // float32: low 32 bits
	Bool bool         `json:"bool,omitempty"`
	B    []byte       `json:"b,omitempty"`    // string / bytes payload
	Strs [][]byte     `json:"strs,omitempty"` // []string
	List []ScalarSpec `json:"list,omitempty"` // []interface{}
}

// ScalarScenario is one case of TestC19Scalar.
type ScalarScenario struct {
	V ScalarSpec `json:"v"`
}

type namedInt int

var supportedKinds = map[string]bool{
	"string": true, "int": true, "int8": true, "int16": true, "int32": true, "int64": true,
	"uint": true, "uint8": true, "uint16": true, "uint32": true, "uint64": true,
	"float32": true, "float64": true, "bool": true, "bytes": true, "strings": true, "list": true,
}

var unsupportedKinds = []string{"nil", "struct", "map", "ptr", "complex", "ints", "floats", "named-int", "chan", "func", "typed-nil-ptr", "rune-array"}

// goValue builds the Go value described by s.
func (s ScalarSpec) goValue() interface{} {
	switch s.Kind {
	case "string":
		return string(s.B)
	case "int":
		return int(s.I)
	case "int8":
		return int8(s.I)
	case "int16":
		return int16(s.I)
	case "int32":
		return int32(s.I)
	case "int64":
		return s.I
	case "uint":
		return uint(s.U)
	case "uint8":
		return uint8(s.U)
	case "uint16":
		return uint16(s.U)
	case "uint32":
		return uint32(s.U)
	case "uint64":
		return s.U
	case "float32":
		return math.Float32frombits(uint32(s.Bits))
	case "float64":
		return math.Float64frombits(s.Bits)
	case "bool":
		return s.Bool
	case "bytes":
		if s.B == nil {
			return []byte(nil)
		}
		return append([]byte{}, s.B...)
	case "strings":
		out := make([]string, len(s.Strs))
		for i, b := range s.Strs {
			out[i] = string(b)
		}
		return out
	case "list":
		out := make([]interface{}, len(s.List))
		for i, e := range s.List {
			out[i] = e.goValue()
		}
		return out
	// unsupported types: FromScalar must answer with an error
	case "nil":
		return nil
	case "struct":
		return struct{ A int }{int(s.I)}
	case "map":
		return map[string]int{"a": int(s.I)}
	case "ptr":
		v := s.I
		return &v
	case "typed-nil-ptr":
		return (*int64)(nil)
	case "complex":
		return complex(float64(s.I), 1)
	case "ints":
		return []int{int(s.I)}
	case "floats":
		return []float64{float64(s.I)}
	case "named-int":
		return namedInt(s.I)
	case "chan":
		return make(chan int)
	case "func":
		return func() {}
	case "rune-array":
		return [2]rune{'a', rune(s.I)}
	}
	return fmt.Errorf("harness: unknown kind %q", s.Kind) // an error value is itself an unsupported type
}

// expectation: the value ToScalar(FromScalar(x)) must return, i.e. x widened
// to 64 bits; ok=false when FromScalar must report an error. lenient=true
// marks the one input class for which the property does not decide between
// an error and a faithful round trip ([]string with invalid UTF-8: the string
// arm is documented to reject it, the []string arm says nothing).
func (s ScalarSpec) expect() (want interface{}, ok bool, lenient bool) {
	switch s.Kind {
	case "string":
		if !utf8.Valid(s.B) {
			return nil, false, false
		}
		return string(s.B), true, false
	case "int":
		return int64(int(s.I)), true, false
	case "int8":
		return int64(int8(s.I)), true, false
	case "int16":
		return int64(int16(s.I)), true, false
	case "int32":
		return int64(int32(s.I)), true, false
	case "int64":
		return s.I, true, false
	case "uint":
		return uint64(uint(s.U)), true, false
	case "uint8":
		return uint64(uint8(s.U)), true, false
	case "uint16":
		return uint64(uint16(s.U)), true, false
	case "uint32":
		return uint64(uint32(s.U)), true, false
	case "uint64":
		return s.U, true, false
	case "float32":
		return float64(math.Float32frombits(uint32(s.Bits))), true, false
	case "float64":
		return math.Float64frombits(s.Bits), true, false
	case "bool":
		return s.Bool, true, false
	case "bytes":
		return append([]byte{}, s.B...), true, false
	case "strings":
		out := make([]interface{}, len(s.Strs))
		for i, b := range s.Strs {
			if !utf8.Valid(b) {
				lenient = true
			}
			out[i] = string(b)
		}
		return out, true, lenient
	case "list":
		out := make([]interface{}, len(s.List))
		for i, e := range s.List {
			w, eok, el := e.expect()
			if !eok {
				return nil, false, false
			}
			lenient = lenient || el
			out[i] = w
		}
		return out, true, lenient
	}
	return nil, false, false
}

// sameScalar: identical dynamic type (after widening) and identical value;
// floats by bit pattern, any NaN matching any NaN.
func sameScalar(got, want interface{}) error {
	switch w := want.(type) {
	case int64:
		g, ok := got.(int64)
		if !ok || g != w {
			return fmt.Errorf("got %T(%v), want int64(%d)", got, got, w)
		}
	case uint64:
		g, ok := got.(uint64)
		if !ok || g != w {
			return fmt.Errorf("got %T(%v), want uint64(%d)", got, got, w)
		}
	case float64:
		g, ok := got.(float64)
		if !ok {
			return fmt.Errorf("got %T(%v), want float64(%v)", got, got, w)
		}
		if math.IsNaN(w) {
			if !math.IsNaN(g) {
				return fmt.Errorf("got float64(%v), want NaN", g)
			}
			return nil
		}
		if math.Float64bits(g) != math.Float64bits(w) {
			return fmt.Errorf("got float64(%v) bits %#x, want float64(%v) bits %#x", g, math.Float64bits(g), w, math.Float64bits(w))
		}
	case bool:
		g, ok := got.(bool)
		if !ok || g != w {
			return fmt.Errorf("got %T(%v), want bool(%v)", got, got, w)
		}
	case string:
		g, ok := got.(string)
		if !ok || g != w {
			return fmt.Errorf("got %T(%q), want string(%q)", got, got, w)
		}
	case []byte:
		g, ok := got.([]byte)
		if !ok || !bytes.Equal(g, w) {
			return fmt.Errorf("got %T(%v), want []byte(%v)", got, got, w)
		}
	case []interface{}:
		g, ok := got.([]interface{})
		if !ok {
			return fmt.Errorf("got %T(%v), want a []interface{} of %d elements", got, got, len(w))
		}
		if len(g) != len(w) {
			return fmt.Errorf("got %d elements %v, want %d elements %v", len(g), g, len(w), w)
		}
		for i := range w {
			if err := sameScalar(g[i], w[i]); err != nil {
				return fmt.Errorf("element %d: %v", i, err)
			}
		}
	default:
		return fmt.Errorf("harness: unexpected expectation type %T", want)
	}
	return nil
}

type scalarStats struct {
	labelSet
	nontrivial bool
}

func (s *scalarStats) labels() []string { return s.l }

func (s ScalarSpec) describe(st *scalarStats, depth int) {
	pfx := ""
	if depth > 0 {
		pfx = "nested:"
	}
	st.add(true, pfx+"kind:"+s.Kind)
	switch s.Kind {
	case "int", "int64":
		st.add(s.I > math.MaxInt32 || s.I < math.MinInt32, "int-beyond-32-bits")
		st.add(s.I == math.MaxInt64 || s.I == math.MinInt64, "int-extreme")
		st.add(s.I < 0, "int-negative")
	case "uint", "uint64":
		st.add(s.U > math.MaxUint32, "uint-beyond-32-bits")
		st.add(s.U > math.MaxInt64, "uint-beyond-int64")
	case "float32":
		f := math.Float32frombits(uint32(s.Bits))
		st.add(f != f, "float32-nan")
		st.add(math.IsInf(float64(f), 0), "float32-inf")
		st.add(f == 0 && math.Signbit(float64(f)), "float32-negative-zero")
		st.add(f == f && !math.IsInf(float64(f), 0) && float64(f) != math.Trunc(float64(f)), "float32-fractional")
	case "float64":
		f := math.Float64frombits(s.Bits)
		st.add(f != f, "float64-nan")
		st.add(math.IsInf(f, 0), "float64-inf")
		st.add(f == 0 && math.Signbit(f), "float64-negative-zero")
		st.add(f == f && !math.IsInf(f, 0) && float64(float32(f)) != f, "float64-not-representable-as-float32")
	case "string":
		st.add(!utf8.Valid(s.B), "string-invalid-utf8")
		st.add(len(s.B) == 0, "string-empty")
	case "strings":
		st.add(len(s.Strs) == 0, "strings-empty")
		for _, b := range s.Strs {
			st.add(!utf8.Valid(b), "strings-invalid-utf8-element")
		}
	case "bytes":
		st.add(len(s.B) == 0, "bytes-empty")
	case "list":
		st.add(len(s.List) == 0, "list-empty")
		for _, e := range s.List {
			e.describe(st, depth+1)
			st.add(e.Kind == "list", "list-nested-in-list")
			st.add(!supportedKinds[e.Kind], "list-with-unsupported-element")
			st.add(e.Kind == "string" && !utf8.Valid(e.B), "list-with-invalid-utf8-string")
		}
	}
}

func runScalar(sc *ScalarScenario) (st scalarStats, err error) {
	defer func() {
		if r := recover(); r != nil {
			err = fmt.Errorf("panic: %v", r)
		}
	}()
	s := sc.V
	s.describe(&st, 0)
	want, ok, lenient := s.expect()
	// non-trivial: the conversion has to do something: widen, walk a slice, or reject
	switch s.Kind {
	case "int64", "uint64", "float64", "bool":
	case "string":
		st.nontrivial = !ok
	default:
		st.nontrivial = true
	}
	x := s.goValue()
	tv, ferr := value.FromScalar(x)
	if !ok {
		st.add(true, "must-be-rejected")
		if ferr == nil {
			return st, fmt.Errorf("FromScalar(%T %#v) returned %v without an error; the type/value cannot be mapped to a scalar TypedValue", x, x, tv)
		}
		return st, nil
	}
	if ferr != nil {
		if lenient {
			st.add(true, "strings-invalid-utf8-rejected")
			return st, nil
		}
		return st, fmt.Errorf("FromScalar(%T %#v) returned error %q for a supported scalar", x, x, ferr)
	}
	if tv == nil {
		return st, fmt.Errorf("FromScalar(%T %#v) returned nil, nil", x, x)
	}
	got, terr := value.ToScalar(tv)
	if terr != nil {
		return st, fmt.Errorf("ToScalar(FromScalar(%T %#v)) returned error %q", x, x, terr)
	}
	if lenient {
		st.add(true, "strings-invalid-utf8-accepted-and-returned")
	}
	if serr := sameScalar(got, want); serr != nil {
		return st, fmt.Errorf("ToScalar(FromScalar(%T %#v)): %v", x, x, serr)
	}
	st.add(true, "round-trip-ok")
	// What a conversion returned belongs to its caller: recycle the message (and the slice ToScalar returned) for
	// something else, as a caller that pools or re-uses its messages would, and convert the same scalar again.
	scribbleTV(tv)
	if sl, isSlice := got.([]interface{}); isSlice {
		for i := range sl {
			sl[i] = "scribbled"
		}
	}
	tv2, ferr2 := value.FromScalar(x)
	if ferr2 != nil || tv2 == nil {
		return st, fmt.Errorf("FromScalar(%T %#v) succeeded the first time; after the caller re-used the returned message for another value, the same call returned %v, %v", x, x, tv2, ferr2)
	}
	got2, terr2 := value.ToScalar(tv2)
	if terr2 != nil {
		return st, fmt.Errorf("ToScalar(FromScalar(%T %#v)) after the caller re-used the message of an earlier conversion returned error %q", x, x, terr2)
	}
	if serr := sameScalar(got2, want); serr != nil {
		return st, fmt.Errorf("ToScalar(FromScalar(%T %#v)) after the caller re-used (overwrote) the message returned by an earlier conversion of the same scalar: %v", x, x, serr)
	}
	st.add(true, "converted-again-after-the-caller-overwrote-the-first-result")
	return st, nil
}

// scribbleTV overwrites a TypedValue in place, nested leaf-list elements first.
func scribbleTV(tv *gpb.TypedValue) {
	if tv == nil {
		return
	}
	if ll := tv.GetLeaflistVal(); ll != nil {
		for _, e := range ll.Element {
			scribbleTV(e)
		}
		ll.Element = append(ll.Element, &gpb.TypedValue{Value: &gpb.TypedValue_StringVal{StringVal: "scribbled"}})
	}
	tv.Value = &gpb.TypedValue_StringVal{StringVal: "scribbled"}
}

// ---------------------------------------------------------------- equal ----

// TV is the plain-data form of a gnmi.TypedValue (or nil).
type TV struct {
	Nil bool `json:"nil,omitempty"`
	// Arm: "" (no value set) string int uint bool bytes float double decimal
	// leaflist any json json_ietf ascii proto_bytes
	Arm   string `json:"arm,omitempty"`
	S     string `json:"s,omitempty"`    // string, ascii, any type_url (valid UTF-8)
	B     []byte `json:"b,omitempty"`    // bytes, json, json_ietf, proto_bytes, any value
	I     int64  `json:"i,omitempty"`    // int, decimal digits
	U     uint64 `json:"u,omitempty"`    // uint, decimal precision
	Bits  uint64 `json:"bits,omitempty"` // float (low 32 bits) / double bit pattern
	Bool  bool   `json:"bool,omitempty"`
	Elems []TV   `json:"elems,omitempty"` // leaflist
}

var tvArms = []string{"", "string", "int", "uint", "bool", "bytes", "float", "double", "decimal", "leaflist", "any", "json", "json_ietf", "ascii", "proto_bytes"}

// build returns the message denoted by t (not yet passed through the wire).
func (t TV) build() *gpb.TypedValue {
	if t.Nil {
		return nil
	}
	tv := &gpb.TypedValue{}
	switch t.Arm {
	case "":
	case "string":
		tv.Value = &gpb.TypedValue_StringVal{StringVal: t.S}
	case "int":
		tv.Value = &gpb.TypedValue_IntVal{IntVal: t.I}
	case "uint":
		tv.Value = &gpb.TypedValue_UintVal{UintVal: t.U}
	case "bool":
		tv.Value = &gpb.TypedValue_BoolVal{BoolVal: t.Bool}
	case "bytes":
		tv.Value = &gpb.TypedValue_BytesVal{BytesVal: append([]byte{}, t.B...)}
	case "float":
		tv.Value = &gpb.TypedValue_FloatVal{FloatVal: math.Float32frombits(uint32(t.Bits))}
	case "double":
		tv.Value = &gpb.TypedValue_DoubleVal{DoubleVal: math.Float64frombits(t.Bits)}
	case "decimal":
		tv.Value = &gpb.TypedValue_DecimalVal{DecimalVal: &gpb.Decimal64{Digits: t.I, Precision: uint32(t.U)}}
	case "leaflist":
		sa := &gpb.ScalarArray{}
		for _, e := range t.Elems {
			if e.Nil {
				// a nil element is not representable; the wire turns it into an empty message
				e = TV{}
			}
			sa.Element = append(sa.Element, e.build())
		}
		tv.Value = &gpb.TypedValue_LeaflistVal{LeaflistVal: sa}
	case "any":
		tv.Value = &gpb.TypedValue_AnyVal{AnyVal: &anypb.Any{TypeUrl: t.S, Value: append([]byte{}, t.B...)}}
	case "json":
		tv.Value = &gpb.TypedValue_JsonVal{JsonVal: append([]byte{}, t.B...)}
	case "json_ietf":
		tv.Value = &gpb.TypedValue_JsonIetfVal{JsonIetfVal: append([]byte{}, t.B...)}
	case "ascii":
		tv.Value = &gpb.TypedValue_AsciiVal{AsciiVal: t.S}
	case "proto_bytes":
		tv.Value = &gpb.TypedValue_ProtoBytes{ProtoBytes: append([]byte{}, t.B...)}
	default:
		panic("harness: unknown arm " + t.Arm)
	}
	return tv
}

// wire passes tv through its wire encoding: the result is by construction a
// wire-representable operand (what a server or client actually holds).
func wire(tv *gpb.TypedValue) (*gpb.TypedValue, error) {
	if tv == nil {
		return nil, nil
	}
	b, err := proto.Marshal(tv)
	if err != nil {
		return nil, fmt.Errorf("harness: marshal TypedValue: %v", err)
	}
	out := &gpb.TypedValue{}
	if err := proto.Unmarshal(b, out); err != nil {
		return nil, fmt.Errorf("harness: unmarshal TypedValue: %v", err)
	}
	return out, nil
}

// armOf names the oneof arm of a message, "" for nil or unset.
func armOf(tv *gpb.TypedValue) string {
	switch tv.GetValue().(type) {
	case *gpb.TypedValue_StringVal:
		return "string"
	case *gpb.TypedValue_IntVal:
		return "int"
	case *gpb.TypedValue_UintVal:
		return "uint"
	case *gpb.TypedValue_BoolVal:
		return "bool"
	case *gpb.TypedValue_BytesVal:
		return "bytes"
	case *gpb.TypedValue_FloatVal:
		return "float"
	case *gpb.TypedValue_DoubleVal:
		return "double"
	case *gpb.TypedValue_DecimalVal:
		return "decimal"
	case *gpb.TypedValue_LeaflistVal:
		return "leaflist"
	case *gpb.TypedValue_AnyVal:
		return "any"
	case *gpb.TypedValue_JsonVal:
		return "json"
	case *gpb.TypedValue_JsonIetfVal:
		return "json_ietf"
	case *gpb.TypedValue_AsciiVal:
		return "ascii"
	case *gpb.TypedValue_ProtoBytes:
		return "proto_bytes"
	}
	return ""
}

// sameValue is the reference relation "a and b are the same value": same
// oneof arm and equal payload (what proto.Equal decides on messages without
// unknown fields), or numerically equal floating point / decimal payloads
// (+0 == -0, 10e-1 == 1e0).
// Equal may only answer true where sameValue holds.
func sameValue(a, b *gpb.TypedValue) bool {
	ka, kb := armOf(a), armOf(b)
	if ka != kb {
		return false
	}
	switch ka {
	case "":
		return true // both carry no value (nil or unset)
	case "string":
		return a.GetStringVal() == b.GetStringVal()
	case "int":
		return a.GetIntVal() == b.GetIntVal()
	case "uint":
		return a.GetUintVal() == b.GetUintVal()
	case "bool":
		return a.GetBoolVal() == b.GetBoolVal()
	case "bytes":
		return bytes.Equal(a.GetBytesVal(), b.GetBytesVal())
	case "float":
		x, y := a.GetFloatVal(), b.GetFloatVal()
		return x == y || (x != x && y != y)
	case "double":
		x, y := a.GetDoubleVal(), b.GetDoubleVal()
		return x == y || (x != x && y != y)
	case "decimal":
		// the same number: digits * 10^-precision compared exactly (1.0 may be
		// written 1/0 or 10/1; a numeric comparison would be a correct Equal)
		da, ea := canonDecimal(a.GetDecimalVal().GetDigits(), a.GetDecimalVal().GetPrecision())
		db, eb := canonDecimal(b.GetDecimalVal().GetDigits(), b.GetDecimalVal().GetPrecision())
		return da == db && ea == eb
	case "leaflist":
		ae, be := a.GetLeaflistVal().GetElement(), b.GetLeaflistVal().GetElement()
		if len(ae) != len(be) {
			return false
		}
		for i := range ae {
			if !sameValue(ae[i], be[i]) {
				return false
			}
		}
		return true
	case "any":
		return a.GetAnyVal().GetTypeUrl() == b.GetAnyVal().GetTypeUrl() && bytes.Equal(a.GetAnyVal().GetValue(), b.GetAnyVal().GetValue())
	case "json":
		return bytes.Equal(a.GetJsonVal(), b.GetJsonVal())
	case "json_ietf":
		return bytes.Equal(a.GetJsonIetfVal(), b.GetJsonIetfVal())
	case "ascii":
		return a.GetAsciiVal() == b.GetAsciiVal()
	case "proto_bytes":
		return bytes.Equal(a.GetProtoBytes(), b.GetProtoBytes())
	}
	return false
}

// canonDecimal returns the canonical form (d, e) of digits * 10^-precision:
// d has no trailing decimal zero, the value is d * 10^-e; zero is (0, 0).
func canonDecimal(digits int64, precision uint32) (int64, int64) {
	if digits == 0 {
		return 0, 0
	}
	e := int64(precision)
	for digits%10 == 0 {
		digits /= 10
		e--
	}
	return digits, e
}

// EqualScenario is one case of TestC19Equal. How says how B was derived from
// A by the generator (documentation only; run does not depend on it).
type EqualScenario struct {
	A   TV     `json:"a"`
	B   TV     `json:"b"`
	How string `json:"how"`
}

// nilDouble is the class predicate of the open finding D8: one operand is nil
// and the other is a double_val.
func (sc *EqualScenario) nilDouble() bool {
	return (sc.A.Nil && !sc.B.Nil && sc.B.Arm == "double") || (sc.B.Nil && !sc.A.Nil && sc.A.Arm == "double")
}

// diffFields counts the fields in which two operands differ: nil-ness or the
// arm count as one (the payloads are then incomparable); otherwise every
// payload field of the arm, leaf-lists position by position plus the length
// difference.
func diffFields(a, b TV) int {
	if a.Nil || b.Nil {
		if a.Nil && b.Nil {
			return 0
		}
		return 1
	}
	if a.Arm != b.Arm {
		return 1
	}
	n := 0
	inc := func(c bool) {
		if c {
			n++
		}
	}
	switch a.Arm {
	case "string", "ascii":
		inc(a.S != b.S)
	case "int":
		inc(a.I != b.I)
	case "uint":
		inc(a.U != b.U)
	case "bool":
		inc(a.Bool != b.Bool)
	case "bytes", "json", "json_ietf", "proto_bytes":
		inc(!bytes.Equal(a.B, b.B))
	case "float":
		inc(uint32(a.Bits) != uint32(b.Bits))
	case "double":
		inc(a.Bits != b.Bits)
	case "decimal":
		inc(a.I != b.I)
		inc(uint32(a.U) != uint32(b.U))
	case "any":
		inc(a.S != b.S)
		inc(!bytes.Equal(a.B, b.B))
	case "leaflist":
		la, lb := len(a.Elems), len(b.Elems)
		for i := 0; i < la && i < lb; i++ {
			n += diffFields(a.Elems[i], b.Elems[i])
		}
		if la > lb {
			n += la - lb
		} else {
			n += lb - la
		}
	}
	return n
}

type equalStats struct {
	labelSet
	nontrivial bool
}

func (s *equalStats) labels() []string { return s.l }

func callEqual(a, b *gpb.TypedValue) (res bool, err error) {
	defer func() {
		if r := recover(); r != nil {
			err = fmt.Errorf("panic: %v", r)
		}
	}()
	return value.Equal(a, b), nil
}

func describeTV(t TV) string {
	if t.Nil {
		return "nil"
	}
	if t.Arm == "" {
		return "unset"
	}
	return t.Arm
}

func hasArm(t TV, arm string) bool {
	if t.Nil {
		return false
	}
	if t.Arm == arm {
		return true
	}
	for _, e := range t.Elems {
		if hasArm(e, arm) {
			return true
		}
	}
	return false
}

func runEqual(sc *EqualScenario) (st equalStats, err error) {
	defer func() {
		if r := recover(); r != nil {
			err = fmt.Errorf("panic: %v", r)
		}
	}()
	a, werr := wire(sc.A.build())
	if werr != nil {
		return st, werr
	}
	b, werr := wire(sc.B.build())
	if werr != nil {
		return st, werr
	}
	st.add(true, "a:"+describeTV(sc.A))
	st.add(true, "b:"+describeTV(sc.B))
	st.add(true, "how:"+sc.How)
	st.add(sc.A.Nil || sc.B.Nil, "nil-operand")
	st.add(sc.A.Nil && sc.B.Nil, "both-nil")
	st.add(sc.nilDouble(), "class:"+classEqualNilDouble)
	st.add(hasArm(sc.A, "leaflist") && len(sc.A.Elems) > 0 && hasArm(sc.A.Elems[0], "leaflist"), "nested-leaflist")
	same := sameValue(a, b)
	st.add(same, "pair-same-value")
	st.add(!same, "pair-different-value")
	st.add(!same && armOf(a) == armOf(b), "pair-different-value-same-arm")
	if a != nil && b != nil && proto.Equal(a, b) && !same {
		return st, fmt.Errorf("harness: proto.Equal operands are not sameValue: %v / %v", a, b)
	}
	nd := diffFields(sc.A, sc.B)
	st.nontrivial = nd == 1
	st.add(nd == 0, "fields-differing:0")
	st.add(nd == 1, "fields-differing:1")
	st.add(nd > 1, "fields-differing:2+")

	res, cerr := checkEqualPair(a, b)
	if cerr != nil {
		return st, cerr
	}
	st.add(res, "equal-answered-true")
	st.add(!res && same, "same-value-answered-false (allowed: non-primitive arm, NaN or no value)")
	st.add(res && a != nil && b != nil && !proto.Equal(a, b), "equal-true-by-numeric-float-equality")
	return st, nil
}

// checkEqualPair is the oracle of value.Equal on one pair of operands:
// neither order panics, both orders agree, and a true answer is only given
// for operands that are the same value. It returns Equal(a, b).
func checkEqualPair(a, b *gpb.TypedValue) (bool, error) {
	ab, perr := callEqual(a, b)
	if perr != nil {
		return false, fmt.Errorf("Equal(a, b) %v; a=%s b=%s", perr, show(a), show(b))
	}
	ba, perr := callEqual(b, a)
	if perr != nil {
		return false, fmt.Errorf("Equal(b, a) %v; a=%s b=%s", perr, show(a), show(b))
	}
	if ab != ba {
		return false, fmt.Errorf("Equal is not symmetric: Equal(a,b)=%v Equal(b,a)=%v; a=%s b=%s", ab, ba, show(a), show(b))
	}
	if ab && !sameValue(a, b) {
		return false, fmt.Errorf("Equal reports two different values as equal: a=%s b=%s", show(a), show(b))
	}
	// using one message as both operands must not panic either
	if _, perr := callEqual(a, a); perr != nil {
		return false, fmt.Errorf("Equal(a, a) %v; a=%s", perr, show(a))
	}
	if _, perr := callEqual(b, b); perr != nil {
		return false, fmt.Errorf("Equal(b, b) %v; b=%s", perr, show(b))
	}
	return ab, nil
}

func show(tv *gpb.TypedValue) string {
	if tv == nil {
		return "<nil>"
	}
	switch armOf(tv) {
	case "":
		return "{}"
	case "string":
		return fmt.Sprintf("string_val:%q", tv.GetStringVal())
	case "int":
		return fmt.Sprintf("int_val:%d", tv.GetIntVal())
	case "uint":
		return fmt.Sprintf("uint_val:%d", tv.GetUintVal())
	case "bool":
		return fmt.Sprintf("bool_val:%v", tv.GetBoolVal())
	case "bytes":
		return fmt.Sprintf("bytes_val:%q", tv.GetBytesVal())
	case "float":
		return fmt.Sprintf("float_val:%v(bits %#x)", tv.GetFloatVal(), math.Float32bits(tv.GetFloatVal()))
	case "double":
		return fmt.Sprintf("double_val:%v(bits %#x)", tv.GetDoubleVal(), math.Float64bits(tv.GetDoubleVal()))
	case "decimal":
		return fmt.Sprintf("decimal_val:{digits:%d precision:%d}", tv.GetDecimalVal().GetDigits(), tv.GetDecimalVal().GetPrecision())
	case "leaflist":
		s := "leaflist_val:["
		for i, e := range tv.GetLeaflistVal().GetElement() {
			if i > 0 {
				s += ", "
			}
			if i >= 8 {
				s += "..."
				break
			}
			s += show(e)
		}
		return s + "]"
	case "any":
		return fmt.Sprintf("any_val:{type_url:%q value:%q}", tv.GetAnyVal().GetTypeUrl(), tv.GetAnyVal().GetValue())
	case "json":
		return fmt.Sprintf("json_val:%q", tv.GetJsonVal())
	case "json_ietf":
		return fmt.Sprintf("json_ietf_val:%q", tv.GetJsonIetfVal())
	case "ascii":
		return fmt.Sprintf("ascii_val:%q", tv.GetAsciiVal())
	case "proto_bytes":
		return fmt.Sprintf("proto_bytes:%q", tv.GetProtoBytes())
	}
	return "?"
}
