package pathvalprop

import (
	"fmt"
	"os"
	"sync"
	"testing"

	gpb "github.com/openconfig/gnmi/proto/gnmi"
	"google.golang.org/protobuf/proto"
	"verif/harness/internal/vstat"
)

// Native fuzz targets (thorough tier): the same oracles as the rapid parts,
// driven by the wire bytes of gnmi.Path / gnmi.TypedValue messages.
//
// Bookkeeping: `go test -fuzz` runs the target in several worker processes
// that share the -shard flag, so every process records under its own part
// name "fuzz-<x>.w<pid>" (the result file name still ends in .<shard>.json,
// which is what the driver collects). A violation is recorded once per
// process, with the decoded scenario as replay file.

type fuzzRecorder struct {
	rec      *vstat.Recorder
	mu       sync.Mutex
	n        int
	violated bool
}

var (
	fuzzRecs   []*fuzzRecorder
	fuzzRecsMu sync.Mutex
)

func newFuzzRecorder(part string) *fuzzRecorder {
	fr := &fuzzRecorder{rec: vstat.New(propertyID, fmt.Sprintf("%s.w%d", part, os.Getpid()))}
	fuzzRecsMu.Lock()
	fuzzRecs = append(fuzzRecs, fr)
	fuzzRecsMu.Unlock()
	return fr
}

func (fr *fuzzRecorder) tick() {
	fr.mu.Lock()
	fr.n++
	flush := fr.n%5000 == 0
	fr.mu.Unlock()
	if flush {
		fr.rec.Flush(true)
	}
}

func (fr *fuzzRecorder) violation(scenario any, class string, err error) {
	fr.mu.Lock()
	first := !fr.violated
	fr.violated = true
	fr.mu.Unlock()
	if first {
		fr.rec.AddViolation(scenario, "fuzz", class, "%v", err)
		fr.rec.Flush(true)
	}
}

// flushFuzz is called by TestMain after m.Run (a worker process returns from
// m.Run when the coordinator closes its pipe).
func flushFuzz() {
	fuzzRecsMu.Lock()
	defer fuzzRecsMu.Unlock()
	for _, fr := range fuzzRecs {
		if fr.n > 0 || fr.violated {
			fr.rec.Flush(true)
		}
	}
}

func mustMarshal(m proto.Message) []byte {
	b, err := proto.Marshal(m)
	if err != nil {
		panic(err)
	}
	return b
}

// ----------------------------------------------------------------- path ----

// runFuzzPath applies the index and CompletePath oracles to a decoded pair.
func runFuzzPath(sc *CompleteScenario) (pathStats, error) {
	for _, ps := range []PathSpec{sc.Prefix, sc.Path} {
		if _, err := runIndex(&IndexScenario{Path: ps}); err != nil {
			return pathStats{}, err
		}
	}
	return runComplete(sc)
}

func FuzzC19Path(f *testing.F) {
	if !vstat.Enabled(propertyID) {
		f.Skip()
	}
	seeds := []PathSpec{
		{},
		{Target: "t", Origin: "o", Elems: []ElemSpec{{Name: "a"}, {Name: "b", Keys: []KV{{"z", "1"}, {"a", "2"}, {"m", "3"}}}}},
		{Origin: "o", Element: []string{"a", "b[k=v]"}},
		{Target: "t", Elems: []ElemSpec{{Name: "", Keys: []KV{{"", ""}, {"/", "*"}}}}, Element: []string{"ignored"}},
		{Elems: []ElemSpec{{Name: "interfaces"}, {Name: "interface", Keys: []KV{{"name", "eth0/1"}}}}},
	}
	for i, a := range seeds {
		pa, _ := a.Build(buildForward)
		for j, b := range seeds {
			pb, _ := b.Build(buildForward)
			f.Add(mustMarshal(pa), mustMarshal(pb), byte((i+j)%4))
		}
	}
	fr := newFuzzRecorder("fuzz-path")
	f.Fuzz(func(t *testing.T, pre, p []byte, flags byte) {
		var a, b gpb.Path
		if proto.Unmarshal(pre, &a) != nil || proto.Unmarshal(p, &b) != nil {
			return
		}
		sc := &CompleteScenario{Prefix: SpecOf(&a), Path: SpecOf(&b)}
		// nil operands are part of the quantifier; two rare flag values select them
		if flags == 0xfe {
			sc.Prefix = PathSpec{Nil: true}
		}
		if flags == 0xff {
			sc.Path = PathSpec{Nil: true}
		}
		// the raw decoded messages must index like the path rebuilt from the spec
		st, err := runFuzzPath(sc)
		if err == nil {
			err = rawAgrees(&a, sc.Prefix)
		}
		if err == nil {
			err = rawAgrees(&b, sc.Path)
		}
		fr.rec.Case(sc, st.nontrivial, st.labels()...)
		fr.tick()
		if err != nil {
			fr.violation(sc, "fuzz-path", err)
			t.Fatalf("%v", err)
		}
	})
}

// ---------------------------------------------------------------- value ----

// FuzzValueScenario is the replayable form of one FuzzC19Value input: the
// wire bytes of the two operands.
type FuzzValueScenario struct {
	A    []byte `json:"a"`
	B    []byte `json:"b"`
	NilA bool   `json:"nil_a,omitempty"`
	NilB bool   `json:"nil_b,omitempty"`
}

func (sc *FuzzValueScenario) operands() (a, b *gpb.TypedValue, ok bool) {
	if !sc.NilA {
		a = &gpb.TypedValue{}
		if proto.Unmarshal(sc.A, a) != nil {
			return nil, nil, false
		}
	}
	if !sc.NilB {
		b = &gpb.TypedValue{}
		if proto.Unmarshal(sc.B, b) != nil {
			return nil, nil, false
		}
	}
	return a, b, true
}

func nilDoublePair(a, b *gpb.TypedValue) bool {
	return (a == nil && b != nil && armOf(b) == "double") || (b == nil && a != nil && armOf(a) == "double")
}

func runFuzzValue(sc *FuzzValueScenario) error {
	a, b, ok := sc.operands()
	if !ok {
		return nil
	}
	_, err := checkEqualPair(a, b)
	return err
}

func FuzzC19Value(f *testing.F) {
	if !vstat.Enabled(propertyID) {
		f.Skip()
	}
	var seeds [][]byte
	for _, v := range []TV{
		{}, {Arm: "string", S: "a"}, {Arm: "int", I: -1}, {Arm: "uint", U: 1 << 63}, {Arm: "bool", Bool: true}, {Arm: "bytes", B: []byte{0}},
		{Arm: "float", Bits: 0x80000000}, {Arm: "float", Bits: 0}, {Arm: "double", Bits: 1 << 63}, {Arm: "double", Bits: 0}, {Arm: "double", Bits: 0x7ff8000000000001},
		{Arm: "decimal", I: 15, U: 1}, {Arm: "decimal", I: 15, U: 2}, {Arm: "decimal", I: 150, U: 2},
		{Arm: "leaflist"}, {Arm: "leaflist", Elems: []TV{{Arm: "int", I: 1}, {Arm: "string", S: "x"}}}, {Arm: "leaflist", Elems: []TV{{Arm: "int", I: 1}}},
		{Arm: "leaflist", Elems: []TV{{Arm: "leaflist", Elems: []TV{{Arm: "double"}}}, {}}},
		{Arm: "any", S: "x", B: []byte{1}}, {Arm: "json", B: []byte("1")}, {Arm: "json_ietf", B: []byte("1")}, {Arm: "ascii", S: "a"}, {Arm: "proto_bytes", B: []byte{1}},
	} {
		seeds = append(seeds, mustMarshal(v.build()))
	}
	for i, a := range seeds {
		f.Add(a, a, byte(0))
		f.Add(a, seeds[(i+1)%len(seeds)], byte(0))
		f.Add(a, []byte{}, byte(i%3))
	}
	fr := newFuzzRecorder("fuzz-value")
	_, exclNilDouble := vstat.OpenClasses(propertyID)[classEqualNilDouble]
	f.Fuzz(func(t *testing.T, ab, bb []byte, flags byte) {
		sc := &FuzzValueScenario{A: ab, B: bb, NilA: flags == 1, NilB: flags == 2}
		a, b, ok := sc.operands()
		if !ok {
			return
		}
		if exclNilDouble && nilDoublePair(a, b) {
			fr.rec.Excluded(classEqualNilDouble)
			return
		}
		res, err := checkEqualPair(a, b)
		same := sameValue(a, b)
		var ls labelSet
		ls.add(true, "a:"+armName(a))
		ls.add(true, "b:"+armName(b))
		ls.add(res, "equal-answered-true")
		ls.add(same, "pair-same-value")
		ls.add(!same && armOf(a) == armOf(b), "pair-different-value-same-arm")
		fr.rec.Case(sc, !same && a != nil && b != nil && armOf(a) == armOf(b), ls.l...)
		fr.tick()
		if err != nil {
			fr.violation(sc, "fuzz-value", err)
			t.Fatalf("%v", err)
		}
	})
}

func armName(tv *gpb.TypedValue) string {
	if tv == nil {
		return "nil"
	}
	if a := armOf(tv); a != "" {
		return a
	}
	return "unset"
}

// rawAgrees checks the decoded message itself (not the path rebuilt from its
// plain-data form) against the reference index.
func rawAgrees(p *gpb.Path, ps PathSpec) error {
	if ps.Nil {
		return nil
	}
	return rawIndexAgrees(p, ps)
}
