package pathvalprop

import (
	"encoding/json"
	"fmt"
	"testing"
	"unicode/utf8"

	"pgregory.net/rapid"
	"verif/harness/internal/vstat"
)

// ---------------------------------------------------------------- large ----
//
// The five sequential parts stay below every size at which an implementation
// is likely to change its strategy (ToStrings pre-allocates 20 index strings;
// a "small map" fast path, a fixed scratch array, a chunked copy would sit at
// 4, 8, 16, 32, 64 ...). This part runs the same five oracles (runIndex,
// runComplete, runQuery, runScalar, runEqual - nothing is judged differently)
// on large shapes: elements with 5-10 keys, paths of 50-300 elements, queries
// of up to 60 elements, leaf-lists of 50-300 values, strings of 1-8 KiB, with
// the awkward characters ('/', '[', ']', '=', '\\', U+FFFD, the empty string;
// invalid UTF-8 where a Go string or bytes value may carry it) inside.

// LargeScenario wraps the scenario of one of the five oracles.
type LargeScenario struct {
	Kind     string            `json:"kind"` // index | complete | query | scalar | equal
	Shape    string            `json:"shape"`
	Index    *IndexScenario    `json:"index,omitempty"`
	Complete *CompleteScenario `json:"complete,omitempty"`
	Query    *QueryScenario    `json:"query,omitempty"`
	Scalar   *ScalarScenario   `json:"scalar,omitempty"`
	Equal    *EqualScenario    `json:"equal,omitempty"`
}

var cheapNames = []string{"a", "b", "interfaces", "interface", "state", "", "/", "a/b", "[", "]", "=", "\\", "�", "x[k=v]", "*", "日本", "config", "c", "d", "e"}

// genCheapStr costs one draw most of the time (long paths need thousands of strings).
func genCheapStr() *rapid.Generator[string] {
	return rapid.OneOf(rapid.SampledFrom(cheapNames), rapid.SampledFrom(cheapNames), rapid.SampledFrom(cheapNames), genStr())
}

func genCheapElem(t *rapid.T, nKeys int) ElemSpec {
	e := ElemSpec{Name: genCheapStr().Draw(t, "name")}
	if nKeys > 0 {
		e.Keys = rapid.SliceOfNDistinct(rapid.Custom(func(t *rapid.T) KV {
			return KV{K: genKeyName().Draw(t, "k"), V: genCheapStr().Draw(t, "v")}
		}), nKeys, nKeys, func(kv KV) string { return kv.K }).Draw(t, "keys")
	}
	return e
}

var largePathShapes = []string{"wide", "wide", "long", "long", "long-wide", "element-long", "long-single-key"}

// genLargePath draws a path of one of the large shapes; small = a path of
// the ordinary generator (the other operand of CompletePath).
func genLargePath(t *rapid.T, shape string, origin int) PathSpec {
	ps := PathSpec{}
	if rapid.Bool().Draw(t, "hasTarget") {
		ps.Target = genNonEmptyStr().Draw(t, "target")
	}
	if origin == 1 || (origin < 0 && rapid.IntRange(0, 2).Draw(t, "hasOrigin") == 0) {
		ps.Origin = genNonEmptyStr().Draw(t, "origin")
	}
	switch shape {
	case "wide": // few elements, at least one of them with 5-10 keys
		n := rapid.IntRange(1, 6).Draw(t, "nelems")
		wideAt := rapid.IntRange(0, n-1).Draw(t, "wideAt")
		for i := 0; i < n; i++ {
			k := rapid.SampledFrom([]int{0, 1, 2, 4, 5, 7, 9, 10}).Draw(t, "nkeys")
			if i == wideAt {
				k = rapid.IntRange(5, 10).Draw(t, "wide")
			}
			ps.Elems = append(ps.Elems, genKeyedElem(t, k))
		}
	case "long": // 50-300 elements, few keys
		n := rapid.SampledFrom([]int{50, 63, 64, 65, 100, 127, 128, 129, 200, 255, 256, 257, 300}).Draw(t, "nelems")
		n = rapid.OneOf(rapid.Just(n), rapid.IntRange(50, 300)).Draw(t, "nelems2")
		for i := 0; i < n; i++ {
			ps.Elems = append(ps.Elems, genCheapElem(t, rapid.SampledFrom([]int{0, 0, 0, 0, 0, 1, 2, 3}).Draw(t, "nkeys")))
		}
	case "long-single-key":
		n := rapid.IntRange(50, 300).Draw(t, "nelems")
		for i := 0; i < n; i++ {
			ps.Elems = append(ps.Elems, genCheapElem(t, rapid.SampledFrom([]int{1, 1, 1, 0, 2}).Draw(t, "nkeys")))
		}
	case "long-wide": // both at once, bounded
		n := rapid.IntRange(50, 110).Draw(t, "nelems")
		for i := 0; i < n; i++ {
			ps.Elems = append(ps.Elems, genCheapElem(t, rapid.SampledFrom([]int{0, 2, 5, 6, 8, 10, 1, 3}).Draw(t, "nkeys")))
		}
	case "element-long": // deprecated form, now and then shadowed by a (short) elem list
		ps.Element = rapid.SliceOfN(genCheapStr(), 50, 300).Draw(t, "element")
		if rapid.IntRange(0, 5).Draw(t, "shadow") == 0 {
			ps.Elems = []ElemSpec{genKeyedElem(t, rapid.IntRange(0, 6).Draw(t, "nkeys"))}
		}
	default:
		panic("harness: unknown large path shape " + shape)
	}
	return ps
}

// long text with the awkward characters inside; bad > 0 plants invalid bytes.
func genLongText(t *rapid.T, allowInvalid bool) []byte {
	pieces := []string{"a", "b", "interface ", "/", "[", "]", "=", "\\", "�", "é", "日本", "𝛼", "\x00", " ", "eth0/1", "￼", "￾"}
	n := rapid.SampledFrom([]int{1024, 1023, 1025, 2048, 4096, 4097, 8192, 300, 64, 65}).Draw(t, "len")
	idx := rapid.SliceOfN(rapid.IntRange(0, len(pieces)-1), 8, 24).Draw(t, "pieces")
	var b []byte
	for i := 0; len(b) < n; i++ {
		b = append(b, pieces[idx[i%len(idx)]]...)
	}
	if allowInvalid && rapid.IntRange(0, 2).Draw(t, "invalid") == 0 {
		at := rapid.IntRange(0, len(b)).Draw(t, "invalidAt")
		bad := rapid.SampledFrom(invalidUTF8).Draw(t, "invalidBytes")
		b = append(b[:at:at], append(append([]byte{}, bad...), b[at:]...)...)
	}
	return b
}

func genLargeScalar(t *rapid.T) (ScalarSpec, string) {
	shape := rapid.SampledFrom([]string{"list-long", "list-long", "strings-long", "string-long", "bytes-long", "list-of-lists"}).Draw(t, "shape")
	flat := func(t *rapid.T) ScalarSpec { return genScalarSpec(t, 2) } // depth 2: no further nesting
	switch shape {
	case "list-long":
		return ScalarSpec{Kind: "list", List: rapid.SliceOfN(rapid.Custom(flat), 50, 300).Draw(t, "list")}, shape
	case "strings-long":
		return ScalarSpec{Kind: "strings", Strs: rapid.SliceOfN(genMaybeInvalid(), 50, 300).Draw(t, "strs")}, shape
	case "string-long":
		return ScalarSpec{Kind: "string", B: genLongText(t, true)}, shape
	case "bytes-long":
		return ScalarSpec{Kind: "bytes", B: genLongText(t, true)}, shape
	default: // a list of 5-20 lists of 5-20 values
		inner := rapid.Custom(func(t *rapid.T) ScalarSpec {
			return ScalarSpec{Kind: "list", List: rapid.SliceOfN(rapid.Custom(flat), 5, 20).Draw(t, "inner")}
		})
		return ScalarSpec{Kind: "list", List: rapid.SliceOfN(inner, 5, 20).Draw(t, "outer")}, shape
	}
}

func genLargeEqual(t *rapid.T) (*EqualScenario, string) {
	shape := rapid.SampledFrom([]string{"leaflist-long", "leaflist-long", "text-long"}).Draw(t, "shape")
	sc := &EqualScenario{}
	if shape == "text-long" {
		arm := rapid.SampledFrom([]string{"string", "bytes", "ascii", "json", "proto_bytes"}).Draw(t, "arm")
		txt := genLongText(t, arm == "bytes" || arm == "proto_bytes" || arm == "json")
		mk := func(b []byte) TV {
			if arm == "string" || arm == "ascii" {
				return TV{Arm: arm, S: string(b)}
			}
			return TV{Arm: arm, B: b}
		}
		sc.A = mk(txt)
		switch rapid.SampledFrom([]string{"clone", "one-byte", "one-byte", "truncate"}).Draw(t, "how") {
		case "clone":
			sc.B, sc.How = mk(append([]byte{}, txt...)), "large:clone"
		case "truncate":
			cut := len(txt) - 1
			for cut > 0 && !utf8.RuneStart(txt[cut]) {
				cut--
			}
			sc.B, sc.How = mk(append([]byte{}, txt[:cut]...)), "large:drop-last-rune"
		default:
			// replace one ASCII byte by another ASCII byte (keeps a valid string valid)
			at := rapid.IntRange(0, len(txt)-1).Draw(t, "at")
			m := append([]byte{}, txt...)
			for k := 0; k < len(m); k++ {
				i := (at + k) % len(m)
				if m[i] < utf8.RuneSelf {
					if m[i] == 'x' {
						m[i] = 'y'
					} else {
						m[i] = 'x'
					}
					break
				}
			}
			sc.B, sc.How = mk(m), "large:one-byte-differs"
		}
		return sc, shape
	}
	n := rapid.SampledFrom([]int{50, 64, 65, 128, 129, 256, 257, 300}).Draw(t, "n")
	n = rapid.OneOf(rapid.Just(n), rapid.IntRange(50, 300)).Draw(t, "n2")
	leaf := func(t *rapid.T) TV { return genTV(t, 2) } // no nested leaf-lists: 300 elements are enough
	a := TV{Arm: "leaflist", Elems: rapid.SliceOfN(rapid.Custom(leaf), n, n).Draw(t, "elems")}
	sc.A = a
	b := cloneTV(a)
	switch how := rapid.SampledFrom([]string{"clone", "element", "element", "element", "drop-last", "append", "swap"}).Draw(t, "how"); how {
	case "clone":
		sc.How = "large:clone"
	case "element":
		at := rapid.SampledFrom([]int{0, n - 1, n / 2, 63, 64}).Draw(t, "at")
		at = rapid.OneOf(rapid.Just(at), rapid.IntRange(0, n-1)).Draw(t, "at2")
		if at >= n {
			at = n - 1
		}
		b.Elems[at], _ = mutateTV(t, a.Elems[at], 2)
		sc.How = "large:one-element-mutated"
	case "drop-last":
		b.Elems = b.Elems[:n-1]
		sc.How = "large:drop-last-element"
	case "append":
		b.Elems = append(b.Elems, cloneTV(a.Elems[n-1]))
		sc.How = "large:append-copy-of-last"
	case "swap":
		at := rapid.IntRange(0, n-2).Draw(t, "swapAt")
		b.Elems[at], b.Elems[at+1] = b.Elems[at+1], b.Elems[at]
		sc.How = "large:swap-adjacent"
	}
	sc.B = b
	return sc, shape
}

func genLargeScenario(t *rapid.T) *LargeScenario {
	sc := &LargeScenario{Kind: rapid.SampledFrom([]string{"index", "index", "complete", "complete", "query", "scalar", "equal"}).Draw(t, "kind")}
	switch sc.Kind {
	case "index":
		sc.Shape = rapid.SampledFrom(largePathShapes).Draw(t, "shape")
		sc.Index = &IndexScenario{Path: genLargePath(t, sc.Shape, -1)}
	case "complete":
		// all four origin combinations; one side large, the other large or ordinary
		combo := rapid.IntRange(0, 3).Draw(t, "combo")
		sc.Shape = rapid.SampledFrom(largePathShapes).Draw(t, "shape")
		big := genLargePath(t, sc.Shape, 0)
		var other PathSpec
		if rapid.IntRange(0, 3).Draw(t, "bothLarge") == 0 {
			other = genLargePath(t, rapid.SampledFrom(largePathShapes).Draw(t, "shape2"), 0)
			sc.Shape += "+large"
		} else {
			other = genPathSpec(t, pathOpts{origin: 0, elements: -1})
		}
		pre, p := big, other
		if rapid.Bool().Draw(t, "largeIsPath") {
			pre, p = other, big
			sc.Shape = "path:" + sc.Shape
		} else {
			sc.Shape = "prefix:" + sc.Shape
		}
		if combo&1 != 0 {
			pre.Origin = genNonEmptyStr().Draw(t, "prefixOrigin")
		}
		if combo&2 != 0 {
			p.Origin = genNonEmptyStr().Draw(t, "pathOrigin")
			if combo&1 == 0 && rapid.Bool().Draw(t, "emptyPrefix") {
				pre.Elems, pre.Element = nil, nil // the only joinable case with an origin in the path
			}
		}
		sc.Complete = &CompleteScenario{Prefix: pre, Path: p}
	case "query":
		sc.Shape = "query-long"
		q := &QueryScenario{}
		if rapid.Bool().Draw(t, "hasTarget") {
			q.Target = genStr().Draw(t, "target")
		}
		q.Queries = rapid.SliceOfN(rapid.SliceOfN(genPlainElement(), 6, 60), 1, 3).Draw(t, "queries")
		sc.Query = q
	case "scalar":
		s, shape := genLargeScalar(t)
		sc.Shape, sc.Scalar = shape, &ScalarScenario{V: s}
	case "equal":
		sc.Equal, sc.Shape = genLargeEqual(t)
	}
	return sc
}

// runLarge dispatches to the oracle of the wrapped scenario.
func runLarge(sc *LargeScenario) (labels []string, nontrivial bool, class string, err error) {
	labels = []string{"large:" + sc.Kind + ":" + sc.Shape}
	add := func(l []string) {
		for _, x := range l {
			labels = append(labels, sc.Kind+":"+x)
		}
	}
	size := func(pfx string, ps PathSpec) {
		n, maxKeys := len(refIndexSpec(ps, true)), 0
		for _, e := range ps.Elems {
			if len(e.Keys) > maxKeys {
				maxKeys = len(e.Keys)
			}
		}
		switch {
		case n > 300:
			labels = append(labels, pfx+"index-strings:301+")
		case n > 100:
			labels = append(labels, pfx+"index-strings:101-300")
		case n > 20:
			labels = append(labels, pfx+"index-strings:21-100")
		default:
			labels = append(labels, pfx+"index-strings:0-20")
		}
		switch {
		case maxKeys >= 9:
			labels = append(labels, pfx+"widest-elem:9-10-keys")
		case maxKeys >= 5:
			labels = append(labels, pfx+"widest-elem:5-8-keys")
		}
	}
	switch {
	case sc.Kind == "index" && sc.Index != nil:
		size("index:", sc.Index.Path)
		st, e := runIndex(sc.Index)
		add(st.labels())
		return labels, st.nontrivial, "index-mismatch", e
	case sc.Kind == "complete" && sc.Complete != nil:
		size("complete:prefix:", sc.Complete.Prefix)
		size("complete:path:", sc.Complete.Path)
		st, e := runComplete(sc.Complete)
		add(st.labels())
		return labels, st.nontrivial, "complete-path-mismatch", e
	case sc.Kind == "query" && sc.Query != nil:
		st, e := runQuery(sc.Query)
		add(st.labels())
		return labels, st.nontrivial, "query-round-trip", e
	case sc.Kind == "scalar" && sc.Scalar != nil:
		st, e := runScalar(sc.Scalar)
		// the per-element labels of a 300-element list say nothing here
		return append(labels, "scalar:kind:"+sc.Scalar.V.Kind), st.nontrivial, "scalar-round-trip", e
	case sc.Kind == "equal" && sc.Equal != nil:
		st, e := runEqual(sc.Equal)
		add(st.labels())
		return labels, st.nontrivial, "value-equal", e
	}
	return labels, false, "harness", fmt.Errorf("harness: large scenario of kind %q without its payload", sc.Kind)
}

func TestC19Large(t *testing.T) {
	if !vstat.Enabled(propertyID) {
		t.Skip()
	}
	rec := vstat.New(propertyID, "large")
	// The open class of the query oracle is excluded here exactly as in
	// TestC19Query (which also probes it and prints the KNOWN-FINDING line).
	_, open := vstat.OpenClasses(propertyID)[classQueryEdgeSlash]
	known := knownClass{name: classQueryEdgeSlash, active: open}
	rec.RunRapid(t, func(rt *rapid.T) {
		sc := genLargeScenario(rt)
		if sc.Query != nil {
			known.skip(rec, rt, sc.Query.edgeSlash())
		}
		labels, nontrivial, class, err := runLarge(sc)
		rec.Case(sc, nontrivial, labels...)
		if err != nil {
			rt.Logf("%s", rec.Fail(sc, class, "%v", err))
			rt.Fatalf("%s", stableMsg(err))
		}
	})
}

func replayLarge(rf *vstat.ReplayFile) string {
	var sc LargeScenario
	if len(rf.Scenario) == 0 || string(rf.Scenario) == "null" {
		return "no scenario in replay file"
	}
	if err := json.Unmarshal(rf.Scenario, &sc); err != nil {
		return "bad scenario: " + err.Error()
	}
	if _, _, _, err := runLarge(&sc); err != nil {
		return err.Error()
	}
	return ""
}
