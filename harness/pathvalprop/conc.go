package pathvalprop

import (
	"bytes"
	"fmt"
	"math"
	"reflect"
	"sync"
	"sync/atomic"

	"github.com/openconfig/gnmi/client"
	gclient "github.com/openconfig/gnmi/client/gnmi"
	"github.com/openconfig/gnmi/path"
	gpb "github.com/openconfig/gnmi/proto/gnmi"
	"github.com/openconfig/gnmi/value"
	"google.golang.org/protobuf/proto"
)

// ------------------------------------------------------------ concurrent ----
//
// The conversions C19 speaks about (path.ToStrings, path.CompletePath, the
// client query -> SubscribeRequest conversion, value.FromScalar / ToScalar /
// Equal) are pure functions: the result depends on the arguments only. The
// collector calls them from every stream and every subscription goroutine at
// once, on private and on shared (read-only) messages. The sequential parts
// never have two calls in flight; this part has: 2-16 goroutines on the real
// scheduler repeat their own generated list of calls, and every single result
// must be the result the same call gave when it ran alone (differential
// against a sequential run of the same functions on the same objects).
//
// The oracle is independent of the schedule: a pure function has one result
// per argument, so any difference - under any interleaving - is a violation;
// no wall clock, no ordering between goroutines is ever judged. The schedule
// itself is not reproducible (the scenario records the workload, a replay
// re-runs it with more rounds).

// ConcPath is one path object of the pool: the spec and how the message is built.
type ConcPath struct {
	Spec  PathSpec `json:"spec"`
	Build int      `json:"build,omitempty"` // build variant (forward, reverse, rotated, clone, wire)
}

// ConcJob is one call. A and B index the pool the operation reads:
//
//	index, index-lead   path.ToStrings(Paths[A], false / true)
//	complete            path.CompletePath(Paths[A], Paths[B])
//	query               ToSubscribeRequest(Queries[A]), then the server's CompletePath for every subscription
//	scalar              value.ToScalar(value.FromScalar(Scalars[A]))
//	toscalar            value.ToScalar(Values[A])
//	equal               value.Equal(Values[A], Values[B])
type ConcJob struct {
	Op string `json:"op"`
	A  int    `json:"a"`
	B  int    `json:"b,omitempty"`
}

// ConcScenario is one case of TestC19Concurrent: pools of inputs (every pool
// entry is ONE object, shared by all jobs that name it) and, per goroutine,
// the list of calls it repeats Rounds times.
type ConcScenario struct {
	Rounds  int             `json:"rounds"`
	Paths   []ConcPath      `json:"paths,omitempty"`
	Queries []QueryScenario `json:"queries,omitempty"`
	Scalars []ScalarSpec    `json:"scalars,omitempty"`
	Values  []TV            `json:"values,omitempty"`
	Jobs    [][]ConcJob     `json:"jobs"` // Jobs[w]: the calls of goroutine w
}

var concOps = []string{"index", "index-lead", "complete", "query", "scalar", "toscalar", "equal"}

// concResult is the outcome of one call in a comparable form.
type concResult struct {
	strs []string      // index strings (query: all subscriptions, each preceded by a marker)
	err  string        // "" = no error; otherwise a schedule-independent description
	val  interface{}   // scalar / toscalar
	msg  proto.Message // query: the SubscribeRequest; scalar: the TypedValue
	b    bool          // equal
}

// sameAny compares two values returned by value.ToScalar (or two Go scalars):
// same dynamic type and same value, floats by bit pattern with every NaN
// matching every NaN.
func sameAny(a, b interface{}) bool {
	switch x := a.(type) {
	case float64:
		y, ok := b.(float64)
		return ok && (math.Float64bits(x) == math.Float64bits(y) || (x != x && y != y))
	case float32:
		y, ok := b.(float32)
		return ok && (math.Float32bits(x) == math.Float32bits(y) || (x != x && y != y))
	case []byte:
		y, ok := b.([]byte)
		return ok && bytes.Equal(x, y)
	case []interface{}:
		y, ok := b.([]interface{})
		if !ok || len(x) != len(y) {
			return false
		}
		for i := range x {
			if !sameAny(x[i], y[i]) {
				return false
			}
		}
		return true
	case value.DeprecatedScalar:
		y, ok := b.(value.DeprecatedScalar)
		return ok && x.Message == y.Message && reflect.DeepEqual(x.Value, y.Value)
	}
	return reflect.DeepEqual(a, b)
}

func sameMsg(a, b proto.Message) bool {
	an := a == nil || !a.ProtoReflect().IsValid()
	bn := b == nil || !b.ProtoReflect().IsValid()
	if an || bn {
		return an == bn
	}
	return proto.Equal(a, b)
}

func (r *concResult) same(o *concResult) bool {
	return r.err == o.err && r.b == o.b && sameStrings(r.strs, o.strs) &&
		sameAny(r.val, o.val) && sameMsg(r.msg, o.msg)
}

func (r *concResult) String() string {
	s := ""
	if r.strs != nil {
		s += fmt.Sprintf("%q", r.strs)
	}
	if r.msg != nil {
		if tv, ok := r.msg.(*gpb.TypedValue); ok {
			s += " " + show(tv)
		} else {
			s += fmt.Sprintf(" %v", r.msg)
		}
	}
	if r.val != nil {
		s += fmt.Sprintf(" %T(%#v)", r.val, r.val)
	}
	if r.err != "" {
		s += " error(" + r.err + ")"
	}
	if s == "" {
		s = fmt.Sprintf("%v", r.b)
	}
	return s
}

// versus renders an observed result next to the expected one; long index
// paths are cut down to a window around the first position that differs.
func (r *concResult) versus(want *concResult) (got, exp string) {
	const window = 4
	a, b := r.strs, want.strs
	if len(a) <= 3*window && len(b) <= 3*window || r.err != want.err || sameStrings(a, b) {
		return r.String(), want.String()
	}
	at := 0
	for at < len(a) && at < len(b) && a[at] == b[at] {
		at++
	}
	cut := func(x []string) string {
		lo, hi := at-window, at+window+1
		if lo < 0 {
			lo = 0
		}
		if hi > len(x) {
			hi = len(x)
		}
		if lo > hi {
			lo = hi
		}
		return fmt.Sprintf("%d index strings, [%d:%d] = %q", len(x), lo, hi, x[lo:hi])
	}
	return fmt.Sprintf("(first difference at position %d) %s", at, cut(a)), cut(b)
}

// concPools are the built inputs of a scenario. Nothing in here is written
// after build returns.
type concPools struct {
	paths   []*gpb.Path
	queries []client.Query
	scalars []interface{}
	values  []*gpb.TypedValue
	// snapshots taken before any call, for the "inputs are not modified" clause
	pathSnap  []*gpb.Path
	valueSnap []*gpb.TypedValue
}

func (sc *ConcScenario) build() (*concPools, error) {
	p := &concPools{}
	for i, cp := range sc.Paths {
		if cp.Build < 0 || cp.Build >= numBuilds {
			return nil, fmt.Errorf("harness: path %d: unknown build variant %d", i, cp.Build)
		}
		m, err := cp.Spec.Build(cp.Build)
		if err != nil {
			return nil, err
		}
		p.paths = append(p.paths, m)
		var snap *gpb.Path
		if m != nil {
			snap = proto.Clone(m).(*gpb.Path)
		}
		p.pathSnap = append(p.pathSnap, snap)
	}
	for _, qs := range sc.Queries {
		q := client.Query{Target: qs.Target, Type: client.Once}
		for _, qp := range qs.Queries {
			q.Queries = append(q.Queries, client.Path(append([]string{}, qp...)))
		}
		p.queries = append(p.queries, q)
	}
	for _, s := range sc.Scalars {
		p.scalars = append(p.scalars, s.goValue())
	}
	for _, t := range sc.Values {
		m, err := wire(t.build())
		if err != nil {
			return nil, err
		}
		p.values = append(p.values, m)
		var snap *gpb.TypedValue
		if m != nil {
			snap = proto.Clone(m).(*gpb.TypedValue)
		}
		p.valueSnap = append(p.valueSnap, snap)
	}
	for w, jobs := range sc.Jobs {
		for j, job := range jobs {
			n, two := 0, false
			switch job.Op {
			case "index", "index-lead":
				n = len(p.paths)
			case "complete":
				n, two = len(p.paths), true
			case "query":
				n = len(p.queries)
			case "scalar":
				n = len(p.scalars)
			case "toscalar":
				n = len(p.values)
			case "equal":
				n, two = len(p.values), true
			default:
				return nil, fmt.Errorf("harness: goroutine %d job %d: unknown op %q", w, j, job.Op)
			}
			if job.A < 0 || job.A >= n || (two && (job.B < 0 || job.B >= n)) {
				return nil, fmt.Errorf("harness: goroutine %d job %d (%s): index out of the pool of %d", w, j, job.Op, n)
			}
		}
	}
	return p, nil
}

const subMarker = "\x00<next subscription>"

// eval performs one call. It reads the pools and allocates its result; it
// writes nothing that another goroutine can see.
func (p *concPools) eval(job ConcJob) (res *concResult) {
	res = &concResult{}
	defer func() {
		if r := recover(); r != nil {
			*res = concResult{err: fmt.Sprintf("panic: %v", r)}
		}
	}()
	switch job.Op {
	case "index":
		res.strs = path.ToStrings(p.paths[job.A], false)
	case "index-lead":
		res.strs = path.ToStrings(p.paths[job.A], true)
	case "complete":
		got, err := path.CompletePath(p.paths[job.A], p.paths[job.B])
		res.strs = got
		if err != nil {
			res.err = err.Error() // two constant texts
		}
	case "query":
		sr, err := gclient.ToSubscribeRequest(p.queries[job.A])
		if err != nil {
			res.err = "ToSubscribeRequest failed"
			return res
		}
		res.msg = sr
		res.strs = []string{}
		sl := sr.GetSubscribe()
		for _, sub := range sl.GetSubscription() {
			got, cerr := path.CompletePath(sl.GetPrefix(), sub.GetPath())
			if cerr != nil {
				res.err = "server side CompletePath failed"
				return res
			}
			res.strs = append(append(res.strs, subMarker), got...)
		}
	case "scalar":
		tv, err := value.FromScalar(p.scalars[job.A])
		if err != nil {
			res.err = "FromScalar failed"
			return res
		}
		res.msg = tv
		v, terr := value.ToScalar(tv)
		if terr != nil {
			res.err = "ToScalar failed"
			return res
		}
		res.val = v
	case "toscalar":
		v, err := value.ToScalar(p.values[job.A])
		if err != nil {
			res.err = "ToScalar failed"
			return res
		}
		res.val = v
	case "equal":
		res.b = value.Equal(p.values[job.A], p.values[job.B])
	}
	return res
}

// unmodified checks the pools against the snapshots / the scenario.
func (p *concPools) unmodified(sc *ConcScenario) error {
	for i, m := range p.paths {
		if (m == nil) != (p.pathSnap[i] == nil) || (m != nil && !proto.Equal(m, p.pathSnap[i])) {
			return fmt.Errorf("input path #%d was modified by the conversions: now %v, was %v", i, m, p.pathSnap[i])
		}
	}
	for i, m := range p.values {
		if (m == nil) != (p.valueSnap[i] == nil) || (m != nil && !proto.Equal(m, p.valueSnap[i])) {
			return fmt.Errorf("input TypedValue #%d was modified by the conversions: now %s, was %s", i, show(m), show(p.valueSnap[i]))
		}
	}
	for i, q := range p.queries {
		qs := sc.Queries[i]
		if q.Target != qs.Target || len(q.Queries) != len(qs.Queries) {
			return fmt.Errorf("input query #%d was modified by the conversions: now %q", i, q.Queries)
		}
		for k := range q.Queries {
			if !sameStrings(q.Queries[k], qs.Queries[k]) {
				return fmt.Errorf("input query #%d was modified by the conversions: path %d is now %q, was %q", i, k, q.Queries[k], qs.Queries[k])
			}
		}
	}
	for i, v := range p.scalars {
		if s := sc.Scalars[i]; s.rebuildable() && !sameAny(v, s.goValue()) {
			return fmt.Errorf("input Go value #%d (%s) was modified by the conversions: now %#v, was %#v", i, s.Kind, v, s.goValue())
		}
	}
	return nil
}

// rebuildable: building the Go value twice gives two comparable values (no
// channel, function or pointer anywhere inside).
func (s ScalarSpec) rebuildable() bool {
	if !supportedKinds[s.Kind] {
		return false
	}
	for _, e := range s.List {
		if !e.rebuildable() {
			return false
		}
	}
	return true
}

type concStats struct {
	labelSet
	nontrivial bool
	calls      int64
}

func (s *concStats) labels() []string { return s.l }

// concErr carries the run-independent text rapid sees (so that it recognises
// the failure again while shrinking) next to the full observation.
type concErr struct{ class, stable, full string }

func (e *concErr) Error() string { return e.full }

func multiKey(ps PathSpec) bool {
	if ps.Nil {
		return false
	}
	for _, e := range ps.Elems {
		if len(e.Keys) >= 2 {
			return true
		}
	}
	return false
}

func (sc *ConcScenario) describe(st *concStats) {
	n := len(sc.Jobs)
	switch {
	case n <= 2:
		st.add(true, "goroutines:2")
	case n <= 4:
		st.add(true, "goroutines:3-4")
	case n <= 8:
		st.add(true, "goroutines:5-8")
	default:
		st.add(true, "goroutines:9-16")
	}
	pathUsers := map[int]map[int]bool{} // path index -> goroutines
	valueUsers := map[int]map[int]bool{}
	multiKeyWorkers := map[int]bool{}
	use := func(m map[int]map[int]bool, i, w int) {
		if m[i] == nil {
			m[i] = map[int]bool{}
		}
		m[i][w] = true
	}
	for w, jobs := range sc.Jobs {
		for _, job := range jobs {
			st.add(true, "op:"+job.Op)
			switch job.Op {
			case "index", "index-lead":
				use(pathUsers, job.A, w)
			case "complete":
				use(pathUsers, job.A, w)
				use(pathUsers, job.B, w)
			case "toscalar":
				use(valueUsers, job.A, w)
			case "equal":
				use(valueUsers, job.A, w)
				use(valueUsers, job.B, w)
			}
		}
	}
	sharedMulti, privateMulti := false, false
	for i, ws := range pathUsers {
		ps := sc.Paths[i].Spec
		if multiKey(ps) {
			for w := range ws {
				multiKeyWorkers[w] = true
			}
			if len(ws) >= 2 {
				sharedMulti = true
			} else {
				privateMulti = true
			}
		}
		st.add(len(ws) >= 2, "same-path-object-on-2+-goroutines")
		if !ps.Nil {
			st.add(len(ps.Elems) >= 20, "path-with-20+-elems")
			for _, e := range ps.Elems {
				st.add(len(e.Keys) >= 5, "elem-with-5+-keys")
			}
		}
	}
	for _, ws := range valueUsers {
		st.add(len(ws) >= 2, "same-TypedValue-object-on-2+-goroutines")
	}
	st.add(sharedMulti, "multi-key-path-object-shared-by-goroutines")
	st.add(privateMulti, "multi-key-path-object-private-to-a-goroutine")
	st.add(len(multiKeyWorkers) >= 2, "multi-key-conversions-on-2+-goroutines")
	// non-trivial: conversions that need more than a copy (key ordering) are
	// in flight on at least two goroutines
	st.nontrivial = len(multiKeyWorkers) >= 2
}

// runConc executes a scenario: sequential baseline, concurrent phase,
// post-conditions. boost multiplies the recorded number of rounds (used while
// shrinking and in replays, where one attempt should be a likely reproduction).
func runConc(sc *ConcScenario, boost int) (st concStats, err error) {
	if len(sc.Jobs) < 1 || sc.Rounds < 1 {
		return st, fmt.Errorf("harness: scenario without goroutines or rounds")
	}
	if boost < 1 {
		boost = 1
	}
	pools, berr := sc.build()
	if berr != nil {
		return st, berr
	}
	sc.describe(&st)

	// 1. every call alone, twice: the sequential results are the expectation,
	// and they must already agree with each other (a pure function).
	exp := make([][]*concResult, len(sc.Jobs))
	for w, jobs := range sc.Jobs {
		exp[w] = make([]*concResult, len(jobs))
		for j, job := range jobs {
			exp[w][j] = pools.eval(job)
		}
	}
	for w, jobs := range sc.Jobs {
		for j, job := range jobs {
			if again := pools.eval(job); !again.same(exp[w][j]) {
				return st, &concErr{class: "sequential-call-not-deterministic",
					stable: fmt.Sprintf("%s: two sequential calls on the same arguments give different results", job.Op),
					full: fmt.Sprintf("%s (goroutine %d job %d, before any goroutine was started): two sequential calls on the same arguments give different results: %s and %s",
						job.Op, w, j, exp[w][j], again)}
			}
		}
	}
	if uerr := pools.unmodified(sc); uerr != nil {
		return st, &concErr{class: "input-modified", stable: "an input was modified by the sequential calls", full: uerr.Error() + " (sequential phase)"}
	}

	// 2. the same calls from all goroutines at once
	rounds := sc.Rounds * boost
	fails := make([]*concErr, len(sc.Jobs))
	kept := make([][]*concResult, len(sc.Jobs))
	var stop atomic.Bool
	var calls atomic.Int64
	// A goroutine that has done its rounds keeps going until the slowest one
	// has done its own: calls stay in flight together to the end of the case
	// (how many extra rounds that makes depends on the schedule; no oracle
	// looks at it).
	var unfinished atomic.Int32
	unfinished.Store(int32(len(sc.Jobs)))
	var wg sync.WaitGroup
	start := make(chan struct{})
	for w := range sc.Jobs {
		kept[w] = make([]*concResult, len(sc.Jobs[w]))
		wg.Add(1)
		go func(w int) {
			defer wg.Done()
			jobs, want, mine := sc.Jobs[w], exp[w], kept[w]
			n := int64(0)
			defer func() { calls.Add(n) }()
			<-start
			for r := 0; !stop.Load(); r++ {
				if r == rounds {
					unfinished.Add(-1)
				}
				if r >= rounds && unfinished.Load() <= 0 {
					break
				}
				for j, job := range jobs {
					// the result of the previous round has been lying around while
					// everybody else was converting: it still has to be what it was
					if old := mine[j]; old != nil && !old.same(want[j]) {
						now, then := old.versus(want[j])
						fails[w] = &concErr{class: "result-changed-after-return",
							stable: fmt.Sprintf("%s: a result changed after the call had returned", job.Op),
							full: fmt.Sprintf("%s (goroutine %d of %d, job %d, round %d): the result returned one round earlier was %s then and reads %s now; nobody but the conversions running on other goroutines can have written it",
								job.Op, w, len(sc.Jobs), j, r, then, now)}
						stop.Store(true)
						return
					}
					got := pools.eval(job)
					n++
					if !got.same(want[j]) {
						obs, alone := got.versus(want[j])
						fails[w] = &concErr{class: "concurrent-result-differs",
							stable: fmt.Sprintf("%s: result under concurrency differs from the result of the same call run alone", job.Op),
							full: fmt.Sprintf("%s (goroutine %d of %d, job %d, round %d) returned %s while other goroutines were converting; the same call on the same arguments run alone returned %s",
								job.Op, w, len(sc.Jobs), j, r, obs, alone)}
						stop.Store(true)
						return
					}
					mine[j] = got
				}
			}
		}(w)
	}
	close(start)
	wg.Wait()
	st.calls = calls.Load()
	for _, f := range fails {
		if f != nil {
			return st, f
		}
	}

	// 3. at rest: retained results and inputs are what they were
	for w := range kept {
		for j, old := range kept[w] {
			if old != nil && !old.same(exp[w][j]) {
				now, then := old.versus(exp[w][j])
				return st, &concErr{class: "result-changed-after-return",
					stable: fmt.Sprintf("%s: a result changed after the call had returned", sc.Jobs[w][j].Op),
					full: fmt.Sprintf("%s (goroutine %d job %d): the retained result of the last round was %s when it was returned and reads %s after all goroutines have finished",
						sc.Jobs[w][j].Op, w, j, then, now)}
			}
		}
	}
	if uerr := pools.unmodified(sc); uerr != nil {
		return st, &concErr{class: "input-modified", stable: "an input was modified by the concurrent calls", full: uerr.Error() + " (after the concurrent phase)"}
	}
	return st, nil
}
