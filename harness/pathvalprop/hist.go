package pathvalprop

import (
	"fmt"
	"reflect"
	"sort"
	"strings"

	"github.com/openconfig/gnmi/client"
	gclient "github.com/openconfig/gnmi/client/gnmi"
	"github.com/openconfig/gnmi/path"
	gpb "github.com/openconfig/gnmi/proto/gnmi"
	"github.com/openconfig/gnmi/value"
	"google.golang.org/protobuf/proto"
)

// -------------------------------------------------------------- history ----
//
// The other sequential parts hand every call a message built for that call.
// Real callers do not: a server decodes every request into the message it
// decoded the previous one into, a relay rewrites the target-specific key of
// the prefix it forwards, a helper walks origin/key combinations by editing
// one message, pooled messages are handed back and forth. This part judges
// HISTORIES over message objects: a small pool of *gnmi.Path, *gnmi.TypedValue,
// client.Query and Go slice objects lives for the whole case; the steps of a
// case are calls of the conversions C19 names (path.ToStrings,
// path.CompletePath, the client query conversion, value.FromScalar/ToScalar,
// value.Equal) and changes the caller makes IN PLACE to its own objects
// between the calls (a key value rewritten, a key added/removed/renamed, an
// element appended/truncated/renamed, origin/target changed, the Elem slice
// replaced, proto.Reset followed by proto.Merge/Unmarshal of another path into
// the same object, the oneof arm of a TypedValue switched, its payload
// rewritten inside the same wrapper, leaf-list elements appended/dropped, one
// object's content copied into or swapped with another's).
//
// Oracle: a conversion is a function of the CONTENT of its arguments at the
// time of the call - never of the identity of the message objects, never of
// the calls made before. Every call's result is compared with the reference
// conversion (refIndexSpec / the documented origin rules / the scalar round
// trip / sameValue) of the content read from the objects right before the
// call; the code under test is never called on anything but the pool objects
// (a call on a private clone would itself be an event of the history and
// could hide what the history is there to show). Where the property gives no
// closed form for a result (value.Equal answering false, ToScalar of arms
// FromScalar never produces) the same content must give the same answer every
// time it comes up in the case.

// HistStep is one step of a history: a call or a change in place. Indices
// into the pools (A, B) and into the current content (E, K) are taken modulo
// the current size, so that every step is meaningful in every state.
type HistStep struct {
	// calls:     index index-lead complete query toscalar equal scalar
	// changes:   p:<kind> (path object A), v:<kind> (TypedValue object A),
	//            q:<kind> (query object A), s:set (Go value A)
	Op     string         `json:"op"`
	A      int            `json:"a,omitempty"`
	B      int            `json:"b,omitempty"`
	E      int            `json:"e,omitempty"`
	K      int            `json:"k,omitempty"`
	S      string         `json:"s,omitempty"`
	S2     string         `json:"s2,omitempty"`
	How    string         `json:"how,omitempty"` // in-place | move | reset-merge | reset-unmarshal | assign-fields
	Build  int            `json:"build,omitempty"`
	Path   *PathSpec      `json:"path,omitempty"`
	Elems  []ElemSpec     `json:"elems,omitempty"`
	Strs   []string       `json:"strs,omitempty"`
	TV     *TV            `json:"tv,omitempty"`
	Scalar *ScalarSpec    `json:"scalar,omitempty"`
	Query  *QueryScenario `json:"query,omitempty"`
}

// HistScenario is one case of TestC19History: the initial content of the
// pooled objects and the steps.
type HistScenario struct {
	Paths   []ConcPath      `json:"paths,omitempty"`
	Values  []TV            `json:"values,omitempty"` // never nil: a nil message cannot be changed in place
	Queries []QueryScenario `json:"queries,omitempty"`
	Scalars []ScalarSpec    `json:"scalars,omitempty"`
	Steps   []HistStep      `json:"steps"`
}

type histStats struct {
	labelSet
	nontrivial bool
}

func (s *histStats) labels() []string { return s.l }

// histErr: class for the evidence, stable = run-independent text for rapid.
type histErr struct{ class, stable, full string }

func (e *histErr) Error() string { return e.full }

type pathTrack struct {
	conv               bool     // converted before
	spec               PathSpec // content at the last conversion
	wasPrefix, wasPath bool
}

type valTrack struct {
	conv bool
	key  string // content at the last conversion
}

type histState struct {
	paths   []*gpb.Path
	values  []*gpb.TypedValue
	queries []*client.Query
	gos     []interface{}
	goSpecs []ScalarSpec
	// valScalar[i] != nil: the content of values[i] is exactly what FromScalar
	// returned for that Go value (the message was filled from a clone of it)
	valScalar []*ScalarSpec

	ptrack []pathTrack
	vtrack []valTrack
	qtrack []struct {
		conv bool
		snap QueryScenario
	}
	strack []struct {
		conv bool
		spec ScalarSpec
	}
	// the non-nil prefix object of the most recent CompletePath call made on
	// pool objects (-1: none yet; -2: a query call went through the server-side
	// CompletePath with its own prefix message in between)
	prevPrefix     int
	prevPrefixSpec PathSpec
	prevIndexed    int
	prevIndexSpec  PathSpec

	// content -> answer, for the calls whose answer the property does not give in closed form
	seenEqual    map[string]bool
	seenToScalar map[string]*concResult
}

func newHistState(sc *HistScenario) (*histState, error) {
	h := &histState{prevPrefix: -1, prevIndexed: -1, seenEqual: map[string]bool{}, seenToScalar: map[string]*concResult{}}
	for i, cp := range sc.Paths {
		if cp.Build < 0 || cp.Build >= numBuilds {
			return nil, fmt.Errorf("harness: path %d: unknown build variant %d", i, cp.Build)
		}
		m, err := cp.Spec.Build(cp.Build)
		if err != nil {
			return nil, err
		}
		h.paths = append(h.paths, m)
	}
	h.ptrack = make([]pathTrack, len(h.paths))
	for i, t := range sc.Values {
		if t.Nil {
			return nil, fmt.Errorf("harness: value %d: a nil TypedValue cannot be a pooled object", i)
		}
		m, err := wire(t.build())
		if err != nil {
			return nil, err
		}
		h.values = append(h.values, m)
	}
	h.valScalar = make([]*ScalarSpec, len(h.values))
	h.vtrack = make([]valTrack, len(h.values))
	for _, qs := range sc.Queries {
		h.queries = append(h.queries, buildQuery(&qs))
	}
	h.qtrack = make([]struct {
		conv bool
		snap QueryScenario
	}, len(h.queries))
	for _, s := range sc.Scalars {
		h.gos = append(h.gos, s.goValue())
		h.goSpecs = append(h.goSpecs, s)
	}
	h.strack = make([]struct {
		conv bool
		spec ScalarSpec
	}, len(h.gos))
	return h, nil
}

func buildQuery(qs *QueryScenario) *client.Query {
	q := &client.Query{Target: qs.Target, Type: client.Once}
	for _, qp := range qs.Queries {
		q.Queries = append(q.Queries, client.Path(append([]string{}, qp...)))
	}
	return q
}

// snapQuery reads the content of a query object into plain data.
func snapQuery(q *client.Query) QueryScenario {
	s := QueryScenario{Target: q.Target, Queries: [][]string{}}
	for _, qp := range q.Queries {
		s.Queries = append(s.Queries, append([]string{}, qp...))
	}
	return s
}

func mod(i, n int) int {
	if n <= 0 {
		return 0
	}
	i %= n
	if i < 0 {
		i += n
	}
	return i
}

func sortedKeyNames(m map[string]string) []string {
	ks := make([]string, 0, len(m))
	for k := range m {
		ks = append(ks, k)
	}
	sort.Strings(ks)
	return ks
}

func buildElem(e ElemSpec) *gpb.PathElem {
	pe := &gpb.PathElem{Name: e.Name}
	if len(e.Keys) > 0 {
		pe.Key = make(map[string]string, len(e.Keys))
		for _, kv := range e.Keys {
			pe.Key[kv.K] = kv.V
		}
	}
	return pe
}

// refillPath replaces the whole content of the object p by the content of src
// (a private message nobody else holds), the way the step says.
func refillPath(p, src *gpb.Path, how string) error {
	switch how {
	case "reset-merge":
		proto.Reset(p)
		proto.Merge(p, src)
	case "reset-unmarshal":
		b, err := proto.Marshal(src)
		if err != nil {
			return fmt.Errorf("harness: marshal path: %v", err)
		}
		proto.Reset(p)
		if err := (proto.UnmarshalOptions{Merge: true}).Unmarshal(b, p); err != nil {
			return fmt.Errorf("harness: unmarshal path: %v", err)
		}
	case "assign-fields":
		p.Target, p.Origin, p.Elem, p.Element = src.Target, src.Origin, src.Elem, src.Element
	default:
		return fmt.Errorf("harness: unknown way to refill a path: %q", how)
	}
	return nil
}

// changePath applies a p:<kind> step to the path object A. It never calls the
// code under test.
func (h *histState) changePath(s HistStep) error {
	n := len(h.paths)
	if n == 0 {
		return fmt.Errorf("harness: %s without path objects", s.Op)
	}
	p := h.paths[mod(s.A, n)]
	if p == nil {
		return nil // the nil path stays nil
	}
	elem := func() *gpb.PathElem {
		if len(p.Elem) == 0 {
			return nil
		}
		return p.Elem[mod(s.E, len(p.Elem))]
	}
	// the first element at or after position E (cyclically) that has keys
	keyed := func() *gpb.PathElem {
		for k := range p.Elem {
			if e := p.Elem[mod(s.E+k, len(p.Elem))]; len(e.Key) > 0 {
				return e
			}
		}
		return nil
	}
	switch s.Op {
	case "p:key-rewrite":
		if e := keyed(); e != nil {
			ks := sortedKeyNames(e.Key)
			e.Key[ks[mod(s.K, len(ks))]] = s.S
		}
	case "p:key-add":
		if e := elem(); e != nil {
			if e.Key == nil {
				e.Key = map[string]string{}
			}
			e.Key[s.S] = s.S2
		}
	case "p:key-del":
		if e := keyed(); e != nil {
			ks := sortedKeyNames(e.Key)
			delete(e.Key, ks[mod(s.K, len(ks))])
		}
	case "p:key-rename":
		if e := keyed(); e != nil {
			ks := sortedKeyNames(e.Key)
			old := ks[mod(s.K, len(ks))]
			v := e.Key[old]
			delete(e.Key, old)
			e.Key[s.S] = v
		}
	case "p:elem-rename":
		if e := elem(); e != nil {
			e.Name = s.S
		}
	case "p:elem-append":
		for _, es := range s.Elems {
			p.Elem = append(p.Elem, buildElem(es))
		}
	case "p:elem-truncate":
		if len(p.Elem) > 0 {
			p.Elem = p.Elem[:mod(s.K, len(p.Elem))] // the backing array stays: a later append writes into it
		}
	case "p:elem-slice":
		var ne []*gpb.PathElem
		for _, es := range s.Elems {
			ne = append(ne, buildElem(es))
		}
		p.Elem = ne
	case "p:elem-slice-copy": // same elements in a new slice: the content does not change
		p.Elem = append([]*gpb.PathElem(nil), p.Elem...)
	case "p:elem-object":
		if len(p.Elem) > 0 && len(s.Elems) > 0 {
			p.Elem[mod(s.E, len(p.Elem))] = buildElem(s.Elems[0])
		}
	case "p:element-set":
		p.Element = append([]string(nil), s.Strs...)
	case "p:element-rewrite":
		if len(p.Element) > 0 {
			p.Element[mod(s.K, len(p.Element))] = s.S
		}
	case "p:origin":
		p.Origin = s.S
	case "p:target":
		p.Target = s.S
	case "p:clear":
		proto.Reset(p)
	case "p:refill":
		if s.Path == nil || s.Path.Nil {
			return fmt.Errorf("harness: p:refill without a path")
		}
		if s.Build < 0 || s.Build >= numBuilds {
			return fmt.Errorf("harness: p:refill: unknown build variant %d", s.Build)
		}
		src, err := s.Path.Build(s.Build)
		if err != nil {
			return err
		}
		return refillPath(p, src, s.How)
	case "p:copy-from":
		o := h.paths[mod(s.B, n)]
		if o == nil || o == p {
			return nil
		}
		return refillPath(p, proto.Clone(o).(*gpb.Path), s.How)
	case "p:swap":
		o := h.paths[mod(s.B, n)]
		if o == nil || o == p {
			return nil
		}
		cp, co := proto.Clone(p).(*gpb.Path), proto.Clone(o).(*gpb.Path)
		if err := refillPath(p, co, s.How); err != nil {
			return err
		}
		return refillPath(o, cp, s.How)
	default:
		return fmt.Errorf("harness: unknown path change %q", s.Op)
	}
	return nil
}

// overwriteBytes writes src over dst's storage when it fits.
func overwriteBytes(dst, src []byte) []byte {
	if dst != nil && len(src) <= cap(dst) {
		dst = dst[:len(src)]
		copy(dst, src)
		return dst
	}
	return src
}

// assignInPlace makes the content of dst equal to the content of src (a
// private message) changing as little of dst's object graph as possible: the
// payload is written into the wrapper dst already holds when the arm is the
// same, leaf-list elements are rewritten / appended / dropped in place, bytes
// are copied over dst's storage when they fit. Only when the arm differs the
// wrapper of src is moved into dst.
func assignInPlace(dst, src *gpb.TypedValue) {
	switch sv := src.Value.(type) {
	case *gpb.TypedValue_StringVal:
		if d, ok := dst.Value.(*gpb.TypedValue_StringVal); ok {
			d.StringVal = sv.StringVal
			return
		}
	case *gpb.TypedValue_IntVal:
		if d, ok := dst.Value.(*gpb.TypedValue_IntVal); ok {
			d.IntVal = sv.IntVal
			return
		}
	case *gpb.TypedValue_UintVal:
		if d, ok := dst.Value.(*gpb.TypedValue_UintVal); ok {
			d.UintVal = sv.UintVal
			return
		}
	case *gpb.TypedValue_BoolVal:
		if d, ok := dst.Value.(*gpb.TypedValue_BoolVal); ok {
			d.BoolVal = sv.BoolVal
			return
		}
	case *gpb.TypedValue_BytesVal:
		if d, ok := dst.Value.(*gpb.TypedValue_BytesVal); ok {
			d.BytesVal = overwriteBytes(d.BytesVal, sv.BytesVal)
			return
		}
	case *gpb.TypedValue_FloatVal:
		if d, ok := dst.Value.(*gpb.TypedValue_FloatVal); ok {
			d.FloatVal = sv.FloatVal
			return
		}
	case *gpb.TypedValue_DoubleVal:
		if d, ok := dst.Value.(*gpb.TypedValue_DoubleVal); ok {
			d.DoubleVal = sv.DoubleVal
			return
		}
	case *gpb.TypedValue_DecimalVal:
		if d, ok := dst.Value.(*gpb.TypedValue_DecimalVal); ok && d.DecimalVal != nil && sv.DecimalVal != nil {
			d.DecimalVal.Digits, d.DecimalVal.Precision = sv.DecimalVal.Digits, sv.DecimalVal.Precision
			return
		}
	case *gpb.TypedValue_AsciiVal:
		if d, ok := dst.Value.(*gpb.TypedValue_AsciiVal); ok {
			d.AsciiVal = sv.AsciiVal
			return
		}
	case *gpb.TypedValue_JsonVal:
		if d, ok := dst.Value.(*gpb.TypedValue_JsonVal); ok {
			d.JsonVal = overwriteBytes(d.JsonVal, sv.JsonVal)
			return
		}
	case *gpb.TypedValue_JsonIetfVal:
		if d, ok := dst.Value.(*gpb.TypedValue_JsonIetfVal); ok {
			d.JsonIetfVal = overwriteBytes(d.JsonIetfVal, sv.JsonIetfVal)
			return
		}
	case *gpb.TypedValue_ProtoBytes:
		if d, ok := dst.Value.(*gpb.TypedValue_ProtoBytes); ok {
			d.ProtoBytes = overwriteBytes(d.ProtoBytes, sv.ProtoBytes)
			return
		}
	case *gpb.TypedValue_AnyVal:
		if d, ok := dst.Value.(*gpb.TypedValue_AnyVal); ok && d.AnyVal != nil && sv.AnyVal != nil {
			d.AnyVal.TypeUrl, d.AnyVal.Value = sv.AnyVal.TypeUrl, overwriteBytes(d.AnyVal.Value, sv.AnyVal.Value)
			return
		}
	case *gpb.TypedValue_LeaflistVal:
		if d, ok := dst.Value.(*gpb.TypedValue_LeaflistVal); ok && d.LeaflistVal != nil && sv.LeaflistVal != nil {
			de, se := d.LeaflistVal.Element, sv.LeaflistVal.Element
			for i := 0; i < len(de) && i < len(se); i++ {
				if de[i] == nil || se[i] == nil {
					de[i] = se[i]
				} else {
					assignInPlace(de[i], se[i])
				}
			}
			if len(se) > len(de) {
				de = append(de, se[len(de):]...)
			} else {
				de = de[:len(se)] // dropped elements stay in the spare capacity
			}
			d.LeaflistVal.Element = de
			return
		}
	}
	dst.Value = src.Value
}

// refillValue replaces the content of the object tv by the content of src (private).
func refillValue(tv, src *gpb.TypedValue, how string) error {
	switch how {
	case "in-place":
		assignInPlace(tv, src)
	case "move":
		tv.Value = src.Value
	case "reset-merge":
		proto.Reset(tv)
		proto.Merge(tv, src)
	case "reset-unmarshal":
		b, err := proto.Marshal(src)
		if err != nil {
			return fmt.Errorf("harness: marshal TypedValue: %v", err)
		}
		proto.Reset(tv)
		if err := (proto.UnmarshalOptions{Merge: true}).Unmarshal(b, tv); err != nil {
			return fmt.Errorf("harness: unmarshal TypedValue: %v", err)
		}
	default:
		return fmt.Errorf("harness: unknown way to refill a TypedValue: %q", how)
	}
	if !proto.Equal(tv, src) {
		return fmt.Errorf("harness: after refilling (%s) the object reads %s, wanted %s", how, show(tv), show(src))
	}
	return nil
}

func valueKey(tv *gpb.TypedValue) (string, bool) {
	b, err := proto.MarshalOptions{Deterministic: true}.Marshal(tv)
	if err != nil {
		return "", false
	}
	return string(b), true
}

// changeValue applies a v:<kind> step. v:fill-scalar calls value.FromScalar
// (one more call of the history, judged like every other) and fills the object
// from a clone of what it returned.
func (h *histState) changeValue(i int, s HistStep, st *histStats) error {
	n := len(h.values)
	if n == 0 {
		return fmt.Errorf("harness: %s without TypedValue objects", s.Op)
	}
	a := mod(s.A, n)
	tv := h.values[a]
	switch s.Op {
	case "v:fill-tv":
		if s.TV == nil || s.TV.Nil {
			return fmt.Errorf("harness: v:fill-tv without a value")
		}
		src, err := wire(s.TV.build())
		if err != nil {
			return err
		}
		was := armOf(tv)
		if err := refillValue(tv, src, s.How); err != nil {
			return err
		}
		h.valScalar[a] = nil
		st.add(was != "" && was != armOf(tv), "value-change:oneof-arm-switched-on-the-same-object")
		st.add(was != "" && was == armOf(tv) && s.How == "in-place", "value-change:payload-rewritten-inside-the-same-wrapper")
	case "v:fill-scalar":
		if s.Scalar == nil {
			return fmt.Errorf("harness: v:fill-scalar without a Go value")
		}
		x := s.Scalar.goValue()
		_, ok, lenient := s.Scalar.expect()
		got, ferr := callFromScalar(x)
		switch {
		case !ok && ferr == nil:
			return &histErr{class: "scalar-round-trip", stable: "FromScalar accepted a value that cannot be mapped to a scalar TypedValue",
				full: fmt.Sprintf("step %d: FromScalar(%T %#v) returned %s without an error; the type/value cannot be mapped to a scalar TypedValue", i, x, x, show(got))}
		case !ok:
			st.add(true, "fill-scalar-rejected-as-it-must-be (object unchanged)")
			return nil
		case ferr != nil && lenient:
			st.add(true, "fill-scalar-invalid-utf8-strings-rejected (object unchanged)")
			return nil
		case ferr != nil || got == nil:
			return &histErr{class: "scalar-round-trip", stable: "FromScalar failed for a supported scalar",
				full: fmt.Sprintf("step %d: FromScalar(%T %#v) returned %v, %v for a supported scalar", i, x, x, got, ferr)}
		case lenient:
			// accepted, but such a message cannot be marshalled: nothing to fill the object with
			st.add(true, "fill-scalar-invalid-utf8-strings-accepted (object unchanged)")
			return nil
		}
		src := proto.Clone(got).(*gpb.TypedValue) // what FromScalar returned may share storage with x
		was := armOf(tv)
		if err := refillValue(tv, src, s.How); err != nil {
			return err
		}
		spec := *s.Scalar
		h.valScalar[a] = &spec
		st.add(was != "" && was != armOf(tv), "value-change:oneof-arm-switched-on-the-same-object")
		st.add(was != "" && was == armOf(tv) && s.How == "in-place", "value-change:payload-rewritten-inside-the-same-wrapper")
	case "v:copy-from":
		b := mod(s.B, n)
		if b == a {
			return nil
		}
		if err := refillValue(tv, proto.Clone(h.values[b]).(*gpb.TypedValue), s.How); err != nil {
			return err
		}
		h.valScalar[a] = h.valScalar[b]
	case "v:swap":
		b := mod(s.B, n)
		if b == a {
			return nil
		}
		o := h.values[b]
		ct, co := proto.Clone(tv).(*gpb.TypedValue), proto.Clone(o).(*gpb.TypedValue)
		if err := refillValue(tv, co, s.How); err != nil {
			return err
		}
		if err := refillValue(o, ct, s.How); err != nil {
			return err
		}
		h.valScalar[a], h.valScalar[b] = h.valScalar[b], h.valScalar[a]
	case "v:clear":
		proto.Reset(tv)
		h.valScalar[a] = nil
	default:
		return fmt.Errorf("harness: unknown TypedValue change %q", s.Op)
	}
	return nil
}

// changeQuery applies a q:<kind> step to a query object (plain Go data; also
// used to simulate a history without running it, see edgeSlash).
func changeQuery(q *client.Query, s HistStep) error {
	qpath := func() *client.Path {
		if len(q.Queries) == 0 {
			return nil
		}
		return &q.Queries[mod(s.E, len(q.Queries))]
	}
	switch s.Op {
	case "q:elem-set":
		if qp := qpath(); qp != nil && len(*qp) > 0 {
			(*qp)[mod(s.K, len(*qp))] = s.S
		}
	case "q:elem-append":
		if qp := qpath(); qp != nil {
			*qp = append(*qp, s.S)
		}
	case "q:elem-truncate":
		if qp := qpath(); qp != nil && len(*qp) > 0 {
			*qp = (*qp)[:mod(s.K, len(*qp))]
		}
	case "q:path-append":
		q.Queries = append(q.Queries, client.Path(append([]string{}, s.Strs...)))
	case "q:path-truncate":
		if len(q.Queries) > 1 {
			q.Queries = q.Queries[:1+mod(s.K, len(q.Queries)-1)]
		}
	case "q:target":
		q.Target = s.S
	case "q:replace":
		if s.Query == nil || len(s.Query.Queries) == 0 {
			return fmt.Errorf("harness: q:replace without a query")
		}
		nq := buildQuery(s.Query)
		q.Target, q.Queries = nq.Target, nq.Queries
	default:
		return fmt.Errorf("harness: unknown query change %q", s.Op)
	}
	return nil
}

// edgeSlash is the class predicate of the open finding D15 for a history:
// some query call is made while the last element of one of the object's paths
// ends with '/'. The query objects are plain Go data, so the history of their
// content is obtained by applying the q: steps to a scratch copy; no code
// under test runs.
func (sc *HistScenario) edgeSlash() bool {
	var qs []*client.Query
	for i := range sc.Queries {
		qs = append(qs, buildQuery(&sc.Queries[i]))
	}
	if len(qs) == 0 {
		return false
	}
	for _, s := range sc.Steps {
		switch {
		case s.Op == "query":
			snap := snapQuery(qs[mod(s.A, len(qs))])
			if snap.edgeSlash() {
				return true
			}
		case strings.HasPrefix(s.Op, "q:"):
			if changeQuery(qs[mod(s.A, len(qs))], s) != nil {
				return false
			}
		}
	}
	return false
}

// overwriteGo gives the Go value cur the content spec describes; a slice is
// rewritten over its own storage when the kind is the same and it fits.
func overwriteGo(cur interface{}, spec ScalarSpec) (interface{}, bool) {
	nv := spec.goValue()
	switch c := cur.(type) {
	case []byte:
		if n, ok := nv.([]byte); ok && c != nil && n != nil && len(n) <= cap(c) {
			c = c[:len(n)]
			copy(c, n)
			return c, true
		}
	case []string:
		if n, ok := nv.([]string); ok && c != nil && len(n) <= cap(c) {
			c = c[:len(n)]
			copy(c, n)
			return c, true
		}
	case []interface{}:
		if n, ok := nv.([]interface{}); ok && c != nil && len(n) <= cap(c) {
			c = c[:len(n)]
			copy(c, n)
			return c, true
		}
	}
	return nv, false
}

// expectComplete: the documented outcome of CompletePath(prefix, path) -
// reject conflicting origins, otherwise origin, prefix index, path index.
func expectComplete(pre, p PathSpec) (want []string, wantErr string) {
	oPre, oPath := "", ""
	if !pre.Nil {
		oPre = pre.Origin
	}
	if !p.Nil {
		oPath = p.Origin
	}
	preIdx := refIndexSpec(pre, false)
	pathIdx := refIndexSpec(p, false)
	switch {
	case oPre != "" && oPath != "":
		return nil, "origin set in both prefix and path"
	case oPre == "" && oPath != "" && len(preIdx) > 0:
		return nil, "prefix has path elements although the origin is set in the path"
	}
	want = []string{}
	if oPre != "" {
		want = append(want, oPre)
	} else if oPath != "" {
		want = append(want, oPath)
	}
	want = append(want, preIdx...)
	want = append(want, pathIdx...)
	return want, ""
}

// copyScalarResult copies the parts of a ToScalar result that may share
// storage with the message it was read from.
func copyScalarResult(v interface{}) interface{} {
	switch x := v.(type) {
	case []byte:
		return append([]byte{}, x...)
	case []interface{}:
		out := make([]interface{}, len(x))
		for i := range x {
			out[i] = copyScalarResult(x[i])
		}
		return out
	}
	return v
}

func callFromScalar(x interface{}) (tv *gpb.TypedValue, err error) {
	defer func() {
		if r := recover(); r != nil {
			tv, err = nil, fmt.Errorf("panic: %v", r)
		}
	}()
	return value.FromScalar(x)
}

func scribbleStrings(s []string) {
	for g, i := s[:cap(s)], 0; i < len(g); i++ {
		g[i] = "scribbled"
	}
}

func pathText(p *gpb.Path) string {
	if p == nil {
		return "<nil path>"
	}
	return "{" + p.String() + "}"
}

// notePathConv records that path object i is being converted with content cur.
func (h *histState) notePathConv(i int, cur PathSpec, st *histStats) {
	if cur.Nil {
		return
	}
	t := &h.ptrack[i]
	if t.conv {
		if !reflect.DeepEqual(t.spec, cur) {
			st.add(true, "path-object-converted-changed-in-place-converted-again")
			st.nontrivial = true
		} else {
			st.add(true, "path-object-converted-again-with-the-same-content")
		}
	}
	t.conv, t.spec = true, cur
}

func (h *histState) unchangedPath(i, obj int, before PathSpec, what string) error {
	if after := SpecOf(h.paths[obj]); !reflect.DeepEqual(before, after) {
		return &histErr{class: "input-modified", stable: what + " modified its argument",
			full: fmt.Sprintf("step %d: %s modified path object #%d: it read %+v before the call and reads %+v after it", i, what, obj, before, after)}
	}
	return nil
}

func (h *histState) callIndex(i int, s HistStep, st *histStats) error {
	n := len(h.paths)
	if n == 0 {
		return fmt.Errorf("harness: %s without path objects", s.Op)
	}
	a := mod(s.A, n)
	lead := s.Op == "index-lead"
	cur := SpecOf(h.paths[a])
	want := refIndexSpec(cur, lead)
	h.notePathConv(a, cur, st)
	if h.prevIndexed >= 0 && !cur.Nil {
		same := reflect.DeepEqual(h.prevIndexSpec, cur)
		st.add(h.prevIndexed == a && !same, "index:same-object-as-the-previous-ToStrings-call-content-changed")
		st.add(h.prevIndexed != a && same, "index:other-object-than-the-previous-ToStrings-call-equal-content")
	}
	if !cur.Nil {
		h.prevIndexed, h.prevIndexSpec = a, cur
	}
	got := path.ToStrings(h.paths[a], lead)
	if !sameStrings(got, want) {
		return &histErr{class: "history-index-mismatch",
			stable: fmt.Sprintf("ToStrings(prefix=%v) on a re-used path object differs from the reference index of its current content", lead),
			full: fmt.Sprintf("step %d: ToStrings(path object #%d = %s, prefix=%v) = %q; the reference index of the content the object has at this call is %q",
				i, a, pathText(h.paths[a]), lead, got, want)}
	}
	scribbleStrings(got)
	return h.unchangedPath(i, a, cur, "ToStrings")
}

func (h *histState) callComplete(i int, s HistStep, st *histStats) error {
	n := len(h.paths)
	if n == 0 {
		return fmt.Errorf("harness: complete without path objects")
	}
	a, b := mod(s.A, n), mod(s.B, n)
	pre, p := SpecOf(h.paths[a]), SpecOf(h.paths[b])
	want, wantErr := expectComplete(pre, p)
	h.notePathConv(a, pre, st)
	if b != a {
		h.notePathConv(b, p, st)
	}
	st.add(a == b && !pre.Nil, "complete:one-object-as-prefix-and-as-path")
	if !pre.Nil {
		st.add(h.ptrack[a].wasPath, "complete:prefix-object-was-the-path-of-an-earlier-call")
		switch {
		case h.prevPrefix == a && !reflect.DeepEqual(h.prevPrefixSpec, pre):
			st.add(true, "complete:prefix-object-of-the-previous-CompletePath-changed-in-place (no other prefix in between)")
		case h.prevPrefix == a:
			st.add(true, "complete:prefix-object-of-the-previous-CompletePath-unchanged")
		case h.prevPrefix != -1 && h.ptrack[a].wasPrefix:
			st.add(true, "complete:prefix-object-used-again-after-another-prefix-object")
		}
		st.add(h.prevPrefix >= 0 && h.prevPrefix != a && reflect.DeepEqual(h.prevPrefixSpec, pre), "complete:prefix-equal-in-content-to-the-previous-prefix-in-another-object")
		h.ptrack[a].wasPrefix = true
		h.prevPrefix, h.prevPrefixSpec = a, pre
	} else {
		st.add(true, "complete:nil-prefix")
	}
	if !p.Nil {
		st.add(h.ptrack[b].wasPrefix && a != b, "complete:path-object-was-the-prefix-of-an-earlier-call")
		h.ptrack[b].wasPath = true
	}
	st.add(wantErr != "", "complete:origin-conflict-expected")
	got, gerr := path.CompletePath(h.paths[a], h.paths[b])
	where := fmt.Sprintf("step %d: CompletePath(prefix = path object #%d = %s, path = path object #%d = %s)", i, a, pathText(h.paths[a]), b, pathText(h.paths[b]))
	switch {
	case wantErr != "" && gerr == nil:
		return &histErr{class: "history-complete-path-mismatch", stable: "CompletePath on re-used path objects accepted an origin conflict",
			full: fmt.Sprintf("%s returned %q without error, but with the content the objects have at this call: %s", where, got, wantErr)}
	case wantErr == "" && gerr != nil:
		return &histErr{class: "history-complete-path-mismatch", stable: "CompletePath on re-used path objects reported an origin conflict that is not there",
			full: fmt.Sprintf("%s returned error %q, but with the content the objects have at this call there is no origin conflict; expected %q", where, gerr, want)}
	case wantErr == "" && !sameStrings(got, want):
		return &histErr{class: "history-complete-path-mismatch", stable: "CompletePath on re-used path objects differs from origin + prefix index + path index of their current content",
			full: fmt.Sprintf("%s = %q; the prefix index followed by the path index of the content the objects have at this call is %q", where, got, want)}
	}
	if got != nil {
		scribbleStrings(got)
	}
	if err := h.unchangedPath(i, a, pre, "CompletePath"); err != nil {
		return err
	}
	return h.unchangedPath(i, b, p, "CompletePath")
}

func (h *histState) callQuery(i int, s HistStep, st *histStats) error {
	n := len(h.queries)
	if n == 0 {
		return fmt.Errorf("harness: query without query objects")
	}
	a := mod(s.A, n)
	q := h.queries[a]
	snap := snapQuery(q)
	for _, qp := range snap.Queries {
		for _, e := range qp {
			if !plainElement(e) {
				return fmt.Errorf("harness: query element %q is not plain", e)
			}
		}
	}
	if t := &h.qtrack[a]; t.conv {
		if !reflect.DeepEqual(t.snap, snap) {
			st.add(true, "query-object-converted-changed-in-place-converted-again")
			st.nontrivial = true
		} else {
			st.add(true, "query-object-converted-again-with-the-same-content")
		}
	}
	h.qtrack[a].conv, h.qtrack[a].snap = true, snap
	where := fmt.Sprintf("step %d: query object #%d with paths %q", i, a, snap.Queries)
	sr, serr := gclient.ToSubscribeRequest(*q)
	if serr != nil {
		return &histErr{class: "history-query-round-trip", stable: "ToSubscribeRequest rejected a re-used query of plain elements",
			full: fmt.Sprintf("%s: ToSubscribeRequest rejected a query of plain elements: %v", where, serr)}
	}
	wireBytes, merr := proto.Marshal(sr)
	if merr != nil {
		return &histErr{class: "history-query-round-trip", stable: "SubscribeRequest of a re-used query cannot be marshalled",
			full: fmt.Sprintf("%s: the SubscribeRequest cannot be marshalled: %v", where, merr)}
	}
	var back gpb.SubscribeRequest
	if uerr := proto.Unmarshal(wireBytes, &back); uerr != nil {
		return fmt.Errorf("harness: %s: the SubscribeRequest cannot be unmarshalled: %v", where, uerr)
	}
	sl := back.GetSubscribe()
	if len(sl.GetSubscription()) != len(snap.Queries) {
		return &histErr{class: "history-query-round-trip", stable: "a re-used query reaches the wire with another number of subscriptions than it has paths",
			full: fmt.Sprintf("%s reached the wire with %d subscriptions", where, len(sl.GetSubscription()))}
	}
	// the server indexes every subscription against the one prefix message of the request
	if sl.GetPrefix() != nil && len(sl.GetSubscription()) > 0 {
		h.prevPrefix = -2
	}
	for k, sub := range sl.GetSubscription() {
		got, cerr := path.CompletePath(sl.GetPrefix(), sub.GetPath())
		if cerr != nil {
			return &histErr{class: "history-query-round-trip", stable: "server side CompletePath failed for a re-used query",
				full: fmt.Sprintf("%s: server side CompletePath failed for path %q: %v", where, snap.Queries[k], cerr)}
		}
		if !sameStrings(got, snap.Queries[k]) {
			return &histErr{class: "history-query-round-trip", stable: "a path of a re-used query is indexed by the server as other elements than it has",
				full: fmt.Sprintf("%s: path %q is indexed by the server as %q", where, snap.Queries[k], got)}
		}
	}
	if after := snapQuery(q); !reflect.DeepEqual(snap, after) {
		return &histErr{class: "input-modified", stable: "ToSubscribeRequest modified its argument",
			full: fmt.Sprintf("%s: the conversion modified the query: it reads %q now", where, after.Queries)}
	}
	return nil
}

func (h *histState) noteValueConv(a int, key string, st *histStats) {
	t := &h.vtrack[a]
	if t.conv {
		if t.key != key {
			st.add(true, "value-object-converted-changed-in-place-converted-again")
			st.nontrivial = true
		} else {
			st.add(true, "value-object-converted-again-with-the-same-content")
		}
	}
	t.conv, t.key = true, key
}

func (h *histState) unchangedValue(i, obj int, before string, what string) error {
	if after, ok := valueKey(h.values[obj]); ok && after != before {
		return &histErr{class: "input-modified", stable: what + " modified its argument",
			full: fmt.Sprintf("step %d: %s modified TypedValue object #%d: it reads %s after the call", i, what, obj, show(h.values[obj]))}
	}
	return nil
}

func (h *histState) callToScalar(i int, s HistStep, st *histStats) error {
	n := len(h.values)
	if n == 0 {
		return fmt.Errorf("harness: toscalar without TypedValue objects")
	}
	a := mod(s.A, n)
	tv := h.values[a]
	key, keyed := valueKey(tv)
	if !keyed {
		return fmt.Errorf("harness: TypedValue object #%d cannot be marshalled", a)
	}
	h.noteValueConv(a, key, st)
	res := &concResult{}
	func() {
		defer func() {
			if r := recover(); r != nil {
				*res = concResult{err: fmt.Sprintf("panic: %v", r)}
			}
		}()
		v, err := value.ToScalar(tv)
		if err != nil {
			res.err = "ToScalar failed"
			return
		}
		res.val = v
	}()
	where := fmt.Sprintf("step %d: ToScalar(TypedValue object #%d = %s)", i, a, show(tv))
	if strings.HasPrefix(res.err, "panic") {
		return &histErr{class: "history-scalar-round-trip", stable: "ToScalar panicked on a re-used TypedValue object", full: where + " " + res.err}
	}
	if spec := h.valScalar[a]; spec != nil {
		st.add(true, "toscalar:content-is-what-FromScalar-returned")
		want, _, _ := spec.expect()
		x := spec.goValue()
		if res.err != "" {
			return &histErr{class: "history-scalar-round-trip", stable: "ToScalar failed on a re-used object holding what FromScalar returned",
				full: fmt.Sprintf("%s failed although the object holds exactly what FromScalar(%T %#v) returned", where, x, x)}
		}
		if serr := sameScalar(res.val, want); serr != nil {
			return &histErr{class: "history-scalar-round-trip", stable: "ToScalar on a re-used object differs from the Go value its current content was converted from",
				full: fmt.Sprintf("%s: the object holds exactly what FromScalar(%T %#v) returned, but %v", where, x, x, serr)}
		}
	} else {
		st.add(true, "toscalar:content-from-a-TypedValue-spec (judged by same content => same answer)")
	}
	if old, ok := h.seenToScalar[key]; ok {
		st.add(true, "toscalar:content-seen-before-in-this-history")
		if !old.same(res) {
			return &histErr{class: "history-not-a-function-of-content", stable: "ToScalar gave two different answers for the same content within one history",
				full: fmt.Sprintf("%s returned %s; earlier in this history the same content gave %s", where, res, old)}
		}
	} else {
		// keep a private copy: what ToScalar returns may share storage with the
		// object (bytes), which the caller goes on to rewrite in place
		keep := *res
		keep.val = copyScalarResult(keep.val)
		h.seenToScalar[key] = &keep
	}
	return h.unchangedValue(i, a, key, "ToScalar")
}

func (h *histState) callEqual(i int, s HistStep, st *histStats) error {
	n := len(h.values)
	if n == 0 {
		return fmt.Errorf("harness: equal without TypedValue objects")
	}
	a, b := mod(s.A, n), mod(s.B, n)
	x, y := h.values[a], h.values[b]
	kx, okx := valueKey(x)
	ky, oky := valueKey(y)
	if !okx || !oky {
		return fmt.Errorf("harness: TypedValue object #%d or #%d cannot be marshalled", a, b)
	}
	h.noteValueConv(a, kx, st)
	if b != a {
		h.noteValueConv(b, ky, st)
	}
	st.add(a == b, "equal:one-object-as-both-operands")
	st.add(a != b && kx == ky, "equal:two-objects-with-equal-content")
	res, err := checkEqualPair(x, y)
	if err != nil {
		return &histErr{class: "history-value-equal", stable: "Equal on re-used TypedValue objects is not total, symmetric and sound",
			full: fmt.Sprintf("step %d: Equal(TypedValue object #%d, TypedValue object #%d): %v", i, a, b, err)}
	}
	st.add(res, "equal:answered-true")
	for _, k := range [][2]string{{kx, ky}, {ky, kx}} {
		key := fmt.Sprintf("%d:%s%s", len(k[0]), k[0], k[1])
		if old, seen := h.seenEqual[key]; seen {
			st.add(true, "equal:content-pair-seen-before-in-this-history")
			if old != res {
				return &histErr{class: "history-not-a-function-of-content", stable: "Equal gave two different answers for the same pair of contents within one history",
					full: fmt.Sprintf("step %d: Equal(TypedValue object #%d = %s, TypedValue object #%d = %s) = %v; earlier in this history the same pair of contents gave %v", i, a, show(x), b, show(y), res, old)}
			}
		}
		h.seenEqual[key] = res
	}
	if err := h.unchangedValue(i, a, kx, "Equal"); err != nil {
		return err
	}
	return h.unchangedValue(i, b, ky, "Equal")
}

func (h *histState) callScalar(i int, s HistStep, st *histStats) error {
	n := len(h.gos)
	if n == 0 {
		return fmt.Errorf("harness: scalar without Go values")
	}
	a := mod(s.A, n)
	spec := h.goSpecs[a]
	x := h.gos[a]
	if t := &h.strack[a]; t.conv {
		if !reflect.DeepEqual(t.spec, spec) {
			st.add(true, "go-value-converted-changed-in-place-converted-again")
			st.nontrivial = true
		} else {
			st.add(true, "go-value-converted-again-with-the-same-content")
		}
	}
	h.strack[a].conv, h.strack[a].spec = true, spec
	want, ok, lenient := spec.expect()
	where := fmt.Sprintf("step %d: FromScalar(Go value #%d = %T %#v)", i, a, x, x)
	tv, ferr := callFromScalar(x)
	if ferr != nil && strings.HasPrefix(ferr.Error(), "panic") {
		return &histErr{class: "history-scalar-round-trip", stable: "FromScalar panicked on a re-used Go value", full: where + " " + ferr.Error()}
	}
	switch {
	case !ok && ferr == nil:
		return &histErr{class: "history-scalar-round-trip", stable: "FromScalar accepted a re-used Go value that cannot be mapped to a scalar TypedValue",
			full: fmt.Sprintf("%s returned %s without an error; the type/value cannot be mapped to a scalar TypedValue", where, show(tv))}
	case !ok:
		st.add(true, "scalar:rejected-as-it-must-be")
		return nil
	case ferr != nil && lenient:
		return nil
	case ferr != nil || tv == nil:
		return &histErr{class: "history-scalar-round-trip", stable: "FromScalar failed for a re-used Go value of a supported type",
			full: fmt.Sprintf("%s returned %v, %v for a supported scalar", where, tv, ferr)}
	}
	got, terr := value.ToScalar(tv)
	if terr != nil {
		return &histErr{class: "history-scalar-round-trip", stable: "ToScalar(FromScalar(x)) failed for a re-used Go value",
			full: fmt.Sprintf("%s: ToScalar of the result returned error %q", where, terr)}
	}
	if serr := sameScalar(got, want); serr != nil {
		return &histErr{class: "history-scalar-round-trip", stable: "ToScalar(FromScalar(x)) differs from the current content of a re-used Go value",
			full: fmt.Sprintf("%s: ToScalar of the result: %v", where, serr)}
	}
	if spec.rebuildable() && !sameAny(x, spec.goValue()) {
		return &histErr{class: "input-modified", stable: "FromScalar/ToScalar modified the Go value",
			full: fmt.Sprintf("%s: the Go value reads %#v after the call", where, x)}
	}
	return nil
}

func (h *histState) step(i int, s HistStep, st *histStats) error {
	switch {
	case s.Op == "index" || s.Op == "index-lead":
		st.add(true, "call:"+s.Op)
		return h.callIndex(i, s, st)
	case s.Op == "complete":
		st.add(true, "call:complete")
		return h.callComplete(i, s, st)
	case s.Op == "query":
		st.add(true, "call:query")
		return h.callQuery(i, s, st)
	case s.Op == "toscalar":
		st.add(true, "call:toscalar")
		return h.callToScalar(i, s, st)
	case s.Op == "equal":
		st.add(true, "call:equal")
		return h.callEqual(i, s, st)
	case s.Op == "scalar":
		st.add(true, "call:scalar")
		return h.callScalar(i, s, st)
	case strings.HasPrefix(s.Op, "p:"):
		n := len(h.paths)
		if n == 0 {
			return fmt.Errorf("harness: %s without path objects", s.Op)
		}
		a, b := mod(s.A, n), mod(s.B, n)
		ba, bb := SpecOf(h.paths[a]), SpecOf(h.paths[b])
		if err := h.changePath(s); err != nil {
			return err
		}
		changed := !reflect.DeepEqual(ba, SpecOf(h.paths[a])) || !reflect.DeepEqual(bb, SpecOf(h.paths[b]))
		what := s.Op
		if s.How != "" {
			what += "(" + s.How + ")"
		}
		st.add(changed, "change:"+what)
		st.add(!changed, "change-that-keeps-the-content:"+s.Op)
		return nil
	case strings.HasPrefix(s.Op, "v:"):
		what := s.Op
		if s.How != "" {
			what += "(" + s.How + ")"
		}
		st.add(true, "change:"+what)
		return h.changeValue(i, s, st)
	case strings.HasPrefix(s.Op, "q:"):
		n := len(h.queries)
		if n == 0 {
			return fmt.Errorf("harness: %s without query objects", s.Op)
		}
		st.add(true, "change:"+s.Op)
		return changeQuery(h.queries[mod(s.A, n)], s)
	case s.Op == "s:set":
		n := len(h.gos)
		if n == 0 {
			return fmt.Errorf("harness: s:set without Go values")
		}
		if s.Scalar == nil {
			return fmt.Errorf("harness: s:set without a Go value")
		}
		a := mod(s.A, n)
		var inPlace bool
		h.gos[a], inPlace = overwriteGo(h.gos[a], *s.Scalar)
		h.goSpecs[a] = *s.Scalar
		st.add(inPlace, "change:s:set(slice rewritten over its own storage)")
		st.add(!inPlace, "change:s:set(value replaced)")
		return nil
	}
	return fmt.Errorf("harness: unknown step %q", s.Op)
}

// runHist executes a history. Pure: everything it does is determined by sc.
func runHist(sc *HistScenario) (st histStats, err error) {
	defer func() {
		if r := recover(); r != nil {
			err = fmt.Errorf("panic: %v", r)
		}
	}()
	h, berr := newHistState(sc)
	if berr != nil {
		return st, berr
	}
	st.add(len(h.paths) == 1, "pool:1-path-object")
	st.add(len(h.paths) == 2, "pool:2-path-objects")
	st.add(len(h.paths) >= 3, "pool:3-path-objects")
	st.add(len(h.values) > 0, "pool:TypedValue-objects")
	st.add(len(h.queries) > 0, "pool:query-objects")
	st.add(len(h.gos) > 0, "pool:go-values")
	for i := 0; i < len(h.paths); i++ {
		st.add(h.paths[i] == nil, "pool:nil-path-object")
		for j := 0; j < i; j++ {
			st.add(h.paths[i] != nil && h.paths[j] != nil && proto.Equal(h.paths[i], h.paths[j]), "pool:two-path-objects-start-with-equal-content")
		}
	}
	for i, s := range sc.Steps {
		if e := h.step(i, s, &st); e != nil {
			return st, e
		}
	}
	return st, nil
}
