package matchprop

import (
	"math"
	"reflect"

	"pgregory.net/rapid"
)

// Generators shared by the random, server and in-flight parts.
//
// Every scenario first draws a LEVEL. Level 0 (half of the scenarios) is the
// original small world: elements and key values over {a,b,*}, 1-3 paths per
// list, 1-4 entries per notification, paths of at most 4 elements. The other
// levels add, with modest probability per draw,
//
//   - odd strings: elements / key values / origins / targets that contain a
//     joiner ('/', ':', '[', ']', '=', ',', ' ', NUL), are empty, or equal two
//     alphabet members joined by one ("a/b" next to "a","b");
//   - derived paths: a path made from one already in the scenario by XForm
//     (the same path again, an element boundary moved across a joiner, longer,
//     shorter, globbed), for registrations AND for update paths, so that twins
//     are registered side by side and updates still hit odd registrations;
//   - sizes: lists of 20-100 paths (with repeats), notifications of 5-40
//     entries (half of those: 63-300 entries), paths of up to 10
//     elements, up to 12 clients at one path.

var (
	queryAlpha  = []string{"a", "a", "b", "b", Glob}
	updateAlpha = []string{"a", "a", "a", "b", "b", "b", Glob}
	plainAlpha  = []string{"a", "a", "b"}

	oddAtoms = []string{"/", ":", "[", "]", "=", ",", " ", "", "\x00",
		"a/b", "a:b", "a b", "a,b", "a=b", "a\x00b", "a[b]", "[a]", "a/", "/a", "ab", "a*", "*a", "**", "a/*", "*/b", "a/b/a", "a//b", "b/a"}
	xformKinds = []string{"copy", "copy", "merge", "merge", "merge", "split", "split", "split", "extend", "truncate", "glob", "subst"}
	// '/' is the separator of the textual path form and the realistic one inside key values; it is drawn more often.
	drawnJoiners = append([]string{"/", "/", "/"}, Joiners...)
)

// cfg is the per-scenario level.
type cfg struct {
	level int // 0 classic, 1 modest, 2 heavy
}

func genCfg(t *rapid.T) cfg {
	switch l := rapid.IntRange(0, 9).Draw(t, "level"); {
	case l <= 4:
		return cfg{0}
	case l <= 8:
		return cfg{1}
	}
	return cfg{2}
}

// one reports a 1-in-n event (n-1, not 0, is the hit: shrinking aims at the plain form).
func one(t *rapid.T, n int, label string) bool {
	return rapid.IntRange(0, n-1).Draw(t, label) == n-1
}

// atom draws one index string.
func (c cfg) atom(t *rapid.T, alpha []string, label string) string {
	if c.level > 0 {
		n := 12
		if c.level == 2 {
			n = 3
		}
		if one(t, n, label+"-odd") {
			if rapid.Bool().Draw(t, "composed") {
				return rapid.SampledFrom(plainAlpha).Draw(t, "x") + rapid.SampledFrom(drawnJoiners).Draw(t, "joiner") + rapid.SampledFrom(plainAlpha).Draw(t, "y")
			}
			return rapid.SampledFrom(oddAtoms).Draw(t, "odd")
		}
	}
	return rapid.SampledFrom(alpha).Draw(t, label)
}

func (c cfg) maxLen(t *rapid.T, max int) int {
	if c.level > 0 && one(t, 15, "long") {
		return 10
	}
	return max
}

func (c cfg) index(t *rapid.T, alpha []string, min, max int) []string {
	n := rapid.IntRange(min, c.maxLen(t, max)).Draw(t, "len")
	p := make([]string, n)
	for i := range p {
		p[i] = c.atom(t, alpha, "e")
	}
	return p
}

// gpath draws a path of min..max elements; a minority carry list keys or use
// the deprecated encoding.
func (c cfg) gpath(t *rapid.T, alpha []string, min, max int) GPath {
	g := GPath{}
	for _, n := range c.index(t, alpha, min, max) {
		g.Elems = append(g.Elems, PElem{Name: n})
	}
	switch rapid.IntRange(0, 9).Draw(t, "form") { // 0 (what shrinking aims for) is the plain form
	case 9:
		g.Legacy = true
	case 7, 8:
		if len(g.Elems) > 0 {
			i := rapid.IntRange(0, len(g.Elems)-1).Draw(t, "keyed")
			g.Elems[i].Keys = map[string]string{"k": c.atom(t, alpha, "kv")}
			if rapid.Bool().Draw(t, "two") {
				g.Elems[i].Keys["j"] = c.atom(t, alpha, "jv")
			}
		}
	}
	return g
}

func (c cfg) xform(t *rapid.T, alpha []string) XForm {
	x := XForm{Kind: rapid.SampledFrom(xformKinds).Draw(t, "xform")}
	switch x.Kind {
	case "merge":
		x.At = rapid.IntRange(0, 9).Draw(t, "at")
		x.Sep = rapid.SampledFrom(drawnJoiners).Draw(t, "sep")
	case "split", "truncate", "glob":
		x.At = rapid.IntRange(0, 9).Draw(t, "at")
	case "extend":
		x.Extra = c.index(t, alpha, 1, 2)
	case "subst":
		x.At = rapid.IntRange(0, 9).Draw(t, "at")
		x.Extra = []string{c.atom(t, alpha, "subst")}
	}
	return x
}

// DSpec says how a drawn op is re-made from a path that is already in the
// scenario (resolved before the scenario is executed or recorded).
type DSpec struct {
	From   int // counted from the most recent path / list backwards
	X      XForm
	Shape  uint32
	Legacy bool
	Cut    int
	Kind   string // lists: same | resplit | retarget
	J      int
}

func (c cfg) dspec(t *rapid.T, alpha []string, n int) *DSpec {
	if c.level == 0 || !one(t, n, "derive") {
		return nil
	}
	d := &DSpec{From: rapid.SampledFrom([]int{0, 0, 0, 1, 1, 2, 3, 5, 8, 13, 21, 34}).Draw(t, "from"), X: c.xform(t, alpha), Cut: rapid.IntRange(0, 6).Draw(t, "cut")}
	if one(t, 3, "shaped") {
		d.Shape = rapid.Uint32().Draw(t, "shape")
	} else if one(t, 10, "legacy") {
		d.Legacy = true
	}
	return d
}

// subList draws a SubscriptionList obeying the gNMI origin rules (origin in
// the prefix or in the paths, not both; no prefix elements with a path origin).
func (c cfg) subList(t *rapid.T, targets []string) *SubList {
	l := &SubList{Prefix: &GPath{Target: rapid.SampledFrom(targets).Draw(t, "target")}}
	place := rapid.SampledFrom([]string{"none", "none", "prefix", "path"}).Draw(t, "origin-place")
	if place == "prefix" {
		l.Prefix.Origin = c.origin(t)
	}
	if place != "path" {
		pe := c.gpath(t, queryAlpha, 0, 1)
		l.Prefix.Elems, l.Prefix.Legacy = pe.Elems, pe.Legacy
	}
	n := rapid.IntRange(1, 3).Draw(t, "subs")
	many := false
	if c.level > 0 && one(t, 25, "many-paths") {
		n = rapid.IntRange(20, 100).Draw(t, "many")
		many = true // all but the first few come from earlier ones: repeats, relatives and twins
	}
	for i := 0; i < n; i++ {
		if one(t, 12, "nil-path") {
			l.Subs = append(l.Subs, nil)
			continue
		}
		var g GPath
		var from *GPath
		if c.level > 0 && i > 0 && (many && (i >= 3 || one(t, 2, "twin")) || !many && one(t, 4, "twin")) {
			from = l.Subs[rapid.IntRange(0, i-1).Draw(t, "of")]
		}
		if from != nil {
			x := c.xform(t, queryAlpha)
			var shape uint32
			if one(t, 3, "shaped") {
				shape = rapid.Uint32().Draw(t, "shape")
			}
			g = structure(x.apply(refIndex(from, false)), shape, false)
			g.Origin = from.Origin
		} else {
			g = c.gpath(t, queryAlpha, 0, 3)
			if place == "path" && rapid.IntRange(0, 3).Draw(t, "with-origin") > 0 {
				g.Origin = c.origin(t)
			}
		}
		l.Subs = append(l.Subs, &g)
	}
	return l
}

func (c cfg) origin(t *rapid.T) string {
	if c.level > 0 && one(t, 5, "well-known-origin") {
		// names that implementations of the mixed-schema rules treat specially ("openconfig" is the
		// default origin there); to this server every origin is an ordinary index string
		return rapid.SampledFrom([]string{"openconfig", "openconfig", "cli", "OpenConfig"}).Draw(t, "origin-name")
	}
	for {
		if o := c.atom(t, []string{"a", "b"}, "origin"); o != "" { // an empty origin is no origin
			return o
		}
	}
}

func (c cfg) notif(t *rapid.T, maxElems int) *Notif {
	n := &Notif{}
	k := rapid.IntRange(1, 4).Draw(t, "entries")
	many, kinds := false, "mixed"
	if rapid.IntRange(0, 2).Draw(t, "single") == 2 {
		k = 1
	} else if c.level > 0 && one(t, 12, "many-entries") {
		k = rapid.IntRange(5, 40).Draw(t, "many")
		if one(t, 2, "sized") { // entry counts around the capacity steps an implementation might have (the size part does this systematically)
			k = rapid.SampledFrom(sizeSteps).Draw(t, "size")
		}
		many = true
		kinds = rapid.SampledFrom([]string{"mixed", "updates", "deletes"}).Draw(t, "many-kinds")
	}
	for i := 0; i < k; i++ {
		var g GPath
		if many && !one(t, 6, "real-entry") {
			// Filler: a path over an element no registration uses, so that in a
			// long notification the few real entries, at whatever position they
			// fall, are the only ones a registration can be compatible with.
			g.Elems = names([]string{"c", "c", "c"}[:rapid.IntRange(1, 3).Draw(t, "filler")])
		} else {
			g = c.gpath(t, updateAlpha, 0, maxElems)
		}
		// target and origin of an entry path are documented as not indexed
		if rapid.IntRange(0, 15).Draw(t, "entry-origin") == 15 {
			g.Origin = "b"
		}
		if kinds == "deletes" || kinds == "mixed" && rapid.Bool().Draw(t, "delete") {
			n.Deletes = append(n.Deletes, g)
		} else {
			n.Updates = append(n.Updates, g)
		}
	}
	// an atomic container: delivered as one unit, offered by the same rule as any other notification
	n.Atomic = one(t, 5, "atomic")
	return n
}

// deriveList re-makes a list from an earlier one of the scenario.
//
//	same      the same prefix; path J transformed, plus up to two of the others
//	resplit   prefix elements + path J, cut somewhere else into prefix and path
//	retarget  the boundary between target and origin / first element moved
//	          across a joiner ("a/b" <-> "a","b"); validTarget says which
//	          targets exist
func deriveList(base *SubList, d *DSpec, validTarget func(string) bool) *SubList {
	var subs []*GPath
	for _, g := range base.Subs {
		if g != nil {
			subs = append(subs, g)
		}
	}
	if len(subs) == 0 {
		return nil
	}
	j := d.J % len(subs)
	pathOrigins := false
	for _, g := range subs {
		pathOrigins = pathOrigins || g.Origin != ""
	}
	out := &SubList{Prefix: copyGPath(base.Prefix)}
	kind := d.Kind
	if pathOrigins && kind != "same" {
		kind = "same" // moving elements into the prefix would break the origin rules
	}
	switch kind {
	case "resplit":
		full := append(refIndex(&GPath{Elems: base.Prefix.Elems, Legacy: base.Prefix.Legacy}, false), refIndex(subs[j], false)...)
		cut := d.Cut % (len(full) + 1)
		pe := structure(full[:cut], d.Shape>>16, d.Legacy)
		out.Prefix.Elems, out.Prefix.Legacy = pe.Elems, pe.Legacy
		g := structure(full[cut:], d.Shape, false)
		out.Subs = []*GPath{&g}
		return out
	case "retarget":
		T := base.Prefix.Target
		rest := refIndex(&GPath{Origin: base.Prefix.Origin, Elems: base.Prefix.Elems, Legacy: base.Prefix.Legacy}, true)
		done := false
		for _, jn := range Joiners {
			// split the target
			if k := indexJoiner(T, jn); k > 0 && validTarget(T[:k]) {
				out.Prefix.Target, out.Prefix.Origin = T[:k], ""
				pe := structure(append([]string{T[k+len(jn):]}, rest...), d.Shape>>16, false)
				out.Prefix.Elems, out.Prefix.Legacy = pe.Elems, pe.Legacy
				done = true
				break
			}
		}
		if !done && len(rest) > 0 {
			jn := d.X.Sep
			if validTarget(T + jn + rest[0]) {
				out.Prefix.Target, out.Prefix.Origin = T+jn+rest[0], ""
				pe := structure(rest[1:], d.Shape>>16, false)
				out.Prefix.Elems, out.Prefix.Legacy = pe.Elems, pe.Legacy
				done = true
			}
		}
		if done {
			for _, g := range subs {
				out.Subs = append(out.Subs, copyGPath(g))
				if len(out.Subs) == 3 {
					break
				}
			}
			return out
		}
	}
	g := structure(d.X.apply(refIndex(subs[j], false)), d.Shape, false)
	g.Origin = subs[j].Origin
	out.Subs = []*GPath{&g}
	for i := 1; i <= 2 && i < len(subs); i++ {
		out.Subs = append(out.Subs, copyGPath(subs[(j+i)%len(subs)]))
	}
	return out
}

// indexJoiner finds joiner jn inside s, leaving a non-empty head ("" cuts after the first byte).
func indexJoiner(s, jn string) int {
	if jn == "" {
		if len(s) >= 2 {
			return 1
		}
		return -1
	}
	for k := 1; k+len(jn) <= len(s); k++ {
		if s[k:k+len(jn)] == jn {
			return k
		}
	}
	return -1
}

// probe: one single-entry notification for each of (up to 6 of) the paths of a
// list of the scenario, carrying exactly that path - the sharpest question the
// filter can be asked about a registration and about its twins.
func (c cfg) probe(t *rapid.T) *DSpec {
	d := &DSpec{Kind: "probe", From: rapid.SampledFrom([]int{0, 0, 0, 1, 1, 2, 3, 5}).Draw(t, "from"),
		J: rapid.IntRange(0, 99).Draw(t, "j"), Cut: rapid.IntRange(0, 6).Draw(t, "cut")}
	if one(t, 3, "shaped") {
		d.Shape = rapid.Uint32().Draw(t, "shape")
	}
	d.Legacy = one(t, 8, "delete") // probes: Legacy selects delete entries
	return d
}

// probePaths picks the paths a probe op asks about.
func probePaths(lists []*SubList, d *DSpec) [][]string {
	if len(lists) == 0 {
		return nil
	}
	qs := refQueries(lists[len(lists)-1-d.From%len(lists)])
	var out [][]string
	for i := 0; i < len(qs) && i < 6; i++ {
		out = append(out, qs[(d.J+i)%len(qs)])
	}
	return out
}

// random part ------------------------------------------------------------------------

type rawOp struct {
	Op Op
	D  *DSpec
}

func (c cfg) rawOp(t *rapid.T) rawOp {
	kinds := []string{"add", "add", "add", "sublist", "remove", "remove", "update", "notify", "notify", "notify"}
	if c.level > 0 {
		kinds = append(kinds, "probe")
	}
	kind := rapid.SampledFrom(kinds).Draw(t, "kind")
	op := Op{Kind: kind}
	var d *DSpec
	clients := 3
	if c.level == 2 {
		clients = 11
	}
	switch kind {
	case "add":
		op.Client = rapid.IntRange(0, clients).Draw(t, "client")
		op.Path = c.index(t, queryAlpha, 0, 4)
		d = c.dspec(t, queryAlpha, 3)
	case "sublist":
		op.Client = rapid.IntRange(0, clients).Draw(t, "client")
		op.List = c.subList(t, []string{"", "a", "a", "b", Glob})
		if d = c.dspec(t, queryAlpha, 4); d != nil {
			d.Kind = rapid.SampledFrom([]string{"same", "resplit", "retarget"}).Draw(t, "list-kind")
			d.J = rapid.IntRange(0, 9).Draw(t, "j")
		}
	case "remove":
		op.Reg = rapid.IntRange(0, 11).Draw(t, "reg")
	case "update":
		op.Path = c.index(t, updateAlpha, 0, 4)
		d = c.dspec(t, updateAlpha, 2)
	case "notify":
		op.Prefix = c.index(t, plainAlpha, 0, 2)
		op.Spare = rapid.IntRange(0, 3).Draw(t, "spare")
		op.Notif = c.notif(t, 3)
		d = c.dspec(t, updateAlpha, 2)
	case "probe":
		d = c.probe(t)
	}
	return rawOp{op, d}
}

// resolveSeq applies the derivations in scenario order; the result is plain data.
func resolveSeq(raw []rawOp) *Scenario {
	sc := &Scenario{}
	var pool [][]string // registered paths so far
	var lists []*SubList
	for _, r := range raw {
		op, d := r.Op, r.D
		switch op.Kind {
		case "add":
			if d != nil && len(pool) > 0 {
				op.Path = d.X.apply(pool[len(pool)-1-d.From%len(pool)])
			}
			pool = append(pool, op.Path)
		case "sublist":
			if d != nil && len(lists) > 0 {
				if l := deriveList(lists[len(lists)-1-d.From%len(lists)], d, func(string) bool { return true }); l != nil {
					op.List = l
				}
			}
			lists = append(lists, op.List)
			pool = append(pool, refQueries(op.List)...)
		case "update":
			if d != nil && len(pool) > 0 {
				op.Path = d.X.apply(pool[len(pool)-1-d.From%len(pool)])
			}
		case "probe":
			for _, q := range probePaths(lists, d) {
				cut := d.Cut % (len(q) + 1)
				g := structure(q[cut:], d.Shape, false)
				n := &Notif{Updates: []GPath{g}}
				if d.Legacy {
					n = &Notif{Deletes: []GPath{g}}
				}
				sc.Ops = append(sc.Ops, Op{Kind: "notify", Prefix: clonePath(q[:cut]), Notif: n})
			}
			continue
		case "notify":
			if d != nil && len(pool) > 0 {
				full := d.X.apply(pool[len(pool)-1-d.From%len(pool)])
				cut := d.Cut % (len(full) + 1)
				op.Prefix = clonePath(full[:cut])
				g := structure(full[cut:], d.Shape, d.Legacy)
				if len(op.Notif.Updates) > 0 {
					op.Notif.Updates[0] = g
				} else {
					op.Notif.Deletes[0] = g
				}
			}
		}
		sc.Ops = append(sc.Ops, op)
	}
	return sc
}

func genScenario(t *rapid.T) *Scenario {
	c := genCfg(t)
	sc := resolveSeq(rapid.SliceOfN(rapid.Custom(c.rawOp), 1, 30).Draw(t, "ops"))
	sprinkleStray(t, reflect.ValueOf(sc))
	return sc
}

// sprinkleStray visits every path of a finished scenario (in declaration order) and lets, in one
// scenario out of four, a sixth of the structured ones also carry deprecated string elements.
func sprinkleStray(t *rapid.T, v reflect.Value) {
	if !one(t, 4, "stray-scenario") {
		return
	}
	var walk func(v reflect.Value)
	walk = func(v reflect.Value) {
		switch v.Kind() {
		case reflect.Ptr, reflect.Interface:
			if v.IsNil() {
				return
			}
			if g, ok := v.Interface().(*GPath); ok {
				if !g.Legacy && len(g.Elems) > 0 && one(t, 6, "stray") {
					g.Stray = true
				}
				return
			}
			walk(v.Elem())
		case reflect.Struct:
			if v.Type() == reflect.TypeOf(GPath{}) {
				if v.CanAddr() {
					walk(v.Addr())
				}
				return
			}
			for i := 0; i < v.NumField(); i++ {
				if v.Type().Field(i).IsExported() {
					walk(v.Field(i))
				}
			}
		case reflect.Slice:
			for i := 0; i < v.Len(); i++ {
				walk(v.Index(i))
			}
		}
	}
	walk(v)
}

// server part ------------------------------------------------------------------------

func (c cfg) srvTarget(t *rapid.T, plain []string) string {
	if c.level > 0 && one(t, 8, "odd-target") {
		return rapid.SampledFrom(srvTargets[2:]).Draw(t, "target")
	}
	return rapid.SampledFrom(plain).Draw(t, "target")
}

type rawSrvOp struct {
	Op SrvOp
	D  *DSpec
}

func (c cfg) rawSrvOp(t *rapid.T) rawSrvOp {
	kinds := []string{"sub", "sub", "end", "notify", "notify", "notify"}
	if c.level > 0 {
		kinds = append(kinds, "probe")
	}
	kind := rapid.SampledFrom(kinds).Draw(t, "kind")
	op := SrvOp{Kind: kind}
	var d *DSpec
	clients := 3
	if c.level == 2 {
		clients = 7
	}
	switch kind {
	case "sub":
		op.Client = rapid.IntRange(0, clients).Draw(t, "client")
		op.UpdatesOnly = rapid.Bool().Draw(t, "updates-only")
		op.List = c.subList(t, []string{"a", "a", "b", Glob})
		if c.level > 0 && one(t, 8, "odd-target") {
			op.List.Prefix.Target = rapid.SampledFrom(srvTargets[2:]).Draw(t, "target")
		}
		if d = c.dspec(t, queryAlpha, 3); d != nil {
			d.Kind = rapid.SampledFrom([]string{"same", "resplit", "retarget"}).Draw(t, "list-kind")
			d.J = rapid.IntRange(0, 9).Draw(t, "j")
		}
	case "end":
		op.Client = rapid.IntRange(0, clients).Draw(t, "client")
	case "notify":
		op.NPrefix = &GPath{Target: c.srvTarget(t, []string{"a", "a", "b"})}
		if rapid.Bool().Draw(t, "with-origin") {
			op.NPrefix.Origin = c.origin(t)
		}
		pe := c.gpath(t, plainAlpha, 0, 1)
		op.NPrefix.Elems, op.NPrefix.Legacy = pe.Elems, pe.Legacy
		op.Notif = c.notif(t, 3)
		d = c.dspec(t, updateAlpha, 2)
	case "probe":
		op.NPrefix = &GPath{Target: rapid.SampledFrom([]string{"a", "a", "b"}).Draw(t, "target")}
		d = c.probe(t)
	}
	return rawSrvOp{op, d}
}

func resolveSrv(raw []rawSrvOp) *SrvScenario {
	sc := &SrvScenario{}
	var pool [][]string // full registration paths (target first) so far
	var lists []*SubList
	for _, r := range raw {
		op, d := r.Op, r.D
		switch op.Kind {
		case "sub":
			if d != nil && len(lists) > 0 {
				valid := func(s string) bool { return srvTargetSet[s] }
				if l := deriveList(lists[len(lists)-1-d.From%len(lists)], d, valid); l != nil {
					op.List = l
				}
			}
			lists = append(lists, op.List)
			pool = append(pool, refQueries(op.List)...)
		case "probe":
			for _, q := range probePaths(lists, d) {
				if len(q) == 0 {
					continue
				}
				target := q[0]
				if !srvTargetSet[target] {
					target = op.NPrefix.Target // "*": the drawn one
				}
				rest := q[1:]
				cut := d.Cut % (len(rest) + 1)
				pe := structure(rest[:cut], d.Shape>>16, false)
				g := structure(rest[cut:], d.Shape, false)
				n := &Notif{Updates: []GPath{g}}
				if d.Legacy {
					n = &Notif{Deletes: []GPath{g}}
				}
				np := &GPath{Target: target, Elems: pe.Elems}
				if isTargetDeleteShape(n, np) {
					n = &Notif{Updates: []GPath{g}}
				}
				sc.Ops = append(sc.Ops, SrvOp{Kind: "notify", NPrefix: np, Notif: n})
			}
			continue
		case "notify":
			if d != nil && len(pool) > 0 {
				base := pool[len(pool)-1-d.From%len(pool)]
				if len(base) == 0 {
					base = []string{op.NPrefix.Target}
				}
				target := base[0] // the generators always give a list a target
				if !srvTargetSet[target] {
					target = op.NPrefix.Target // "*": keep the drawn one
				}
				full := d.X.apply(base[1:])
				cut := d.Cut % (len(full) + 1)
				pe := structure(full[:cut], d.Shape>>16, d.Legacy)
				op.NPrefix = &GPath{Target: target, Elems: pe.Elems, Legacy: pe.Legacy}
				g := structure(full[cut:], d.Shape, false)
				if len(op.Notif.Updates) > 0 {
					op.Notif.Updates[0] = g
				} else {
					op.Notif.Deletes[0] = g
				}
			}
			if isTargetDeleteShape(op.Notif, op.NPrefix) {
				// outside the scenario language: present the same path as an update
				op.Notif.Updates = append(op.Notif.Updates, op.Notif.Deletes[0])
				op.Notif.Deletes = nil
			}
		}
		sc.Ops = append(sc.Ops, op)
	}
	return sc
}

func genSrvScenario(t *rapid.T) *SrvScenario {
	c := genCfg(t)
	sc := resolveSrv(rapid.SliceOfN(rapid.Custom(c.rawSrvOp), 1, 14).Draw(t, "ops"))
	sprinkleStray(t, reflect.ValueOf(sc))
	sprinkleDress(t, sc)
	return sc
}

// dressing (dress.go) -------------------------------------------------------------------

var (
	// 0 TARGET_DEFINED, 1 ON_CHANGE, 2 SAMPLE; a few numbers the enum does not name (proto3 enums are open)
	dressModes     = []int32{0, 1, 2, 0, 1, 2, 1, 2, 1, 2, 3, -1, 100}
	dressIntervals = []uint64{1, 1e6, 1e9, 1e9, 1e10, 1e10, 3e10, 6e10, 36e11, math.MaxUint64}
	dressSleeps    = []int64{1e6, 1e9, 11e9, 31e9, 61e9, 61e9, 36e11, 9e13}
	dressTargets   = []string{"a", "b", Glob, "x"}
	dressEncodings = []int32{0, 1, 2, 3, 4, 2, 4, 9}
	dressQos       = []uint32{0, 10, 46, 63, math.MaxUint32}
	dressNames     = []string{"openconfig-interfaces", "a", "b", ""}
	dressExtKinds  = []string{"empty", "registered", "master", "snapshot", "range", "commit", "depth", "depth", "config"}
	dressExtNums   = []int64{0, 1, 1, 2, 3, 1 << 40, -1}
	dressStyles    = []string{"mixed", "mixed", "mixed", "two", "two", "uniform", "one-odd", "list-only"}
)

func drawSubDress(t *rapid.T) SubDress {
	d := SubDress{Mode: rapid.SampledFrom(dressModes).Draw(t, "sub-mode")}
	if rapid.Bool().Draw(t, "with-sample") {
		d.Sample = rapid.SampledFrom(dressIntervals).Draw(t, "sample-interval")
	}
	if rapid.Bool().Draw(t, "with-heartbeat") {
		d.Heartbeat = rapid.SampledFrom(dressIntervals).Draw(t, "heartbeat-interval")
	}
	d.Suppress = one(t, 3, "suppress-redundant")
	if one(t, 8, "path-target") {
		d.PathTarget = rapid.SampledFrom(dressTargets).Draw(t, "sub-path-target")
	}
	return d
}

// dressList gives the fields of l that the server does not implement arbitrary
// values, per subscription independently:
//
//	mixed      every subscription draws its own dressing
//	two        two dressings are drawn, every subscription takes one of them
//	uniform    one dressing for all subscriptions
//	one-odd    one subscription is dressed, the others are plain
//	list-only  only the fields of the list / the request
func dressList(t *rapid.T, l *SubList) {
	style := rapid.SampledFrom(dressStyles).Draw(t, "dress-style")
	if style != "list-only" && len(l.Subs) > 0 {
		a, b := drawSubDress(t), drawSubDress(t)
		odd := rapid.IntRange(0, len(l.Subs)-1).Draw(t, "odd-sub")
		l.SubDress = make([]SubDress, len(l.Subs))
		for i := range l.Subs {
			switch style {
			case "mixed":
				l.SubDress[i] = drawSubDress(t)
			case "two":
				if l.SubDress[i] = a; rapid.Bool().Draw(t, "second") {
					l.SubDress[i] = b
				}
			case "uniform":
				l.SubDress[i] = a
			case "one-odd":
				if i == odd {
					l.SubDress[i] = a
				}
			}
		}
	}
	if style == "list-only" || rapid.Bool().Draw(t, "list-fields") {
		d := &ListDress{}
		if d.HasQos = rapid.Bool().Draw(t, "with-qos"); d.HasQos {
			d.Qos = rapid.SampledFrom(dressQos).Draw(t, "qos")
		}
		d.AllowAgg = rapid.Bool().Draw(t, "allow-aggregation")
		d.Encoding = rapid.SampledFrom(dressEncodings).Draw(t, "encoding")
		for i, n := 0, rapid.IntRange(0, 2).Draw(t, "models"); i < n; i++ {
			d.Models = append(d.Models, ModelDress{Name: rapid.SampledFrom(dressNames).Draw(t, "model"),
				Org: rapid.SampledFrom(dressNames).Draw(t, "org"), Version: rapid.SampledFrom([]string{"", "1.0.0", "a"}).Draw(t, "version")})
		}
		l.Dress = d
	}
	if style == "list-only" || one(t, 3, "extensions") {
		if l.Dress == nil {
			l.Dress = &ListDress{}
		}
		for i, n := 0, rapid.IntRange(1, 2).Draw(t, "exts"); i < n; i++ {
			l.Dress.Ext = append(l.Dress.Ext, ExtDress{Kind: rapid.SampledFrom(dressExtKinds).Draw(t, "ext"),
				N: rapid.SampledFrom(dressExtNums).Draw(t, "ext-n"), M: rapid.SampledFrom([]int64{0, 1e9}).Draw(t, "ext-m"),
				S: rapid.SampledFrom([]string{"", "a", "x"}).Draw(t, "ext-s")})
		}
	}
}

// sprinkleDress dresses, in a good third of the scenarios, four of five lists
// of the finished scenario (derived lists included), lets every third op be
// followed by a virtual sleep, and draws whether all updates carry one value.
func sprinkleDress(t *rapid.T, sc *SrvScenario) {
	if !one(t, 2, "dress-scenario") {
		return
	}
	sc.SameValue = rapid.Bool().Draw(t, "same-value")
	shortest := uint64(0) // the shortest interval any request of the scenario names
	for i := range sc.Ops {
		op := &sc.Ops[i]
		if op.Kind == "sub" && op.List != nil && !one(t, 5, "plain-list") {
			dressList(t, op.List)
			for _, d := range op.List.SubDress {
				for _, iv := range []uint64{d.Sample, d.Heartbeat} {
					if iv > 0 && (shortest == 0 || iv < shortest) {
						shortest = iv
					}
				}
			}
		}
	}
	for i := range sc.Ops {
		if one(t, 3, "sleep") {
			// At most 1000 of the shortest interval: a server that did act on an interval
			// would have to act 1000 times during the sleep, not 10^13 times (the verdict
			// must come from the oracle, not from a test deadline).
			d := rapid.SampledFrom(dressSleeps).Draw(t, "sleep")
			if shortest > 0 && shortest < uint64(d)/1000 {
				d = int64(shortest * 1000)
			}
			sc.Ops[i].Sleep = d
		}
	}
}
