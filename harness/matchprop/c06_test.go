package matchprop

import (
	"encoding/json"
	"flag"
	"fmt"
	"os"
	"testing"

	"github.com/openconfig/gnmi/ctree"
	"github.com/openconfig/gnmi/match"
	"github.com/openconfig/gnmi/subscribe"
	"pgregory.net/rapid"
	"verif/harness/internal/vstat"
)

func TestMain(m *testing.M) {
	flag.Parse()
	// The server part runs code that logs through glog; keep it out of /tmp and off stderr.
	cleanup := ""
	if f := flag.Lookup("log_dir"); f != nil && f.Value.String() == "" {
		if d, err := os.MkdirTemp("", "matchprop-glog"); err == nil {
			flag.Set("log_dir", d)
			flag.Set("stderrthreshold", "FATAL")
			cleanup = d
		}
	}
	rc := m.Run()
	if cleanup != "" {
		os.RemoveAll(cleanup)
	}
	os.Exit(rc)
}

// open findings ------------------------------------------------------------------

// The built-in probe inputs (used when the known-findings record carries no input).
func probeDoubleScenario() *Scenario {
	return &Scenario{Ops: []Op{
		{Kind: "add", Client: 0, Path: []string{"a"}},
		{Kind: "add", Client: 0, Path: []string{"a", "b"}},
		{Kind: "notify", Notif: &Notif{Updates: []GPath{{Elems: names([]string{"a", "b", "c"})}}}},
	}}
}

func probeStaleScenario() *SrvScenario {
	return &SrvScenario{Ops: []SrvOp{
		{Kind: "sub", Client: 0, UpdatesOnly: true, List: &SubList{Prefix: &GPath{Target: "a"},
			Subs: []*GPath{{Elems: names([]string{"a"})}, {Elems: names([]string{"b"})}}}},
		{Kind: "end", Client: 0},
	}}
}

// openClasses reads the open findings listed for C06, probes each class this
// engine knows once (KNOWN-FINDING line while it still fails) and returns the
// set to exclude. With no -known file nothing is excluded.
func openClasses(t *testing.T, rec *vstat.Recorder, relevant ...string) map[string]bool {
	out := map[string]bool{}
	for class, f := range vstat.OpenClasses("C06") {
		rel := false
		for _, r := range relevant {
			rel = rel || r == class
		}
		var perr error
		switch class {
		case ClassSingleEntryDouble:
			sc := probeDoubleScenario()
			if len(f.Input) > 0 {
				var in Scenario
				if json.Unmarshal(f.Input, &in) == nil && len(in.Ops) > 0 {
					sc = &in
				}
			}
			_, perr = runSeq(sc, nil)
		case ClassStaleAfterEnd:
			sc := probeStaleScenario()
			if len(f.Input) > 0 {
				var in SrvScenario
				if json.Unmarshal(f.Input, &in) == nil && len(in.Ops) > 0 {
					sc = &in
				}
			}
			_, perr = runServer(t, sc, nil)
		default:
			rec.Note("open finding %s names class %q which this engine does not know; nothing is excluded for it", f.ID, class)
			continue
		}
		if !rel {
			continue
		}
		out[class] = true
		if perr != nil {
			rec.KnownFinding(fmt.Sprintf("KNOWN-FINDING: property=C06 %s [%s, class %s; probe: %v]", f.What, f.ID, class, perr))
		} else {
			rec.Note("open finding %s (class %s) is listed as open but its probe input no longer fails; the class is still excluded until the record is updated", f.ID, class)
		}
	}
	return out
}

// exhaustive part ----------------------------------------------------------------

var (
	abStar4 = allPaths([]string{"a", "b", Glob}, 4) // 121
	abStar2 = allPaths([]string{"a", "b", Glob}, 2) // 13
)

func entry(p []string) GPath { return GPath{Elems: names(p)} }

// pairScenario: two clients registered at q; the update path p is presented
// through Match.Update and through UpdateNotification with every split of p
// into prefix strings + entry path (updates and deletes alternate); then the
// first client leaves (twice), then the second.
func pairScenario(q, p []string) *Scenario {
	ops := []Op{
		{Kind: "add", Client: 0, Path: q},
		{Kind: "add", Client: 1, Path: q},
		{Kind: "update", Path: p},
	}
	for k := 0; k <= len(p); k++ {
		n := &Notif{}
		if k%2 == 0 {
			n.Updates = []GPath{entry(p[k:])}
		} else {
			n.Deletes = []GPath{entry(p[k:])}
		}
		ops = append(ops, Op{Kind: "notify", Prefix: p[:k], Notif: n, Spare: k % 3})
	}
	// the same splits as ATOMIC notifications: the path alone, and together with a second member
	// below it (whether the notification is offered must not depend on the flag, nor on where the
	// prefix ends; the oracle is the one of every other notify op)
	for k := 0; k <= len(p); k++ {
		n := &Notif{Atomic: true, Updates: []GPath{entry(p[k:])}}
		if k%2 == 1 {
			n.Updates = append(n.Updates, entry(append(clonePath(p[k:]), "a")))
		}
		ops = append(ops, Op{Kind: "notify", Prefix: p[:k], Notif: n, Spare: (k + 1) % 3})
	}
	ops = append(ops,
		Op{Kind: "remove", Reg: 0},
		Op{Kind: "update", Path: p},
		Op{Kind: "notify", Prefix: p, Notif: &Notif{Deletes: []GPath{entry(nil)}}},
		Op{Kind: "remove", Reg: 0},
		Op{Kind: "update", Path: p},
		Op{Kind: "remove", Reg: 1},
		Op{Kind: "update", Path: p},
		Op{Kind: "notify", Notif: &Notif{Updates: []GPath{entry(p)}}},
	)
	return &Scenario{Ops: ops}
}

// tripleScenario: client 0 registered at q1 and q2, client 1 at q2; p is
// presented as a single update, a single delete, a two-entry notification and
// split across the prefix; then the registrations go one by one.
func tripleScenario(q1, q2, p []string) *Scenario {
	ops := []Op{
		{Kind: "add", Client: 0, Path: q1},
		{Kind: "add", Client: 0, Path: q2},
		{Kind: "add", Client: 1, Path: q2},
		{Kind: "update", Path: p},
		{Kind: "notify", Notif: &Notif{Updates: []GPath{entry(p)}}},
		{Kind: "notify", Notif: &Notif{Deletes: []GPath{entry(p)}}},
		{Kind: "notify", Notif: &Notif{Updates: []GPath{entry(p)}, Deletes: []GPath{entry(p)}}},
	}
	if len(p) > 0 {
		ops = append(ops, Op{Kind: "notify", Prefix: p[:1], Notif: &Notif{Updates: []GPath{entry(p[1:])}}, Spare: 2})
		ops = append(ops, Op{Kind: "notify", Prefix: p[:1], Notif: &Notif{Atomic: true, Updates: []GPath{entry(p[1:]), entry(p[1:])}}, Spare: 1})
	}
	ops = append(ops,
		Op{Kind: "remove", Reg: 0},
		Op{Kind: "notify", Notif: &Notif{Updates: []GPath{entry(p)}}},
		Op{Kind: "remove", Reg: 1},
		Op{Kind: "notify", Notif: &Notif{Updates: []GPath{entry(p)}, Deletes: []GPath{entry(p)}}},
	)
	return &Scenario{Ops: ops}
}

// TreeCase is one containment case: a tree of glob-free leaves and a query.
type TreeCase struct {
	Leaves [][]string `json:"leaves"`
	Q      []string   `json:"q"`
}

// runContainment: every leaf ctree.Query(Q) reports must be offered to a
// subscriber registered at Q when an update for the leaf's path arrives
// (both relations are taken from the real code; no model is involved).
func runContainment(tc *TreeCase) (reported [][]string, err error) {
	defer func() {
		if r := recover(); r != nil {
			err = fmt.Errorf("panic: %v", r)
		}
	}()
	t := &ctree.Tree{}
	for i, l := range tc.Leaves {
		if aerr := t.Add(l, i+1); aerr != nil {
			return nil, fmt.Errorf("harness: leaf set is not prefix-free: Add(%q): %v", l, aerr)
		}
	}
	if qerr := t.Query(tc.Q, func(path []string, _ *ctree.Leaf, _ interface{}) error {
		reported = append(reported, clonePath(path))
		return nil
	}); qerr != nil {
		return nil, fmt.Errorf("Query(%q): %v", tc.Q, qerr)
	}
	m := match.New()
	var hits []hit
	m.AddQuery(clonePath(tc.Q), &recClient{id: 0, sink: &hits})
	for _, lp := range reported {
		hits = hits[:0]
		m.Update(lp, clonePath(lp))
		if len(hits) == 0 {
			return reported, fmt.Errorf("Query(%q) reports the leaf %q, but a subscriber registered at %q is not invoked by Match.Update for %q", tc.Q, lp, tc.Q, lp)
		}
		for k := 0; k <= 1 && k <= len(lp); k++ {
			for _, del := range []bool{false, true} {
				hits = hits[:0]
				n := &Notif{}
				if del {
					n.Deletes = []GPath{entry(lp[k:])}
				} else {
					n.Updates = []GPath{entry(lp[k:])}
				}
				subscribe.UpdateNotification(m, lp, n.proto(1, nil), clonePath(lp[:k]))
				if len(hits) != 1 {
					return reported, fmt.Errorf("Query(%q) reports the leaf %q, but a subscriber registered at %q is offered the notification (prefix %q, delete=%v) %d times", tc.Q, lp, tc.Q, lp[:k], del, len(hits))
				}
			}
		}
	}
	return reported, nil
}

// containmentTrees: every single leaf of length 1-4 over {a,b}; every
// non-empty prefix-free set of paths of length <=2; and every combination of
// five shapes under each of the four depth-2 nodes.
func containmentTrees() [][][]string {
	var trees [][][]string
	for _, p := range allPaths([]string{"a", "b"}, 4)[1:] {
		trees = append(trees, [][]string{p})
	}
	side := func(x string) [][][]string {
		return [][][]string{{}, {{x}}, {{x, "a"}}, {{x, "b"}}, {{x, "a"}, {x, "b"}}}
	}
	for _, l := range side("a") {
		for _, r := range side("b") {
			if t := append(append([][]string{}, l...), r...); len(t) > 0 {
				trees = append(trees, t)
			}
		}
	}
	shapes := func(x, y string) [][][]string {
		full3 := [][]string{{x, y, "a"}, {x, y, "b"}}
		var full4 [][]string
		for _, s := range allPaths([]string{"a", "b"}, 2)[3:] {
			full4 = append(full4, append([]string{x, y}, s...))
		}
		return [][][]string{{}, {{x, y}}, full3, full4, {{x, y, "a", "b"}}}
	}
	var nodes [][][][]string
	for _, x := range []string{"a", "b"} {
		for _, y := range []string{"a", "b"} {
			nodes = append(nodes, shapes(x, y))
		}
	}
	for _, s0 := range nodes[0] {
		for _, s1 := range nodes[1] {
			for _, s2 := range nodes[2] {
				for _, s3 := range nodes[3] {
					var t [][]string
					for _, s := range [][][]string{s0, s1, s2, s3} {
						t = append(t, s...)
					}
					if len(t) > 0 {
						trees = append(trees, t)
					}
				}
			}
		}
	}
	return trees
}

// minimise drops every op of a failing enumerated scenario that is not needed
// for it to fail (the enumerated scenarios bundle many presentations of one
// pair/triple; the replay file should show only the one that fails).
func minimise(sc *Scenario, open map[string]bool) *Scenario {
	cur := &Scenario{Ops: append([]Op{}, sc.Ops...)}
	for i := len(cur.Ops) - 1; i >= 0; i-- {
		try := &Scenario{Ops: append(append([]Op{}, cur.Ops[:i]...), cur.Ops[i+1:]...)}
		if _, err := runSeq(try, open); err != nil {
			cur = try
		}
	}
	return cur
}

// TestC06Exhaustive enumerates the pair relation, the two-registration
// triples and the containment of the query relation.
func TestC06Exhaustive(t *testing.T) {
	if !vstat.Enabled("C06") {
		t.Skip()
	}
	rec := vstat.New("C06", "exhaustive")
	defer rec.Flush(true)
	rec.SetExhaustive()
	open := openClasses(t, rec, ClassSingleEntryDouble)
	// Each stage stops after its first three violations; a failing stage does
	// not hide the others.
	total, violations := 0, 0
	fail := func(scenario any, kind, class string, err error) bool {
		rec.AddViolation(scenario, kind, class, "%v", err)
		violations++
		total++
		return violations < 3
	}

	// 1. all pairs
pairs:
	for _, q := range abStar4 {
		for _, p := range abStar4 {
			sc := pairScenario(q, p)
			_, err := runSeq(sc, nil)
			nt := (hasGlob(q) || hasGlob(p)) && len(q) > 0 && len(p) > 0
			labels := []string{"pair-incompatible"}
			if Compatible(q, p) {
				labels[0] = "pair-compatible"
				if nt {
					labels = append(labels, "pair-compatible-with-glob")
				}
				if len(p) < len(q) {
					labels = append(labels, "pair-update-path-shorter-than-query")
				}
			} else if nt {
				labels = append(labels, "pair-incompatible-with-glob")
			}
			rec.CaseHash(vstat.Hash([2][]string{q, p}), nt, func() any { return map[string]any{"q": q, "p": p} }, labels...)
			if err != nil {
				sc = minimise(sc, nil)
				_, err = runSeq(sc, nil)
				if !fail(sc, "seq", "pair-relation", fmt.Errorf("subscription path %q, update path %q (compatible=%v): %v", q, p, Compatible(q, p), err)) {
					break pairs
				}
			}
		}
	}

	// 2. all triples of short paths: one client with two registrations
	violations = 0
triples:
	for _, q1 := range abStar2 {
		for _, q2 := range abStar2 {
			for _, p := range abStar2 {
				if violations >= 3 {
					break triples
				}
				sc := tripleScenario(q1, q2, p)
				st, err := runSeq(sc, open)
				c1, c2 := Compatible(q1, p), Compatible(q2, p)
				both := c1 && c2 && key(q1) != key(q2)
				label := "triple-no-path-compatible"
				switch {
				case both:
					label = "triple-two-distinct-paths-compatible"
				case c1 || c2:
					label = "triple-one-path-compatible"
				}
				if st.excluded > 0 {
					rec.Excluded(ClassSingleEntryDouble) // once per case
				}
				rec.CaseHash(vstat.Hash([3][]string{q1, q2, p}), both, func() any { return map[string]any{"q1": q1, "q2": q2, "p": p} }, label)
				if err != nil {
					sc = minimise(sc, open)
					_, err = runSeq(sc, open)
					fail(sc, "seq", "triple-once", fmt.Errorf("client 0 registered at %q and %q, client 1 at %q, path %q: %v", q1, q2, q2, p, err))
				}
			}
		}
	}

	// 3. containment of the query relation
	trees := containmentTrees()
	violations = 0
contain:
	for _, leaves := range trees {
		for _, q := range abStar4 {
			if violations >= 3 {
				break contain
			}
			tc := &TreeCase{Leaves: leaves, Q: q}
			reported, err := runContainment(tc)
			nt := false
			label := "containment-query-reports-nothing"
			switch {
			case len(reported) == 1:
				label = "containment-query-reports-1-leaf"
			case len(reported) > 1:
				label = "containment-query-reports-2plus-leaves"
			}
			labels := []string{label}
			for _, lp := range reported {
				if hasGlob(q) || len(q) < len(lp) {
					nt = true
				}
				if len(q) == len(lp)+1 {
					labels = append(labels, "containment-trailing-glob-past-leaf")
					break
				}
			}
			rec.CaseHash(vstat.Hash(tc), nt, func() any { return tc }, labels...)
			if err != nil {
				fail(tc, "containment", "query-not-contained", err)
			}
		}
	}
	rec.Note("exhaustive: all %d pairs (subscription path, update path) of length 0-4 over {a,b,*}, each through Match.Update and through UpdateNotification with every prefix split, two clients, removal twice; all %d triples (two registrations of one client, one path) of length 0-2; containment of ctree.Query for %d trees of glob-free leaves (depth<=4 over {a,b}) x 121 queries",
		len(abStar4)*len(abStar4), len(abStar2)*len(abStar2)*len(abStar2), len(trees))
	if total > 0 {
		t.Fail()
	}
}

// random part --------------------------------------------------------------------

// TestC06Random runs operation sequences on a match.Match with recording clients.
func TestC06Random(t *testing.T) {
	if !vstat.Enabled("C06") {
		t.Skip()
	}
	rec := vstat.New("C06", "random")
	open := openClasses(t, rec, ClassSingleEntryDouble)
	rec.RunRapid(t, func(rt *rapid.T) {
		sc := genScenario(rt)
		st, err := runSeq(sc, open)
		if st.excluded > 0 {
			rec.Excluded(ClassSingleEntryDouble) // once per case in which the exactly-once demand was lifted
		}
		rec.Case(sc, st.nontrivial, st.labels()...)
		if err != nil {
			rt.Fatalf("%s", rec.Fail(sc, "offer-mismatch", "%v", err))
		}
	})
}

// server part --------------------------------------------------------------------

// TestC06Server drives the real subscribe.Server.
func TestC06Server(t *testing.T) {
	if !vstat.Enabled("C06") {
		t.Skip()
	}
	rec := vstat.New("C06", "server")
	open := openClasses(t, rec, ClassSingleEntryDouble, ClassStaleAfterEnd)
	rec.RunRapid(t, func(rt *rapid.T) {
		sc := genSrvScenario(rt)
		rec.Current(sc)
		st, err := runServer(t, sc, open)
		if why := censusUnavailable.Load(); why != nil {
			rec.NoteOnce("clause 'never after the subscription has been removed' NOT evaluated in the server part: %v", why)
		}
		for class := range st.excluded() {
			rec.Excluded(class) // once per case
		}
		rec.Case(sc, st.nontrivial, st.labels()...)
		if err != nil {
			rt.Fatalf("%s", rec.Fail(sc, "server-offer-mismatch", "%v", err))
		}
	})
}

// replay -------------------------------------------------------------------------

// TestReplay re-runs a saved scenario with nothing excluded.
func TestReplay(t *testing.T) {
	rf, ok, err := vstat.LoadReplay()
	if !ok {
		t.Skip()
	}
	if err != nil {
		t.Fatal(err)
	}
	rec := vstat.New(rf.Property, "replay")
	defer rec.Flush(true)
	if msg := replayOne(t, rf); msg != "" {
		rec.AddViolation(json.RawMessage(rf.Scenario), rf.Kind, rf.Class, "%s", msg)
		fmt.Println("REPLAY-FAIL:", msg)
		t.Fail()
		return
	}
	rec.Case(json.RawMessage(rf.Scenario), false, "replayed")
	fmt.Println("REPLAY-OK")
}

func replayOne(t *testing.T, rf *vstat.ReplayFile) string {
	if rf.Property != "C06" {
		return "matchprop replays C06 only, not " + rf.Property
	}
	switch {
	case rf.Kind == "containment":
		var tc TreeCase
		if err := json.Unmarshal(rf.Scenario, &tc); err != nil {
			return "bad scenario: " + err.Error()
		}
		if _, err := runContainment(&tc); err != nil {
			return err.Error()
		}
	case rf.Part == "inflight" || rf.Part == "multiremove":
		var sc ConcScenario
		if err := json.Unmarshal(rf.Scenario, &sc); err != nil {
			return "bad scenario: " + err.Error()
		}
		// A paused round reproduces at once; a free round depends on the
		// scheduler, so the scenario is given a number of attempts.
		for attempt := 0; attempt < 200; attempt++ {
			if _, err := runConc(&sc); err != nil {
				return err.Error()
			}
		}
	case rf.Part == "size":
		var sc SrvScenario
		if err := json.Unmarshal(rf.Scenario, &sc); err != nil {
			return "bad scenario: " + err.Error()
		}
		if _, err := runSize(t, &sc, nil); err != nil {
			return err.Error()
		}
	case rf.Part == "atomic":
		var sc SrvScenario
		if err := json.Unmarshal(rf.Scenario, &sc); err != nil {
			return "bad scenario: " + err.Error()
		}
		if _, err := runAtomic(t, &sc, nil); err != nil {
			return err.Error()
		}
	case rf.Part == "server":
		var sc SrvScenario
		if err := json.Unmarshal(rf.Scenario, &sc); err != nil {
			return "bad scenario: " + err.Error()
		}
		if _, err := runServer(t, &sc, nil); err != nil {
			return err.Error()
		}
	case rf.Kind == "seq" || rf.Kind == "rapid":
		var sc Scenario
		if err := json.Unmarshal(rf.Scenario, &sc); err != nil {
			return "bad scenario: " + err.Error()
		}
		if _, err := runSeq(&sc, nil); err != nil {
			return err.Error()
		}
	default:
		return "unknown replay kind " + rf.Kind
	}
	return ""
}
