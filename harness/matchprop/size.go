package matchprop

import (
	"fmt"
	"sort"
	"testing"
)

// The size part: the NUMBER OF ENTRIES of a notification as a dimension of the
// streaming filter. The property quantifies over notifications of any size:
// a notification with 65 or 1 000 updates is offered to a subscriber by the
// same rule as one with two (some prefix+path of an update or delete agrees
// with one of the subscriber's paths on every element they both have), once.
// Code that treats big notifications differently - one walk with the prefix
// instead of one per entry, one walk per distinct row, a walk with the common
// head of the entries, only the first k entries looked at, early exit after
// the first entry that found somebody, a bounded "already offered" set, deletes
// handled in one batch - changes nothing for the sizes the other parts draw.
//
// Scenarios are in the server part's language (SrvScenario): TABLE
// notifications (a prefix of 0-3 elements, rows x columns below it; sizes
// sampled around 64 / 128 / 1024 and in between; atomic or not; updates,
// deletes or both; sorted, reversed, shuffled, with repeated paths) and
// subscribers placed relative to a table: at / above the prefix, on a cell
// that is in the notification (picked by its POSITION in the notification:
// first, last, 63rd-66th, ...), on the row only, on a sibling row that is not
// in it, on a column the row does not carry, with '*' in the row or in the
// column position or in the prefix, deeper than a cell, outside; several
// paths per subscriber, several subscribers, sometimes a crowd of 60-130.
//
// Each scenario is judged by the existing oracles (reference = Compatible /
// compatibleAny of the statement, evaluated for every live subscriber and every
// notification, both directions, at most once):
//
//	runAtomic          match layer (registrations as the server makes them +
//	                   subscribe.UpdateNotification), server layer (Server.Subscribe /
//	                   Server.Update), cache layer (cache.GnmiUpdate feeding the server)
//	toMatchLevelCuts   the match layer again with the boundary between the prefix
//	                   strings handed to UpdateNotification and the entry paths at
//	                   EVERY position, the empty prefix included
//
// The classes below (labels "size-...") are computed from the scenario and
// the reference relation, never from the generator's intent.

// bigEntries is where "big" starts for the labels: more entries than any other
// part of this engine draws (they stop at 40) and above the first capacity step.
const bigEntries = 65

type sizeStats struct {
	set        map[string]bool
	nontrivial bool
}

func (s *sizeStats) add(l string) {
	if s.set == nil {
		s.set = map[string]bool{}
	}
	s.set[l] = true
}

func (s sizeStats) labels() []string {
	var out []string
	for l := range s.set {
		out = append(out, l)
	}
	sort.Strings(out)
	return out
}

func sizeClass(n int) string {
	switch {
	case n <= 1:
		return "1"
	case n <= 8:
		return "2-8"
	case n <= 62:
		return "9-62"
	case n <= 64:
		return "63-64"
	case n == 65:
		return "65"
	case n <= 126:
		return "66-126"
	case n <= 128:
		return "127-128"
	case n <= 299:
		return "129-299"
	case n <= 999:
		return "300-999"
	}
	return "1000plus"
}

// agreeLen: on how many leading positions (of those both have) q and e agree.
func agreeLen(q, e []string) int {
	i := 0
	for i < len(q) && i < len(e) && (q[i] == Glob || e[i] == Glob || q[i] == e[i]) {
		i++
	}
	return i
}

// classifySize walks the scenario with the trivial liveness model (a client's
// paths are those of its last Subscribe until its RPC ends) and records which
// size classes and which placements of subscribers relative to the big
// notifications it contains.
func classifySize(sc *SrvScenario) (st sizeStats) {
	live := map[int][][]string{}
	bigSeen := 0
	for _, op := range sc.Ops {
		switch op.Kind {
		case "sub":
			if op.List != nil {
				live[op.Client] = refQueries(op.List)
			}
		case "end":
			delete(live, op.Client)
		case "notify":
			if op.Notif == nil || op.NPrefix == nil {
				continue
			}
			if st.seeNotif(op.Notif, op.NPrefix, live) {
				bigSeen++
			}
		}
	}
	if bigSeen >= 2 {
		st.add("size-2plus-big-notifications-in-one-scenario")
	}
	return st
}

func (st *sizeStats) seeNotif(n *Notif, np *GPath, live map[int][][]string) (big bool) {
	prefix := refIndex(np, true)
	entries := n.entryPaths(prefix)
	N, U, D := len(entries), len(n.Updates), len(n.Deletes)
	kind := "plain"
	if n.Atomic {
		kind = "atomic"
	}
	st.add("size-" + kind + "-notification-with-" + sizeClass(N) + "-entries")
	if N < bigEntries {
		// control: the same placements under a small table
		for _, qs := range live {
			for _, q := range qs {
				if Compatible(q, prefix) && len(q) > len(prefix) && !compatibleAny(q, entries) {
					st.add("size-small-notification-subscriber-below-prefix-untouched")
				}
			}
		}
		return false
	}
	B := "size-big-"
	st.add(B + kind)
	if U >= bigEntries {
		st.add(B + kind + "-65plus-updates")
	}
	if D >= bigEntries {
		st.add(B + kind + "-65plus-deletes")
	}
	if U > 0 && D > 0 {
		st.add(B + "updates-and-deletes")
		if U <= 64 && D <= 64 {
			st.add(B + "only-in-total-neither-updates-nor-deletes-above-64")
		}
	}
	depth := len(refIndex(np, false))
	if depth > 3 {
		depth = 3
	}
	st.add(fmt.Sprintf("%sprefix-depth-%d", B, depth))
	// order, repeats, common head of the entries
	keys := make([]string, N)
	distinct := map[string]bool{}
	for i, e := range entries {
		keys[i] = key(e)
		distinct[keys[i]] = true
	}
	switch {
	case len(distinct) == 1:
		st.add(B + "all-entries-the-same-path")
	case len(distinct) < N:
		st.add(B + "repeats-an-entry-path")
	}
	if len(distinct) > 1 {
		asc := sort.SliceIsSorted(entries, func(a, b int) bool { return lessPath(entries[a], entries[b]) })
		desc := sort.SliceIsSorted(entries, func(a, b int) bool { return lessPath(entries[b], entries[a]) })
		switch {
		case asc:
			st.add(B + "entries-in-ascending-order")
		case desc:
			st.add(B + "entries-in-descending-order")
		default:
			st.add(B + "entries-in-no-order")
		}
		head := len(entries[0])
		for _, e := range entries[1:] {
			if a := agreeLenExact(entries[0], e); a < head {
				head = a
			}
		}
		if head > len(prefix) {
			st.add(B + "entries-share-a-head-below-the-prefix")
		} else {
			st.add(B + "entries-diverge-right-below-the-prefix")
		}
	}
	for _, e := range entries {
		if hasGlob(e[len(prefix):]) {
			st.add(B + "entry-path-with-glob")
			break
		}
	}

	var ids []int
	for c := range live {
		ids = append(ids, c)
	}
	sort.Ints(ids)
	var above, touched, untouched bool
	offeredClients := 0
	for _, c := range ids {
		nTouched, nUntouched := 0, 0
		for _, q := range live[c] {
			switch {
			case !Compatible(q, prefix):
				st.add(B + "subscriber-outside-prefix")
				continue
			case len(q) <= len(prefix):
				above = true
				nTouched++
				if len(q) == len(prefix) {
					st.add(B + "subscriber-at-prefix")
				} else {
					st.add(B + "subscriber-above-prefix")
				}
				if hasGlob(q) {
					st.add(B + "subscriber-at-or-above-prefix-through-glob")
				}
				continue
			}
			first, last, count, best := -1, -1, 0, 0
			for i, e := range entries {
				if Compatible(q, e) {
					if first < 0 {
						first = i
					}
					last = i
					count++
				} else if a := agreeLen(q, e); a > best {
					best = a
				}
			}
			glob := hasGlob(q[len(prefix):])
			if count == 0 {
				untouched = true
				nUntouched++
				st.add(B + "subscriber-below-prefix-untouched")
				st.add(B + kind + "-subscriber-below-prefix-untouched")
				if best <= len(prefix) {
					st.add(B + "untouched-differs-in-first-element-below-prefix")
				} else {
					st.add(B + "untouched-agrees-with-an-entry-on-1plus-elements-below-prefix")
				}
				if glob {
					st.add(B + "untouched-with-glob-below-prefix")
				}
				if hasGlob(q[:len(prefix)]) {
					st.add(B + "untouched-with-glob-in-prefix-position")
				}
				continue
			}
			touched = true
			nTouched++
			st.add(B + "subscriber-below-prefix-touched")
			if glob {
				st.add(B + "touched-with-glob-below-prefix")
			}
			if count == 1 {
				st.add(B + "touched-through-exactly-one-entry")
			}
			if count == N && len(distinct) > 1 {
				st.add(B + "touched-below-prefix-through-every-entry")
			}
			if first >= 64 {
				st.add(B + "touched-only-through-entries-at-index-64plus")
			}
			if first == N-1 {
				st.add(B + "touched-only-through-the-last-entry")
			}
			if last == 0 {
				st.add(B + "touched-only-through-the-first-entry")
			}
			if U > 0 && first >= U {
				st.add(B + "touched-only-through-deletes")
			}
			if D > 0 && last < U {
				st.add(B + "touched-only-through-updates-of-a-notification-with-deletes")
			}
			if len(q) > len(entries[first]) {
				st.add(B + "touched-subscriber-path-longer-than-the-entry-path")
			}
		}
		if nTouched > 0 {
			offeredClients++
		}
		if nTouched >= 2 {
			st.add(B + "client-with-2plus-touched-paths")
		}
		if nTouched > 0 && nUntouched > 0 {
			st.add(B + "client-with-touched-and-untouched-paths")
		}
	}
	switch {
	case offeredClients >= bigEntries:
		st.add(B + "offered-to-65plus-subscribers")
	case offeredClients >= 9:
		st.add(B + "offered-to-9-64-subscribers")
	case offeredClients >= 2:
		st.add(B + "offered-to-2-8-subscribers")
	}
	if above && touched && untouched {
		st.add(B + "with-above-touched-and-untouched-subscribers")
		st.nontrivial = true
	}
	return true
}

// agreeLenExact: length of the common head of two entry paths (string equality).
func agreeLenExact(a, b []string) int {
	i := 0
	for i < len(a) && i < len(b) && a[i] == b[i] {
		i++
	}
	return i
}

func lessPath(a, b []string) bool {
	for i := 0; i < len(a) && i < len(b); i++ {
		if a[i] != b[i] {
			return a[i] < b[i]
		}
	}
	return len(a) < len(b)
}

// shiftNotif returns n with the index strings head put in front of every entry
// path (as plain elements), so that head+entry indexes as before when head is
// taken away from the prefix.
func shiftNotif(n *Notif, head []string) *Notif {
	if len(head) == 0 {
		return n
	}
	out := &Notif{Atomic: n.Atomic}
	shift := func(gs []GPath) []GPath {
		if gs == nil {
			return nil
		}
		res := make([]GPath, len(gs))
		for i := range gs {
			g := gs[i]
			res[i] = GPath{Target: g.Target, Origin: g.Origin, Legacy: g.Legacy, Stray: g.Stray,
				Elems: append(names(head), g.Elems...)}
			if len(g.Elems) == 0 {
				res[i].Legacy = false // an entry path without elements has no encoding; the shifted one is structured
			}
		}
		return res
	}
	out.Updates, out.Deletes = shift(n.Updates), shift(n.Deletes)
	return out
}

// toMatchLevelCuts is toMatchLevel with every notification presented once per
// position of the boundary between the prefix strings handed to
// subscribe.UpdateNotification and the entry paths: prefix = the first k of
// [target, origin, prefix elements...], the rest in front of every entry
// path, k = 0 (the empty prefix) ... all. The entry paths - what the property
// speaks about - are the same at every k. Notifications of 300+ entries are
// presented at k = 0, the middle and all only.
func toMatchLevelCuts(sc *SrvScenario) *Scenario {
	base := toMatchLevel(sc)
	out := &Scenario{}
	for _, op := range base.Ops {
		if op.Kind != "notify" {
			out.Ops = append(out.Ops, op)
			continue
		}
		full := op.Prefix
		cuts := []int{}
		if op.Notif.entries() >= 300 {
			cuts = append(cuts, 0)
			if len(full) >= 2 {
				cuts = append(cuts, len(full)/2)
			}
			if len(full) >= 1 {
				cuts = append(cuts, len(full))
			}
		} else {
			for k := 0; k <= len(full); k++ {
				cuts = append(cuts, k)
			}
		}
		for _, k := range cuts {
			out.Ops = append(out.Ops, Op{Kind: "notify", Prefix: clonePath(full[:k]), Notif: shiftNotif(op.Notif, full[k:]), Spare: (op.Spare + k) % 4})
		}
	}
	return out
}

type sizeResult struct {
	atom atomResult
	cuts seqStats
	size sizeStats
}

func (r sizeResult) labels() []string {
	set := map[string]bool{}
	for _, l := range r.size.labels() {
		set[l] = true
	}
	for _, l := range r.atom.cache.labels() {
		set[l] = true
	}
	for _, l := range r.atom.srv.labels() {
		switch l {
		case "subscription-target-star", "subscription-path-origin", "subscription-prefix-origin", "keyed-element", "legacy-element-encoding",
			"client-resubscribed", "client-with-2plus-compatible-registrations", "notification-offered-to-nobody", "path-registered-by-3plus-clients":
			set[l] = true
		}
	}
	if r.cuts.nobodyCompatible || r.cuts.mixed {
		set["size-match-layer-ran-at-every-prefix-cut"] = true
	}
	var out []string
	for l := range set {
		out = append(out, l)
	}
	sort.Strings(out)
	return out
}

// runSize judges one scenario: the three layers of the atomic part, then the
// match layer at every prefix cut. The first layer that objects decides the message.
func runSize(t *testing.T, sc *SrvScenario, open map[string]bool) (res sizeResult, err error) {
	res.size = classifySize(sc)
	if res.atom, err = runAtomic(t, sc, open); err != nil {
		return res, err
	}
	if res.cuts, err = runSeq(toMatchLevelCuts(sc), open); err != nil {
		return res, fmt.Errorf("match layer, prefix/entry boundary moved (the prefix strings handed to UpdateNotification are a head of target+origin+prefix elements, the rest is in front of every entry path): %v", err)
	}
	return res, nil
}
