package matchprop

import (
	"strconv"
	"testing"

	"pgregory.net/rapid"
	"verif/harness/internal/vstat"
)

// size part: generators ------------------------------------------------------------------
//
// A scenario is drawn around one TABLE WORLD (target, optional origin, prefix
// elements P, an optional list name between the prefix and the row name, one or
// two strings per column) and 1-3 table notifications in it. Everything big is
// described by a handful of draws (tableSpec) and expanded deterministically,
// so that shrinking works on the few draws: the size shrinks towards the
// smallest one that still fails.

var (
	// entry counts around the capacity steps an implementation might have
	sizeSteps = []int{63, 64, 65, 65, 65, 66, 127, 128, 129, 200, 300}
	sizeHuge  = []int{1000, 1024, 1025, 1100}
	// where in the notification (position of the entry) the cell a subscriber is placed at comes from; -1 last, -2 anywhere
	sizePositions = []int{0, 0, 1, 62, 63, 64, 64, 65, 66, 126, 127, 128, 129, 199, 299, 999, -1, -1, -2, -2}
	sizeRels      = []string{"at", "above", "exact", "exact", "row", "row-glob-col", "glob-row-col", "glob-row-absent-col",
		"row-absent-col", "row-absent-col", "sibling-row-col", "sibling-row-col", "sibling-row", "sibling-row-glob-col",
		"deeper", "sibling-deeper", "other-head", "outside"}
)

type sizeWorld struct {
	c              cfg
	Target, Origin string
	P              []string // prefix elements (0-3 strings)
	Head           []string // between the prefix and the row name: nothing, or a list name
	ColDepth       int      // strings per column: 1 (c7) or 2 (c7, v)
}

// tableSpec describes one table notification by a few numbers.
type tableSpec struct {
	Atomic       bool
	Cut          int    // how many of P are in the notification's prefix; the others lead every entry path
	Start, Count int    // first row number, number of entries
	Layout       string // tall (Cols columns per row) | wide (Cols rows, many columns) | square
	Cols         int
	RowLevel     bool   // the entries address the rows themselves (no column)
	Kind         string // updates | deletes | split | plus-deletes
	NUpd         int    // split: the first NUpd entries are updates, the others deletes
	Order        string // asc | desc | shuffle
	Seed         uint64
	Dup          string // none | tail (the last tenth repeats the first) | all-same
	GlobAt       int    // position of an entry whose row is '*' (-1: none)
	Shape        uint32
	PShape       uint32
	Legacy       bool
	PLegacy      bool
}

func (s tableSpec) side() int {
	n := 1
	for n*n < s.Count {
		n++
	}
	return n
}

// cell of the i-th logical entry: (row number, column number).
func (s tableSpec) cell(i int) (int, int) {
	switch s.Layout {
	case "wide":
		return s.Start + i%s.Cols, i / s.Cols
	case "square":
		return s.Start + i/s.side(), i % s.side()
	}
	return s.Start + i/s.Cols, i % s.Cols
}

func (s tableSpec) rowsUsed() int {
	r, _ := s.cell(s.Count - 1)
	if s.Layout == "wide" && s.Count >= s.Cols {
		return s.Cols
	}
	return r - s.Start + 1
}

// order lists the logical entry at every position of the notification.
func (s tableSpec) order() []int {
	out := make([]int, s.Count)
	for i := range out {
		out[i] = i
	}
	switch s.Order {
	case "desc":
		for i, j := 0, len(out)-1; i < j; i, j = i+1, j-1 {
			out[i], out[j] = out[j], out[i]
		}
	case "shuffle": // Fisher-Yates driven by the drawn seed (splitmix64)
		x := s.Seed
		next := func() uint64 {
			x += 0x9e3779b97f4a7c15
			z := x
			z = (z ^ (z >> 30)) * 0xbf58476d1ce4e5b9
			z = (z ^ (z >> 27)) * 0x94d049bb133111eb
			return z ^ (z >> 31)
		}
		for i := len(out) - 1; i > 0; i-- {
			j := int(next() % uint64(i+1))
			out[i], out[j] = out[j], out[i]
		}
	}
	switch s.Dup {
	case "tail":
		d := s.Count / 10
		if d == 0 {
			d = 1
		}
		if s.Count >= 2 {
			for i := s.Count - d; i < s.Count; i++ {
				out[i] = out[i-(s.Count-d)]
			}
		}
	case "all-same":
		for i := range out {
			out[i] = out[0]
		}
	}
	return out
}

// rowName: zero-padded, so that the order of the row numbers is the order of the strings.
func rowName(r int) string {
	s := strconv.Itoa(r)
	for len(s) < 4 {
		s = "0" + s
	}
	return "r" + s
}

func (w sizeWorld) colStrings(c int) []string {
	name := "c" + rowName(c)[1:]
	if w.ColDepth == 2 {
		return []string{name, "v"}
	}
	return []string{name}
}

// notify expands a spec into the notification op.
func (w sizeWorld) notify(s tableSpec) SrvOp {
	pe := structure(clonePath(w.P[:s.Cut]), s.PShape, s.PLegacy)
	np := &GPath{Target: w.Target, Origin: w.Origin, Elems: pe.Elems, Legacy: pe.Legacy}
	n := &Notif{Atomic: s.Atomic}
	for pos, li := range s.order() {
		r, c := s.cell(li)
		flat := append(clonePath(w.P[s.Cut:]), w.Head...)
		if pos == s.GlobAt {
			flat = append(flat, Glob)
		} else {
			flat = append(flat, rowName(r))
		}
		if !s.RowLevel {
			flat = append(flat, w.colStrings(c)...)
		}
		g := structure(flat, s.Shape, s.Legacy)
		switch {
		case s.Kind == "deletes", s.Kind == "split" && pos >= s.NUpd:
			n.Deletes = append(n.Deletes, g)
		default:
			n.Updates = append(n.Updates, g)
		}
	}
	if s.Kind == "plus-deletes" { // the table as updates, plus the delete of a row that is not in it and of one that is
		out := append(append(clonePath(w.P[s.Cut:]), w.Head...), rowName(s.Start+s.rowsUsed()))
		in := append(append(clonePath(w.P[s.Cut:]), w.Head...), rowName(s.Start))
		n.Deletes = append(n.Deletes, structure(out, s.Shape, s.Legacy))
		if s.NUpd%2 == 1 {
			n.Deletes = append(n.Deletes, structure(in, s.Shape, s.Legacy))
		}
	}
	op := SrvOp{Kind: "notify", NPrefix: np, Notif: n}
	dropTargetDeleteShape(&op)
	if isTargetDeleteShape(op.Notif, op.NPrefix) { // a sole delete left after the repair cannot be one; belt and braces
		op.Notif.Updates, op.Notif.Deletes = append(op.Notif.Updates, op.Notif.Deletes[0]), nil
	}
	return op
}

func drawSize(t *rapid.T, big bool) int {
	k := rapid.IntRange(0, 19).Draw(t, "size-kind")
	if big && k <= 5 {
		k = 10
	}
	switch {
	case k <= 5:
		return rapid.IntRange(1, 8).Draw(t, "small")
	case k <= 8:
		return rapid.IntRange(9, 140).Draw(t, "medium")
	case k <= 18:
		return rapid.SampledFrom(sizeSteps).Draw(t, "step")
	}
	return rapid.SampledFrom(sizeHuge).Draw(t, "huge")
}

func (w sizeWorld) spec(t *rapid.T, big bool) tableSpec {
	s := tableSpec{Atomic: rapid.Bool().Draw(t, "atomic"), Cut: len(w.P), GlobAt: -1, Cols: 1, Layout: "tall", Kind: "updates", Order: "asc", Dup: "none"}
	if one(t, 4, "resplit") {
		s.Cut = rapid.IntRange(0, len(w.P)).Draw(t, "prefix-cut")
	}
	s.Count = drawSize(t, big)
	if one(t, 4, "start") {
		s.Start = rapid.SampledFrom([]int{1, 2, 64, 65, 100}).Draw(t, "start-row")
	}
	switch rapid.IntRange(0, 9).Draw(t, "layout") {
	case 5, 6:
		s.Cols = rapid.IntRange(2, 3).Draw(t, "cols")
	case 7, 8:
		s.Layout, s.Cols = "wide", rapid.IntRange(1, 2).Draw(t, "rows")
	case 9:
		s.Layout = "square"
	}
	if s.Layout == "tall" && s.Cols == 1 {
		s.RowLevel = one(t, 6, "row-level")
	}
	switch rapid.IntRange(0, 9).Draw(t, "kind") {
	case 5, 6:
		s.Kind = "deletes"
	case 7, 8:
		if s.Count >= 2 {
			s.Kind = "split"
			s.NUpd = rapid.SampledFrom([]int{1, 1, 2, 63, 64, 65, s.Count / 2, s.Count - 2, s.Count - 1}).Draw(t, "updates")
			if s.NUpd >= s.Count {
				s.NUpd = s.Count - 1
			}
			if s.NUpd < 1 {
				s.NUpd = 1
			}
		}
	case 9:
		s.Kind = "plus-deletes"
		s.NUpd = rapid.IntRange(0, 1).Draw(t, "also-a-row-in-it")
	}
	switch rapid.IntRange(0, 5).Draw(t, "order") {
	case 3:
		s.Order = "desc"
	case 4, 5:
		s.Order, s.Seed = "shuffle", rapid.Uint64().Draw(t, "shuffle-seed")
	}
	switch rapid.IntRange(0, 11).Draw(t, "dup") {
	case 10:
		s.Dup = "tail"
	case 11:
		s.Dup = "all-same"
	}
	if one(t, 15, "glob-entry") {
		s.GlobAt = rapid.IntRange(0, s.Count-1).Draw(t, "glob-at")
	}
	if one(t, 3, "shaped") {
		s.Shape = rapid.Uint32().Draw(t, "shape")
	} else if one(t, 10, "legacy") {
		s.Legacy = true
	}
	if one(t, 4, "prefix-shaped") {
		s.PShape = rapid.Uint32().Draw(t, "prefix-shape")
	} else if one(t, 12, "prefix-legacy") {
		s.PLegacy = true
	}
	return s
}

// subFull draws a subscription path (the index strings below target/origin)
// placed relative to the table notification s.
func (w sizeWorld) subFull(t *rapid.T, s tableSpec) []string {
	rel := rapid.SampledFrom(sizeRels).Draw(t, "relation")
	switch rel {
	case "at":
		return clonePath(w.P)
	case "above":
		return clonePath(w.P[:rapid.IntRange(0, len(w.P)).Draw(t, "keep")])
	}
	pos := rapid.SampledFrom(sizePositions).Draw(t, "position")
	switch {
	case pos == -2:
		pos = rapid.IntRange(0, s.Count-1).Draw(t, "anywhere")
	case pos == -1 || pos >= s.Count:
		pos = s.Count - 1
	}
	r, c := s.cell(s.order()[pos])
	row := rowName(r)
	sibling := rowName(s.Start + s.rowsUsed())
	switch rapid.IntRange(0, 3).Draw(t, "which-sibling") {
	case 2:
		if s.Start > 0 {
			sibling = rowName(s.Start - 1)
		}
	case 3:
		sibling = "rx"
	}
	col := w.colStrings(c)
	absent := []string{"cx"}
	if w.ColDepth == 2 {
		absent = []string{col[0], "x"}
		if rapid.Bool().Draw(t, "absent-column") {
			absent = []string{"cx", "v"}
		}
	}
	globCol := append([]string{Glob}, col[1:]...)
	head := clonePath(w.Head)
	var below []string
	switch rel {
	case "exact":
		below = append(append(head, row), col...)
		if s.RowLevel {
			below = append(clonePath(w.Head), row)
		}
	case "row":
		below = append(head, row)
	case "row-glob-col":
		below = append(append(head, row), globCol...)
	case "glob-row-col":
		below = append(append(head, Glob), col...)
	case "glob-row-absent-col":
		below = append(append(head, Glob), absent...)
	case "row-absent-col":
		below = append(append(head, row), absent...)
	case "sibling-row-col":
		below = append(append(head, sibling), col...)
	case "sibling-row":
		below = append(head, sibling)
	case "sibling-row-glob-col":
		below = append(append(head, sibling), globCol...)
	case "deeper":
		below = append(append(append(head, row), col...), "d")
	case "sibling-deeper":
		below = append(append(append(head, sibling), col...), "d")
	case "other-head":
		if len(head) > 0 {
			head[0] = w.c.other(t, head[0])
		}
		below = append(append(head, row), col...)
		if len(w.Head) == 0 {
			below = append([]string{"rows"}, below...)
		}
	default: // outside
		below = append(append(head, row), col...)
	}
	p := clonePath(w.P)
	switch {
	case rel == "outside" && len(p) > 0:
		k := rapid.IntRange(0, len(p)-1).Draw(t, "leave-at")
		p[k] = w.c.other(t, p[k])
	case len(p) > 0 && one(t, 8, "prefix-glob"):
		p[rapid.IntRange(0, len(p)-1).Draw(t, "glob-at")] = Glob
	}
	return append(p, below...)
}

// list draws a STREAM subscription with 1-3 paths placed around the tables.
func (w sizeWorld) list(t *rapid.T, specs []tableSpec) *SubList {
	var fulls [][]string
	for i, n := 0, rapid.IntRange(1, 3).Draw(t, "subs"); i < n; i++ {
		fulls = append(fulls, w.subFull(t, specs[rapid.IntRange(0, len(specs)-1).Draw(t, "table")]))
	}
	l := &SubList{Prefix: &GPath{}}
	switch tk := rapid.IntRange(0, 9).Draw(t, "sub-target"); {
	case tk <= 6:
		l.Prefix.Target = w.Target
	case tk <= 8:
		l.Prefix.Target = Glob
	default:
		l.Prefix.Target = map[string]string{"a": "b", "b": "a"}[w.Target]
	}
	origin := w.Origin
	switch ok := rapid.IntRange(0, 11).Draw(t, "sub-origin"); {
	case ok == 10:
		origin = ""
	case ok == 11:
		origin = w.c.other(t, w.Origin)
	}
	inPath := origin != "" && rapid.Bool().Draw(t, "origin-in-path")
	k := 0
	if !inPath {
		l.Prefix.Origin = origin
		// the list's prefix elements: a head all its paths share
		common := len(fulls[0])
		for _, f := range fulls[1:] {
			if a := agreeLenExact(fulls[0], f); a < common {
				common = a
			}
		}
		k = rapid.IntRange(0, common).Draw(t, "prefix-cut")
	}
	pe := structure(clonePath(fulls[0][:k]), shape(t), one(t, 12, "legacy-prefix"))
	l.Prefix.Elems, l.Prefix.Legacy = pe.Elems, pe.Legacy
	for _, f := range fulls {
		if one(t, 20, "nil-path") {
			l.Subs = append(l.Subs, nil)
			continue
		}
		g := structure(clonePath(f[k:]), shape(t), one(t, 12, "legacy-path"))
		if inPath && rapid.IntRange(0, 3).Draw(t, "with-origin") > 0 {
			g.Origin = origin
		}
		l.Subs = append(l.Subs, &g)
	}
	return l
}

func copySubList(l *SubList) *SubList {
	out := &SubList{Prefix: copyGPath(l.Prefix)}
	for _, g := range l.Subs {
		out.Subs = append(out.Subs, copyGPath(g))
	}
	return out
}

func genSizeScenario(t *rapid.T) *SrvScenario {
	w := sizeWorld{c: cfg{0}, ColDepth: 1}
	if one(t, 5, "odd-strings") {
		w.c = cfg{1}
	}
	w.Target = rapid.SampledFrom([]string{"a", "a", "b"}).Draw(t, "target")
	if one(t, 3, "with-origin") {
		w.Origin = w.c.origin(t)
	}
	w.P = w.c.index(t, contAlpha, 0, 3)
	if one(t, 3, "list-name") {
		w.Head = []string{rapid.SampledFrom([]string{"rows", "a", "b"}).Draw(t, "head")}
	}
	if one(t, 3, "two-strings-per-column") {
		w.ColDepth = 2
	}
	specs := []tableSpec{w.spec(t, true)}
	for i, n := 0, rapid.SampledFrom([]int{0, 0, 0, 1, 1, 2}).Draw(t, "more-tables"); i < n; i++ {
		specs = append(specs, w.spec(t, i == 0 && rapid.Bool().Draw(t, "big-too")))
	}
	clients := 6
	sc := &SrvScenario{}
	for i, n := 0, rapid.IntRange(2, 6).Draw(t, "first-subs"); i < n; i++ {
		sc.Ops = append(sc.Ops, SrvOp{Kind: "sub", Client: rapid.IntRange(0, clients).Draw(t, "client"), UpdatesOnly: rapid.Bool().Draw(t, "updates-only"), List: w.list(t, specs)})
	}
	if one(t, 12, "crowd") { // many subscribers, a few distinct lists
		var templates []*SubList
		for i, n := 0, rapid.IntRange(1, 4).Draw(t, "templates"); i < n; i++ {
			templates = append(templates, w.list(t, specs))
		}
		n := rapid.SampledFrom([]int{9, 63, 64, 65, 66, 130}).Draw(t, "crowd-size")
		for i := 0; i < n; i++ {
			sc.Ops = append(sc.Ops, SrvOp{Kind: "sub", Client: 10 + i, List: copySubList(templates[i%len(templates)])})
		}
	}
	for i, s := range specs {
		switch rapid.IntRange(0, 5).Draw(t, "between") {
		case 4:
			sc.Ops = append(sc.Ops, SrvOp{Kind: "sub", Client: rapid.IntRange(0, clients).Draw(t, "client"), List: w.list(t, specs)})
		case 5:
			if i > 0 {
				sc.Ops = append(sc.Ops, SrvOp{Kind: "end", Client: rapid.IntRange(0, clients).Draw(t, "client")})
			}
		}
		sc.Ops = append(sc.Ops, w.notify(s))
	}
	if one(t, 5, "again") { // the first table once more: nothing may be remembered from its first delivery
		sc.Ops = append(sc.Ops, SrvOp{Kind: "end", Client: rapid.IntRange(0, clients).Draw(t, "client")})
		sc.Ops = append(sc.Ops, w.notify(specs[0]))
	}
	return sc
}

// TestC06Size: notifications of 1 - 1100 entries (sizes around 64 / 128 / 1024)
// against subscribers placed around the table, judged at the match (every
// prefix cut), server and cache layers.
func TestC06Size(t *testing.T) {
	if !vstat.Enabled("C06") {
		t.Skip()
	}
	rec := vstat.New("C06", "size")
	open := openClasses(t, rec, ClassSingleEntryDouble, ClassStaleAfterEnd)
	rec.RunRapid(t, func(rt *rapid.T) {
		sc := genSizeScenario(rt)
		rec.Current(sc)
		res, err := runSize(t, sc, open)
		if res.atom.seq.excluded > 0 || res.cuts.excluded > 0 {
			rec.Excluded(ClassSingleEntryDouble)
		}
		for class := range res.atom.srv.excluded() {
			rec.Excluded(class)
		}
		rec.Case(sc, res.size.nontrivial, res.labels()...)
		if err != nil {
			rt.Fatalf("%s", rec.Fail(sc, "size-offer-mismatch", "%v", err))
		}
	})
}
