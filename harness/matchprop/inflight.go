package matchprop

import (
	"fmt"
	"runtime"
	"sort"
	"sync"
	"sync/atomic"
	"time"

	"github.com/openconfig/gnmi/match"
	"github.com/openconfig/gnmi/subscribe"
)

// The in-flight part: "never after the subscription has been removed" and
// "other subscribers are unaffected" while Match.Update / UpdateNotification
// calls are IN FLIGHT. The stepwise parts (seq.go, server.go) finish every call
// before the next operation starts, so nothing ever happens inside one call.
// Here the harness owns the callbacks: a call can be made to pause inside its
// k-th callback, and while it is paused other goroutines remove and add
// registrations. No hook in the code under test is needed.
//
// Oracles (sound under every schedule; evaluated from sequence stamps drawn
// from one atomic counter, which is consistent with happens-before):
//
//	never-after  a callback to client c for call X that BEGINS at stamp t needs
//	             a registration of c, compatible with X, whose AddQuery was
//	             called before t and of whose remove function NO call had
//	             RETURNED before t. The rule is stated per call: the remove
//	             function of one registration may be called any number of
//	             times, from several goroutines at once, and every caller that
//	             got its call back was told that the removal is done.
//	             (With the lock discipline of the property - no call of
//	             remove() can return while an update that still sees the
//	             registration is delivering - no schedule produces such a
//	             callback: take the last AddQuery of the pair (client, path)
//	             before the update's walk; every call of ITS remove function
//	             runs after the walk, hence returns after the callback began.)
//	must-call    a registration whose AddQuery returned before X was called,
//	             and for whose pair (client, path) no call of any remove
//	             function was in progress or started between that AddQuery and
//	             the return of X, is invoked by X when compatible (raw Update:
//	             once per such pair; notification: at least once). A stale call
//	             of the remove function of an OLDER registration of the same
//	             pair therefore makes the newer one a don't-care.
//	at-most      a notification is offered to a client at most once; a raw
//	             Update at most once per registration that may have been live.
//
// How long the harness waits before it releases the paused calls decides only
// whether the window is hit, never a verdict: with correct code the removers
// simply block until the release.

// CReg is one initial registration.
type CReg struct {
	Client int      `json:"client"`
	Path   []string `json:"path"`
}

// CCall is one call made by its own goroutine: Match.Update(Path) when Notif
// is nil, else subscribe.UpdateNotification(Notif, Prefix).
type CCall struct {
	Path   []string `json:"path,omitempty"`
	Notif  *Notif   `json:"notif,omitempty"`
	Prefix []string `json:"prefix,omitempty"`
	// PauseAt (paused rounds): the call pauses inside its PauseAt-th callback
	// (0 is the first) until the harness releases it; negative: never.
	PauseAt int `json:"pause_at"`
	// Repeat (free rounds): how many times the goroutine repeats the call.
	Repeat int `json:"repeat,omitempty"`
}

// CAct is one step of a mutator goroutine.
//
//	remove  call the remove func of the registration with static id Handle
//	add     AddQuery(Path, client Client); the new registration gets the next
//	        static id (ids are assigned in scenario order: Regs, then every add
//	        of round 0 mutator 0, mutator 1, ..., round 1, ...)
//
// A remove step must be ordered after the creation of its registration
// (created by Regs, in an earlier round, or earlier by the same mutator). The
// same registration may be named by any number of remove steps, of one mutator
// (sequential calls of the same remove function) and of several mutators of
// one round (calls of the same remove function that overlap).
type CAct struct {
	Kind   string   `json:"kind"`
	Handle int      `json:"handle,omitempty"`
	Client int      `json:"client,omitempty"`
	Path   []string `json:"path,omitempty"`
}

// CRound is one burst of concurrency; the next round starts at quiescence.
//
//	paused  every call runs until it returns or pauses inside a callback; then
//	        the mutators run; when they are done, or after WaitMicros, the
//	        paused calls are released
//	free    calls and mutators start together and run freely; every callback
//	        yields the processor Yield times
type CRound struct {
	Mode       string   `json:"mode"`
	Calls      []CCall  `json:"calls"`
	Mutators   [][]CAct `json:"mutators"`
	WaitMicros int      `json:"wait_micros,omitempty"`
	Yield      int      `json:"yield,omitempty"`
}

// ConcScenario is the scenario of the in-flight part.
type ConcScenario struct {
	Regs   []CReg   `json:"regs"`
	Rounds []CRound `json:"rounds"`
}

type cHandle struct {
	id             int
	client         int
	path           []string
	remove         func()
	addCall        int64     // stamp taken before AddQuery was called
	addRet         int64     // stamp taken after AddQuery returned
	calls          []*rmCall // one per remove step naming the registration (+ the audit's)
	rmCall         int64     // derived at quiescence: earliest stamp of any call of remove() (0: never)
	rmRet          int64     // derived at quiescence: earliest stamp at which any call of remove() had returned
	createdRound   int       // -1: Regs
	createdMutator int
	createdStep    int
}

// rmCall is one call of the remove function of a registration.
type rmCall struct {
	round, mutator int
	call           int64 // stamp taken before remove() was called (0: not yet)
	ret            int64 // stamp taken after this call of remove() returned
}

// cStep is one resolved mutator step.
type cStep struct {
	h  *cHandle
	rc *rmCall // remove steps
}

// derive recomputes the per-registration summaries; called at quiescence only.
func (r *concRun) derive() {
	for _, h := range r.handles {
		h.rmCall, h.rmRet = 0, 0
		for _, rc := range h.calls {
			if rc.call != 0 && (h.rmCall == 0 || rc.call < h.rmCall) {
				h.rmCall = rc.call
			}
			if rc.ret != 0 && (h.rmRet == 0 || rc.ret < h.rmRet) {
				h.rmRet = rc.ret
			}
		}
	}
}

// inRound summarises the calls of h's remove function made in round ri.
func (h *cHandle) inRound(ri int) (first, firstRet int64, n int) {
	for _, rc := range h.calls {
		if rc.round != ri || rc.call == 0 {
			continue
		}
		n++
		if first == 0 || rc.call < first {
			first = rc.call
		}
		if rc.ret != 0 && (firstRet == 0 || rc.ret < firstRet) {
			firstRet = rc.ret
		}
	}
	return
}

// returnedBefore: some call of h's remove function made before round ri has returned.
func (h *cHandle) returnedBefore(ri int) bool {
	for _, rc := range h.calls {
		if rc.round < ri && rc.ret != 0 {
			return true
		}
	}
	return false
}

type cbEvent struct {
	t      int64
	client int
}

// callRun is one execution of a CCall; its address is the value handed to the
// code under test, so every callback names the call it belongs to.
type callRun struct {
	run     *concRun
	round   int
	idx     int
	rep     int
	spec    *CCall
	entries [][]string
	once    bool
	xs, xe  int64

	pauseAt  int // <0: no pause
	yield    int
	evCh     chan callEv
	release  chan struct{}
	ncb      atomic.Int64
	events   []cbEvent // guarded by run.mu
	pausedEv int       // index of the event in which the call paused, -1 if it did not
}

type callEv struct {
	idx    int
	paused bool
}

type cClient struct {
	id  int
	run *concRun
}

func (c *cClient) Update(v interface{}) {
	r := c.run
	t := r.seq.Add(1)
	cr, ok := v.(*callRun)
	if !ok || cr.run != r {
		r.mu.Lock()
		r.foreign = append(r.foreign, fmt.Sprintf("client %d was handed %v, which is not a value passed to any call", c.id, v))
		r.mu.Unlock()
		return
	}
	k := int(cr.ncb.Add(1)) - 1
	r.mu.Lock()
	cr.events = append(cr.events, cbEvent{t, c.id})
	pause := cr.pauseAt >= 0 && k == cr.pauseAt
	if pause {
		cr.pausedEv = len(cr.events) - 1
	}
	r.mu.Unlock()
	if pause {
		cr.evCh <- callEv{cr.idx, true}
		<-cr.release
	}
	for i := 0; i < cr.yield; i++ {
		runtime.Gosched()
	}
}

type concStats struct {
	nontrivial                                        bool
	pausedRound, freeRound                            bool
	callPaused, pausedLater, multiPaused              bool
	removeWaited, removeDuringPause, addDuringPause   bool
	window, calledAfterRelease, survivorSamePath      bool
	readd, notifyCall, rawCall, multiEntry            bool
	removedNotCalled, raceInFree, glob, noPauseNeeded bool
	dupPair                                           bool
	// calls of ONE remove function from several goroutines / repeatedly
	multiNontrivial, sameRemoveOverlaps, gangDuringPause bool
	gangAllWaited, gangWindow, gangCalledAfterRelease    bool
	gangInFree, calledAgain, staleAfterReadd             bool
}

func (s concStats) labels() []string {
	var l []string
	add := func(b bool, n string) {
		if b {
			l = append(l, n)
		}
	}
	add(s.nontrivial, "nontrivial")
	add(s.pausedRound, "paused-round")
	add(s.freeRound, "free-round")
	add(s.callPaused, "call-paused-inside-a-callback")
	add(s.pausedLater, "call-paused-inside-its-2nd-or-later-callback")
	add(s.multiPaused, "2plus-calls-paused-at-the-same-time")
	add(s.removeDuringPause, "remove-requested-while-a-call-is-paused")
	add(s.removeWaited, "remove-returned-only-after-the-release")
	add(s.addDuringPause, "add-requested-while-a-call-is-paused")
	add(s.window, "remove-requested-of-registration-the-paused-call-has-still-to-invoke")
	add(s.calledAfterRelease, "that-registration-invoked-after-release-while-remove-pending")
	add(s.survivorSamePath, "other-client-at-removed-path-invoked-by-in-flight-call")
	add(s.readd, "pair-registered-again-after-removal")
	add(s.dupPair, "same-client-path-registered-twice")
	add(s.notifyCall, "call-is-notification")
	add(s.multiEntry, "call-is-multi-entry-notification")
	add(s.rawCall, "call-is-raw-update")
	add(s.removedNotCalled, "removed-registration-compatible-with-later-call-not-invoked")
	add(s.raceInFree, "free-round-callback-overlaps-a-remove")
	add(s.glob, "compatible-through-glob")
	add(s.noPauseNeeded, "paused-round-in-which-no-call-paused")
	add(s.multiNontrivial, "nontrivial-multi")
	add(s.sameRemoveOverlaps, "calls-of-one-remove-func-overlap")
	add(s.gangDuringPause, "2plus-calls-of-one-remove-func-began-while-a-call-is-paused")
	add(s.gangAllWaited, "all-of-them-returned-only-after-the-release")
	add(s.gangWindow, "2plus-calls-of-remove-func-of-registration-the-paused-call-has-still-to-invoke")
	add(s.gangCalledAfterRelease, "that-registration-invoked-after-release-while-2plus-remove-calls-pending")
	add(s.gangInFree, "free-round-callback-overlaps-2-overlapping-calls-of-one-remove-func")
	add(s.calledAgain, "remove-func-called-again-after-a-call-of-it-had-returned")
	add(s.staleAfterReadd, "old-remove-func-called-again-after-pair-was-registered-again")
	return l
}

type concRun struct {
	m       *match.Match
	seq     atomic.Int64
	mu      sync.Mutex
	foreign []string
	clients map[int]*cClient
	handles []*cHandle
	st      concStats
}

func (r *concRun) describeCall(cr *callRun) string {
	what := fmt.Sprintf("Match.Update(path %q)", cr.spec.Path)
	if cr.once {
		what = fmt.Sprintf("UpdateNotification(prefix %q, entry paths %q)", cr.spec.Prefix, cr.entries)
	}
	rep := ""
	if cr.rep > 0 {
		rep = fmt.Sprintf(" repetition %d", cr.rep)
	}
	return fmt.Sprintf("round %d call %d%s %s", cr.round, cr.idx, rep, what)
}

func (r *concRun) invoke(cr *callRun) {
	cr.xs = r.seq.Add(1)
	if cr.once {
		prefix := clonePath(cr.spec.Prefix)
		subscribe.UpdateNotification(r.m, cr, cr.spec.Notif.proto(int64(cr.round*1000+cr.idx), nil), prefix)
	} else {
		r.m.Update(cr, clonePath(cr.spec.Path))
	}
	cr.xe = r.seq.Add(1)
}

func (r *concRun) newCall(round, idx, rep int, spec *CCall) *callRun {
	cr := &callRun{run: r, round: round, idx: idx, rep: rep, spec: spec, pauseAt: -1, pausedEv: -1}
	if spec.Notif != nil {
		cr.once = true
		cr.entries = spec.Notif.entryPaths(spec.Prefix)
	} else {
		cr.entries = [][]string{spec.Path}
	}
	return cr
}

func (r *concRun) doAct(s cStep, kind string) {
	h := s.h
	switch kind {
	case "add":
		h.addCall = r.seq.Add(1)
		h.remove = r.m.AddQuery(clonePath(h.path), r.clients[h.client])
		h.addRet = r.seq.Add(1)
	case "remove":
		// Only this goroutine writes s.rc; everything is read at quiescence.
		s.rc.call = r.seq.Add(1)
		h.remove()
		s.rc.ret = r.seq.Add(1)
	}
}

// plan validates the scenario and assigns the static handle ids.
func (r *concRun) plan(sc *ConcScenario) (acts [][][]cStep, err error) {
	addClient := func(id int) {
		if r.clients[id] == nil {
			r.clients[id] = &cClient{id: id, run: r}
		}
	}
	for _, reg := range sc.Regs {
		addClient(reg.Client)
		r.handles = append(r.handles, &cHandle{id: len(r.handles), client: reg.Client, path: reg.Path, createdRound: -1})
	}
	acts = make([][][]cStep, len(sc.Rounds))
	for ri := range sc.Rounds {
		rd := &sc.Rounds[ri]
		if rd.Mode != "paused" && rd.Mode != "free" {
			return nil, fmt.Errorf("harness: round %d: unknown mode %q", ri, rd.Mode)
		}
		if len(rd.Calls) == 0 {
			return nil, fmt.Errorf("harness: round %d has no calls", ri)
		}
		for ci := range rd.Calls {
			if n := rd.Calls[ci].Notif; n != nil && n.entries() == 0 {
				return nil, fmt.Errorf("harness: round %d call %d: notification without entries", ri, ci)
			}
		}
		acts[ri] = make([][]cStep, len(rd.Mutators))
		for mi, mut := range rd.Mutators {
			for si, a := range mut {
				switch a.Kind {
				case "add":
					addClient(a.Client)
					h := &cHandle{id: len(r.handles), client: a.Client, path: a.Path, createdRound: ri, createdMutator: mi, createdStep: si}
					r.handles = append(r.handles, h)
					acts[ri][mi] = append(acts[ri][mi], cStep{h: h})
				case "remove":
					if a.Handle < 0 || a.Handle >= len(r.handles) {
						return nil, fmt.Errorf("harness: round %d mutator %d step %d removes registration %d, which is not created before it", ri, mi, si, a.Handle)
					}
					h := r.handles[a.Handle]
					if h.createdRound == ri && h.createdMutator != mi {
						return nil, fmt.Errorf("harness: round %d mutator %d step %d removes registration %d, which another mutator of the same round creates", ri, mi, si, a.Handle)
					}
					rc := &rmCall{round: ri, mutator: mi}
					h.calls = append(h.calls, rc)
					acts[ri][mi] = append(acts[ri][mi], cStep{h: h, rc: rc})
				default:
					return nil, fmt.Errorf("harness: round %d mutator %d step %d: unknown kind %q", ri, mi, si, a.Kind)
				}
			}
		}
	}
	return acts, nil
}

// Phase A of a paused round normally ends when every call has returned or
// paused. The guard only keeps the harness from hanging on an implementation
// in which two updates cannot be in flight together; it decides no verdict.
const phaseAGuard = 300 * time.Millisecond

func (r *concRun) runMutators(rd *CRound, acts [][]cStep, start <-chan struct{}, started chan<- struct{}, wg *sync.WaitGroup) {
	for mi := range rd.Mutators {
		wg.Add(1)
		go func(mi int) {
			defer wg.Done()
			if start != nil {
				<-start
			}
			if started != nil {
				started <- struct{}{}
			}
			for si, a := range rd.Mutators[mi] {
				r.doAct(acts[mi][si], a.Kind)
			}
		}(mi)
	}
}

func (r *concRun) pausedRound(ri int, rd *CRound, acts [][]cStep) (calls []*callRun, releaseStamp int64) {
	n := len(rd.Calls)
	evCh := make(chan callEv, 2*n)
	release := make(chan struct{})
	for i := range rd.Calls {
		cr := r.newCall(ri, i, 0, &rd.Calls[i])
		cr.pauseAt, cr.evCh, cr.release = rd.Calls[i].PauseAt, evCh, release
		calls = append(calls, cr)
	}
	for _, cr := range calls {
		go func(cr *callRun) {
			r.invoke(cr)
			evCh <- callEv{cr.idx, false}
		}(cr)
	}
	arrived := make([]bool, n)
	nArrived, nDone := 0, 0
	guard := time.NewTimer(phaseAGuard)
phaseA:
	for nArrived < n {
		select {
		case ev := <-evCh:
			if !arrived[ev.idx] {
				arrived[ev.idx] = true
				nArrived++
			}
			if !ev.paused {
				nDone++
			}
		case <-guard.C:
			break phaseA
		}
	}
	guard.Stop()
	// Phase B: the mutators run while the paused calls are in flight.
	var wg sync.WaitGroup
	started := make(chan struct{}, len(rd.Mutators))
	r.runMutators(rd, acts, nil, started, &wg)
	for range rd.Mutators {
		<-started
	}
	mutDone := make(chan struct{})
	go func() { wg.Wait(); close(mutDone) }()
	wait := time.NewTimer(time.Duration(rd.WaitMicros) * time.Microsecond)
	select {
	case <-mutDone:
	case <-wait.C:
	}
	wait.Stop()
	releaseStamp = r.seq.Add(1)
	close(release)
	// Phase C: everything finishes.
	for nDone < n {
		if ev := <-evCh; !ev.paused {
			nDone++
		}
	}
	<-mutDone
	return calls, releaseStamp
}

func (r *concRun) freeRound(ri int, rd *CRound, acts [][]cStep) (calls []*callRun) {
	start := make(chan struct{})
	var wg sync.WaitGroup
	var mu sync.Mutex
	for i := range rd.Calls {
		wg.Add(1)
		go func(i int) {
			defer wg.Done()
			<-start
			rep := rd.Calls[i].Repeat
			if rep < 1 {
				rep = 1
			}
			var mine []*callRun
			for k := 0; k < rep; k++ {
				cr := r.newCall(ri, i, k, &rd.Calls[i])
				cr.yield = rd.Yield
				r.invoke(cr)
				mine = append(mine, cr)
			}
			mu.Lock()
			calls = append(calls, mine...)
			mu.Unlock()
		}(i)
	}
	r.runMutators(rd, acts, start, nil, &wg)
	close(start)
	wg.Wait()
	sort.Slice(calls, func(a, b int) bool {
		if calls[a].idx != calls[b].idx {
			return calls[a].idx < calls[b].idx
		}
		return calls[a].rep < calls[b].rep
	})
	return calls
}

// judge evaluates the calls of one round (or the audit call) at quiescence.
func (r *concRun) judge(calls []*callRun, releaseStamp int64) error {
	r.mu.Lock()
	foreign := append([]string{}, r.foreign...)
	r.mu.Unlock()
	if len(foreign) > 0 {
		return fmt.Errorf("%s", foreign[0])
	}
	r.derive()
	// registrations by client
	byClient := map[int][]*cHandle{}
	for _, h := range r.handles {
		if h.addCall != 0 {
			byClient[h.client] = append(byClient[h.client], h)
		}
	}
	var ids []int
	for c := range r.clients {
		ids = append(ids, c)
	}
	sort.Ints(ids)
	for _, cr := range calls {
		got := map[int]int{}
		for ei, ev := range cr.events {
			got[ev.client]++
			// never-after
			ok, anyCompat := false, false
			var lastGone *cHandle
			for _, h := range byClient[ev.client] {
				if !compatibleAny(h.path, cr.entries) {
					continue
				}
				anyCompat = true
				if h.addCall < ev.t && !(h.rmRet != 0 && h.rmRet < ev.t) {
					ok = true
					break
				}
				if h.rmRet != 0 && h.rmRet < ev.t && (lastGone == nil || h.rmRet > lastGone.rmRet) {
					lastGone = h
				}
			}
			if ok {
				continue
			}
			where := ""
			if cr.pausedEv >= 0 {
				where = fmt.Sprintf("; the call had paused inside its callback #%d (client %d) and was released at stamp %d", cr.pausedEv, cr.events[cr.pausedEv].client, releaseStamp)
			}
			switch {
			case !anyCompat:
				return fmt.Errorf("%s: client %d was invoked although it never registered a compatible path (its registrations: %s)", r.describeCall(cr), ev.client, r.describeRegs(byClient[ev.client]))
			case lastGone != nil:
				return fmt.Errorf("%s: client %d was invoked (callback #%d of the call, began at stamp %d) after its subscription had been removed: a call of the remove function of its last compatible registration #%d %q had RETURNED at stamp %d (%d call(s) of that function in all, the first began at %d)%s; registrations of the client: %s",
					r.describeCall(cr), ev.client, ei, ev.t, lastGone.id, lastGone.path, lastGone.rmRet, len(lastGone.calls), lastGone.rmCall, where, r.describeRegs(byClient[ev.client]))
			default:
				return fmt.Errorf("%s: client %d was invoked (callback began at stamp %d) before AddQuery for any compatible registration had been called; registrations of the client: %s", r.describeCall(cr), ev.client, ev.t, r.describeRegs(byClient[ev.client]))
			}
		}
		for _, c := range ids {
			// pairs (c, path) by state relative to the call
			type pairInfo struct{ certain, possible bool }
			pairs := map[string]*pairInfo{}
			for _, h := range byClient[c] {
				if !compatibleAny(h.path, cr.entries) {
					continue
				}
				k := key(h.path)
				pi := pairs[k]
				if pi == nil {
					pi = &pairInfo{}
					pairs[k] = pi
				}
				if h.addCall < cr.xe && !(h.rmRet != 0 && h.rmRet < cr.xs) {
					pi.possible = true
				}
				if h.addRet != 0 && h.addRet < cr.xs {
					undisturbed := true
					for _, h2 := range byClient[c] {
						if key(h2.path) != k {
							continue
						}
						// every single call of a remove function of the pair
						for _, rc := range h2.calls {
							if rc.call == 0 || rc.call > cr.xe || (rc.ret != 0 && rc.ret < h.addCall) {
								continue
							}
							undisturbed = false
						}
					}
					if undisturbed {
						pi.certain = true
					}
				}
			}
			certain, possible := 0, 0
			var certainPaths []string
			for k, pi := range pairs {
				if pi.certain {
					certain++
					certainPaths = append(certainPaths, fmt.Sprintf("%q", unkey(k)))
				}
				if pi.possible {
					possible++
				}
			}
			sort.Strings(certainPaths)
			g := got[c]
			switch {
			case cr.once && certain > 0 && g == 0:
				return fmt.Errorf("%s: client %d was not offered the notification although its registration(s) %v were added before the call began and nobody started to remove them until it returned (other registrations were removed/added meanwhile)", r.describeCall(cr), c, certainPaths)
			case cr.once && g > 1:
				return fmt.Errorf("%s: one notification was offered %d times to client %d (registrations: %s)", r.describeCall(cr), g, c, r.describeRegs(byClient[c]))
			case !cr.once && g < certain:
				return fmt.Errorf("%s: client %d was invoked %d time(s), but %d of its registrations %v were added before the call began and nobody started to remove them until it returned", r.describeCall(cr), c, g, certain, certainPaths)
			case !cr.once && g > possible:
				return fmt.Errorf("%s: client %d was invoked %d times, but only %d compatible registrations of it can have existed at any time during the call (registrations: %s)", r.describeCall(cr), c, g, possible, r.describeRegs(byClient[c]))
			}
		}
	}
	return nil
}

func (r *concRun) describeRegs(hs []*cHandle) string {
	var out []string
	for _, h := range hs {
		s := fmt.Sprintf("#%d %q add[%d,%d]", h.id, h.path, h.addCall, h.addRet)
		for _, rc := range h.calls {
			if rc.call != 0 {
				s += fmt.Sprintf(" remove[%d,%d]", rc.call, rc.ret)
			}
		}
		out = append(out, s)
	}
	if len(out) == 0 {
		return "none"
	}
	return fmt.Sprint(out)
}

// classifyRepeats: labels about repeated calls of h's remove function up to round ri.
func (r *concRun) classifyRepeats(h *cHandle, ri int) {
	st := &r.st
	for _, rc := range h.calls {
		if rc.round != ri || rc.call == 0 {
			continue
		}
		for _, prev := range h.calls {
			if prev == rc || prev.ret == 0 || prev.ret > rc.call {
				continue
			}
			// rc began after an earlier call of the same function had returned
			st.calledAgain = true
			for _, h2 := range r.handles {
				if h2 != h && h2.client == h.client && key(h2.path) == key(h.path) && h2.addCall > prev.ret && h2.addRet != 0 && h2.addRet < rc.call {
					st.staleAfterReadd = true
				}
			}
		}
	}
}

// classify fills the labels for one judged round.
func (r *concRun) classify(rd *CRound, calls []*callRun, releaseStamp int64, ri int) {
	st := &r.st
	nPaused := 0
	var firstPause int64
	for _, cr := range calls {
		if cr.once {
			st.notifyCall = true
			if len(cr.entries) > 1 {
				st.multiEntry = true
			}
		} else {
			st.rawCall = true
		}
		for _, e := range cr.entries {
			if hasGlob(e) {
				st.glob = true
			}
		}
		// A call that reached its pause point only after the release (the
		// phase A guard fired first) was never held: it does not count.
		if cr.pausedEv >= 0 && cr.events[cr.pausedEv].t < releaseStamp {
			nPaused++
			st.callPaused = true
			if cr.pausedEv > 0 {
				st.pausedLater = true
			}
			if firstPause == 0 || cr.events[cr.pausedEv].t < firstPause {
				firstPause = cr.events[cr.pausedEv].t
			}
		}
	}
	if nPaused >= 2 {
		st.multiPaused = true
	}
	if rd.Mode == "paused" && nPaused == 0 {
		st.noPauseNeeded = true
	}
	for _, h := range r.handles {
		if hasGlob(h.path) {
			st.glob = true
		}
		if h.createdRound == ri && nPaused > 0 && h.addCall != 0 && h.addCall < releaseStamp && h.addCall > firstPause {
			st.addDuringPause = true
		}
		// calls of h's remove function made in this round: the earliest begin
		// and the earliest return (the existing labels read them as "the"
		// removal, which they are when the function is called once)
		rmCall, rmRet, nCalls := h.inRound(ri)
		if nCalls == 0 {
			// a registration removed earlier and compatible with a call of this round
			if h.returnedBefore(ri) {
				for _, cr := range calls {
					if compatibleAny(h.path, cr.entries) {
						st.removedNotCalled = true
					}
				}
			}
			continue
		}
		r.classifyRepeats(h, ri)
		// calls of the same remove function whose [begin, return] intervals intersect
		overlapping := false
		var ovBegin, ovEnd int64 // the common part of two overlapping calls
		for i, a := range h.calls {
			for _, b := range h.calls[i+1:] {
				if a.round != ri || b.round != ri || a.call == 0 || b.call == 0 || a.mutator == b.mutator {
					continue
				}
				lo, hi := max(a.call, b.call), min(a.ret, b.ret)
				if lo < hi {
					overlapping = true
					if ovBegin == 0 || lo < ovBegin {
						ovBegin = lo
					}
					ovEnd = max(ovEnd, hi)
				}
			}
		}
		if overlapping {
			st.sameRemoveOverlaps = true
		}
		if rd.Mode == "free" {
			for _, cr := range calls {
				if compatibleAny(h.path, cr.entries) && cr.xs < rmRet && rmCall < cr.xe && len(cr.events) > 0 {
					st.raceInFree = true
					if overlapping && cr.xs < ovEnd && ovBegin < cr.xe {
						st.gangInFree = true
					}
				}
			}
			continue
		}
		if nPaused == 0 || rmCall > releaseStamp || rmCall < firstPause {
			continue
		}
		st.removeDuringPause = true
		if rmRet > releaseStamp {
			st.removeWaited = true
		}
		// how many calls of this one remove function began while a call was paused
		nDuring, nWaited := 0, 0
		for _, rc := range h.calls {
			if rc.round == ri && rc.call > firstPause && rc.call < releaseStamp {
				nDuring++
				if rc.ret > releaseStamp {
					nWaited++
				}
			}
		}
		if nDuring >= 2 {
			st.gangDuringPause = true
			if nWaited == nDuring {
				st.gangAllWaited = true
			}
		}
		for _, cr := range calls {
			if cr.pausedEv < 0 || cr.events[cr.pausedEv].t > rmCall || !compatibleAny(h.path, cr.entries) || h.addRet == 0 || h.addRet > cr.xs {
				continue
			}
			before, after := false, false
			others := false
			for ei, ev := range cr.events {
				if ev.client == h.client {
					if ei <= cr.pausedEv {
						before = true
					} else {
						after = true
					}
				} else if ei > cr.pausedEv {
					for _, h2 := range r.handles {
						if h2.client == ev.client && key(h2.path) == key(h.path) && h2.addCall != 0 && h2.addCall < cr.xs {
							others = true
						}
					}
				}
			}
			if !before {
				st.window = true
				st.nontrivial = true
				if after {
					st.calledAfterRelease = true
				}
				if nDuring >= 2 {
					st.gangWindow = true
					st.multiNontrivial = true
					if after {
						st.gangCalledAfterRelease = true
					}
				}
				if others {
					st.survivorSamePath = true
				}
			}
		}
	}
}

// runConc executes sc on a fresh match.Match.
func runConc(sc *ConcScenario) (st concStats, err error) {
	r := &concRun{m: match.New(), clients: map[int]*cClient{}}
	acts, perr := r.plan(sc)
	if perr != nil {
		return st, perr
	}
	seenPair := map[pairKey]int{} // pair -> 1 live, 2 removed before
	notePair := func(h *cHandle) {
		k := pairKey{h.client, key(h.path)}
		switch seenPair[k] {
		case 1:
			r.st.dupPair = true
		case 2:
			r.st.readd = true
		}
		seenPair[k] = 1
	}
	for i := range sc.Regs {
		r.doAct(cStep{h: r.handles[i]}, "add")
		notePair(r.handles[i])
	}
	for ri := range sc.Rounds {
		rd := &sc.Rounds[ri]
		var calls []*callRun
		var releaseStamp int64
		if rd.Mode == "paused" {
			r.st.pausedRound = true
			calls, releaseStamp = r.pausedRound(ri, rd, acts[ri])
		} else {
			r.st.freeRound = true
			calls = r.freeRound(ri, rd, acts[ri])
		}
		if err := r.judge(calls, releaseStamp); err != nil {
			return r.st, err
		}
		r.classify(rd, calls, releaseStamp, ri)
		// label bookkeeping in scenario order (labels only)
		for mi, mut := range rd.Mutators {
			for si, a := range mut {
				h := acts[ri][mi][si].h
				if a.Kind == "add" {
					notePair(h)
				} else {
					seenPair[pairKey{h.client, key(h.path)}] = 2
				}
			}
		}
	}
	// Audit at quiescence: an update with the empty path reaches every
	// registration; then every registration is removed and nobody is reached.
	audit := &CCall{Path: []string{}, PauseAt: -1}
	cr := r.newCall(len(sc.Rounds), 0, 0, audit)
	r.invoke(cr)
	if err := r.judge([]*callRun{cr}, 0); err != nil {
		return r.st, fmt.Errorf("audit after the last round: %v", err)
	}
	r.derive()
	for _, h := range r.handles {
		if h.addCall != 0 && h.rmCall == 0 {
			rc := &rmCall{round: len(sc.Rounds), mutator: -1}
			h.calls = append(h.calls, rc)
			r.doAct(cStep{h: h, rc: rc}, "remove")
		}
	}
	cr = r.newCall(len(sc.Rounds)+1, 0, 0, audit)
	r.invoke(cr)
	if err := r.judge([]*callRun{cr}, 0); err != nil {
		return r.st, fmt.Errorf("audit after every registration was removed: %v", err)
	}
	return r.st, nil
}
