package matchprop

import (
	"fmt"
	"sort"

	"github.com/openconfig/gnmi/match"
	"github.com/openconfig/gnmi/subscribe"
)

// Op is one step of a match-level scenario (plain data).
//
//	add      remove := m.AddQuery(Path, client)           -> new handle
//	sublist  the registrations the server makes for List   -> new handle
//	remove   call the remove func of handle Reg (mod the number of handles so
//	         far); calling it again later is the idempotence check
//	update   m.Update(token, Path)
//	notify   subscribe.UpdateNotification(m, token, Notif, Prefix)
type Op struct {
	Kind   string   `json:"kind"`
	Client int      `json:"client,omitempty"`
	Path   []string `json:"path,omitempty"`
	List   *SubList `json:"list,omitempty"`
	Reg    int      `json:"reg,omitempty"`
	Notif  *Notif   `json:"notif,omitempty"`
	Prefix []string `json:"prefix,omitempty"`
	// Spare is extra capacity given to the prefix slice handed to
	// UpdateNotification (the callee appends to it).
	Spare int `json:"spare,omitempty"`
}

// Scenario is a sequence of operations on one fresh match.Match.
type Scenario struct {
	Ops []Op `json:"ops"`
}

type hit struct {
	client int
	v      interface{}
}

// recClient is the match.Client whose invocations are the observation.
type recClient struct {
	id   int
	sink *[]hit
}

func (c *recClient) Update(v interface{}) { *c.sink = append(*c.sink, hit{c.id, v}) }

type token struct{ call int }

// registerList is the harness's RE-IMPLEMENTATION of the unexported
// subscribe.addSubscription: one AddQuery per subscription that has a path,
// at refQuery(prefix, path); the returned func calls every remove. It exists
// so that the match-level part sees registrations shaped like the server's
// (target/origin first, keyed elements flattened); it does NOT test
// addSubscription itself - the server part (server.go) drives the real one
// through subscribe.Server.Subscribe. Unlike the original it copies the query
// slice for every subscription.
func registerList(m *match.Match, l *SubList, c match.Client) (paths [][]string, remove func()) {
	var removes []func()
	for _, g := range l.Subs {
		if g == nil {
			g = &GPath{}
		}
		q := refQuery(l.Prefix, g)
		paths = append(paths, q)
		removes = append(removes, m.AddQuery(clonePath(q), c))
	}
	return paths, func() {
		for _, r := range removes {
			r()
		}
	}
}

// The model: which (client, path) registrations are live. AddQuery is a set
// insert per (client, path): a second handle for the same pair adds nothing,
// and the property does not say whether removing ONE of two handles for the
// same pair ends the registration (the code under test says it does; the
// server never does this: one matchClient per RPC, each remove called once).
// That state is "maybe" and the oracle accepts either behaviour for it until
// it is resolved (all handles removed: certainly gone; registered again:
// certainly present).
type regState int

const (
	regNo regState = iota
	regYes
	regMaybe
)

type handle struct {
	client  int
	paths   []string // keys, one per AddQuery made through this handle
	removed bool
	remove  func()
}

type pairKey struct {
	client int
	path   string
}

type seqModel struct {
	handles []*handle
	live    map[pairKey]int
	maybe   map[pairKey]bool
}

func (m *seqModel) add(client int, paths [][]string, remove func()) {
	h := &handle{client: client, remove: remove}
	for _, p := range paths {
		k := pairKey{client, key(p)}
		h.paths = append(h.paths, k.path)
		m.live[k]++
		delete(m.maybe, k)
	}
	m.handles = append(m.handles, h)
}

// removeHandle models one call of a handle's remove func. A remove func
// deletes the pair (client, path) whenever it is called, so a repeated call
// after the same pair was registered again through another handle is the same
// don't-care situation as removing one of two handles.
func (m *seqModel) removeHandle(h *handle) {
	first := !h.removed
	h.removed = true
	for _, p := range h.paths {
		k := pairKey{h.client, p}
		if first {
			m.live[k]--
		}
		if m.live[k] <= 0 {
			delete(m.live, k)
			delete(m.maybe, k)
		} else {
			m.maybe[k] = true
		}
	}
}

func (m *seqModel) state(k pairKey) regState {
	switch {
	case m.live[k] <= 0:
		return regNo
	case m.maybe[k]:
		return regMaybe
	}
	return regYes
}

// perClient summarises one call for one client.
type perClient struct {
	certain, maybe, incompatible int // distinct registered paths by relation to the call
}

func (m *seqModel) analyse(entries [][]string) map[int]*perClient {
	out := map[int]*perClient{}
	for k := range m.live {
		pc := out[k.client]
		if pc == nil {
			pc = &perClient{}
			out[k.client] = pc
		}
		switch {
		case !compatibleAny(unkey(k.path), entries):
			pc.incompatible++
		case m.state(k) == regYes:
			pc.certain++
		default:
			pc.maybe++
		}
	}
	return out
}

type seqStats struct {
	nontrivial                                                  bool
	mixed, multiCompat, singleEntry, multiEntry                 bool
	globQuery, globUpdate, implicitRecursion, queryShorter      bool
	removeTwice, fullyRemovedSkipped, sharedPathSurvivor        bool
	dupRegistration, ambiguous, sublist, pathOrigin, prefOrigin bool
	keys, legacy, multiRawInvoke, nobodyCompatible, rootQuery   bool
	excluded                                                    int
	// the classes added with the odd strings / derived paths / sizes
	oddString, emptyString, twins, twinsInList, oddHit                bool
	bigList, repeatInList, bigNotif, hugeNotif, longPath, crowd, many bool
	// container shapes (atomic.go)
	atoms atomStats
}

func (s seqStats) labels() []string {
	var l []string
	add := func(b bool, n string) {
		if b {
			l = append(l, n)
		}
	}
	add(s.nontrivial, "nontrivial")
	add(s.mixed, "call-with-compatible-and-incompatible-registrations")
	add(s.multiCompat, "client-with-2plus-compatible-registrations")
	add(s.singleEntry, "notify-single-entry")
	add(s.multiEntry, "notify-multi-entry")
	add(s.globQuery, "compatible-through-query-glob")
	add(s.globUpdate, "compatible-through-update-glob")
	add(s.implicitRecursion, "update-path-shorter-than-query")
	add(s.queryShorter, "query-shorter-than-update-path")
	add(s.removeTwice, "remove-called-twice")
	add(s.fullyRemovedSkipped, "fully-removed-client-would-have-matched")
	add(s.sharedPathSurvivor, "other-client-at-same-path-still-offered")
	add(s.dupRegistration, "same-client-path-registered-twice")
	add(s.ambiguous, "one-of-two-handles-removed-dont-care")
	add(s.sublist, "server-shaped-registration")
	add(s.pathOrigin, "subscription-path-origin")
	add(s.prefOrigin, "subscription-prefix-origin")
	add(s.keys, "keyed-element")
	add(s.legacy, "legacy-element-encoding")
	add(s.multiRawInvoke, "raw-update-invoked-client-more-than-once")
	add(s.nobodyCompatible, "call-with-no-compatible-registration")
	add(s.rootQuery, "registration-at-root")
	add(s.excluded > 0, "known-class-excluded")
	add(s.oddString, "index-string-with-joiner-or-odd")
	add(s.emptyString, "empty-index-string")
	add(s.twins, "twin-paths-registered")
	add(s.twinsInList, "twin-paths-in-one-list")
	add(s.oddHit, "odd-registration-compatible-with-a-call")
	add(s.bigList, "list-with-20plus-paths")
	add(s.repeatInList, "list-repeats-a-path")
	add(s.bigNotif, "notification-with-5plus-entries")
	add(s.hugeNotif, "notification-with-65plus-entries")
	add(s.longPath, "path-with-6plus-elements")
	add(s.crowd, "path-registered-by-3plus-clients")
	add(s.many, "50plus-live-registrations")
	return append(l, s.atoms.labels()...)
}

// sizeFlags notes the size/alphabet classes of the registered paths of a scenario.
type regCensus struct {
	all     [][]string
	clients map[string]map[int]bool
}

func (rc *regCensus) add(client int, p []string) {
	rc.all = append(rc.all, p)
	if rc.clients == nil {
		rc.clients = map[string]map[int]bool{}
	}
	k := key(p)
	if rc.clients[k] == nil {
		rc.clients[k] = map[int]bool{}
	}
	rc.clients[k][client] = true
}

func (rc *regCensus) flags() (odd, empty, twin, long, crowd bool) {
	for _, p := range rc.all {
		if anyOdd(p) {
			odd = true
		}
		for _, e := range p {
			if e == "" {
				empty = true
			}
		}
		if len(p) >= 6 {
			long = true
		}
	}
	for _, cs := range rc.clients {
		if len(cs) >= 3 {
			crowd = true
		}
	}
	return odd, empty, twins(rc.all), long, crowd
}

// listFlags: does one list name 20+ paths, repeat a path, contain twins?
func listFlags(l *SubList) (big, repeat, twin bool) {
	var qs [][]string
	n := 0
	for _, g := range l.Subs {
		if g != nil {
			n++
			qs = append(qs, refQuery(l.Prefix, g))
		}
	}
	return n >= 20, len(refQueries(l)) < n, twins(qs)
}

func gpathFlags(st *seqStats, g *GPath) {
	if g == nil {
		return
	}
	if g.Legacy && len(g.Elems) > 0 {
		st.legacy = true
	}
	for _, e := range g.Elems {
		if len(e.Keys) > 0 && !g.Legacy {
			st.keys = true
		}
	}
}

// runSeq executes sc on a fresh match.Match and the model side by side.
// open lists the known-finding classes to exclude (nil: demand everything).
func runSeq(sc *Scenario, open map[string]bool) (st seqStats, err error) {
	defer func() {
		if r := recover(); r != nil {
			err = fmt.Errorf("panic: %v", r)
		}
	}()
	m := match.New()
	mod := &seqModel{live: map[pairKey]int{}, maybe: map[pairKey]bool{}}
	var hits []hit
	clients := map[int]*recClient{}
	client := func(id int) *recClient {
		if clients[id] == nil {
			clients[id] = &recClient{id: id, sink: &hits}
		}
		return clients[id]
	}
	var rc regCensus
	defer func() {
		odd, empty, twin, long, crowd := rc.flags()
		st.oddString, st.emptyString, st.twins, st.crowd = st.oddString || odd, st.emptyString || empty, twin, crowd
		st.longPath = st.longPath || long
	}()
	// clients whose every registration was removed (for the label only)
	everRegistered := map[int][]string{}
	removedAt := map[string]bool{} // path keys where some client's registration was removed

	check := func(i int, op Op, entries [][]string, tok *token, once bool) error {
		count := map[int]int{}
		for _, h := range hits {
			if h.v != interface{}(tok) {
				return fmt.Errorf("op %d %s: client %d was handed %v, not the value passed to the call", i, op.Kind, h.client, h.v)
			}
			count[h.client]++
		}
		an := mod.analyse(entries)
		if op.Notif != nil {
			var certain [][]string
			for k := range mod.live {
				if mod.state(k) == regYes {
					certain = append(certain, unkey(k.path))
				}
			}
			st.atoms.see(op.Notif, op.Prefix, entries, certain, false)
		}
		ids := map[int]bool{}
		for c := range an {
			ids[c] = true
		}
		for c := range count {
			ids[c] = true
		}
		var sorted []int
		for c := range ids {
			sorted = append(sorted, c)
		}
		sort.Ints(sorted)
		anyCompat, anyIncompat, anyMulti := false, false, false
		for _, c := range sorted {
			pc := an[c]
			if pc == nil {
				pc = &perClient{}
			}
			got := count[c]
			if pc.certain > 0 {
				anyCompat = true
			}
			if pc.incompatible > 0 {
				anyIncompat = true
			}
			if pc.certain >= 2 {
				anyMulti = true
			}
			if pc.maybe > 0 {
				st.ambiguous = true
			}
			describe := func() string {
				var regs []string
				for k := range mod.live {
					if k.client == c {
						regs = append(regs, fmt.Sprintf("%q", unkey(k.path)))
					}
				}
				sort.Strings(regs)
				return fmt.Sprintf("client %d (live registrations %v) against entry paths %q", c, regs, entries)
			}
			switch {
			case pc.certain == 0 && pc.maybe == 0:
				if got != 0 {
					return fmt.Errorf("op %d %s: invoked %d time(s) although no live registration is compatible: %s", i, op.Kind, got, describe())
				}
			case pc.certain > 0 && got == 0:
				return fmt.Errorf("op %d %s: not invoked although a live registration is compatible: %s", i, op.Kind, describe())
			}
			if once && got > 1 {
				if open[ClassSingleEntryDouble] && len(entries) == 1 && pc.certain+pc.maybe >= 2 {
					st.excluded++
				} else {
					return fmt.Errorf("op %d notify (%d entr%s): offered %d times to %s", i, len(entries), map[bool]string{true: "y", false: "ies"}[len(entries) == 1], got, describe())
				}
			}
			if !once && got > 1 {
				st.multiRawInvoke = true
			}
		}
		for c, past := range everRegistered {
			if an[c] != nil {
				continue
			}
			for _, k := range past {
				if compatibleAny(unkey(k), entries) {
					st.fullyRemovedSkipped = true // and count[c]==0 was demanded above
				}
			}
		}
		if anyCompat && anyIncompat {
			st.mixed = true
		}
		if anyMulti {
			st.multiCompat = true
		}
		if anyCompat && anyIncompat && anyMulti {
			st.nontrivial = true
		}
		if !anyCompat {
			st.nobodyCompatible = true
		}
		if len(mod.live) >= 50 {
			st.many = true
		}
		if len(entries) >= 5 {
			st.bigNotif = true
		}
		if len(entries) >= bigEntries {
			st.hugeNotif = true
		}
		for _, p := range entries {
			if anyOdd(p) {
				st.oddString = true
			}
			if len(p) >= 6 {
				st.longPath = true
			}
		}
		// classes of compatibility exercised, and the survivor label
		for k := range mod.live {
			q := unkey(k.path)
			if mod.state(k) != regYes {
				continue
			}
			for _, p := range entries {
				if !Compatible(q, p) {
					continue
				}
				n := len(q)
				if len(p) < n {
					n = len(p)
					st.implicitRecursion = true
				} else if len(q) < len(p) {
					st.queryShorter = true
				}
				for j := 0; j < n; j++ {
					if q[j] == Glob && p[j] != Glob {
						st.globQuery = true
					}
					if p[j] == Glob && q[j] != Glob {
						st.globUpdate = true
					}
				}
				if removedAt[k.path] {
					st.sharedPathSurvivor = true
				}
				if anyOdd(q[:n]) {
					st.oddHit = true
				}
			}
		}
		return nil
	}

	for i, op := range sc.Ops {
		hits = hits[:0]
		switch op.Kind {
		case "add":
			k := pairKey{op.Client, key(op.Path)}
			if mod.live[k] > 0 {
				st.dupRegistration = true
			}
			if len(op.Path) == 0 {
				st.rootQuery = true
			}
			rc.add(op.Client, op.Path)
			rm := m.AddQuery(clonePath(op.Path), client(op.Client))
			mod.add(op.Client, [][]string{op.Path}, rm)
			everRegistered[op.Client] = append(everRegistered[op.Client], k.path)
		case "sublist":
			if op.List == nil {
				return st, fmt.Errorf("op %d: sublist without list", i)
			}
			st.sublist = true
			if op.List.Prefix != nil && op.List.Prefix.Origin != "" {
				st.prefOrigin = true
			}
			gpathFlags(&st, op.List.Prefix)
			for _, g := range op.List.Subs {
				gpathFlags(&st, g)
				if g != nil && g.Origin != "" {
					st.pathOrigin = true
				}
			}
			paths, rm := registerList(m, op.List, client(op.Client))
			if big, rep, tw := listFlags(op.List); big || rep || tw {
				st.bigList, st.repeatInList, st.twinsInList = st.bigList || big, st.repeatInList || rep, st.twinsInList || tw
			}
			seen := map[string]bool{}
			for _, p := range paths {
				rc.add(op.Client, p)
				k := pairKey{op.Client, key(p)}
				if mod.live[k] > 0 || seen[k.path] {
					st.dupRegistration = true
				}
				seen[k.path] = true
				everRegistered[op.Client] = append(everRegistered[op.Client], k.path)
			}
			mod.add(op.Client, paths, rm)
		case "remove":
			if len(mod.handles) == 0 {
				break
			}
			h := mod.handles[op.Reg%len(mod.handles)]
			if h.removed {
				st.removeTwice = true
			} else {
				for _, p := range h.paths {
					removedAt[p] = true
				}
			}
			h.remove()
			mod.removeHandle(h)
		case "update":
			tok := &token{i}
			m.Update(tok, clonePath(op.Path))
			if err := check(i, op, [][]string{op.Path}, tok, false); err != nil {
				return st, err
			}
		case "notify":
			if op.Notif == nil || op.Notif.entries() == 0 {
				return st, fmt.Errorf("op %d: notify without entries", i)
			}
			for j := range op.Notif.Updates {
				gpathFlags(&st, &op.Notif.Updates[j])
			}
			for j := range op.Notif.Deletes {
				gpathFlags(&st, &op.Notif.Deletes[j])
			}
			if op.Notif.entries() == 1 {
				st.singleEntry = true
			} else {
				st.multiEntry = true
			}
			tok := &token{i}
			prefix := make([]string, len(op.Prefix), len(op.Prefix)+op.Spare)
			copy(prefix, op.Prefix)
			subscribe.UpdateNotification(m, tok, op.Notif.proto(int64(i), nil), prefix)
			if key(prefix) != key(op.Prefix) {
				return st, fmt.Errorf("op %d notify: the caller's prefix %q was changed to %q", i, op.Prefix, prefix)
			}
			if err := check(i, op, op.Notif.entryPaths(op.Prefix), tok, true); err != nil {
				return st, err
			}
		default:
			return st, fmt.Errorf("op %d: unknown kind %q", i, op.Kind)
		}
		if op.Kind != "update" && op.Kind != "notify" && len(hits) != 0 {
			return st, fmt.Errorf("op %d %s invoked client callbacks: %d", i, op.Kind, len(hits))
		}
	}
	return st, nil
}
