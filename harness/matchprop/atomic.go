package matchprop

import (
	"context"
	"encoding/json"
	"fmt"
	"net"
	"sort"
	"sync"
	"testing"
	"testing/synctest"

	"github.com/openconfig/gnmi/cache"
	pb "github.com/openconfig/gnmi/proto/gnmi"
	"github.com/openconfig/gnmi/subscribe"
	"google.golang.org/grpc"
	"google.golang.org/grpc/peer"
)

// The atomic part: CONTAINER notifications - a prefix of 0-3 elements and 1-5
// updates below it, atomic or not - against subscribers placed RELATIVE to the
// container: at its prefix, above it, strictly below it on a path some update
// touches, strictly below it on a path NO update touches (a sibling of an
// updated member, deeper than it after diverging, another key value), outside.
//
// An atomic notification is stored (cache: one leaf at the prefix) and
// delivered (one response) as a unit; WHETHER it is offered is the property's
// ordinary rule: the subscriber has a path that agrees with prefix+path of at
// least one contained update or delete. The reference is compatibleAny over
// Notif.entryPaths - the relation of the statement, nothing taken from the
// code under test.
//
// One scenario (the server part's language, SrvScenario, with Notif.Atomic)
// is judged at three layers:
//
//	match   registrations made like the server's + subscribe.UpdateNotification
//	        (runSeq: invoked iff compatible, once per notification)
//	server  the real Server.Subscribe / Server.Update with harness-owned leaves
//	        (runServer: offers counted per subscriber, trie census)
//	cache   a real cache.Cache feeding the real server (SetClient(srv.Update)):
//	        the notification goes through Cache.GnmiUpdate, which stores an
//	        atomic one as ONE leaf at its prefix (runCache below)
//
// The cache layer asserts only what the property states:
//
//	O1 (only if, observation side) every notification that reaches a
//	   subscriber's stream - streamed, from the initial walk of a STREAM
//	   subscription or from a ONCE query - has an update or delete whose
//	   prefix+path agrees with one of the subscriber's paths. (For query
//	   results this is the statement's "every leaf a query for that path would
//	   return is also streamed", read from the leaf's side.)
//	O2 (if, exactly once) a notification the cache ACCEPTED (GnmiUpdate
//	   returned nil; the harness feeds non-atomic updates one by one so that
//	   one call is one notification) is offered exactly once to every live
//	   STREAM subscriber with a compatible path and not at all to the others.
//
// What the cache does with a notification it rejects (atomic with deletes, a
// leaf in the way, an empty path) and which leaves a delete removes is not
// C06's business: there only O1 applies.

// atomStats are the classes of the container shapes, computed from the
// scenario and the reference relation (never from the generator's intent).
type atomStats struct {
	atomic, atomicMulti, atomicFive, atomicEmptyPath, atomicDeletes, atomicOnlyDeletes bool
	atomicKeyed                                                                        bool
	prefixLen                                                                          [4]bool // 0, 1, 2, 3+ index strings after the target
	atOrAbove, belowTouched, belowUntouched, outside                                   bool
	untouchedSibling, untouchedDeeper                                                  bool
	plainBelowUntouched                                                                bool // the same placement under a NON-atomic container (control)
	full                                                                               bool
}

// see classifies the live subscription paths against one notification.
// prefix is the index path of the notification's prefix (target first when the
// layer has one), entries = prefix + every update/delete path.
func (a *atomStats) see(n *Notif, prefix []string, entries [][]string, queries [][]string, hasTarget bool) {
	var above, touched, untouched bool
	for _, q := range queries {
		switch {
		case !Compatible(q, prefix):
			if n.Atomic {
				a.outside = true
			}
		case len(q) <= len(prefix):
			above = true
		case compatibleAny(q, entries):
			touched = true
		default:
			untouched = true
			if !n.Atomic {
				a.plainBelowUntouched = true
				break
			}
			// why untouched: same depth as an entry it shares all but the last string with
			// (sibling / other key value), or it runs past an entry's end after diverging
			for _, e := range entries {
				if len(q) == len(e) && len(e) > len(prefix) && Compatible(q[:len(q)-1], e[:len(e)-1]) {
					a.untouchedSibling = true
				}
				if len(q) > len(e) {
					a.untouchedDeeper = true
				}
			}
		}
	}
	if !n.Atomic {
		return
	}
	a.atomic = true
	if len(n.Updates) >= 2 {
		a.atomicMulti = true
	}
	if len(n.Updates) >= 5 {
		a.atomicFive = true
	}
	if len(n.Deletes) > 0 {
		a.atomicDeletes = true
		if len(n.Updates) == 0 {
			a.atomicOnlyDeletes = true
		}
	}
	for i := range n.Updates {
		if len(n.Updates[i].Elems) == 0 {
			a.atomicEmptyPath = true
		}
		for _, e := range n.Updates[i].Elems {
			if len(e.Keys) > 0 && !n.Updates[i].Legacy {
				a.atomicKeyed = true
			}
		}
	}
	pl := len(prefix)
	if hasTarget && pl > 0 {
		pl--
	}
	if pl > 3 {
		pl = 3
	}
	a.prefixLen[pl] = true
	a.atOrAbove = a.atOrAbove || above
	a.belowTouched = a.belowTouched || touched
	a.belowUntouched = a.belowUntouched || untouched
	if len(n.Updates) >= 2 && above && touched && untouched {
		a.full = true
	}
}

func (a atomStats) labels() []string {
	var l []string
	add := func(b bool, n string) {
		if b {
			l = append(l, n)
		}
	}
	add(a.atomic, "atomic-notification")
	add(a.atomicMulti, "atomic-with-2plus-updates")
	add(a.atomicFive, "atomic-with-5plus-updates")
	add(a.atomicEmptyPath, "atomic-update-with-empty-path")
	add(a.atomicDeletes, "atomic-with-deletes")
	add(a.atomicOnlyDeletes, "atomic-with-deletes-only")
	add(a.atomicKeyed, "atomic-update-with-keyed-element")
	add(a.prefixLen[0], "atomic-prefix-0-strings")
	add(a.prefixLen[1], "atomic-prefix-1-string")
	add(a.prefixLen[2], "atomic-prefix-2-strings")
	add(a.prefixLen[3], "atomic-prefix-3plus-strings")
	add(a.atOrAbove, "atomic-subscriber-at-or-above-prefix")
	add(a.belowTouched, "atomic-subscriber-below-prefix-on-touched-path")
	add(a.belowUntouched, "atomic-subscriber-below-prefix-on-untouched-path")
	add(a.untouchedSibling, "atomic-untouched-subscriber-is-sibling-or-other-key")
	add(a.untouchedDeeper, "atomic-untouched-subscriber-runs-past-a-member")
	add(a.outside, "atomic-subscriber-outside-prefix")
	add(a.plainBelowUntouched, "plain-container-subscriber-below-prefix-on-untouched-path")
	add(a.full, "atomic-2plus-updates-with-above-touched-and-untouched-subscribers")
	return l
}

// toMatchLevel projects a server-level scenario onto the match level: every
// Subscribe becomes the registrations the server makes for its list, every RPC
// end the call of their remove functions, every notification a call of
// subscribe.UpdateNotification with the notification's indexed prefix.
func toMatchLevel(sc *SrvScenario) *Scenario {
	out := &Scenario{}
	handles := 0
	liveHandle := map[int]int{}
	for i, op := range sc.Ops {
		switch op.Kind {
		case "sub":
			if op.List == nil {
				continue
			}
			if h, ok := liveHandle[op.Client]; ok {
				out.Ops = append(out.Ops, Op{Kind: "remove", Reg: h})
			}
			out.Ops = append(out.Ops, Op{Kind: "sublist", Client: op.Client, List: op.List})
			liveHandle[op.Client] = handles
			handles++
		case "end":
			if h, ok := liveHandle[op.Client]; ok {
				out.Ops = append(out.Ops, Op{Kind: "remove", Reg: h})
				delete(liveHandle, op.Client)
			}
		case "notify":
			if op.Notif == nil || op.NPrefix == nil {
				continue
			}
			out.Ops = append(out.Ops, Op{Kind: "notify", Prefix: refIndex(op.NPrefix, true), Notif: op.Notif, Spare: i % 3})
		}
	}
	return out
}

// protoIndex is the harness's statement of the documented indexing of a
// gnmi.Path on the wire (as refIndex is for scenario data): element names in
// order, each followed by its key values ordered by key name; the deprecated
// string elements when there are no structured ones; target and origin first
// when asked for and non-empty.
func protoIndex(p *pb.Path, withTargetOrigin bool) []string {
	out := []string{}
	if p == nil {
		return out
	}
	if withTargetOrigin {
		if p.GetTarget() != "" {
			out = append(out, p.GetTarget())
		}
		if p.GetOrigin() != "" {
			out = append(out, p.GetOrigin())
		}
	}
	if len(p.GetElem()) == 0 {
		return append(out, p.GetElement()...)
	}
	for _, e := range p.GetElem() {
		out = append(out, e.GetName())
		ks := make([]string, 0, len(e.GetKey()))
		for k := range e.GetKey() {
			ks = append(ks, k)
		}
		sort.Strings(ks)
		for _, k := range ks {
			out = append(out, e.GetKey()[k])
		}
	}
	return out
}

// seen is one notification that reached a stream.
type seen struct {
	ts      int64
	atomic  bool
	prefix  []string
	entries [][]string
}

// capStream is an in-memory Subscribe stream that keeps what was sent.
type capStream struct {
	grpc.ServerStream
	ctx    context.Context
	cancel context.CancelFunc
	req    *pb.SubscribeRequest
	done   chan error

	mu    sync.Mutex
	recvd bool
	got   []seen
}

func (s *capStream) Context() context.Context { return s.ctx }

func (s *capStream) Send(r *pb.SubscribeResponse) error {
	n := r.GetUpdate()
	if n == nil {
		return nil
	}
	x := seen{ts: n.GetTimestamp(), atomic: n.GetAtomic(), prefix: protoIndex(n.GetPrefix(), true)}
	for _, u := range n.GetUpdate() {
		x.entries = append(x.entries, append(clonePath(x.prefix), protoIndex(u.GetPath(), false)...))
	}
	for _, d := range n.GetDelete() {
		x.entries = append(x.entries, append(clonePath(x.prefix), protoIndex(d, false)...))
	}
	s.mu.Lock()
	s.got = append(s.got, x)
	s.mu.Unlock()
	return nil
}

func (s *capStream) Recv() (*pb.SubscribeRequest, error) {
	s.mu.Lock()
	first := !s.recvd
	s.recvd = true
	s.mu.Unlock()
	if first {
		return s.req, nil
	}
	<-s.ctx.Done()
	return nil, s.ctx.Err()
}

// take returns (and forgets) what was sent since the last call.
func (s *capStream) take() []seen {
	s.mu.Lock()
	defer s.mu.Unlock()
	out := s.got
	s.got = nil
	return out
}

type cacheStats struct {
	ran, skipped                                  bool
	accepted, rejected, rejectedAtomicDeletes     bool
	atomicLeafReplaced, walkAtomic                bool
	onceAtomicAbove, onceAtomicTrailingGlob       bool
	onceAtomicBelowOther, onceNothing, onceLeaves bool
	offeredSome                                   bool
}

func (s cacheStats) labels() []string {
	var l []string
	add := func(b bool, n string) {
		if b {
			l = append(l, n)
		}
	}
	add(s.ran, "cache-layer-ran")
	add(s.skipped, "cache-layer-skipped-target-delete-shape")
	add(s.accepted, "cache-accepted-a-notification")
	add(s.rejected, "cache-rejected-a-notification")
	add(s.rejectedAtomicDeletes, "cache-rejected-atomic-with-deletes")
	add(s.atomicLeafReplaced, "cache-atomic-leaf-updated-again")
	add(s.offeredSome, "cache-notification-streamed-to-a-subscriber")
	add(s.walkAtomic, "initial-walk-returned-an-atomic-leaf")
	add(s.onceAtomicAbove, "once-returned-atomic-leaf-to-path-at-or-above-prefix")
	add(s.onceAtomicTrailingGlob, "once-returned-atomic-leaf-to-prefix-plus-one-glob")
	add(s.onceAtomicBelowOther, "once-returned-atomic-leaf-to-other-path-below-prefix")
	add(s.onceLeaves, "once-returned-leaves")
	add(s.onceNothing, "once-returned-nothing")
	return l
}

// hasTargetDeleteShape: some entry of the scenario, once indexed below its
// target, is the sole string "*" without an origin. A delete notification for
// such a leaf is the target-delete notification, which closes single-target
// streams; the scenario language leaves it out (as the server part does).
func hasTargetDeleteShape(sc *SrvScenario) bool {
	for _, op := range sc.Ops {
		if op.Kind != "notify" || op.Notif == nil || op.NPrefix == nil || op.NPrefix.Origin != "" {
			continue
		}
		for _, e := range op.Notif.entryPaths(refIndex(op.NPrefix, false)) {
			if len(e) == 1 && e[0] == Glob {
				return true
			}
		}
		if op.Notif.Atomic && len(op.NPrefix.Elems) == 1 && len(refIndex(op.NPrefix, false)) == 1 && op.NPrefix.Elems[0].Name == Glob {
			return true // the atomic leaf itself sits at "*"
		}
	}
	return false
}

// runCache executes sc on a real cache feeding a real server, in its own bubble.
func runCache(t *testing.T, sc *SrvScenario, open map[string]bool) (st cacheStats, err error) {
	if hasTargetDeleteShape(sc) {
		st.skipped = true
		return st, nil
	}
	synctest.Test(t, func(*testing.T) {
		st, err = runCacheInBubble(sc, open)
	})
	return st, err
}

type cacheSub struct {
	stream  *capStream
	queries [][]string
	statKey string
	coal    int64
}

func runCacheInBubble(sc *SrvScenario, known map[string]bool) (st cacheStats, err error) {
	st.ran = true
	c := cache.New(srvTargets)
	srv, nerr := subscribe.NewServer(c, subscribe.WithStats())
	if nerr != nil {
		return st, fmt.Errorf("NewServer: %v", nerr)
	}
	c.SetClient(srv.Update)
	live := map[int]*cacheSub{}
	defer func() {
		r := recover()
		for _, ls := range live {
			ls.stream.cancel()
		}
		synctest.Wait()
		if r != nil {
			err = fmt.Errorf("panic: %v", r)
		}
	}()

	open := func(client int, l *SubList, mode pb.SubscriptionList_Mode, updatesOnly bool) *cacheSub {
		addr := &net.TCPAddr{IP: net.IPv4(127, 0, 0, 1), Port: 1000 + client}
		ctx, cancel := context.WithCancel(peer.NewContext(context.Background(), &peer.Peer{Addr: addr}))
		cs := &capStream{ctx: ctx, cancel: cancel, done: make(chan error, 1),
			req: l.request(mode, updatesOnly)}
		go func() { cs.done <- srv.Subscribe(cs) }()
		synctest.Wait()
		return &cacheSub{stream: cs, queries: refQueries(l), statKey: fmt.Sprintf("%s:%p", addr, cs.req)}
	}
	end := func(i, client int) error {
		ls := live[client]
		ls.stream.cancel()
		synctest.Wait()
		delete(live, client)
		select {
		case <-ls.stream.done:
		default:
			return fmt.Errorf("cache layer, op %d: Subscribe of client %d did not return after its context was cancelled", i, client)
		}
		return nil
	}
	// O1 for everything a stream received since the last look.
	onlyIf := func(i int, who string, queries [][]string, got []seen) error {
		for _, x := range got {
			if len(x.entries) == 0 {
				continue
			}
			if !anyCompatible(queries, x.entries) {
				return fmt.Errorf("cache layer, op %d: %s (subscription paths %q) was sent the notification (atomic=%v) with entry paths %q: none of them agrees with any of the subscriber's paths", i, who, queries, x.atomic, x.entries)
			}
		}
		return nil
	}
	atomicAt := map[string]bool{} // where the harness knows an atomic leaf was accepted (labels only)
	var lists []*SubList

	for i, op := range sc.Ops {
		switch op.Kind {
		case "sub":
			if op.List == nil || op.List.Prefix == nil || op.List.Prefix.Target == "" {
				return st, fmt.Errorf("op %d: sub needs a prefix with a target", i)
			}
			if live[op.Client] != nil {
				if err := end(i, op.Client); err != nil {
					return st, err
				}
			}
			ls := open(op.Client, op.List, pb.SubscriptionList_STREAM, op.UpdatesOnly)
			select {
			case e := <-ls.stream.done:
				ls.stream.cancel()
				return st, fmt.Errorf("cache layer, op %d: Subscribe of client %d returned at once: %v", i, op.Client, e)
			default:
			}
			live[op.Client] = ls
			lists = append(lists, op.List)
			walk := ls.stream.take()
			for _, x := range walk {
				if x.atomic {
					st.walkAtomic = true
				}
			}
			if err := onlyIf(i, fmt.Sprintf("the initial walk of client %d", op.Client), ls.queries, walk); err != nil {
				return st, err
			}
			ls.coal = srv.ClientStats()[ls.statKey].CoalesceCount
		case "end":
			if live[op.Client] == nil {
				break
			}
			if err := end(i, op.Client); err != nil {
				return st, err
			}
		case "notify":
			if op.Notif == nil || op.Notif.entries() == 0 || op.NPrefix == nil {
				return st, fmt.Errorf("op %d: notify needs entries and a prefix", i)
			}
			prefix := refIndex(op.NPrefix, true)
			// One GnmiUpdate call = one notification: an atomic one whole, the others entry by entry.
			var units []*Notif
			if op.Notif.Atomic {
				units = []*Notif{op.Notif}
			} else {
				for j := range op.Notif.Updates {
					units = append(units, &Notif{Updates: op.Notif.Updates[j : j+1]})
				}
				for j := range op.Notif.Deletes {
					units = append(units, &Notif{Deletes: op.Notif.Deletes[j : j+1]})
				}
			}
			for j, u := range units {
				ts := int64(i+1)*1000000 + int64(j) // strictly increasing over the scenario (a notification may have more than 1000 entries)
				gerr := c.GnmiUpdate(u.proto(ts, op.NPrefix.proto()))
				synctest.Wait()
				entries := u.entryPaths(prefix)
				accepted := gerr == nil && len(u.Updates) > 0
				switch {
				case accepted:
					st.accepted = true
					if u.Atomic {
						k := key(prefix)
						if atomicAt[k] {
							st.atomicLeafReplaced = true
						}
						atomicAt[k] = true
					}
				case gerr != nil:
					st.rejected = true
					if u.Atomic && len(u.Deletes) > 0 {
						st.rejectedAtomicDeletes = true
					}
				}
				stats := srv.ClientStats()
				var ids []int
				for cl := range live {
					ids = append(ids, cl)
				}
				sort.Ints(ids)
				for _, cl := range ids {
					ls := live[cl]
					select {
					case e := <-ls.stream.done:
						ls.stream.done <- e
						return st, fmt.Errorf("cache layer, op %d: the RPC of client %d ended by itself: %v", i, cl, e)
					default:
					}
					got := ls.stream.take()
					if err := onlyIf(i, fmt.Sprintf("client %d", cl), ls.queries, got); err != nil {
						return st, err
					}
					coal := stats[ls.statKey].CoalesceCount
					grown := int(coal - ls.coal)
					ls.coal = coal
					if !accepted {
						continue
					}
					sent := 0
					for _, x := range got {
						if x.ts == ts {
							sent++
						}
					}
					offered := sent + grown
					compat := 0
					for _, q := range ls.queries {
						if compatibleAny(q, entries) {
							compat++
						}
					}
					describe := func() string {
						return fmt.Sprintf("client %d (subscription paths %q) for the notification (atomic=%v) with entry paths %q, accepted by the cache", cl, ls.queries, u.Atomic, entries)
					}
					switch {
					case compat == 0 && offered != 0:
						return st, fmt.Errorf("cache layer, op %d: offered %d time(s) although no subscription path is compatible: %s", i, offered, describe())
					case compat > 0 && offered == 0:
						return st, fmt.Errorf("cache layer, op %d: not offered although a subscription path is compatible: %s", i, describe())
					case offered > 1:
						if known[ClassSingleEntryDouble] && len(entries) == 1 && compat >= 2 {
							break
						}
						return st, fmt.Errorf("cache layer, op %d: one notification offered %d times (responses + coalesced duplicates) to %s", i, offered, describe())
					}
					if offered == 1 {
						st.offeredSome = true
					}
				}
			}
		default:
			return st, fmt.Errorf("op %d: unknown kind %q", i, op.Kind)
		}
	}

	// ONCE queries for the lists of the scenario against the final content.
	seenList := map[string]bool{}
	asked := 0
	for li := len(lists) - 1; li >= 0 && asked < 6; li-- {
		l := lists[li]
		b, _ := json.Marshal(l)
		if seenList[string(b)] {
			continue
		}
		seenList[string(b)] = true
		asked++
		ls := open(100+li, l, pb.SubscriptionList_ONCE, false)
		select {
		case e := <-ls.stream.done:
			ls.stream.cancel()
			if e != nil {
				return st, fmt.Errorf("cache layer: the ONCE query for list %s failed: %v", b, e)
			}
		default:
			ls.stream.cancel()
			synctest.Wait()
			return st, fmt.Errorf("cache layer: the ONCE query for list %s did not return", b)
		}
		got := ls.stream.take()
		if len(got) == 0 {
			st.onceNothing = true
		} else {
			st.onceLeaves = true
		}
		for _, x := range got {
			if !x.atomic {
				continue
			}
			for _, q := range ls.queries {
				switch {
				case !compatibleAny(q, x.entries) || !Compatible(q, x.prefix):
				case len(q) <= len(x.prefix):
					st.onceAtomicAbove = true
				case len(q) == len(x.prefix)+1 && q[len(q)-1] == Glob:
					st.onceAtomicTrailingGlob = true
				}
			}
			below := true
			for _, q := range ls.queries {
				if Compatible(q, x.prefix) && (len(q) <= len(x.prefix) || len(q) == len(x.prefix)+1 && q[len(q)-1] == Glob) {
					below = false
				}
			}
			if below {
				st.onceAtomicBelowOther = true // not expected of the unchanged tree; a label, not a verdict
			}
		}
		if err := onlyIf(len(sc.Ops), fmt.Sprintf("the ONCE query for list %s", b), ls.queries, got); err != nil {
			return st, err
		}
	}
	return st, nil
}

func anyCompatible(queries, entries [][]string) bool {
	for _, q := range queries {
		if compatibleAny(q, entries) {
			return true
		}
	}
	return false
}

// AtomResult is what the three layers said about one scenario.
type atomResult struct {
	seq   seqStats
	srv   srvStats
	cache cacheStats
}

func (r atomResult) labels() []string {
	set := map[string]bool{}
	for _, l := range r.srv.atoms.labels() {
		set[l] = true
	}
	for _, l := range r.cache.labels() {
		set[l] = true
	}
	for _, l := range r.srv.labels() {
		switch l {
		case "subscription-target-star", "subscription-path-origin", "subscription-prefix-origin", "keyed-element", "legacy-element-encoding",
			"updates-only", "client-resubscribed", "client-with-2plus-compatible-registrations", "empty-index-string":
			set[l] = true
		}
	}
	for _, l := range r.srv.dress.labels() {
		set["atomic-part-"+l] = true
	}
	var out []string
	for l := range set {
		out = append(out, l)
	}
	sort.Strings(out)
	return out
}

// runAtomic judges one scenario at the three layers; the first layer that
// objects decides the message.
func runAtomic(t *testing.T, sc *SrvScenario, open map[string]bool) (res atomResult, err error) {
	if res.seq, err = runSeq(toMatchLevel(sc), open); err != nil {
		return res, fmt.Errorf("match layer (registrations as the server makes them + UpdateNotification): %v", err)
	}
	if res.srv, err = runServer(t, sc, open); err != nil {
		return res, fmt.Errorf("server layer (Server.Subscribe + Server.Update): %v", err)
	}
	if res.cache, err = runCache(t, sc, open); err != nil {
		return res, err
	}
	return res, nil
}
