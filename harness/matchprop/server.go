package matchprop

import (
	"context"
	"fmt"
	"net"
	"reflect"
	"sort"
	"strconv"
	"sync"
	"sync/atomic"
	"testing"
	"testing/synctest"
	"time"

	"github.com/openconfig/gnmi/cache"
	"github.com/openconfig/gnmi/ctree"
	pb "github.com/openconfig/gnmi/proto/gnmi"
	"github.com/openconfig/gnmi/subscribe"
	"google.golang.org/grpc"
	"google.golang.org/grpc/peer"
)

// The server part drives the REAL registration code (the unexported
// subscribe.addSubscription and matchClient) through exported API only:
// subscribe.NewServer, Server.Subscribe on an in-memory stream (STREAM mode)
// and Server.Update with a ctree leaf holding the notification, inside a
// synctest bubble so that "everything that will be sent has been sent" is
// synctest.Wait(), not a sleep.
//
// Observation of "offered": matchClient.Update inserts the leaf into the
// RPC's coalescing queue; an insert of a leaf already queued is not lost, it
// is counted. So the number of times a notification was offered to a live
// subscriber is (#responses carrying it that reached the stream) +
// (growth of Server.ClientStats()[key].CoalesceCount), both exported. That
// sum does not depend on how the sender goroutine interleaves with the
// inserts.
//
// One thing is NOT observable through exported API: a registration that
// survives the end of its RPC keeps being invoked, but its queue is closed and
// the insert fails silently. For "never after the subscription has been
// removed" the harness therefore reads (read-only, by reflection, at
// quiescence) the state the property names, the subscription trie
// Server.m.tree, and compares the number of clients registered at each path
// with the model. A renamed field makes the census fail loudly, not pass.

//
// Two further demands follow from "at most once" and need no model: at a
// quiescent point before which no notification was handed to the server
// (after a Subscribe, an RPC end, a virtual sleep) nothing may have reached any
// subscriber, and while one notification is handed over no EARLIER one may
// reach a subscriber again (checkQuiet and the accounting of a notify op).

// SrvOp is one step of a server-level scenario.
//
//	sub     client Client opens a STREAM Subscribe RPC with List (a client that
//	        is still subscribed is ended first)
//	end     client Client's RPC is cancelled
//	notify  Server.Update(leaf) for a notification with prefix NPrefix
//
// Sleep: after the op (and its verdicts) the harness sleeps that long in
// VIRTUAL time (synctest bubble) and then demands that nothing reached any
// subscriber: no notification may be offered again because time passes
// (sample intervals and heartbeats of a request are not implemented).
type SrvOp struct {
	Kind        string   `json:"kind"`
	Client      int      `json:"client,omitempty"`
	List        *SubList `json:"list,omitempty"`
	UpdatesOnly bool     `json:"updates_only,omitempty"`
	Notif       *Notif   `json:"notif,omitempty"`
	NPrefix     *GPath   `json:"nprefix,omitempty"`
	Sleep       int64    `json:"sleep_ns,omitempty"`
}

// SrvScenario is a sequence of operations on one fresh subscribe.Server whose
// cache knows the targets "a" and "b".
//
// SameValue: every update of every notification carries the same value (0)
// instead of its own timestamp, so that repeated notifications for one path
// are "redundant" in the sense of suppress_redundant. Values are irrelevant to
// the property; which leaf object is offered is what is observed.
type SrvScenario struct {
	Ops       []SrvOp `json:"ops"`
	SameValue bool    `json:"same_value,omitempty"`
}

// srvTargets are the targets the cache of the server part knows: a, b and
// every x+joiner+y over {a,b} (so that a target can be a twin of target +
// origin / first element).
var srvTargets = func() []string {
	out := []string{"a", "b"}
	for _, j := range Joiners {
		for _, x := range []string{"a", "b"} {
			for _, y := range []string{"a", "b"} {
				out = append(out, x+j+y)
			}
		}
	}
	return out
}()

var srvTargetSet = func() map[string]bool {
	m := map[string]bool{}
	for _, s := range srvTargets {
		m[s] = true
	}
	return m
}()

type fakeStream struct {
	grpc.ServerStream // nil: only Context/Send/Recv are used by the server
	ctx               context.Context
	cancel            context.CancelFunc
	req               *pb.SubscribeRequest
	done              chan error

	mu    sync.Mutex
	recvd bool
	sent  map[int64]int // notification timestamp -> responses
	syncs int
}

func (s *fakeStream) Context() context.Context { return s.ctx }

func (s *fakeStream) Send(r *pb.SubscribeResponse) error {
	s.mu.Lock()
	defer s.mu.Unlock()
	if u := r.GetUpdate(); u != nil {
		s.sent[u.GetTimestamp()]++
	} else if r.GetSyncResponse() {
		s.syncs++
	}
	return nil
}

func (s *fakeStream) Recv() (*pb.SubscribeRequest, error) {
	s.mu.Lock()
	first := !s.recvd
	s.recvd = true
	s.mu.Unlock()
	if first {
		return s.req, nil
	}
	<-s.ctx.Done()
	return nil, s.ctx.Err()
}

// snapshot copies the per-notification response counts.
func (s *fakeStream) snapshot() map[int64]int {
	s.mu.Lock()
	defer s.mu.Unlock()
	out := make(map[int64]int, len(s.sent))
	for k, v := range s.sent {
		out[k] = v
	}
	return out
}

func (s *fakeStream) sentFor(ts int64) int {
	s.mu.Lock()
	defer s.mu.Unlock()
	return s.sent[ts]
}

// census reads the number of clients registered at every path of the
// server's subscription trie. Read-only reflection on unexported fields:
// Server.m (*match.Match) .tree (*branch) {clients map, children map}.
// censusUnavailable holds the reason if the white-box read stopped working.
var censusUnavailable atomic.Value

func census(srv *subscribe.Server) (out map[string]int, err error) {
	defer func() {
		if r := recover(); r != nil {
			err = fmt.Errorf("census: the subscription trie no longer has the shape the harness reads (Server.m.tree{clients,children}): %v", r)
		}
	}()
	out = map[string]int{}
	tree := reflect.ValueOf(srv).Elem().FieldByName("m").Elem().FieldByName("tree")
	var walk func(b reflect.Value, prefix []string)
	walk = func(b reflect.Value, prefix []string) {
		if b.IsNil() {
			return
		}
		b = b.Elem()
		if n := b.FieldByName("clients").Len(); n > 0 {
			out[key(prefix)] = n
		}
		it := b.FieldByName("children").MapRange()
		for it.Next() {
			walk(it.Value(), append(clonePath(prefix), it.Key().String()))
		}
	}
	walk(tree, nil)
	return out, nil
}

type srvStats struct {
	nontrivial                                        bool
	mixed, multiCompat, singleEntry, multiEntry       bool
	endedMulti, endedSingle, resub, starTarget        bool
	pathOrigin, prefOrigin, keys, legacy, updatesOnly bool
	offeredSome, offeredNone, sharedPathSurvivor      bool
	excludedDouble, excludedStale                     int
	// the classes added with the odd strings / derived paths / sizes
	oddString, emptyString, twins, twinsInList, oddHit bool
	bigList, repeatInList, bigNotif, longPath, crowd   bool
	hugeNotif                                          bool
	oddTarget, twinNotOffered                          bool
	// container shapes (atomic.go)
	atoms atomStats
	// request fields the server does not implement (dress.go)
	dress dressStats
	// what the dressed-vs-plain comparison looks at (not part of the evidence)
	trace []string
}

func (s srvStats) labels() []string {
	var l []string
	add := func(b bool, n string) {
		if b {
			l = append(l, n)
		}
	}
	add(s.nontrivial, "nontrivial")
	add(s.mixed, "call-with-compatible-and-incompatible-registrations")
	add(s.multiCompat, "client-with-2plus-compatible-registrations")
	add(s.singleEntry, "notify-single-entry")
	add(s.multiEntry, "notify-multi-entry")
	add(s.endedMulti, "ended-rpc-with-2plus-paths")
	add(s.endedSingle, "ended-rpc-with-1-path")
	add(s.resub, "client-resubscribed")
	add(s.starTarget, "subscription-target-star")
	add(s.pathOrigin, "subscription-path-origin")
	add(s.prefOrigin, "subscription-prefix-origin")
	add(s.keys, "keyed-element")
	add(s.legacy, "legacy-element-encoding")
	add(s.updatesOnly, "updates-only")
	add(s.offeredSome, "notification-offered-to-a-subscriber")
	add(s.offeredNone, "notification-offered-to-nobody")
	add(s.sharedPathSurvivor, "other-client-at-same-path-still-offered")
	add(s.excludedDouble+s.excludedStale > 0, "known-class-excluded")
	add(s.oddString, "index-string-with-joiner-or-odd")
	add(s.emptyString, "empty-index-string")
	add(s.twins, "twin-paths-registered")
	add(s.twinsInList, "twin-paths-in-one-list")
	add(s.oddHit, "odd-subscription-path-compatible-with-a-notification")
	add(s.twinNotOffered, "notification-compatible-with-one-twin-only")
	add(s.bigList, "list-with-20plus-paths")
	add(s.repeatInList, "list-repeats-a-path")
	add(s.bigNotif, "notification-with-5plus-entries")
	add(s.hugeNotif, "notification-with-65plus-entries")
	add(s.longPath, "path-with-6plus-elements")
	add(s.crowd, "path-registered-by-3plus-clients")
	add(s.oddTarget, "target-with-joiner")
	l = append(l, s.dress.labels()...)
	return append(l, s.atoms.labels()...)
}

func (s srvStats) excluded() map[string]int {
	out := map[string]int{}
	if s.excludedDouble > 0 {
		out[ClassSingleEntryDouble] = s.excludedDouble
	}
	if s.excludedStale > 0 {
		out[ClassStaleAfterEnd] = s.excludedStale
	}
	return out
}

// isTargetDeleteShape: the one notification the server treats specially (it
// closes single-target streams after sending it); generators avoid it.
func isTargetDeleteShape(n *Notif, prefix *GPath) bool {
	if len(n.Deletes) != 1 || (prefix != nil && prefix.Origin != "") {
		return false
	}
	p := append(refIndex(prefix, false), refIndex(&n.Deletes[0], false)...)
	return len(p) == 1 && p[0] == Glob
}

// runServer executes sc inside its own synctest bubble. A scenario whose
// requests carry values in fields the server does not implement is then
// executed once more, on a fresh server in a second bubble, with those fields
// left out: step by step both runs must have been observed alike (offers per
// notification and subscriber, live RPCs, the subscription trie). Real code on
// both sides; no model is involved in that comparison.
func runServer(t *testing.T, sc *SrvScenario, open map[string]bool) (st srvStats, err error) {
	synctest.Test(t, func(*testing.T) {
		st, err = runServerInBubble(sc, open)
	})
	if err != nil || !srvDressed(sc) {
		return st, err
	}
	var pst srvStats
	var perr error
	plain := plainSrv(sc)
	synctest.Test(t, func(*testing.T) {
		pst, perr = runServerInBubble(plain, open)
	})
	st.dress.twin = true
	if perr != nil {
		return st, fmt.Errorf("the scenario passes with the unimplemented request fields set and fails with them left out: %v", perr)
	}
	return st, compareTraces(st.trace, pst.trace)
}

type liveSub struct {
	stream  *fakeStream
	queries [][]string
	statKey string
	coal    int64
	// response counts per notification at the last accounting
	seen map[int64]int
	// dressings of the subscriptions naming each registration path
	byPath  map[string][]SubDress
	dressed bool
}

func runServerInBubble(sc *SrvScenario, open map[string]bool) (st srvStats, err error) {
	srv, nerr := subscribe.NewServer(cache.New(srvTargets), subscribe.WithStats())
	if nerr != nil {
		return st, fmt.Errorf("NewServer: %v", nerr)
	}
	live := map[int]*liveSub{}
	// paths of ended RPCs that had >=2 distinct paths (the stale class), path key -> how many such RPCs
	staleAllowance := map[string]int{}
	staleTolerated := map[string]bool{} // distinct paths at which the open class was tolerated
	defer func() { st.excludedStale = len(staleTolerated) }()
	removedAt := map[string]bool{}
	leaves := &ctree.Tree{}
	var rc regCensus
	defer func() {
		odd, empty, twin, long, crowd := rc.flags()
		st.oddString, st.emptyString, st.twins, st.crowd = st.oddString || odd, st.emptyString || empty, twin, crowd
		st.longPath = st.longPath || long
	}()

	defer func() {
		// No goroutine may outlive the bubble, whatever happened.
		r := recover()
		for _, ls := range live {
			ls.stream.cancel()
		}
		synctest.Wait()
		if r != nil {
			err = fmt.Errorf("panic: %v", r)
		}
	}()

	lastCensus := ""
	checkCensus := func(i int, what string) error {
		got, cerr := census(srv)
		if cerr != nil {
			// The trie is internal: if it was refactored the census clause cannot
			// be evaluated. That is not a violation; the other oracles carry on.
			censusUnavailable.Store(cerr.Error())
			lastCensus = " (unavailable)"
			return nil
		}
		lastCensus = censusString(got)
		want := map[string]int{}
		for _, ls := range live {
			for _, q := range ls.queries {
				want[key(q)]++
			}
		}
		keys := map[string]bool{}
		for k := range got {
			keys[k] = true
		}
		for k := range want {
			keys[k] = true
		}
		var sorted []string
		for k := range keys {
			sorted = append(sorted, k)
		}
		sort.Strings(sorted)
		for _, k := range sorted {
			g, w := got[k], want[k]
			switch {
			case g < w:
				return fmt.Errorf("op %d %s: %d subscriber(s) registered at %q, %d live subscription(s) name that path", i, what, g, unkey(k), w)
			case g > w:
				if open[ClassStaleAfterEnd] && g-w <= staleAllowance[k] {
					staleTolerated[k] = true
					continue
				}
				return fmt.Errorf("op %d %s: %d subscriber(s) registered at %q (each is invoked for every compatible update) but only %d live subscription(s) name that path: a registration survives the end of its subscription, or was made at a path the subscription does not name", i, what, g, unkey(k), w)
			}
		}
		return nil
	}

	end := func(i, c int) error {
		ls := live[c]
		ls.stream.cancel()
		synctest.Wait()
		select {
		case <-ls.stream.done:
		default:
			return fmt.Errorf("op %d: Subscribe of client %d did not return after its context was cancelled", i, c)
		}
		delete(live, c)
		if len(ls.queries) >= 2 {
			st.endedMulti = true
			for _, q := range ls.queries {
				staleAllowance[key(q)]++
			}
		} else if len(ls.queries) == 1 {
			st.endedSingle = true
		}
		for _, q := range ls.queries {
			removedAt[key(q)] = true
		}
		return nil
	}

	// checkQuiet: at a quiescent point at which no notification was handed to the
	// server since the last accounting, nothing may have reached any subscriber:
	// a response carrying a notification, or a coalesced duplicate, would be a
	// further offer of a notification that was judged already.
	checkQuiet := func(i int, when string) error {
		stats := srv.ClientStats()
		var ids []int
		for c := range live {
			ids = append(ids, c)
		}
		sort.Ints(ids)
		for _, c := range ids {
			ls := live[c]
			now := ls.stream.snapshot()
			var tss []int64
			for ts := range now {
				tss = append(tss, ts)
			}
			sort.Slice(tss, func(a, b int) bool { return tss[a] < tss[b] })
			for _, ts := range tss {
				if now[ts] != ls.seen[ts] {
					return fmt.Errorf("op %d, %s: client %d (subscription paths %q) was sent the notification of op %d %d more time(s) although no notification was handed to the server meanwhile", i, when, c, ls.queries, ts-1, now[ts]-ls.seen[ts])
				}
			}
			if coal := stats[ls.statKey].CoalesceCount; coal != ls.coal {
				return fmt.Errorf("op %d, %s: %d more coalesced duplicate(s) for client %d (subscription paths %q) although no notification was handed to the server meanwhile", i, when, coal-ls.coal, c, ls.queries)
			}
		}
		return nil
	}
	liveLine := func() string {
		var ids []int
		for c := range live {
			ids = append(ids, c)
		}
		sort.Ints(ids)
		return fmt.Sprintf("live clients %v", ids)
	}
	st.dress.sameValue = sc.SameValue

	for i, op := range sc.Ops {
		var line []string
		switch op.Kind {
		case "sub":
			if op.List == nil || op.List.Prefix == nil || op.List.Prefix.Target == "" {
				return st, fmt.Errorf("op %d: sub needs a prefix with a target", i)
			}
			if live[op.Client] != nil {
				st.resub = true
				if err := end(i, op.Client); err != nil {
					return st, err
				}
			}
			l := op.List
			if l.Prefix.Target == "*" {
				st.starTarget = true
			}
			if l.Prefix.Origin != "" {
				st.prefOrigin = true
			}
			if op.UpdatesOnly {
				st.updatesOnly = true
			}
			for _, g := range append([]*GPath{l.Prefix}, l.Subs...) {
				if g == nil {
					continue
				}
				if g != l.Prefix && g.Origin != "" {
					st.pathOrigin = true
				}
				if g.Legacy && len(g.Elems) > 0 {
					st.legacy = true
				}
				for _, e := range g.Elems {
					if len(e.Keys) > 0 && !g.Legacy {
						st.keys = true
					}
				}
			}
			addr := &net.TCPAddr{IP: net.IPv4(127, 0, 0, 1), Port: 1000 + op.Client}
			ctx, cancel := context.WithCancel(peer.NewContext(context.Background(), &peer.Peer{Addr: addr}))
			fs := &fakeStream{ctx: ctx, cancel: cancel, done: make(chan error, 1), sent: map[int64]int{},
				req: l.request(pb.SubscriptionList_STREAM, op.UpdatesOnly)}
			go func() { fs.done <- srv.Subscribe(fs) }()
			synctest.Wait()
			select {
			case e := <-fs.done:
				cancel()
				return st, fmt.Errorf("op %d: Subscribe of client %d returned at once: %v", i, op.Client, e)
			default:
			}
			live[op.Client] = &liveSub{stream: fs, queries: refQueries(l), statKey: fmt.Sprintf("%s:%p", addr, fs.req),
				seen: map[int64]int{}, byPath: subDresses(l), dressed: l.dressed()}
			st.dress.seeList(l)
			for _, q := range live[op.Client].queries {
				rc.add(op.Client, q)
			}
			if big, rep, tw := listFlags(l); big || rep || tw {
				st.bigList, st.repeatInList, st.twinsInList = st.bigList || big, st.repeatInList || rep, st.twinsInList || tw
			}
			if l.Prefix.Target != "a" && l.Prefix.Target != "b" && l.Prefix.Target != Glob {
				st.oddTarget = true
			}
			if err := checkQuiet(i, "after the Subscribe of client "+strconv.Itoa(op.Client)); err != nil {
				return st, err
			}
			line = append(line, liveLine())
		case "end":
			if live[op.Client] != nil {
				if err := end(i, op.Client); err != nil {
					return st, err
				}
			}
			if err := checkQuiet(i, "after the end of the RPC of client "+strconv.Itoa(op.Client)); err != nil {
				return st, err
			}
			line = append(line, liveLine())
		case "notify":
			if op.Notif == nil || op.Notif.entries() == 0 || op.NPrefix == nil {
				return st, fmt.Errorf("op %d: notify needs entries and a prefix", i)
			}
			if isTargetDeleteShape(op.Notif, op.NPrefix) {
				return st, fmt.Errorf("op %d: target-delete notification is outside this scenario language", i)
			}
			if op.Notif.entries() == 1 {
				st.singleEntry = true
			} else {
				st.multiEntry = true
			}
			ts := int64(i + 1)
			n := op.Notif.proto(ts, op.NPrefix.proto())
			if sc.SameValue {
				for _, u := range n.Update {
					u.Val = &pb.TypedValue{Value: &pb.TypedValue_IntVal{IntVal: 0}}
				}
			}
			at := []string{"n", strconv.Itoa(i)}
			if aerr := leaves.Add(at, n); aerr != nil {
				return st, fmt.Errorf("op %d: harness leaf: %v", i, aerr)
			}
			srv.Update(leaves.GetLeaf(at))
			synctest.Wait()
			entries := op.Notif.entryPaths(refIndex(op.NPrefix, true))
			if len(entries) >= 5 {
				st.bigNotif = true
			}
			if len(entries) >= bigEntries {
				st.hugeNotif = true
			}
			for _, p := range entries {
				if anyOdd(p) {
					st.oddString = true
				}
				if len(p) >= 6 {
					st.longPath = true
				}
			}
			stats := srv.ClientStats()
			var ids []int
			for c := range live {
				ids = append(ids, c)
			}
			sort.Ints(ids)
			anyCompat, anyIncompat, anyMulti := false, false, false
			offeredDressed, offeredPlain := false, false
			var allQueries [][]string
			for _, c := range ids {
				allQueries = append(allQueries, live[c].queries...)
			}
			st.atoms.see(op.Notif, refIndex(op.NPrefix, true), entries, allQueries, true)
			for _, c := range ids {
				ls := live[c]
				select {
				case e := <-ls.stream.done:
					ls.stream.done <- e
					return st, fmt.Errorf("op %d: the RPC of client %d ended by itself: %v", i, c, e)
				default:
				}
				compat := 0
				var hit, miss [][]string
				for _, q := range ls.queries {
					if compatibleAny(q, entries) {
						compat++
						hit = append(hit, q)
						if removedAt[key(q)] {
							st.sharedPathSurvivor = true
						}
						if anyOdd(q[1:]) {
							st.oddHit = true
						}
					} else {
						anyIncompat = true
						miss = append(miss, q)
					}
				}
				if len(hit) > 0 && len(miss) > 0 && len(ls.queries) <= 12 {
					for _, h := range hit {
						for _, m := range miss {
							if twins([][]string{h, m}) {
								st.twinNotOffered = true
							}
						}
					}
				}
				coal := stats[ls.statKey].CoalesceCount
				offered := ls.stream.sentFor(ts) + int(coal-ls.coal)
				ls.coal = coal
				describe := func() string {
					return fmt.Sprintf("client %d (subscription paths %q) for the notification with entry paths %q", c, ls.queries, entries)
				}
				line = append(line, fmt.Sprintf("client %d offered %d time(s)", c, offered))
				// Everything that reached the stream since the last accounting must carry THIS notification.
				now := ls.stream.snapshot()
				var olds []int64
				for ots := range now {
					if ots != ts && now[ots] != ls.seen[ots] {
						olds = append(olds, ots)
					}
				}
				if len(olds) > 0 {
					sort.Slice(olds, func(a, b int) bool { return olds[a] < olds[b] })
					return st, fmt.Errorf("op %d: while this notification was handed to the server, client %d (subscription paths %q) was sent the earlier notification of op %d %d more time(s)", i, c, ls.queries, olds[0]-1, now[olds[0]]-ls.seen[olds[0]])
				}
				ls.seen = now
				if len(hit) > 0 && ls.dressed {
					st.dress.seeHit(ls.byPath, hit)
				}
				switch {
				case compat == 0 && offered != 0:
					return st, fmt.Errorf("op %d: offered %d time(s) although no subscription path is compatible: %s", i, offered, describe())
				case compat > 0 && offered == 0:
					return st, fmt.Errorf("op %d: not offered although a subscription path is compatible: %s", i, describe())
				case offered > 1:
					if open[ClassSingleEntryDouble] && len(entries) == 1 && compat >= 2 {
						st.excludedDouble++
					} else {
						return st, fmt.Errorf("op %d: one notification (%d entries) offered %d times (responses + coalesced duplicates) to %s", i, len(entries), offered, describe())
					}
				}
				if compat > 0 {
					anyCompat = true
					st.offeredSome = true
					offeredDressed = offeredDressed || ls.dressed
					offeredPlain = offeredPlain || !ls.dressed
				}
				if compat >= 2 {
					anyMulti = true
				}
			}
			if !anyCompat {
				st.offeredNone = true
			}
			if offeredDressed && offeredPlain {
				st.dress.hitDressedAndPlain = true
			}
			if anyCompat && anyIncompat {
				st.mixed = true
			}
			if anyMulti {
				st.multiCompat = true
			}
			if anyCompat && anyIncompat && anyMulti {
				st.nontrivial = true
			}
		default:
			return st, fmt.Errorf("op %d: unknown kind %q", i, op.Kind)
		}
		if err := checkCensus(i, op.Kind); err != nil {
			return st, err
		}
		st.trace = append(st.trace, traceLine(i, op.Kind, append(line, "registered:"+lastCensus)))
		if op.Sleep > 0 {
			time.Sleep(time.Duration(op.Sleep))
			synctest.Wait()
			st.dress.slept = true
			if time.Duration(op.Sleep) >= time.Minute {
				st.dress.sleptLong = true
			}
			if err := checkQuiet(i, fmt.Sprintf("after %v of virtual time without any notification", time.Duration(op.Sleep))); err != nil {
				return st, err
			}
		}
	}
	// every subscriber leaves: nothing may stay registered
	var ids []int
	for c := range live {
		ids = append(ids, c)
	}
	sort.Ints(ids)
	for _, c := range ids {
		if err := end(len(sc.Ops), c); err != nil {
			return st, err
		}
	}
	return st, checkCensus(len(sc.Ops), "after every subscriber left")
}
